package chainntnfs_test

// Standalone reproduction of the C14 finding KF-C14-1 "found details of a
// historical rescan that arrive while the request has no client left are
// cached but never tracked for reorgs" (no dependency on the /verif harness
// runtime nor on the package's own test helpers). Overlay it into chainntnfs
// and run:
//
//   cat > /tmp/ov.json <<EOF2
//   {"Replace": {"/repo/chainntnfs/zz_c14_clientless_rescan_repro_test.go":
//                "/verif/findings/C14_clientless_rescan_repro_test.go"}}
//   EOF2
//   cd /repo && go test -overlay /tmp/ov.json \
//       -run 'TestC14ClientlessRescan' -count=1 ./chainntnfs/
//
// On HEAD both tests fail: after the block found by the rescan has been
// reorganised out, a new registration is immediately told Confirmed / Spend
// with the details of the disconnected block, the real (re-)inclusion is
// ignored, and the persisted hint never follows. Root cause: the reorg
// indexes confsByInitialHeight / spendsByHeight are only filled inside
// dispatchConfDetails / dispatchSpendDetails, i.e. once per *client*; with
// zero clients in the set UpdateConfDetails / updateSpendDetails cache
// confSet.details / spendSet.details without any reorg tracking, so
// DisconnectTip never clears them.

import (
	"sync"
	"testing"

	"github.com/btcsuite/btcd/btcutil/v2"
	"github.com/btcsuite/btcd/wire/v2"
	"github.com/lightningnetwork/lnd/chainntnfs"
)

type c14ReproHints struct {
	mu    sync.Mutex
	conf  map[chainntnfs.ConfRequest]uint32
	spend map[chainntnfs.SpendRequest]uint32
}

func newC14ReproHints() *c14ReproHints {
	return &c14ReproHints{
		conf:  make(map[chainntnfs.ConfRequest]uint32),
		spend: make(map[chainntnfs.SpendRequest]uint32),
	}
}

func (c *c14ReproHints) CommitSpendHint(h uint32, rs ...chainntnfs.SpendRequest) error {
	c.mu.Lock()
	defer c.mu.Unlock()
	for _, r := range rs {
		c.spend[r] = h
	}
	return nil
}

func (c *c14ReproHints) QuerySpendHint(r chainntnfs.SpendRequest) (uint32, error) {
	c.mu.Lock()
	defer c.mu.Unlock()
	h, ok := c.spend[r]
	if !ok {
		return 0, chainntnfs.ErrSpendHintNotFound
	}
	return h, nil
}

func (c *c14ReproHints) PurgeSpendHint(rs ...chainntnfs.SpendRequest) error {
	c.mu.Lock()
	defer c.mu.Unlock()
	for _, r := range rs {
		delete(c.spend, r)
	}
	return nil
}

func (c *c14ReproHints) CommitConfirmHint(h uint32, rs ...chainntnfs.ConfRequest) error {
	c.mu.Lock()
	defer c.mu.Unlock()
	for _, r := range rs {
		c.conf[r] = h
	}
	return nil
}

func (c *c14ReproHints) QueryConfirmHint(r chainntnfs.ConfRequest) (uint32, error) {
	c.mu.Lock()
	defer c.mu.Unlock()
	h, ok := c.conf[r]
	if !ok {
		return 0, chainntnfs.ErrConfirmHintNotFound
	}
	return h, nil
}

func (c *c14ReproHints) PurgeConfirmHint(rs ...chainntnfs.ConfRequest) error {
	c.mu.Lock()
	defer c.mu.Unlock()
	for _, r := range rs {
		delete(c.conf, r)
	}
	return nil
}

// P2WSH output script (OP_0 <32 bytes>).
var c14ReproScript = append([]byte{0x00, 0x20}, make([]byte, 32)...)

func TestC14ClientlessRescanConf(t *testing.T) {
	hints := newC14ReproHints()
	n := chainntnfs.NewTxNotifier(100, 6, hints, hints)
	defer n.TearDown()

	tx := wire.NewMsgTx(2)
	tx.AddTxIn(&wire.TxIn{PreviousOutPoint: wire.OutPoint{Index: 1}})
	tx.AddTxOut(&wire.TxOut{Value: 1000, PkScript: c14ReproScript})
	txid := tx.TxHash()

	// Old block 100 contains the transaction.
	old100 := btcutil.NewBlock(&wire.MsgBlock{
		Header:       wire.BlockHeader{Nonce: 100},
		Transactions: []*wire.MsgTx{tx},
	})

	// The only client registers (historical rescan [90,100] requested) and
	// cancels before the backend's rescan completes.
	reg, err := n.RegisterConf(&txid, c14ReproScript, 1, 90)
	if err != nil {
		t.Fatalf("register: %v", err)
	}
	if reg.HistoricalDispatch == nil {
		t.Fatalf("expected a historical dispatch")
	}
	reg.Event.Cancel()

	// The rescan finds the transaction in (old) block 100.
	err = n.UpdateConfDetails(reg.HistoricalDispatch.ConfRequest,
		&chainntnfs.TxConfirmation{
			Tx: tx, BlockHash: old100.Hash(), BlockHeight: 100,
		})
	if err != nil {
		t.Fatalf("UpdateConfDetails: %v", err)
	}

	// Block 100 is reorganised out; the new block 100 is empty.
	if err := n.DisconnectTip(100); err != nil {
		t.Fatalf("disconnect: %v", err)
	}
	new100 := btcutil.NewBlock(&wire.MsgBlock{Header: wire.BlockHeader{Nonce: 1000}})
	if err := n.ConnectTip(new100, 100); err != nil {
		t.Fatalf("connect: %v", err)
	}
	if err := n.NotifyHeight(100); err != nil {
		t.Fatalf("notify: %v", err)
	}

	// A new client registers: the transaction is NOT on the active chain.
	reg2, err := n.RegisterConf(&txid, c14ReproScript, 1, 90)
	if err != nil {
		t.Fatalf("register 2: %v", err)
	}
	if d := reg2.HistoricalDispatch; d != nil {
		// (with a fix that drops the cached details a new rescan is
		// requested; it finds nothing)
		if err := n.UpdateConfDetails(d.ConfRequest, nil); err != nil {
			t.Fatalf("UpdateConfDetails 2: %v", err)
		}
	}
	select {
	case d := <-reg2.Event.Confirmed:
		t.Errorf("client told Confirmed(height=%d, hash=%v) although the "+
			"tx is not on the active chain (active block 100 is %v)",
			d.BlockHeight, d.BlockHash, new100.Hash())
	default:
	}

	// The transaction is mined in block 101 of the active chain.
	blk101 := btcutil.NewBlock(&wire.MsgBlock{
		Header:       wire.BlockHeader{Nonce: 101},
		Transactions: []*wire.MsgTx{tx},
	})
	if err := n.ConnectTip(blk101, 101); err != nil {
		t.Fatalf("connect: %v", err)
	}
	if err := n.NotifyHeight(101); err != nil {
		t.Fatalf("notify: %v", err)
	}
	select {
	case d := <-reg2.Event.Confirmed:
		if d.BlockHeight != 101 || *d.BlockHash != *blk101.Hash() {
			t.Errorf("wrong details: height=%d hash=%v", d.BlockHeight,
				d.BlockHash)
		}
	default:
		t.Errorf("client not told about the confirmation in block 101 " +
			"of the active chain")
	}
	hint, err := hints.QueryConfirmHint(reg.HistoricalDispatch.ConfRequest)
	if err == nil && hint != 101 {
		t.Errorf("persisted confirm hint is %d, the tx confirmed at 101", hint)
	}
}

func TestC14ClientlessRescanSpend(t *testing.T) {
	hints := newC14ReproHints()
	n := chainntnfs.NewTxNotifier(100, 6, hints, hints)
	defer n.TearDown()

	// The watched outpoint is a P2WSH output; the spender reveals the
	// witness script, from which the notifier re-derives the spent script.
	witnessScript := []byte{0x51}
	op := wire.OutPoint{Index: 7}
	spender := wire.NewMsgTx(2)
	spender.AddTxIn(&wire.TxIn{
		PreviousOutPoint: op,
		Witness:          wire.TxWitness{{0x01}, witnessScript},
	})
	spender.AddTxOut(&wire.TxOut{Value: 500, PkScript: c14ReproScript})
	spenderHash := spender.TxHash()

	// pkScript of the watched output = P2WSH(witnessScript).
	pkScript := []byte{
		0x00, 0x20,
		0x4a, 0xe8, 0x15, 0x72, 0xf0, 0x6e, 0x1b, 0x88, 0xfd, 0x5c, 0xed,
		0x7a, 0x1a, 0x00, 0x09, 0x45, 0x43, 0x2e, 0x83, 0xe1, 0x55, 0x1e,
		0x6f, 0x72, 0x1e, 0xe9, 0xc0, 0x0b, 0x8c, 0xc3, 0x32, 0x60,
	}

	reg, err := n.RegisterSpend(&op, pkScript, 90)
	if err != nil {
		t.Fatalf("register: %v", err)
	}
	if reg.HistoricalDispatch == nil {
		t.Fatalf("expected a historical dispatch")
	}
	reg.Event.Cancel()

	// The rescan finds the spend in (old) block 100.
	err = n.UpdateSpendDetails(reg.HistoricalDispatch.SpendRequest,
		&chainntnfs.SpendDetail{
			SpentOutPoint:     &op,
			SpenderTxHash:     &spenderHash,
			SpendingTx:        spender,
			SpenderInputIndex: 0,
			SpendingHeight:    100,
		})
	if err != nil {
		t.Fatalf("UpdateSpendDetails: %v", err)
	}

	// Block 100 is reorganised out; on the new chain the outpoint is
	// unspent.
	if err := n.DisconnectTip(100); err != nil {
		t.Fatalf("disconnect: %v", err)
	}
	new100 := btcutil.NewBlock(&wire.MsgBlock{Header: wire.BlockHeader{Nonce: 1000}})
	if err := n.ConnectTip(new100, 100); err != nil {
		t.Fatalf("connect: %v", err)
	}
	if err := n.NotifyHeight(100); err != nil {
		t.Fatalf("notify: %v", err)
	}

	reg2, err := n.RegisterSpend(&op, pkScript, 90)
	if err != nil {
		t.Fatalf("register 2: %v", err)
	}
	if d := reg2.HistoricalDispatch; d != nil {
		if err := n.UpdateSpendDetails(d.SpendRequest, nil); err != nil {
			t.Fatalf("UpdateSpendDetails 2: %v", err)
		}
	}
	select {
	case d := <-reg2.Event.Spend:
		t.Errorf("client told Spend(height=%d, spender=%v) although the "+
			"outpoint is unspent on the active chain", d.SpendingHeight,
			d.SpenderTxHash)
	default:
	}
}
