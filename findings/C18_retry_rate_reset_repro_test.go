package sweep

// Standalone reproduction (no dependency on the /verif harness runtime) of the
// C18 finding "the fee rate an input was already offered at is forgotten when
// a retry fails before a transaction could be made". Overlay into sweep and
// run:
//
//   cat > /tmp/ov.json <<EOF2
//   {"Replace": {"/repo/sweep/zz_c18_retry_rate_reset_repro_test.go":
//                "/verif/findings/C18_retry_rate_reset_repro_test.go"}}
//   EOF2
//   cd /repo && go test -overlay /tmp/ov.json -run 'TestC18ReproRetryRate' -count=1 ./sweep/
//
// Mechanism. When a sweep attempt fails, TxPublisher reports TxFailed with
// BumpResult.FeeRate = the rate the next attempt should resume from, and
// UtxoSweeper.markInputsPublishFailed stores it unconditionally in the
// input's Params.StartingFeeRate. Three results carry a rate BELOW what the
// input was offered before:
//
//   - handleInitialTxError: for ErrTxNoOutput and ErrZeroFeeRateDelta the
//     result has no fee rate at all (0). markInputsPublishFailed overwrites
//     Some(r) with Some(0), BudgetInputSet.StartingFeeRate() ignores 0, and
//     the attempt after that starts from the fee estimator again.
//     (TestC18ReproRetryRateWipedAfterNoOutput,
//      TestC18ReproRetryRateWipedAtCeiling)
//   - the same result also drops the fee rates tried (and refused by the
//     mempool) within the failed attempt itself, when its fee function was
//     moved forward by createRBFCompliantTx before the tx ran out of outputs.
//     (TestC18ReproRetryRateLostAfterMempoolRejections)
//   - an attempt in a group with a lower ceiling that fails before any tx is
//     made reports that group's (lower) ending rate; when the input is later
//     swept in a group with a higher ceiling it starts from the lower rate
//     although nothing was ever offered at it.
//     (TestC18ReproRetryRateLoweredByFailedGroup)
//
// All four drive the real UtxoSweeper (updateSweeperInputs,
// sweepPendingInputs, sweep, handleBumpEvent) and the real TxPublisher
// (Broadcast, processRecords) block by block in lnd's consumer order
// (sweeper, then publisher) and look only at the transactions handed to the
// wallet: their fee rate (fee / weight of the transaction itself) must never
// decrease for the input.

import (
	"errors"
	"testing"

	"github.com/btcsuite/btcd/btcutil/v2"
	"github.com/btcsuite/btcd/chainhash/v2"
	"github.com/btcsuite/btcd/txscript/v2"
	"github.com/btcsuite/btcd/wire/v2"
	"github.com/btcsuite/btcwallet/chain"
	"github.com/lightningnetwork/lnd/chainntnfs"
	"github.com/lightningnetwork/lnd/fn/v2"
	"github.com/lightningnetwork/lnd/input"
	"github.com/lightningnetwork/lnd/lntypes"
	"github.com/lightningnetwork/lnd/lnwallet"
	"github.com/lightningnetwork/lnd/lnwallet/chainfee"
	"github.com/lightningnetwork/lnd/tlv"
)

type c18RetryInput struct {
	op   wire.OutPoint
	wt   input.StandardWitnessType
	desc input.SignDescriptor
}

func (i *c18RetryInput) OutPoint() wire.OutPoint               { return i.op }
func (i *c18RetryInput) RequiredTxOut() *wire.TxOut            { return nil }
func (i *c18RetryInput) RequiredLockTime() (uint32, bool)      { return 0, false }
func (i *c18RetryInput) WitnessType() input.WitnessType        { return i.wt }
func (i *c18RetryInput) SignDesc() *input.SignDescriptor       { return &i.desc }
func (i *c18RetryInput) BlocksToMaturity() uint32              { return 0 }
func (i *c18RetryInput) HeightHint() uint32                    { return 90 }
func (i *c18RetryInput) UnconfParent() *input.TxInfo           { return nil }
func (i *c18RetryInput) ResolutionBlob() fn.Option[tlv.Blob]   { return fn.None[tlv.Blob]() }
func (i *c18RetryInput) Preimage() fn.Option[lntypes.Preimage] { return fn.None[lntypes.Preimage]() }
func (i *c18RetryInput) CraftInputScript(input.Signer, *wire.MsgTx, *txscript.TxSigHashes,
	txscript.PrevOutputFetcher, int) (*input.Script, error) {

	// a witness of exactly the size lnd estimates for this witness type.
	size, _, err := i.wt.SizeUpperBound()
	if err != nil {
		return nil, err
	}
	return &input.Script{Witness: wire.TxWitness{make([]byte, int(size)-2)}}, nil
}

type c18RetryHanded struct {
	via    string
	height int32
	fee    int64
	weight int64
}

// rate is the fee rate of the transaction itself in sat/kw.
func (h c18RetryHanded) rate() int64 { return h.fee * 1000 / h.weight }

type c18RetryWallet struct {
	Wallet
	values      map[wire.OutPoint]int64
	height      int32
	handed      []c18RetryHanded
	publishErrs map[int]error // n-th PublishTransaction call -> answer
	publishes   int
	mempoolErrs map[int]error // n-th CheckMempoolAcceptance call -> answer
	mempools    int
}

func (w *c18RetryWallet) note(via string, tx *wire.MsgTx) {
	var in, out int64
	for _, i := range tx.TxIn {
		in += w.values[i.PreviousOutPoint]
	}
	for _, o := range tx.TxOut {
		out += o.Value
	}
	w.handed = append(w.handed, c18RetryHanded{via: via, height: w.height, fee: in - out,
		weight: int64(tx.SerializeSizeStripped()*3 + tx.SerializeSize())})
}
func (w *c18RetryWallet) BackEnd() string { return "bitcoind" }
func (w *c18RetryWallet) CheckMempoolAcceptance(tx *wire.MsgTx) error {
	w.note("testmempoolaccept", tx)
	w.mempools++
	return w.mempoolErrs[w.mempools]
}
func (w *c18RetryWallet) PublishTransaction(tx *wire.MsgTx, _ string) error {
	w.note("publish", tx)
	w.publishes++
	return w.publishErrs[w.publishes]
}
func (w *c18RetryWallet) WithCoinSelectLock(f func() error) error { return f() }
func (w *c18RetryWallet) CancelRebroadcast(chainhash.Hash)        {}
func (w *c18RetryWallet) ListUnspentWitnessFromDefaultAccount(int32, int32) ([]*lnwallet.Utxo, error) {
	return nil, nil
}

type c18RetryNotifier struct {
	chainntnfs.ChainNotifier
}

func (c18RetryNotifier) RegisterSpendNtfn(*wire.OutPoint, []byte, uint32) (*chainntnfs.SpendEvent, error) {
	return &chainntnfs.SpendEvent{Spend: make(chan *chainntnfs.SpendDetail), Cancel: func() {}}, nil
}

type c18RetryStore struct {
	txs map[chainhash.Hash]*TxRecord
}

func (s *c18RetryStore) IsOurTx(h chainhash.Hash) bool { _, ok := s.txs[h]; return ok }
func (s *c18RetryStore) StoreTx(tr *TxRecord) error    { s.txs[tr.Txid] = tr; return nil }
func (s *c18RetryStore) ListSweeps() ([]chainhash.Hash, error) {
	var hs []chainhash.Hash
	for h := range s.txs {
		hs = append(hs, h)
	}
	return hs, nil
}
func (s *c18RetryStore) GetTx(h chainhash.Hash) (*TxRecord, error) {
	tr, ok := s.txs[h]
	if !ok {
		return nil, ErrTxNotFound
	}
	return tr, nil
}
func (s *c18RetryStore) DeleteTx(h chainhash.Hash) error { delete(s.txs, h); return nil }

// c18RetryLoop couples a real UtxoSweeper with a real TxPublisher. It is the
// sweeper's Bumper: requests go to the publisher unchanged; the results are
// handed to the sweeper's handleBumpEvent by the test (synchronously, in place
// of the collector goroutine).
type c18RetryLoop struct {
	t      *testing.T
	s      *UtxoSweeper
	tp     *TxPublisher
	w      *c18RetryWallet
	live   []c18RetryReq
	events []string
}

type c18RetryReq struct {
	req *BumpRequest
	sub <-chan *BumpResult
}

func (l *c18RetryLoop) Broadcast(req *BumpRequest) <-chan *BumpResult {
	l.live = append(l.live, c18RetryReq{req: req, sub: l.tp.Broadcast(req)})

	// the sweeper's monitor goroutine of this request stays idle.
	return make(chan *BumpResult)
}

// deliver hands the publisher's results to the sweeper.
func (l *c18RetryLoop) deliver() {
	for again := true; again; {
		again = false
		for _, q := range l.live {
			select {
			case res := <-q.sub:
				again = true
				// the set the sweeper swept: its pending inputs
				// of this request.
				var ins []SweeperInput
				for _, in := range q.req.Inputs {
					ins = append(ins, *l.s.inputs[in.OutPoint()])
				}
				set, err := NewBudgetInputSet(ins, q.req.DeadlineHeight, fn.None[AuxSweeper]())
				if err != nil {
					l.t.Fatalf("input set: %v", err)
				}
				l.events = append(l.events, res.Event.String())
				l.t.Logf("height %d: result %v fee rate %v err %v", l.w.height, res.Event, res.FeeRate, res.Err)
				if err := l.s.handleBumpEvent(&bumpResp{result: res, set: set}); err != nil {
					l.t.Logf("handleBumpEvent: %v", err)
				}
			default:
			}
		}
	}
}

// block connects one block: the sweeper's block handler, then the
// publisher's, then the results.
func (l *c18RetryLoop) block(h int32) {
	l.w.height = h
	l.s.currentHeight = h
	l.s.sweepPendingInputs(l.s.updateSweeperInputs())
	l.deliver()
	l.tp.currentHeight.Store(h)
	l.tp.processRecords()
	l.tp.wg.Wait()
	l.deliver()
}

func c18RetryNewLoop(t *testing.T, est chainfee.Estimator, maxSatVB chainfee.SatPerVByte, height int32) *c18RetryLoop {
	w := &c18RetryWallet{values: map[wire.OutPoint]int64{}, publishErrs: map[int]error{},
		mempoolErrs: map[int]error{}}
	tp := NewTxPublisher(TxPublisherConfig{Wallet: w, Estimator: est, Notifier: c18RetryNotifier{}})
	tp.currentHeight.Store(height)
	l := &c18RetryLoop{t: t, tp: tp, w: w}
	l.s = New(&UtxoSweeperConfig{
		GenSweepScript: func() fn.Result[lnwallet.AddrWithKey] {
			return fn.Ok(lnwallet.AddrWithKey{
				DeliveryAddress: append([]byte{0x00, 0x14}, make([]byte, 20)...), // p2wpkh
			})
		},
		FeeEstimator:         est,
		Wallet:               w,
		Notifier:             c18RetryNotifier{},
		Store:                &c18RetryStore{txs: map[chainhash.Hash]*TxRecord{}},
		MaxInputsPerTx:       DefaultMaxInputsPerTx,
		MaxFeeRate:           maxSatVB,
		Aggregator:           NewBudgetAggregator(est, DefaultMaxInputsPerTx, fn.None[AuxSweeper]()),
		Publisher:            l,
		NoDeadlineConfTarget: 1008,
	})
	l.s.currentHeight = height
	t.Cleanup(func() {
		close(l.s.quit)
		l.s.wg.Wait()
		close(tp.quit)
	})
	return l
}

// offer registers a pending input the way handleNewInput leaves it.
func (l *c18RetryLoop) offer(id byte, wt input.StandardWitnessType, value, budget int64, deadline int32,
	start fn.Option[chainfee.SatPerKWeight]) wire.OutPoint {

	inp := &c18RetryInput{
		op: wire.OutPoint{Hash: chainhash.Hash{id}}, wt: wt,
		desc: input.SignDescriptor{Output: &wire.TxOut{Value: value, PkScript: make([]byte, 34)}},
	}
	l.w.values[inp.op] = value
	l.s.inputs[inp.op] = &SweeperInput{
		Input: inp, state: Init, DeadlineHeight: deadline,
		params: Params{Budget: btcutil.Amount(budget), DeadlineHeight: fn.Some(deadline), StartingFeeRate: start},
	}
	return inp.op
}

// checkNeverDecreases: the fee rates of the transactions handed to the wallet
// (all of them spend the input under test) never decrease.
func (l *c18RetryLoop) checkNeverDecreases(from int64) {
	l.t.Helper()
	prev := from
	for _, h := range l.w.handed {
		l.t.Logf("height %d %-17s fee %4d weight %d = %d sat/kw", h.height, h.via, h.fee, h.weight, h.rate())
		// 3 sat/kw: integer rounding of fee = rate * weight / 1000.
		if h.rate()+3 < prev {
			l.t.Errorf("height %d: %s of a sweep paying %d sat/kw after the input had been offered at %d sat/kw",
				h.height, h.via, h.rate(), prev)
		}
		if h.rate() > prev {
			prev = h.rate()
		}
	}
}

// A small output (921 sat) with a budget (881 sat) that leaves less than the
// dust limit for the change once the fee approaches it. The sweep is
// published at 1142, 1174, 1205 sat/kw; the bump after a skipped block would
// leave a dust change: ErrTxNoOutput at the replacement, TxFailed with the
// retry rate 1301. The retry a block later fails the same way while creating
// its initial tx: handleInitialTxError reports TxFailed WITHOUT a fee rate,
// markInputsPublishFailed stores Some(0), and the block after that the input
// is swept from the estimator's rate again: 1142 sat/kw is handed to the
// mempool after 1205 sat/kw had been published.
func TestC18ReproRetryRateWipedAfterNoOutput(t *testing.T) {
	est := chainfee.NewStaticEstimator(1142, 253)
	l := c18RetryNewLoop(t, est, 100, 100)
	l.offer(1, input.TaprootLocalCommitSpend, 921, 881, 120, fn.None[chainfee.SatPerKWeight]())

	for _, h := range []int32{100, 101, 102, 104, 105, 106, 107} {
		l.block(h)
	}
	t.Logf("events: %v", l.events)
	l.checkNeverDecreases(0)
}

// An input that comes with the fee rate of an earlier sweep of it (mempool
// RBFInfo, or a failed earlier attempt in a larger group) above what its own
// budget allows: 3000 sat/kw carried, ceiling 1000 sat * 1000 / 397 wu = 2518
// sat/kw. The fee function starts flat at the ceiling, the tx is handed to
// the wallet at 2518 sat/kw and PublishTransaction fails with a backend
// error: TxFailed with fee rate 2519. The retry starts AT its ending rate with
// more than one block to go: NewLinearFeeFunction returns ErrZeroFeeRateDelta,
// handleInitialTxError reports TxFailed WITHOUT a fee rate, the carried rate
// is replaced by Some(0) and the attempt after that starts from the
// estimator: 1000 sat/kw after 2518 sat/kw.
func TestC18ReproRetryRateWipedAtCeiling(t *testing.T) {
	est := chainfee.NewStaticEstimator(1000, 253)
	l := c18RetryNewLoop(t, est, 100, 100)
	l.offer(1, input.TaprootPubKeySpend, 10000, 1000, 150, fn.Some(chainfee.SatPerKWeight(3000)))
	l.w.publishErrs[1] = errors.New("backend: connection reset")

	for _, h := range []int32{100, 101, 102, 103} {
		l.block(h)
	}
	t.Logf("events: %v", l.events)
	// the input had been offered at 3000 sat/kw before; its ceiling here is
	// 2518 sat/kw, which is what the first transaction pays.
	l.checkNeverDecreases(0)
}

// Two inputs with the same deadline. A (5938 sat, budget 5000) was offered at
// 16700 sat/kw before; B (583 sat, budget 2661) is worth less than its budget.
// Together their ceiling is 7661 sat * 1000 / 628 wu = 12199 sat/kw, where
// the fee exceeds what the two inputs are worth: the tx cannot be made at all
// (ErrNotEnoughInputs before anything is handed to the wallet) and TxFailed
// reports that group's ending rate, 12199. B is then swept elsewhere; A alone
// has the ceiling 5000 sat * 1000 / 397 wu = 12594 sat/kw but starts at 12199:
// less than it was offered before although its ceiling allows more.
func TestC18ReproRetryRateLoweredByFailedGroup(t *testing.T) {
	est := chainfee.NewStaticEstimator(1000, 253)
	l := c18RetryNewLoop(t, est, 200, 100)
	a := l.offer(1, input.TaprootPubKeySpend, 5938, 5000, 105, fn.Some(chainfee.SatPerKWeight(16700)))
	b := l.offer(2, input.TaprootPubKeySpend, 583, 2661, 105, fn.None[chainfee.SatPerKWeight]())

	l.block(100)
	if len(l.w.handed) != 0 {
		t.Fatalf("expected the joint sweep to fail before a tx is made, got %v", l.w.handed)
	}
	// B is gone (swept elsewhere).
	l.s.inputs[b].state = Swept
	l.block(101)
	t.Logf("events: %v, A now carries %v", l.events, l.s.inputs[a].params.StartingFeeRate)

	if len(l.w.handed) == 0 {
		t.Fatalf("nothing handed to the wallet")
	}
	// A alone: 5000 sat budget over the weight of its sweep (397 wu).
	first := l.w.handed[0]
	ceiling := int64(5000) * 1000 / first.weight
	if first.rate()+3 < ceiling {
		t.Errorf("A was offered at 16700 sat/kw before, its ceiling now is %d sat/kw, but the sweep is handed to the wallet at %d sat/kw",
			ceiling, first.rate())
	}
}

// A 2000 sat output with a budget of 1900 sat, ten blocks to go. The mempool
// refuses the sweep as paying too little to replace what it already has
// (ErrInsufficientFee), so createRBFCompliantTx moves the fee function forward
// and offers 1000, 1420, 1840, ... 3943 sat/kw; at the next position the
// change is below dust and the tx has no output: TxFailed WITHOUT a fee rate.
// A block later the sweep is offered to the mempool from the estimator's rate
// again, 1000 sat/kw.
func TestC18ReproRetryRateLostAfterMempoolRejections(t *testing.T) {
	est := chainfee.NewStaticEstimator(1000, 253)
	l := c18RetryNewLoop(t, est, 100, 100)
	l.offer(1, input.TaprootPubKeySpend, 2000, 1900, 110, fn.None[chainfee.SatPerKWeight]())
	for n := 1; n <= 8; n++ {
		l.w.mempoolErrs[n] = chain.ErrInsufficientFee
	}

	for _, h := range []int32{100, 101} {
		l.block(h)
	}
	t.Logf("events: %v", l.events)
	l.checkNeverDecreases(0)
}
