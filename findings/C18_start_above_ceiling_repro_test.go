package sweep

// Standalone reproductions of the C18 findings (no dependency on the /verif
// harness runtime). Overlay into sweep and run:
//
//   cat > /tmp/ov.json <<EOF2
//   {"Replace": {"/repo/sweep/zz_c18_start_above_ceiling_repro_test.go":
//                "/verif/findings/C18_start_above_ceiling_repro_test.go"}}
//   EOF2
//   cd /repo && go test -overlay /tmp/ov.json -run 'TestC18Repro' -count=1 ./sweep/
//
// KF-C18-1 (TestC18ReproExplicitStartAboveEnd, TestC18ReproPublishAboveMaxFeeRate):
// NewLinearFeeFunction does not compare an explicit starting fee rate with the
// ending rate. (end-start) is negative, is stored in the unsigned
// mSatPerKWeight delta, and the function starts ABOVE its ceiling and then
// DEcreases towards it. TxPublisher only checks fee <= budget, so with a
// budget large enough it hands a tx paying more than BumpRequest.MaxFeeRate to
// the wallet. The starting rate comes unvalidated from `lncli wallet bumpfee
// --sat_per_vbyte/--conf_target` (walletrpc.validateBumpFeeRequest) and from
// the fee rate of a previous sweep attempt.
//
// KF-C18-3 (TestC18ReproRelayFloorAboveEnd): for conf targets >= 1008 the
// estimator path returns the relay fee without capping it at the ending rate;
// with a ceiling (budget/size) below the relay fee the same start > end state
// arises without any explicit starting rate.
//
// KF-C18-2 (TestC18ReproDustChangeAboveMaxFeeRate): when the change is below
// dust it is added to the fee after the fee has been computed from the fee
// rate, and the change output (counted in the weight estimate) is dropped, so
// the transaction pays more than MaxFeeRate even though the fee function is
// at/below it.

import (
	"testing"

	"github.com/btcsuite/btcd/btcutil/v2"
	"github.com/btcsuite/btcd/chainhash/v2"
	"github.com/btcsuite/btcd/txscript/v2"
	"github.com/btcsuite/btcd/wire/v2"
	"github.com/lightningnetwork/lnd/chainntnfs"
	"github.com/lightningnetwork/lnd/fn/v2"
	"github.com/lightningnetwork/lnd/input"
	"github.com/lightningnetwork/lnd/lntypes"
	"github.com/lightningnetwork/lnd/lnwallet"
	"github.com/lightningnetwork/lnd/lnwallet/chainfee"
	"github.com/lightningnetwork/lnd/tlv"
)

func TestC18ReproExplicitStartAboveEnd(t *testing.T) {
	est := chainfee.NewStaticEstimator(1000, 253)
	end := chainfee.SatPerKWeight(10000)
	f, err := NewLinearFeeFunction(end, 10, est, fn.Some(chainfee.SatPerKWeight(30000)))
	if err != nil {
		// a constructor error is a legitimate way to refuse it.
		return
	}
	prev := f.FeeRate()
	if prev > end {
		t.Errorf("initial fee rate %v is above the ending fee rate %v", prev, end)
	}
	for conf := uint32(9); conf >= 1; conf-- {
		_, _ = f.IncreaseFeeRate(conf)
		cur := f.FeeRate()
		if cur < prev {
			t.Errorf("conf target %d: fee rate decreased %v -> %v", conf, prev, cur)
		}
		if cur > end {
			t.Errorf("conf target %d: fee rate %v above ending rate %v", conf, cur, end)
		}
		prev = cur
	}
}

func TestC18ReproRelayFloorAboveEnd(t *testing.T) {
	// relay fee 1000 sat/kw, ceiling (budget/size) 400 sat/kw.
	est := chainfee.NewStaticEstimator(2000, 1000)
	end := chainfee.SatPerKWeight(400)
	f, err := NewLinearFeeFunction(end, 1008, est, fn.None[chainfee.SatPerKWeight]())
	if err != nil {
		return
	}
	prev := f.FeeRate()
	if prev > end {
		t.Errorf("initial fee rate %v is above the ending fee rate %v", prev, end)
	}
	for _, conf := range []uint32{900, 500, 100, 2, 1} {
		_, _ = f.IncreaseFeeRate(conf)
		cur := f.FeeRate()
		if cur < prev {
			t.Errorf("conf target %d: fee rate decreased %v -> %v", conf, prev, cur)
		}
		prev = cur
	}
}

// --- minimal publisher fixture --------------------------------------------

type c18ReproInput struct {
	op     wire.OutPoint
	wt     input.StandardWitnessType
	desc   input.SignDescriptor
	reqOut *wire.TxOut
}

func (i *c18ReproInput) OutPoint() wire.OutPoint              { return i.op }
func (i *c18ReproInput) RequiredTxOut() *wire.TxOut           { return i.reqOut }
func (i *c18ReproInput) RequiredLockTime() (uint32, bool)     { return 0, false }
func (i *c18ReproInput) WitnessType() input.WitnessType       { return i.wt }
func (i *c18ReproInput) SignDesc() *input.SignDescriptor      { return &i.desc }
func (i *c18ReproInput) BlocksToMaturity() uint32             { return 0 }
func (i *c18ReproInput) HeightHint() uint32                   { return 90 }
func (i *c18ReproInput) UnconfParent() *input.TxInfo          { return nil }
func (i *c18ReproInput) ResolutionBlob() fn.Option[tlv.Blob]  { return fn.None[tlv.Blob]() }
func (i *c18ReproInput) Preimage() fn.Option[lntypes.Preimage] { return fn.None[lntypes.Preimage]() }
func (i *c18ReproInput) CraftInputScript(input.Signer, *wire.MsgTx, *txscript.TxSigHashes,
	txscript.PrevOutputFetcher, int) (*input.Script, error) {

	// a witness of exactly the size lnd estimates for this witness type.
	size, _, err := i.wt.SizeUpperBound()
	if err != nil {
		return nil, err
	}
	return &input.Script{Witness: wire.TxWitness{make([]byte, int(size)-2)}}, nil
}

type c18ReproWallet struct {
	Wallet
	handed []*wire.MsgTx
}

func (w *c18ReproWallet) BackEnd() string { return "bitcoind" }
func (w *c18ReproWallet) CheckMempoolAcceptance(tx *wire.MsgTx) error {
	return nil
}
func (w *c18ReproWallet) PublishTransaction(tx *wire.MsgTx, _ string) error {
	w.handed = append(w.handed, tx)
	return nil
}

type c18ReproNotifier struct {
	chainntnfs.ChainNotifier
}

func (c18ReproNotifier) RegisterSpendNtfn(*wire.OutPoint, []byte, uint32) (*chainntnfs.SpendEvent, error) {
	return &chainntnfs.SpendEvent{Spend: make(chan *chainntnfs.SpendDetail), Cancel: func() {}}, nil
}

func c18ReproPublish(t *testing.T, req *BumpRequest) *wire.MsgTx {
	w := &c18ReproWallet{}
	tp := NewTxPublisher(TxPublisherConfig{
		Wallet: w, Estimator: chainfee.NewStaticEstimator(1000, 253), Notifier: c18ReproNotifier{},
	})
	tp.currentHeight.Store(100)
	req.Immediate = true
	res := <-tp.Broadcast(req)
	if len(w.handed) == 0 {
		t.Logf("nothing published: %v %v", res.Event, res.Err)
		return nil
	}
	return w.handed[0]
}

func c18ReproFeeRate(tx *wire.MsgTx, inValue int64) (int64, int64, float64) {
	var out int64
	for _, o := range tx.TxOut {
		out += o.Value
	}
	fee := inValue - out
	weight := int64(tx.SerializeSizeStripped()*3 + tx.SerializeSize())
	return fee, weight, float64(fee) * 1000 / float64(weight)
}

var c18ReproChange = lnwallet.AddrWithKey{
	DeliveryAddress: append([]byte{0x51, 0x20}, make([]byte, 32)...), // p2tr
}

func TestC18ReproPublishAboveMaxFeeRate(t *testing.T) {
	inp := &c18ReproInput{
		op: wire.OutPoint{Hash: chainhash.Hash{1}}, wt: input.CommitmentTimeLock,
		desc: input.SignDescriptor{Output: &wire.TxOut{Value: 1000000, PkScript: make([]byte, 34)}},
	}
	req := &BumpRequest{
		Budget: btcutil.Amount(500000), Inputs: []input.Input{inp}, DeadlineHeight: 110,
		DeliveryAddress: c18ReproChange,
		MaxFeeRate:      chainfee.SatPerKWeight(10000), // 40 sat/vB
		// e.g. `lncli wallet bumpfee --sat_per_vbyte 120`
		StartingFeeRate: fn.Some(chainfee.SatPerKWeight(30000)),
	}
	tx := c18ReproPublish(t, req)
	if tx == nil {
		return
	}
	fee, weight, rate := c18ReproFeeRate(tx, 1000000)
	if rate > float64(req.MaxFeeRate) {
		t.Errorf("published sweep pays fee %d over weight %d = %.0f sat/kw, MaxFeeRate is %d sat/kw",
			fee, weight, rate, req.MaxFeeRate)
	}
}

func TestC18ReproDustChangeAboveMaxFeeRate(t *testing.T) {
	// A second-level style input committing to an output of its full
	// value plus a small input paying the fee; at the ceiling rate the
	// change is below dust.
	second := &c18ReproInput{
		op: wire.OutPoint{Hash: chainhash.Hash{2}}, wt: input.HtlcAcceptedSuccessSecondLevelInputConfirmed,
		desc:   input.SignDescriptor{Output: &wire.TxOut{Value: 500000, PkScript: make([]byte, 34)}},
		reqOut: &wire.TxOut{Value: 500000, PkScript: append([]byte{0x00, 0x20}, make([]byte, 32)...)},
	}
	payer := &c18ReproInput{
		op: wire.OutPoint{Hash: chainhash.Hash{3}}, wt: input.CommitmentNoDelay,
		desc: input.SignDescriptor{Output: &wire.TxOut{Value: 2500, PkScript: make([]byte, 22)}},
	}
	req := &BumpRequest{
		Budget: btcutil.Amount(2500), Inputs: []input.Input{second, payer}, DeadlineHeight: 101,
		DeliveryAddress: c18ReproChange,
		MaxFeeRate:      chainfee.SatPerKWeight(2500), // 10 sat/vB
	}
	tx := c18ReproPublish(t, req)
	if tx == nil {
		return
	}
	fee, weight, rate := c18ReproFeeRate(tx, 502500)
	t.Logf("fee %d weight %d rate %.0f outputs %d", fee, weight, rate, len(tx.TxOut))
	if rate > float64(req.MaxFeeRate) {
		t.Errorf("published sweep pays fee %d over weight %d = %.0f sat/kw, MaxFeeRate is %d sat/kw",
			fee, weight, rate, req.MaxFeeRate)
	}
}
