package contractcourt

// Directed reproduction of finding KF-C04-1 (found by the C04 monitor in
// /verif). Plain test of package contractcourt; run with
//
//	go test ./contractcourt -run TestReproC04LeaseJusticeToRemoteCltv -count=1
//
// It FAILS on the pinned tree.
//
// Scenario: script-enforced lease channel, we (Alice) are the channel
// initiator, so OUR to_remote output on the peer's commitment carries
// `<lease expiry> OP_CHECKLOCKTIMEVERIFY` in addition to `1 OP_CSV`
// (lnwallet.CommitScriptToRemote -> input.LeaseCommitScriptToRemoteConfirmed).
// The peer publishes a revoked commitment. newRetributionInfo gives our
// to_remote output the witness type CommitmentToRemoteConfirmed (not the
// Lease variant), breachedOutput.RequiredLockTime() is (0,false) and
// sweepSpendableOutputsTxn never sets nLockTime, so every justice variant that
// contains this input (spendAll and spendCommitOuts, i.e. every variant that
// sweeps the revoked to_local output) is rejected by the script interpreter:
// "locktime requirement not satisfied". OP_CHECKLOCKTIMEVERIFY compares with
// the transaction's nLockTime, so this does not heal once the lease has
// expired. Only spendHTLCs is valid; the revoked to_local output and our own
// to_remote output are never claimed by the breach arbitrator.

import (
	"crypto/sha256"
	"reflect"
	"testing"
	"unsafe"

	"github.com/btcsuite/btcd/txscript/v2"
	"github.com/btcsuite/btcd/wire/v2"
	"github.com/lightningnetwork/lnd/channeldb"
	"github.com/lightningnetwork/lnd/fn/v2"
	"github.com/lightningnetwork/lnd/lnwallet"
	"github.com/lightningnetwork/lnd/lnwallet/chainfee"
	"github.com/lightningnetwork/lnd/lnwire"
	"github.com/stretchr/testify/require"
)

func TestReproC04LeaseJusticeToRemoteCltv(t *testing.T) {
	chanType := channeldb.SingleFunderTweaklessBit | channeldb.AnchorOutputsBit |
		channeldb.ZeroHtlcTxFeeBit | channeldb.LeaseExpirationBit

	// Alice is the initiator in the stock fixture.
	alice, bob, err := lnwallet.CreateTestChannels(t, chanType)
	require.NoError(t, err)

	// The fixture leaves the lease expiry at 0; give the lease a real
	// expiry height (read by the commitment builder for every new state).
	const leaseExpiry = 1000
	alice.State().ThawHeight = leaseExpiry
	bob.State().ThawHeight = leaseExpiry

	addHtlc := func(id byte) {
		pre := [32]byte{id}
		h := &lnwire.UpdateAddHTLC{
			PaymentHash: sha256.Sum256(pre[:]),
			Amount:      lnwire.NewMSatFromSatoshis(100_000),
			Expiry:      500,
		}
		idx, err := alice.AddHTLC(h, nil)
		require.NoError(t, err)
		h.ID = idx
		_, err = bob.ReceiveHTLC(h)
		require.NoError(t, err)
		require.NoError(t, lnwallet.ForceStateTransition(alice, bob))
	}

	// State 1 on both sides; remember Bob's commitment of that state.
	addHtlc(1)
	require.EqualValues(t, 1, bob.State().LocalCommitment.CommitHeight)
	revokedTx := bob.State().LocalCommitment.CommitTx.Copy()

	// State 2: Bob revokes state 1.
	addHtlc(2)

	// Bob publishes the revoked state 1. Alice builds the retribution from
	// her channel state, as the chain watcher does.
	br, err := lnwallet.NewBreachRetribution(
		alice.State(), 1, 600, revokedTx,
		fn.None[lnwallet.AuxLeafStore](),
		fn.None[lnwallet.AuxContractResolver](),
	)
	require.NoError(t, err)
	require.Equal(t, revokedTx.TxHash(), br.BreachTxHash)
	require.NotNil(t, br.LocalOutputSignDesc)
	require.NotNil(t, br.RemoteOutputSignDesc)

	chanPoint := alice.State().FundingOutpoint
	retInfo := newRetributionInfo(&chanPoint, br)

	brar := NewBreachArbitrator(&BreachConfig{
		Estimator: chainfee.NewStaticEstimator(chainfee.FeePerKwFloor, 0),
		GenSweepScript: func() fn.Result[lnwallet.AddrWithKey] {
			return fn.Ok(lnwallet.AddrWithKey{
				DeliveryAddress: append(
					[]byte{txscript.OP_1, 32}, make([]byte, 32)...,
				),
			})
		},
		Signer: alice.Signer,
	})
	txs, err := brar.createJusticeTx(retInfo.breachedOutputs)
	require.NoError(t, err)

	// Run btcd's script interpreter on every input of every variant
	// against the real outputs of the revoked commitment.
	fetcher := txscript.NewMultiPrevOutFetcher(nil)
	txid := revokedTx.TxHash()
	for i, out := range revokedTx.TxOut {
		fetcher.AddPrevOut(wire.OutPoint{Hash: txid, Index: uint32(i)}, out)
	}
	// Every justice transaction createJusticeTx produced (whatever the
	// variant fields are called) must be valid, and every breached output
	// must be an input of at least one of them.
	spent := map[wire.OutPoint]bool{}
	check := func(name string, jt *justiceTxCtx) {
		tx := jt.justiceTx
		hc := txscript.NewTxSigHashes(tx, fetcher)
		for i, in := range tx.TxIn {
			spent[in.PreviousOutPoint] = true
			prev := revokedTx.TxOut[in.PreviousOutPoint.Index]
			vm, err := txscript.NewEngine(
				prev.PkScript, tx, i, txscript.StandardVerifyFlags,
				nil, hc, prev.Value, fetcher,
			)
			require.NoError(t, err)
			require.NoErrorf(t, vm.Execute(), "justice variant %s "+
				"(nLockTime=%d): input %d of type %v spending "+
				"output %d of the revoked commitment is rejected "+
				"by the script interpreter", name, tx.LockTime, i,
				jt.inputs[i].WitnessType(),
				in.PreviousOutPoint.Index)
		}
	}
	v := reflect.ValueOf(txs).Elem()
	for i := 0; i < v.NumField(); i++ {
		f := v.Field(i)
		f = reflect.NewAt(f.Type(), unsafe.Pointer(f.UnsafeAddr())).Elem()
		switch x := f.Interface().(type) {
		case *justiceTxCtx:
			if x != nil {
				check(v.Type().Field(i).Name, x)
			}
		case []*justiceTxCtx:
			for _, y := range x {
				check(v.Type().Field(i).Name, y)
			}
		}
	}
	for i := range retInfo.breachedOutputs {
		bo := &retInfo.breachedOutputs[i]
		require.Truef(t, spent[bo.outpoint], "breached output %v (%v) is "+
			"spent by no justice transaction", bo.outpoint,
			bo.witnessType)
	}
}
