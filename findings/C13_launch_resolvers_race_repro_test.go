package contractcourt

// Standalone reproduction (run with -race in package contractcourt):
// ChannelArbitrator.launchResolvers iterated the shared backing array of
// activeResolvers without the lock while replaceResolver swaps elements in
// place. Before the fix (b0b7efa) the race detector reports the pair
// launchResolvers (read) / replaceResolver (write); with the fix it is silent.
// In an un-instrumented build the torn interface read ends in SIGSEGV
// (seen in C12/C13 thorough shards).

import (
	"sync"
	"testing"

	"github.com/btcsuite/btcd/wire/v2"
)

func TestVerifReproLaunchResolversRace(t *testing.T) {
	mk := func(i uint32) *anchorResolver {
		r := &anchorResolver{anchor: wire.OutPoint{Index: i}}
		r.contractResolverKit = *newContractResolverKit(ResolverConfig{})
		r.markResolved() // launchResolvers then only calls IsResolved
		return r
	}
	c := &ChannelArbitrator{}
	c.activeResolvers = []ContractResolver{mk(0), mk(1), mk(2)}
	var wg sync.WaitGroup
	wg.Add(2)
	go func() {
		defer wg.Done()
		for i := 0; i < 20000; i++ {
			c.launchResolvers()
		}
	}()
	go func() {
		defer wg.Done()
		for i := 0; i < 20000; i++ {
			if err := c.replaceResolver(mk(1), mk(1)); err != nil {
				t.Errorf("replace: %v", err)
				return
			}
		}
	}()
	wg.Wait()
}
