package tlv

// Standalone reproduction of the two C10 findings in module tlv (no dependency
// on the /verif harness runtime). Overlay it into /repo/tlv and run INSIDE the
// tlv module (the main module links tlv v1.4.0 from the module cache):
//
//   cat > /tmp/ov.json <<EOF2
//   {"Replace": {"/repo/tlv/zz_c10_repro_test.go":
//                "/verif/findings/C10_tlv_noncanonical_accepted_repro_test.go"}}
//   EOF2
//   cd /repo/tlv && go test -overlay /tmp/ov.json -run 'TestC10.*Repro' -count=1 .
//
// KF-C10-1  tlv.DBigSize ignores the record length l. A stream whose BigSize
//           record declares a length that does not match the varint actually
//           present (even a length that runs past the end of the stream) is
//           ACCEPTED by every entry point, including DecodeP2P /
//           DecodeWithParsedTypesP2P; the bytes that the length claimed for the
//           record are then parsed as the following records, and
//           Encode(Decode(x)) != x.
//
// KF-C10-2  Stream.decode on the non-p2p path hands the declared length of an
//           unknown record to io.CopyN as int64(length). For length >= 2^63
//           this is negative, io.CopyN copies nothing and reports success, so
//           Decode accepts a record whose length lies far beyond the stream
//           (DecodeWithParsedTypes instead panics in make([]byte, 0, length):
//           "makeslice: cap out of range").
//
// Both tests FAIL on HEAD (they assert the behaviour the C10 statement
// demands: the streams are not canonical / lengths are out of bounds, so they
// must be rejected).

import (
	"bytes"
	"testing"
)

func TestC10BigSizeRecordLengthIgnoredRepro(t *testing.T) {
	// type 0x0a (known BigSize record), declared length 4, but only ONE
	// value byte (0x01) follows: the record runs 3 bytes past the end.
	short := []byte{0x0a, 0x04, 0x01}

	// type 0x0a, declared length 3, value bytes 05 0b 00: DBigSize consumes
	// only 0x05; "0b 00" is then parsed as a second record (type 11, len 0).
	desync := []byte{0x0a, 0x03, 0x05, 0x0b, 0x00}

	for name, x := range map[string][]byte{"length-beyond-end": short, "desync": desync} {
		var v uint64
		s := MustNewStream(MakeBigSizeRecord(10, &v))
		tm, err := s.DecodeWithParsedTypesP2P(bytes.NewReader(x))
		if err != nil {
			continue // rejected: the behaviour the statement asks for
		}
		var buf bytes.Buffer
		if err := s.Encode(&buf); err != nil {
			t.Fatal(err)
		}
		t.Errorf("%s: DecodeWithParsedTypesP2P accepted %x (value=%d, parsed types=%v); "+
			"re-encoding the known record gives %x", name, x, v, tm, buf.Bytes())
	}
}

func TestC10NonP2PHugeLengthAcceptedRepro(t *testing.T) {
	// unknown type 1, declared length 2^63, no value bytes at all.
	x := []byte{0x01, 0xff, 0x80, 0, 0, 0, 0, 0, 0, 0}

	s := MustNewStream()
	if err := s.Decode(bytes.NewReader(x)); err == nil {
		t.Errorf("Decode accepted %x: a record of declared length 2^63 in a 10-byte stream", x)
	}

	func() {
		defer func() {
			if r := recover(); r != nil {
				t.Errorf("DecodeWithParsedTypes panicked on %x: %v", x, r)
			}
		}()
		s2 := MustNewStream()
		if _, err := s2.DecodeWithParsedTypes(bytes.NewReader(x)); err == nil {
			t.Errorf("DecodeWithParsedTypes accepted %x", x)
		}
	}()
}
