package htlcswitch

// Standalone reproduction of a C08 finding (no dependency on the /verif
// harness runtime). Copy into /repo/htlcswitch/ and run
//   go test -run TestReproC08ResponseStuckUntilLinkReturns -count=1 ./htlcswitch/
//
// channelLink.processRemoteRevokeAndAck persists the forwarding package of a
// revocation (ReceiveRevocation) and only then hands the package's settles and
// fails to the switch; if the link is stopped in between (peer disconnect: the
// function returns at its quit check, and ForwardPackets refuses packets of a
// quitting link), the responses stay in the package. They are re-forwarded
// when that link starts again or when the switch starts, i.e. the *incoming*
// HTLC of another, live link waits for the absent peer (or a node restart)
// although its outgoing HTLC is irrevocably gone. The test puts the switch in
// exactly that state: an open circuit, an unacknowledged fail in the outgoing
// channel's forwarding package, and the outgoing link being removed.

import (
	"crypto/sha256"
	"testing"
	"time"

	"github.com/lightningnetwork/lnd/channeldb"
	"github.com/lightningnetwork/lnd/kvdb"
	"github.com/lightningnetwork/lnd/lnwire"
)

func TestReproC08ResponseStuckUntilLinkReturns(t *testing.T) {
	alicePeer, err := newMockServer(t, "alice", testStartingHeight, nil, testDefaultDelta)
	if err != nil {
		t.Fatal(err)
	}
	bobPeer, err := newMockServer(t, "bob", testStartingHeight, nil, testDefaultDelta)
	if err != nil {
		t.Fatal(err)
	}
	s, err := initSwitchWithTempDB(t, testStartingHeight)
	if err != nil {
		t.Fatal(err)
	}
	if err := s.Start(); err != nil {
		t.Fatal(err)
	}
	defer s.Stop()

	chanID1, chanID2, aliceChanID, bobChanID := genIDs()
	aliceLink := newMockChannelLink(s, chanID1, aliceChanID, emptyScid, alicePeer, true, false, false, false)
	bobLink := newMockChannelLink(s, chanID2, bobChanID, emptyScid, bobPeer, true, false, false, false)
	if err := s.AddLink(aliceLink); err != nil {
		t.Fatal(err)
	}
	if err := s.AddLink(bobLink); err != nil {
		t.Fatal(err)
	}

	// Forward an HTLC alice -> bob and let bob's link commit it.
	preimage, err := genPreimage()
	if err != nil {
		t.Fatal(err)
	}
	rhash := sha256.Sum256(preimage[:])
	add := &htlcPacket{
		incomingChanID: aliceLink.ShortChanID(),
		incomingHTLCID: 0,
		outgoingChanID: bobLink.ShortChanID(),
		obfuscator:     NewMockObfuscator(),
		htlc:           &lnwire.UpdateAddHTLC{PaymentHash: rhash, Amount: 1},
	}
	if err := s.ForwardPackets(nil, add); err != nil {
		t.Fatal(err)
	}
	select {
	case <-bobLink.packets:
		if err := bobLink.completeCircuit(add); err != nil {
			t.Fatal(err)
		}
	case <-time.After(3 * time.Second):
		t.Fatal("add not forwarded")
	}

	// The downstream peer failed the HTLC and the removal was locked in by
	// its revocation: bob's link persisted the forwarding package ...
	fwdPkg := channeldb.NewFwdPkg(bobLink.ShortChanID(), 7, nil, []channeldb.LogUpdate{{
		LogIndex:  0,
		UpdateMsg: &lnwire.UpdateFailHTLC{ChanID: chanID2, ID: 0, Reason: []byte("reason")},
	}})
	packager := channeldb.NewChannelPackager(bobLink.ShortChanID())
	if err := kvdb.Update(s.cfg.DB, func(tx kvdb.RwTx) error {
		return packager.AddFwdPkg(tx, fwdPkg)
	}, func() {}); err != nil {
		t.Fatal(err)
	}

	// ... and was stopped (peer disconnected) before the package's
	// responses reached the switch.
	s.RemoveLink(chanID2)

	// The incoming link is alive: it must get the fail now, not when the
	// downstream peer decides to come back.
	select {
	case pkt := <-aliceLink.packets:
		if _, ok := pkt.htlc.(*lnwire.UpdateFailHTLC); !ok {
			t.Fatalf("unexpected packet %T", pkt.htlc)
		}
	case <-time.After(3 * time.Second):
		t.Fatalf("the fail locked in on the outgoing channel never reached the "+
			"incoming link (open circuits=%d): the incoming HTLC dangles until "+
			"the outgoing peer reconnects or the node restarts", s.circuits.NumOpen())
	}
}
