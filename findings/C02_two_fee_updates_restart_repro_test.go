package lnwallet

// Standalone reproduction (no harness runtime): the opener has one fee update
// that the peer acked but not yet signed for, and a second fee update inside
// its pending (signed, un-acked) remote commitment. After a restart the two
// are restored into the local update log in the wrong order (the newer one
// first), so the opener evaluates its next local commitment with the OLD fee
// rate and rejects the peer's honest signature.

import (
	"testing"

	"github.com/lightningnetwork/lnd/channeldb"
	"github.com/lightningnetwork/lnd/lnwallet/chainfee"
	"github.com/lightningnetwork/lnd/lnwire"
	"github.com/stretchr/testify/require"
)

func TestVerifReproTwoFeeUpdatesRestart(t *testing.T) {
	alice, bob, err := CreateTestChannels(t, channeldb.SingleFunderTweaklessBit)
	require.NoError(t, err)

	// One full state transition first so both sides have revoked once.
	require.NoError(t, ForceStateTransition(alice, bob))

	// Fee update #1: signed by Alice, acked by Bob, not yet signed by Bob.
	require.NoError(t, alice.UpdateFee(chainfee.SatPerKWeight(3000)))
	require.NoError(t, bob.ReceiveUpdateFee(chainfee.SatPerKWeight(3000)))
	sig1, err := alice.SignNextCommitment(ctxb)
	require.NoError(t, err)
	require.NoError(t, bob.ReceiveNewCommitment(sig1.CommitSigs))
	rev1, _, _, err := bob.RevokeCurrentCommitment()
	require.NoError(t, err)
	_, _, err = alice.ReceiveRevocation(rev1)
	require.NoError(t, err)

	// Fee update #2: signed by Alice, signature lost with the connection.
	require.NoError(t, alice.UpdateFee(chainfee.SatPerKWeight(4000)))
	require.NoError(t, bob.ReceiveUpdateFee(chainfee.SatPerKWeight(4000)))
	_, err = alice.SignNextCommitment(ctxb)
	require.NoError(t, err)

	alice, err = restartChannel(alice)
	require.NoError(t, err)
	bob, err = restartChannel(bob)
	require.NoError(t, err)

	aSync, err := alice.channelState.ChanSyncMsg()
	require.NoError(t, err)
	bSync, err := bob.channelState.ChanSyncMsg()
	require.NoError(t, err)
	aMsgs, _, _, err := alice.ProcessChanSyncMsg(ctxb, bSync)
	require.NoError(t, err)
	bMsgs, _, _, err := bob.ProcessChanSyncMsg(ctxb, aSync)
	require.NoError(t, err)
	require.Len(t, bMsgs, 0)
	require.Len(t, aMsgs, 2) // update_fee(4000) + commit_sig

	fee := aMsgs[0].(*lnwire.UpdateFee)
	require.EqualValues(t, 4000, fee.FeePerKw)
	require.NoError(t, bob.ReceiveUpdateFee(chainfee.SatPerKWeight(fee.FeePerKw)))
	cs := aMsgs[1].(*lnwire.CommitSig)
	require.NoError(t, bob.ReceiveNewCommitment(&CommitSigs{
		CommitSig: cs.CommitSig, HtlcSigs: cs.HtlcSigs, PartialSig: cs.PartialSig,
	}))
	rev2, _, _, err := bob.RevokeCurrentCommitment()
	require.NoError(t, err)
	_, _, err = alice.ReceiveRevocation(rev2)
	require.NoError(t, err)

	// Bob now signs Alice's commitment covering both fee updates (4000).
	bobSig, err := bob.SignNextCommitment(ctxb)
	require.NoError(t, err)
	err = alice.ReceiveNewCommitment(bobSig.CommitSigs)
	require.NoError(t, err, "opener rejects the peer's honest signature after restart")
}
