package contractcourt

// Directed reproduction of finding KF-C12-1 (found by the C12 monitor in
// /verif). Plain test of package contractcourt: copy (or overlay) it next to
// channel_arbitrator_test.go and run
//
//	go test ./contractcourt -run TestReproC12MissingDustFailback -count=1
//
// It FAILS on the pinned tree.
//
// Scenario (sub-class (i) of the finding, the simplest one): one HTLC we
// offered is a real output on OUR commitment but dust (OutputIndex -1) on the
// peer's commitment (different dust limits / success-vs-timeout fee). We force
// close, but the peer's commitment is the one that confirms. On that
// commitment the HTLC has no output, so no resolver will ever fail it back;
// the arbitrator must cancel it upstream itself. It never does: at broadcast
// time the HTLC was a live contract on our commitment, and at confirmation
// time stateStep(StateContractClosed) recomputes it as HtlcFailDustAction and
// drops that set ("already resolved before we reach this point").

import (
	"testing"
	"time"

	"github.com/btcsuite/btcd/chainhash/v2"
	"github.com/btcsuite/btcd/wire/v2"
	"github.com/lightningnetwork/lnd/chainntnfs"
	"github.com/lightningnetwork/lnd/channeldb"
	"github.com/lightningnetwork/lnd/fn/v2"
	"github.com/lightningnetwork/lnd/lnwallet"
	"github.com/lightningnetwork/lnd/lnwire"
	"github.com/stretchr/testify/require"
)

func TestReproC12MissingDustFailback(t *testing.T) {
	log := &mockArbitratorLog{
		state:     StateDefault,
		newStates: make(chan ArbitratorState, 10),
		resolvers: make(map[ContractResolver]struct{}),
	}

	chanArbCtx, err := createTestChannelArbitrator(t, log)
	require.NoError(t, err)
	chanArb := chanArbCtx.chanArb

	// Collect every resolution message that reaches the switch.
	resolutions := make(chan []ResolutionMsg, 10)
	chanArb.cfg.DeliverResolutionMsg = func(msgs ...ResolutionMsg) error {
		resolutions <- msgs
		return nil
	}

	require.NoError(t, chanArb.Start(nil, newBeatFromHeight(100)))
	defer chanArb.Stop()

	chanArb.UpdateContractSignals(&ContractSignals{
		ShortChanID: lnwire.ShortChannelID{},
	})

	// The same offered HTLC (index 7), far from its expiry: an output on
	// our commitment, dust on the peer's.
	const htlcIndex = 7
	onOurs := channeldb.HTLC{
		Incoming:      false,
		Amt:           3_000_000,
		HtlcIndex:     htlcIndex,
		OutputIndex:   2,
		RefundTimeout: 1000,
	}
	onTheirs := onOurs
	onTheirs.OutputIndex = -1

	chanArb.notifyContractUpdate(&ContractUpdate{
		HtlcKey: LocalHtlcSet, Htlcs: []channeldb.HTLC{onOurs},
	})
	chanArb.notifyContractUpdate(&ContractUpdate{
		HtlcKey: RemoteHtlcSet, Htlcs: []channeldb.HTLC{onTheirs},
	})

	// The user force closes: our commitment is broadcast.
	errChan := make(chan error, 1)
	respChan := make(chan *wire.MsgTx, 1)
	chanArb.forceCloseReqs <- &forceCloseReq{
		errResp: errChan, closeTx: respChan,
	}
	chanArbCtx.AssertStateTransitions(
		StateBroadcastCommit, StateCommitmentBroadcasted,
	)
	<-respChan
	require.NoError(t, <-errChan)

	// ... but the peer's commitment confirms. The HTLC is dust there, so
	// lnwallet produces no HTLC resolution for it.
	chanArb.cfg.ChainEvents.RemoteUnilateralClosure <- &RemoteUnilateralCloseInfo{
		UnilateralCloseSummary: &lnwallet.UnilateralCloseSummary{
			SpendDetail: &chainntnfs.SpendDetail{
				SpenderTxHash: &chainhash.Hash{},
			},
			HtlcResolutions: &lnwallet.HtlcResolutions{},
		},
		CommitSet: CommitSet{
			ConfCommitKey: fn.Some(RemoteHtlcSet),
			HtlcSets: map[HtlcSetKey][]channeldb.HTLC{
				LocalHtlcSet:  {onOurs},
				RemoteHtlcSet: {onTheirs},
			},
		},
	}
	chanArbCtx.AssertStateTransitions(
		StateContractClosed, StateWaitingFullResolution,
	)

	// No resolver exists for the HTLC (it has no output), so the only way
	// the incoming HTLC can ever be released is a fail-back from the
	// arbitrator. The state machine is past the point where it sends
	// them; give it ample time anyway.
	failed := 0
	timeout := time.After(2 * time.Second)
loop:
	for {
		select {
		case msgs := <-resolutions:
			for _, m := range msgs {
				if m.HtlcIndex == htlcIndex && m.Failure != nil {
					failed++
				}
			}
		case <-timeout:
			break loop
		}
	}

	chanArb.activeResolversLock.RLock()
	for _, r := range chanArb.activeResolvers {
		if _, ok := r.(htlcContractResolver); ok {
			t.Errorf("unexpected HTLC resolver %T for a dust HTLC", r)
		}
	}
	chanArb.activeResolversLock.RUnlock()

	require.Equal(t, 1, failed, "offered HTLC %d is dust on the confirmed "+
		"remote commitment and has no resolver: it must be failed "+
		"back upstream exactly once, got %d fail-backs", htlcIndex,
		failed)
}
