package invoices_test

// Standalone reproduction of the C15 finding KF-C15-1/2 "a replayed keysend /
// AMP HTLC is re-checked against the CURRENT height before replay detection"
// (no dependency on the /verif harness runtime; it only uses the invoices
// package's own test helpers). Overlay it into invoices and run:
//
//   cat > /tmp/ov.json <<EOF2
//   {"Replace": {"/repo/invoices/zz_c15_replay_precheck_repro_test.go":
//                "/verif/findings/C15_replay_precheck_repro_test.go"}}
//   EOF2
//   cd /repo && go test -overlay /tmp/ov.json -run TestC15ReplayPrecheckRepro \
//       -count=1 ./invoices/
//
// InvoiceRegistry.NotifyExitHopHtlc runs processKeySend / processAMP first.
// Both contain `if ctx.expiry < uint32(ctx.currentHeight+finalCltvDelta)`
// ("final expiry too soon") and turn that into a Fail resolution
// (ResultKeySendError / ResultAmpError) BEFORE resolveReplayedHtlc is
// consulted. A link that restarts a few blocks later and replays an exit-hop
// HTLC that the registry has already settled (or accepted into a pending AMP
// set) therefore gets "fail" for an HTLC whose invoice record says settled /
// accepted; in the AMP case the registry later even delivers a settle for the
// HTLC it has just told the link to fail.
//
// On HEAD all sub-tests fail; with replay detection done before the
// spontaneous-payment pre-checks they pass.

import (
	"bytes"
	"crypto/sha256"
	"database/sql"
	"encoding/binary"
	"testing"

	"github.com/lightningnetwork/lnd/channeldb"
	"github.com/lightningnetwork/lnd/clock"
	invpkg "github.com/lightningnetwork/lnd/invoices"
	"github.com/lightningnetwork/lnd/lntypes"
	"github.com/lightningnetwork/lnd/lnwire"
	"github.com/lightningnetwork/lnd/record"
	"github.com/lightningnetwork/lnd/sqldb"
	"github.com/stretchr/testify/require"
)

func c15ReproStores() map[string]func(t *testing.T) (invpkg.InvoiceDB, *clock.TestClock) {
	return map[string]func(t *testing.T) (invpkg.InvoiceDB, *clock.TestClock){
		"kv": func(t *testing.T) (invpkg.InvoiceDB, *clock.TestClock) {
			c := clock.NewTestClock(testTime)
			db, err := channeldb.MakeTestInvoiceDB(t, channeldb.OptionClock(c))
			require.NoError(t, err)

			return db, c
		},
		"sqlite": func(t *testing.T) (invpkg.InvoiceDB, *clock.TestClock) {
			c := clock.NewTestClock(testTime)
			db := sqldb.NewTestSqliteDB(t).BaseDB
			ex := sqldb.NewTransactionExecutor(
				db, func(tx *sql.Tx) invpkg.SQLInvoiceQueries {
					return db.WithTx(tx)
				},
			)

			return invpkg.NewSQLStore(ex, c), c
		},
	}
}

func c15ReproAmpChild(root, share [32]byte, idx uint32) (lntypes.Preimage, lntypes.Hash) {
	var ib [4]byte
	binary.BigEndian.PutUint32(ib[:], idx)
	pre := sha256.Sum256(bytes.Join([][]byte{root[:], share[:], ib[:]}, nil))

	return pre, sha256.Sum256(pre[:])
}

func TestC15ReplayPrecheckRepro(t *testing.T) {
	for name, makeDB := range c15ReproStores() {
		// Witness A: settled keysend HTLC, replayed one block later.
		t.Run(name+"/keysend_settled_then_replayed", func(t *testing.T) {
			cfg := defaultRegistryConfig()
			cfg.AcceptKeySend = true
			ctx := newTestContext(t, &cfg, makeDB)

			pre := lntypes.Preimage{9, 9, 9}
			hash := pre.Hash()
			payload := &mockPayload{customRecords: record.CustomSet{
				record.KeySendType: pre[:],
			}}
			hodl := make(chan interface{}, 4)
			height := int32(100)
			// smallest margin the registry accepts
			expiry := uint32(height + testFinalCltvRejectDelta)
			key := getCircuitKey(1)

			res, err := ctx.registry.NotifyExitHopHtlc(
				hash, 5000, expiry, height, key, hodl, nil, payload,
			)
			require.NoError(t, err)
			require.IsType(t, &invpkg.HtlcSettleResolution{}, res)

			inv, err := ctx.registry.LookupInvoice(t.Context(), hash)
			require.NoError(t, err)
			require.Equal(t, invpkg.ContractSettled, inv.State)
			require.Equal(t, invpkg.HtlcStateSettled, inv.Htlcs[key].State)

			// The link restarts one block later and replays the HTLC.
			res, err = ctx.registry.NotifyExitHopHtlc(
				hash, 5000, expiry, height+1, key, hodl, nil, payload,
			)
			require.NoError(t, err)
			require.IsType(t, &invpkg.HtlcSettleResolution{}, res,
				"replay of an HTLC that is settled in the invoice "+
					"record must be settled again, got %+v", res)
		})

		// Witness B: shard 1 of a 2-shard spontaneous AMP payment is
		// accepted, replayed one block later (fails), then the set
		// completes and the registry settles the shard it failed.
		t.Run(name+"/amp_accepted_then_replayed", func(t *testing.T) {
			cfg := defaultRegistryConfig()
			cfg.AcceptAMP = true
			ctx := newTestContext(t, &cfg, makeDB)

			var root, share1, share2, setID, payAddr [32]byte
			root[0], share1[0], setID[0], payAddr[0] = 1, 2, 3, 4
			for i := range share2 {
				share2[i] = root[i] ^ share1[i]
			}
			_, hash1 := c15ReproAmpChild(root, share1, 0)
			_, hash2 := c15ReproAmpChild(root, share2, 1)
			total := lnwire.MilliSatoshi(1000)
			p1 := &mockPayload{
				mpp: record.NewMPP(total, payAddr),
				amp: record.NewAMP(share1, setID, 0),
			}
			p2 := &mockPayload{
				mpp: record.NewMPP(total, payAddr),
				amp: record.NewAMP(share2, setID, 1),
			}
			hodl := make(chan interface{}, 4)
			height := int32(100)
			expiry := uint32(height + testFinalCltvRejectDelta)
			k1, k2 := getCircuitKey(1), getCircuitKey(2)

			res, err := ctx.registry.NotifyExitHopHtlc(
				hash1, 400, expiry, height, k1, hodl, nil, p1,
			)
			require.NoError(t, err)
			require.Nil(t, res, "shard 1 is accepted and held")

			// Replay of shard 1 one block later.
			res, err = ctx.registry.NotifyExitHopHtlc(
				hash1, 400, expiry, height+1, k1, hodl, nil, p1,
			)
			require.NoError(t, err)
			replayFailed := res != nil

			// Shard 2 completes the set.
			res, err = ctx.registry.NotifyExitHopHtlc(
				hash2, 600, expiry+10, height+1, k2, hodl, nil, p2,
			)
			require.NoError(t, err)
			require.IsType(t, &invpkg.HtlcSettleResolution{}, res)

			settledShard1 := false
			select {
			case x := <-hodl:
				s, ok := x.(*invpkg.HtlcSettleResolution)
				settledShard1 = ok && s.CircuitKey() == k1
			default:
			}
			require.False(t, replayFailed && settledShard1,
				"shard 1 was failed on replay although it was "+
					"accepted in the record, and is settled "+
					"afterwards: both failed and settled")
			require.False(t, replayFailed, "replay of an accepted "+
				"HTLC must be accepted again")
		})
	}
}
