package paymentsdb

// Standalone reproduction of the C16 finding "duplicate attempt id is silently
// overwritten by the KV payments store" (no dependency on the /verif harness
// runtime). Overlay it into payments/db and run:
//
//   cat > /tmp/ov.json <<EOF2
//   {"Replace": {"/repo/payments/db/zz_c16_dupid_repro_test.go":
//                "/verif/findings/C16_dupid_repro_test.go"}}
//   EOF2
//   cd /repo && go test -overlay /tmp/ov.json -run TestC16DupAttemptIDRepro \
//       -count=1 ./payments/db/
//
// On HEAD the KV sub-tests fail (the store admits 945+555+945 = 2445 msat of
// never-failed attempts for a 1500 msat payment and answers differently from
// the SQL store); with RegisterAttempt rejecting an attempt id that is already
// recorded for the payment they pass.

import (
	"context"
	"database/sql"
	"testing"
	"time"

	"github.com/lightningnetwork/lnd/kvdb"
	"github.com/lightningnetwork/lnd/lntypes"
	"github.com/lightningnetwork/lnd/lnwire"
	"github.com/lightningnetwork/lnd/record"
	"github.com/lightningnetwork/lnd/routing/route"
	"github.com/lightningnetwork/lnd/sqldb"
)

func c16ReproAttempt(id uint64, amt, total lnwire.MilliSatoshi, key byte,
	h lntypes.Hash) *HTLCAttemptInfo {

	// Compressed secp256k1 generator: any valid-looking vertex will do,
	// the stores never parse it.
	v := route.Vertex{0x02, 0x79, 0xbe, 0x66, 0x7e, 0xf9, 0xdc, 0xbb, 0xac,
		0x55, 0xa0, 0x62, 0x95, 0xce, 0x87, 0x0b, 0x07, 0x02, 0x9b, 0xfc,
		0xdb, 0x2d, 0xce, 0x28, 0xd9, 0x59, 0xf2, 0x81, 0x5b, 0x16, 0xf8,
		0x17, 0x98}
	a := &HTLCAttemptInfo{
		AttemptID:   id,
		AttemptTime: time.Unix(1700000000+int64(key), 0),
		Hash:        &h,
		Route: route.Route{
			SourcePubKey:  v,
			TotalAmount:   amt,
			TotalTimeLock: 100,
			Hops: []*route.Hop{{
				PubKeyBytes:      v,
				ChannelID:        7,
				OutgoingTimeLock: 90,
				AmtToForward:     amt,
				MPP:              record.NewMPP(total, [32]byte{4}),
			}},
		},
	}
	// A distinct session key per attempt (the SQL schema requires it).
	a.sessionKey[0] = 1
	a.sessionKey[31] = key

	return a
}

func TestC16DupAttemptIDRepro(t *testing.T) {
	ctx := context.Background()

	backend, err := kvdb.GetBoltBackend(&kvdb.BoltBackendConfig{
		DBPath: t.TempDir(), DBFileName: "kv.db", NoFreelistSync: true,
		DBTimeout: kvdb.DefaultDBTimeout,
	})
	if err != nil {
		t.Fatal(err)
	}
	defer backend.Close()
	kv, err := NewKVStore(backend)
	if err != nil {
		t.Fatal(err)
	}

	base := sqldb.NewTestSqliteDB(t).BaseDB
	sq, err := NewSQLStore(
		&SQLStoreConfig{QueryCfg: sqldb.DefaultSQLiteConfig()},
		sqldb.NewTransactionExecutor(base, func(tx *sql.Tx) SQLQueries {
			return base.WithTx(tx)
		}),
	)
	if err != nil {
		t.Fatal(err)
	}

	const value = lnwire.MilliSatoshi(1500)

	type step struct {
		id  uint64
		amt lnwire.MilliSatoshi
	}
	scenarios := []struct {
		name      string
		failFirst bool
		steps     []step
	}{
		{
			// a(945) in flight, a again (555), b(945).
			name:  "first_in_flight",
			steps: []step{{1, 945}, {1, 555}, {2, 945}},
		},
		{
			// a(945) failed, a again (945): recorded as already
			// failed by the KV store, so b(945) is admitted on top.
			name:      "first_failed",
			failFirst: true,
			steps:     []step{{1, 945}, {1, 945}, {2, 945}},
		},
	}

	for si, sc := range scenarios {
		for name, db := range map[string]DB{"kv": kv, "sql": sq} {
			t.Run(sc.name+"/"+name, func(t *testing.T) {
				h := lntypes.Hash{byte(10 + si)}
				err := db.InitPayment(ctx, h, &PaymentCreationInfo{
					PaymentIdentifier: h, Value: value,
					CreationTime: time.Unix(1700000000, 0),
				})
				if err != nil {
					t.Fatalf("init: %v", err)
				}

				// Ledger of what the store admitted and nobody
				// ever failed or replaced through a documented
				// call.
				var live lnwire.MilliSatoshi
				seen := map[uint64]bool{}
				for k, s := range sc.steps {
					id := uint64(100*si) + s.id
					if name == "sql" {
						// attempt ids are global in SQL
						id += 1000
					}
					key := byte(1 + 10*si + k)
					if name == "sql" {
						key += 100
					}
					_, err := db.RegisterAttempt(ctx, h,
						c16ReproAttempt(id, s.amt, value, key, h))
					t.Logf("%s RegisterAttempt(id=%d, amt=%d) -> %v",
						name, id, s.amt, err)

					if seen[id] && err == nil {
						t.Errorf("%s: RegisterAttempt admitted "+
							"attempt id %d although it is "+
							"already recorded for the "+
							"payment", name, id)
					}
					if err == nil {
						live += s.amt
					}
					seen[id] = true

					if k == 0 && sc.failFirst {
						_, err := db.FailAttempt(ctx, h, id,
							&HTLCFailInfo{
								Reason:   HTLCFailInternal,
								FailTime: time.Unix(1700000001, 0),
							})
						if err != nil {
							t.Fatalf("fail: %v", err)
						}
						live -= s.amt
					}
				}
				if live > value {
					t.Errorf("%s: admitted, never failed attempt "+
						"amounts %d exceed the payment value %d",
						name, live, value)
				}

				p, err := db.FetchPayment(ctx, h)
				if err != nil {
					t.Fatalf("fetch: %v", err)
				}
				for _, a := range p.HTLCs {
					t.Logf("%s record: id=%d amt=%d failed=%v", name,
						a.AttemptID, a.Route.ReceiverAmt(),
						a.Failure != nil)
				}
			})
		}
	}
}
