package sweep

// Standalone reproduction (no dependency on the /verif harness runtime) of the
// C18 observation "a pending input that is offered again loses the fee rate it
// carried". Reported as a DIAGNOSTIC by the C18 lifecycle unit
// (life_decrease_carried_rate_dropped_by_caller_reoffer_without_starting_rate),
// because the decrease follows a call of the caller; whether callers are
// expected to pass the rate themselves is for the maintainers to decide.
// Overlay into sweep and run:
//
//   cat > /tmp/ov.json <<EOF2
//   {"Replace": {"/repo/sweep/zz_c18_reoffer_repro_test.go":
//                "/verif/findings/C18_reoffer_drops_carried_rate_repro_test.go"}}
//   EOF2
//   cd /repo && go test -overlay /tmp/ov.json -run 'TestC18ReproReoffer' -count=1 -v ./sweep/
//
// Mechanism. When a sweep fails, UtxoSweeper.markInputsPublishFailed keeps the
// rate the retry has to resume from in the input's Params.StartingFeeRate (and
// handleNewInput puts the rate of an own sweep found in the mempool there).
// UtxoSweeper.handleExistingInput (SweepInput of an input that is already
// pending - contractcourt does this for anchors and on resolver relaunch, with
// Params that never carry a StartingFeeRate) and handleUpdateReq
// (UpdateParams / bumpfee without sat_per_vbyte) replace the whole Params
// struct: the carried rate is gone and the next attempt starts from the fee
// estimator, below fee rates that were already published for the input.
//
// TestC18ReproReofferAfterFailedBump: published at 1000, 1468, 1937 sat/kw
// (blocks 100-102); the replacement of block 103 (2405 sat/kw) passes
// testmempoolaccept and is refused by the wallet with a backend error ->
// TxFailed, retry rate 2405, stored in Params.StartingFeeRate; the caller
// offers the input again with its unchanged budget / deadline
// (StartingFeeRate none); block 104 hands a tx paying 1000 sat/kw to the
// mempool and publishes it. Without the re-offer (control) block 104 continues
// at 2405 sat/kw.

import (
	"errors"
	"testing"

	"github.com/btcsuite/btcd/btcutil/v2"
	"github.com/btcsuite/btcd/chainhash/v2"
	"github.com/btcsuite/btcd/txscript/v2"
	"github.com/btcsuite/btcd/wire/v2"
	"github.com/lightningnetwork/lnd/chainntnfs"
	"github.com/lightningnetwork/lnd/fn/v2"
	"github.com/lightningnetwork/lnd/input"
	"github.com/lightningnetwork/lnd/lntypes"
	"github.com/lightningnetwork/lnd/lnwallet"
	"github.com/lightningnetwork/lnd/lnwallet/chainfee"
	"github.com/lightningnetwork/lnd/tlv"
)

type c18ReofferInput struct {
	op   wire.OutPoint
	desc input.SignDescriptor
}

func (i *c18ReofferInput) OutPoint() wire.OutPoint               { return i.op }
func (i *c18ReofferInput) RequiredTxOut() *wire.TxOut            { return nil }
func (i *c18ReofferInput) RequiredLockTime() (uint32, bool)      { return 0, false }
func (i *c18ReofferInput) WitnessType() input.WitnessType        { return input.TaprootLocalCommitSpend }
func (i *c18ReofferInput) SignDesc() *input.SignDescriptor       { return &i.desc }
func (i *c18ReofferInput) BlocksToMaturity() uint32              { return 0 }
func (i *c18ReofferInput) HeightHint() uint32                    { return 90 }
func (i *c18ReofferInput) UnconfParent() *input.TxInfo           { return nil }
func (i *c18ReofferInput) ResolutionBlob() fn.Option[tlv.Blob]   { return fn.None[tlv.Blob]() }
func (i *c18ReofferInput) Preimage() fn.Option[lntypes.Preimage] { return fn.None[lntypes.Preimage]() }
func (i *c18ReofferInput) CraftInputScript(input.Signer, *wire.MsgTx, *txscript.TxSigHashes,
	txscript.PrevOutputFetcher, int) (*input.Script, error) {

	size, _, err := input.TaprootLocalCommitSpend.SizeUpperBound()
	if err != nil {
		return nil, err
	}
	return &input.Script{Witness: wire.TxWitness{make([]byte, int(size)-2)}}, nil
}

type c18ReofferWallet struct {
	Wallet
	value     int64
	height    int32
	rates     []int64 // fee rate (sat/kw, of the tx itself) of every tx handed over
	heights   []int32
	publishes int
	failAt    int // n-th PublishTransaction call fails with a backend error
}

func (w *c18ReofferWallet) note(tx *wire.MsgTx) {
	var out int64
	for _, o := range tx.TxOut {
		out += o.Value
	}
	weight := int64(tx.SerializeSizeStripped()*3 + tx.SerializeSize())
	w.rates = append(w.rates, (w.value-out)*1000/weight)
	w.heights = append(w.heights, w.height)
}
func (w *c18ReofferWallet) BackEnd() string { return "bitcoind" }
func (w *c18ReofferWallet) CheckMempoolAcceptance(tx *wire.MsgTx) error {
	w.note(tx)
	return nil
}
func (w *c18ReofferWallet) PublishTransaction(tx *wire.MsgTx, _ string) error {
	w.note(tx)
	w.publishes++
	if w.publishes == w.failAt {
		return errors.New("backend: connection reset")
	}
	return nil
}
func (w *c18ReofferWallet) WithCoinSelectLock(f func() error) error { return f() }
func (w *c18ReofferWallet) CancelRebroadcast(chainhash.Hash)        {}
func (w *c18ReofferWallet) ListUnspentWitnessFromDefaultAccount(int32, int32) ([]*lnwallet.Utxo, error) {
	return nil, nil
}

type c18ReofferNotifier struct {
	chainntnfs.ChainNotifier
}

func (c18ReofferNotifier) RegisterSpendNtfn(*wire.OutPoint, []byte, uint32) (*chainntnfs.SpendEvent, error) {
	return &chainntnfs.SpendEvent{Spend: make(chan *chainntnfs.SpendDetail), Cancel: func() {}}, nil
}

type c18ReofferStore struct {
	txs map[chainhash.Hash]*TxRecord
}

func (s *c18ReofferStore) IsOurTx(h chainhash.Hash) bool { _, ok := s.txs[h]; return ok }
func (s *c18ReofferStore) StoreTx(tr *TxRecord) error    { s.txs[tr.Txid] = tr; return nil }
func (s *c18ReofferStore) ListSweeps() ([]chainhash.Hash, error) {
	return nil, nil
}
func (s *c18ReofferStore) GetTx(h chainhash.Hash) (*TxRecord, error) {
	tr, ok := s.txs[h]
	if !ok {
		return nil, ErrTxNotFound
	}
	return tr, nil
}
func (s *c18ReofferStore) DeleteTx(h chainhash.Hash) error { delete(s.txs, h); return nil }

// c18ReofferLoop couples a real UtxoSweeper with a real TxPublisher; the test
// plays the sweeper's collector synchronously.
type c18ReofferLoop struct {
	t    *testing.T
	s    *UtxoSweeper
	tp   *TxPublisher
	w    *c18ReofferWallet
	subs []<-chan *BumpResult
	sets []InputSet
}

func (l *c18ReofferLoop) Broadcast(req *BumpRequest) <-chan *BumpResult {
	l.subs = append(l.subs, l.tp.Broadcast(req))
	var ins []SweeperInput
	for _, in := range req.Inputs {
		ins = append(ins, *l.s.inputs[in.OutPoint()])
	}
	set, err := NewBudgetInputSet(ins, req.DeadlineHeight, fn.None[AuxSweeper]())
	if err != nil {
		l.t.Fatalf("input set: %v", err)
	}
	l.sets = append(l.sets, set)

	// the sweeper's monitor goroutine of this request stays idle.
	return make(chan *BumpResult)
}

func (l *c18ReofferLoop) deliver() {
	for again := true; again; {
		again = false
		for i, sub := range l.subs {
			select {
			case res := <-sub:
				again = true
				l.t.Logf("height %d: result %v fee rate %v err %v", l.w.height, res.Event, res.FeeRate, res.Err)
				if err := l.s.handleBumpEvent(&bumpResp{result: res, set: l.sets[i]}); err != nil {
					l.t.Logf("handleBumpEvent: %v", err)
				}
			default:
			}
		}
	}
}

func (l *c18ReofferLoop) block(h int32) {
	l.w.height = h
	l.s.currentHeight = h
	l.s.sweepPendingInputs(l.s.updateSweeperInputs())
	l.deliver()
	l.tp.currentHeight.Store(h)
	l.tp.processRecords()
	l.tp.wg.Wait()
	l.deliver()
}

func c18ReofferRun(t *testing.T, reoffer bool) []int64 {
	est := chainfee.NewStaticEstimator(1000, 253)
	w := &c18ReofferWallet{value: 1_000_000, failAt: 4}
	tp := NewTxPublisher(TxPublisherConfig{Wallet: w, Estimator: est, Notifier: c18ReofferNotifier{}})
	tp.currentHeight.Store(100)
	l := &c18ReofferLoop{t: t, tp: tp, w: w}
	l.s = New(&UtxoSweeperConfig{
		GenSweepScript: func() fn.Result[lnwallet.AddrWithKey] {
			return fn.Ok(lnwallet.AddrWithKey{DeliveryAddress: append([]byte{0x00, 0x14}, make([]byte, 20)...)})
		},
		FeeEstimator:         est,
		Wallet:               w,
		Notifier:             c18ReofferNotifier{},
		Store:                &c18ReofferStore{txs: map[chainhash.Hash]*TxRecord{}},
		MaxInputsPerTx:       DefaultMaxInputsPerTx,
		MaxFeeRate:           100,
		Aggregator:           NewBudgetAggregator(est, DefaultMaxInputsPerTx, fn.None[AuxSweeper]()),
		Publisher:            l,
		NoDeadlineConfTarget: 1008,
	})
	l.s.currentHeight = 100
	t.Cleanup(func() {
		close(l.s.quit)
		l.s.wg.Wait()
		close(tp.quit)
	})

	inp := &c18ReofferInput{
		op:   wire.OutPoint{Hash: chainhash.Hash{1}},
		desc: input.SignDescriptor{Output: &wire.TxOut{Value: w.value, PkScript: make([]byte, 34)}},
	}
	params := Params{Budget: btcutil.Amount(5000), DeadlineHeight: fn.Some(int32(120))}
	offer := func() {
		// what the collector does with the message of SweepInput.
		msg := &sweepInputMessage{input: inp, params: params, resultChan: make(chan Result, 1)}
		if err := l.s.handleNewInput(msg); err != nil {
			t.Fatalf("handleNewInput: %v", err)
		}
	}
	offer()
	for _, h := range []int32{100, 101, 102, 103} {
		l.block(h)
	}
	pi := l.s.inputs[inp.op]
	t.Logf("after block 103: state %v, params %v", pi.state, pi.params)
	if reoffer {
		offer()
		t.Logf("after the re-offer: state %v, params %v", pi.state, pi.params)
	}
	l.block(104)
	for i, r := range w.rates {
		t.Logf("height %d: tx handed to the wallet pays %d sat/kw", w.heights[i], r)
	}
	return w.rates
}

func c18ReofferCheck(t *testing.T, rates []int64) {
	t.Helper()
	prev := int64(0)
	for _, r := range rates {
		// 3 sat/kw: integer rounding of fee = rate * weight / 1000.
		if r+3 < prev {
			t.Errorf("a sweep paying %d sat/kw is handed to the wallet after the input had been offered at %d sat/kw", r, prev)
		}
		if r > prev {
			prev = r
		}
	}
}

// Control: the failed bump alone does not lose the rate.
func TestC18ReproReofferControlNoReoffer(t *testing.T) {
	c18ReofferCheck(t, c18ReofferRun(t, false))
}

// The same history with SweepInput called again for the pending input.
func TestC18ReproReofferAfterFailedBump(t *testing.T) {
	c18ReofferCheck(t, c18ReofferRun(t, true))
}
