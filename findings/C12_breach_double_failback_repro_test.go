package contractcourt

// Directed reproduction of finding KF-C12-2 (found by the C12 monitor in
// /verif). Plain test of package contractcourt; run with
//
//	go test ./contractcourt -run TestReproC12BreachDoubleFailback -count=1
//
// It FAILS on the pinned tree.
//
// Scenario: the peer broadcasts a revoked commitment while we are in
// StateDefault. One HTLC we offered is dust on the peer's commitment.
// stateStep(StateDefault) fails the dust HTLC back (HtlcFailDustAction), then
// the breach branch of stateStep(StateContractClosed) fails back *every*
// offered HTLC of the remote commitment set again: the switch receives two
// fail resolutions for the same HTLC index.

import (
	"testing"
	"time"

	"github.com/btcsuite/btcd/chainhash/v2"
	"github.com/btcsuite/btcd/wire/v2"
	"github.com/lightningnetwork/lnd/channeldb"
	"github.com/lightningnetwork/lnd/fn/v2"
	"github.com/stretchr/testify/require"
)

func TestReproC12BreachDoubleFailback(t *testing.T) {
	log := &mockArbitratorLog{
		state:     StateDefault,
		newStates: make(chan ArbitratorState, 10),
		resolvers: make(map[ContractResolver]struct{}),
	}

	chanArbCtx, err := createTestChannelArbitrator(t, log)
	require.NoError(t, err)
	chanArb := chanArbCtx.chanArb

	resolutions := make(chan []ResolutionMsg, 10)
	chanArb.cfg.DeliverResolutionMsg = func(msgs ...ResolutionMsg) error {
		resolutions <- msgs
		return nil
	}

	require.NoError(t, chanArb.Start(nil, newBeatFromHeight(100)))
	defer chanArb.Stop()

	const dustIdx, liveIdx = 3, 4
	dust := channeldb.HTLC{
		Incoming: false, Amt: 100_000, HtlcIndex: dustIdx,
		OutputIndex: -1, RefundTimeout: 1000,
	}
	live := channeldb.HTLC{
		Incoming: false, Amt: 5_000_000, HtlcIndex: liveIdx,
		OutputIndex: 2, RefundTimeout: 1000,
	}

	chanArb.cfg.ChainEvents.ContractBreach <- &BreachCloseInfo{
		BreachResolution: &BreachResolution{
			FundingOutPoint: wire.OutPoint{},
		},
		CommitSet: CommitSet{
			ConfCommitKey: fn.Some(RemoteHtlcSet),
			HtlcSets: map[HtlcSetKey][]channeldb.HTLC{
				RemoteHtlcSet: {dust, live},
			},
		},
		CommitHash: chainhash.Hash{},
	}
	chanArbCtx.AssertStateTransitions(
		StateContractClosed, StateWaitingFullResolution,
	)

	fails := map[uint64]int{}
	timeout := time.After(2 * time.Second)
loop:
	for {
		select {
		case msgs := <-resolutions:
			for _, m := range msgs {
				if m.Failure != nil {
					fails[m.HtlcIndex]++
				}
			}
		case <-timeout:
			break loop
		}
	}

	// Let the breach resolver finish so the arbitrator can stop cleanly.
	select {
	case <-chanArbCtx.breachSubscribed:
		close(chanArbCtx.breachResolutionChan)
	case <-time.After(time.Second):
	}

	require.Equal(t, 1, fails[liveIdx], "non-dust offered HTLC")
	require.Equal(t, 1, fails[dustIdx], "dust offered HTLC %d must be "+
		"failed back exactly once on a breach close, got %d "+
		"fail-backs", dustIdx, fails[dustIdx])
}
