package htlcswitch

// Directed reproduction of known finding KF-C07-1 (property C07).
//
// At start-up the circuit map first purges the circuits (and keystones) of
// fully closed channels (cleanClosedChannels) and then rolls back the
// keystones of every open channel whose outgoing HTLC did not reach a
// commitment (trimAllOpenCircuits -> TrimOpenCircuits(chan, start =
// NextLocalHtlcIndex)). TrimOpenCircuits scans `for i := start; ; i++` and
// stops at the first id that has no keystone. If the purge removed the
// keystone at `start` (its circuit came in over a channel that is now fully
// closed), the scan stops immediately and every later uncommitted keystone of
// that outgoing channel stays OPEN: its circuit is not rolled back to
// half-open, a re-forward of the incoming HTLC is dropped ("waiting for the
// remote peer") instead of being failed back.
//
// This file has no dependency on the /verif harness runtime. Run it with an
// overlay, e.g.
//
//	cat > /tmp/ov.json <<E
//	{"Replace": {"/repo/htlcswitch/zz_c07_trim_hole_repro_test.go":
//	             "/verif/findings/C07_trim_hole_repro_test.go"}}
//	E
//	cd /repo && go test -overlay /tmp/ov.json ./htlcswitch \
//	    -run TestVerifFindingC07TrimHole -count=1 -v
//
// The test FAILS on a tree that has the defect (sub-test
// "incoming_channel_of_lower_keystone_fully_closed") and passes once
// TrimOpenCircuits no longer stops at a gap. The control sub-test (same
// scenario, no channel closed) passes on both.

import (
	"errors"
	"testing"

	"github.com/btcsuite/btcd/btcec/v2"
	"github.com/lightningnetwork/lnd/chanstate"
	"github.com/lightningnetwork/lnd/htlcswitch/hop"
	"github.com/lightningnetwork/lnd/kvdb"
	"github.com/lightningnetwork/lnd/lnwire"
	"github.com/stretchr/testify/require"
)

func TestVerifFindingC07TrimHole(t *testing.T) {
	run := func(t *testing.T, closeY bool) {
		// Channel X is a real channel; none of its outgoing HTLCs has
		// been signed, so NextLocalHtlcIndex() == 0.
		scidX := lnwire.NewShortChanIDFromInt(100<<40 | 1<<16)
		scidY := lnwire.NewShortChanIDFromInt(101<<40 | 2<<16)
		scidZ := lnwire.NewShortChanIDFromInt(102<<40 | 3<<16)
		alice, _, err := createTestChannel(
			t, alicePrivKey, bobPrivKey, 5*100000000, 5*100000000,
			0, 0, scidX,
		)
		require.NoError(t, err)
		chanDB := testChannelStateDB(t, alice.channel)
		next, err := alice.channel.State().NextLocalHtlcIndex()
		require.NoError(t, err)
		require.Equal(t, uint64(0), next)

		dir := t.TempDir()
		openDB := func() kvdb.Backend {
			db, err := kvdb.GetBoltBackend(&kvdb.BoltBackendConfig{
				DBPath: dir, DBFileName: "circuits.db",
				NoFreelistSync: true, DBTimeout: kvdb.DefaultDBTimeout,
			})
			require.NoError(t, err)
			return db
		}
		yFullyClosed := false
		cfg := func(db kvdb.Backend) *CircuitMapConfig {
			return &CircuitMapConfig{
				DB:                   db,
				FetchAllOpenChannels: chanDB.FetchAllOpenChannels,
				FetchClosedChannels: func(bool) (
					[]*chanstate.ChannelCloseSummary, error) {

					if !yFullyClosed {
						return nil, nil
					}
					return []*chanstate.ChannelCloseSummary{{
						ShortChanID: scidY, IsPending: false,
					}}, nil
				},
				ExtractErrorEncrypter: func(*btcec.PublicKey) (
					hop.ErrorEncrypter, lnwire.FailCode) {

					return NewMockObfuscator(), lnwire.CodeNone
				},
				CheckResolutionMsg: func(*CircuitKey) error {
					return errors.New("no resolution message")
				},
			}
		}

		db := openDB()
		cm, err := NewCircuitMap(cfg(db))
		require.NoError(t, err)

		// Circuit A comes in over channel Y, circuit B over channel Z;
		// both are forwarded over channel X and get the outgoing ids 0
		// and 1, in order, as a link assigns them.
		inA := CircuitKey{ChanID: scidY, HtlcID: 1}
		inB := CircuitKey{ChanID: scidZ, HtlcID: 1}
		outA := CircuitKey{ChanID: scidX, HtlcID: 0}
		outB := CircuitKey{ChanID: scidX, HtlcID: 1}
		mk := func(in CircuitKey) *PaymentCircuit {
			return &PaymentCircuit{
				Incoming: in, PaymentHash: [32]byte{1},
				IncomingAmount: 2000, OutgoingAmount: 1000,
				ErrorEncrypter: NewMockObfuscator(),
			}
		}
		acts, err := cm.CommitCircuits(mk(inA), mk(inB))
		require.NoError(t, err)
		require.Len(t, acts.Adds, 2)
		require.NoError(t, cm.OpenCircuits(
			Keystone{InKey: inA, OutKey: outA},
			Keystone{InKey: inB, OutKey: outB},
		))

		// The node stops before channel X signs a commitment. While it
		// is down (or before), channel Y becomes fully closed.
		require.NoError(t, db.Close())
		yFullyClosed = closeY

		db = openDB()
		defer db.Close()
		cm, err = NewCircuitMap(cfg(db))
		require.NoError(t, err)

		if closeY {
			require.Nil(t, cm.LookupCircuit(inA),
				"circuit of the fully closed channel must be purged")
		}

		// Outgoing HTLC 1 of channel X never reached a commitment
		// (NextLocalHtlcIndex is still 0): circuit B must be known,
		// half-open, and a re-forward must be failed back.
		b := cm.LookupCircuit(inB)
		require.NotNil(t, b, "durably recorded circuit B must survive")
		require.Nil(t, cm.LookupOpenCircuit(outB),
			"keystone (X,1) did not reach a commitment and must be trimmed")
		require.False(t, b.HasKeystone())

		acts, err = cm.CommitCircuits(mk(inB))
		require.NoError(t, err)
		require.Len(t, acts.Fails, 1,
			"re-forward of B must be failed back, got adds=%d drops=%d",
			len(acts.Adds), len(acts.Drops))
	}

	t.Run("control_no_channel_closed", func(t *testing.T) { run(t, false) })
	t.Run("incoming_channel_of_lower_keystone_fully_closed", func(t *testing.T) {
		run(t, true)
	})
}
