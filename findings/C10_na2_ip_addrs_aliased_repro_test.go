package lnwire

// Standalone reproduction of a C10 finding (no dependency on the /verif harness
// runtime): node_announcement_2 (message type 269) with two or more IPv4 (TLV
// record 5) or IPv6 (TLV record 7) addresses does not round-trip.
//
// ipv4AddrsDecoder / ipv6AddrsDecoder (lnwire/node_announcement_2.go) read
// every address into ONE array declared outside the loop
//
//	var ( ...; ip [4]byte; port [2]byte )
//	for len(addrs) < numAddrs {
//		r.Read(ip[:]) ...
//		addrs = append(addrs, &net.TCPAddr{IP: ip[:], ...})
//
// and store a slice of that array in every net.TCPAddr, so after the loop all
// decoded addresses alias the same backing array and carry the LAST address
// (the ports, copied by value, stay correct). A well-formed value therefore
// decodes to a different value, and decode-then-encode emits different bytes:
// the property "every well-formed message value ... decodes back to an equal
// value" is violated. lnwire's own generator only ever draws ONE address per
// list, which is why TestLightningWireProtocol does not notice.
//
// Exact input (131 bytes: type 269, features 00 00, block height 5, node id,
// ipv4 record 05 0c = 1.2.3.4:1 and 5.6.7.8:2, schnorr signature record a0 40):
//
//	010d 0000 0204 00000005 0421 02 0000..00(32)
//	050c 01020304 0001 05060708 0002
//	a040 00..00(64)
//
// decodes to [5.6.7.8:1 5.6.7.8:2] and re-encodes with 050c 05060708 0001
// 05060708 0002.
//
// Overlay it into /repo/lnwire and run:
//
//	cat > /tmp/ov.json <<EOF2
//	{"Replace": {"/repo/lnwire/zz_c10_na2_repro_test.go":
//	             "/verif/findings/C10_na2_ip_addrs_aliased_repro_test.go"}}
//	EOF2
//	cd /repo && go test -overlay /tmp/ov.json -run 'TestC10NodeAnn2.*Repro' -count=1 ./lnwire/
//
// Both tests FAIL on HEAD and pass with
// findings/C10_na2_ip_addrs_aliased_candidate_fix.diff.

import (
	"bytes"
	"encoding/hex"
	"net"
	"strings"
	"testing"

	"github.com/lightningnetwork/lnd/tlv"
)

// TestC10NodeAnn2TwoIPv4BytesRepro: bytes -> message -> bytes on the exact
// input above.
func TestC10NodeAnn2TwoIPv4BytesRepro(t *testing.T) {
	in, err := hex.DecodeString("010d" + "0000" + "020400000005" +
		"042102" + strings.Repeat("00", 32) +
		"050c" + "010203040001" + "050607080002" +
		"a040" + strings.Repeat("00", 64))
	if err != nil {
		t.Fatal(err)
	}
	msg, err := ReadMessage(bytes.NewReader(in), 0)
	if err != nil {
		t.Fatalf("rejected: %v", err)
	}
	na := msg.(*NodeAnnouncement2)
	got := na.IPV4Addrs.UnwrapOrFail(t).Val
	if len(got) != 2 {
		t.Fatalf("want 2 addresses, got %d", len(got))
	}
	if got[0].String() != "1.2.3.4:1" || got[1].String() != "5.6.7.8:2" {
		t.Errorf("decoded addresses %v %v, want 1.2.3.4:1 5.6.7.8:2", got[0], got[1])
	}
	var out bytes.Buffer
	if _, err := WriteMessage(&out, msg, 0); err != nil {
		t.Fatal(err)
	}
	if !bytes.Equal(in, out.Bytes()) {
		t.Errorf("decode-then-encode does not reproduce the input:\n in  %x\n out %x", in, out.Bytes())
	}
}

// TestC10NodeAnn2IPAddrsValueRepro: value -> bytes -> value for IPv4 and IPv6
// lists of two addresses.
func TestC10NodeAnn2IPAddrsValueRepro(t *testing.T) {
	mk := func() *NodeAnnouncement2 {
		m := &NodeAnnouncement2{
			Features:          tlv.NewRecordT[tlv.TlvType0](*NewRawFeatureVector()),
			BlockHeight:       tlv.NewPrimitiveRecord[tlv.TlvType2](uint32(5)),
			ExtraSignedFields: make(map[uint64][]byte),
		}
		m.NodeID.Val[0] = 2
		m.Signature.Val.ForceSchnorr()
		return m
	}
	roundTrip := func(m *NodeAnnouncement2) *NodeAnnouncement2 {
		var b bytes.Buffer
		if _, err := WriteMessage(&b, m, 0); err != nil {
			t.Fatal(err)
		}
		m2, err := ReadMessage(bytes.NewReader(b.Bytes()), 0)
		if err != nil {
			t.Fatalf("the message's own encoding is rejected: %v", err)
		}
		return m2.(*NodeAnnouncement2)
	}

	v4 := mk()
	rec4 := tlv.ZeroRecordT[tlv.TlvType5, IPV4Addrs]()
	rec4.Val = IPV4Addrs{
		{IP: net.IP{1, 2, 3, 4}, Port: 1},
		{IP: net.IP{5, 6, 7, 8}, Port: 2},
	}
	v4.IPV4Addrs = tlv.SomeRecordT(rec4)
	got4 := roundTrip(v4).IPV4Addrs.UnwrapOrFail(t).Val
	for i, want := range rec4.Val {
		if !got4[i].IP.Equal(want.IP) || got4[i].Port != want.Port {
			t.Errorf("ipv4 address %d: want %v, got %v", i, want, got4[i])
		}
	}

	v6 := mk()
	rec6 := tlv.ZeroRecordT[tlv.TlvType7, IPV6Addrs]()
	rec6.Val = IPV6Addrs{
		{IP: net.ParseIP("2001:db8::1"), Port: 1},
		{IP: net.ParseIP("2001:db8::2"), Port: 2},
	}
	v6.IPV6Addrs = tlv.SomeRecordT(rec6)
	got6 := roundTrip(v6).IPV6Addrs.UnwrapOrFail(t).Val
	for i, want := range rec6.Val {
		if !got6[i].IP.Equal(want.IP) || got6[i].Port != want.Port {
			t.Errorf("ipv6 address %d: want %v, got %v", i, want, got6[i])
		}
	}
}
