package discovery

// Standalone reproduction of the C20 finding "strict zombie pruning records
// node 1's key in node 2's slot of the zombie index" (no dependency on the
// /verif harness runtime; it only uses the discovery package's own test
// helpers plus a real graph.Builder over a real graph DB). Overlay it into
// discovery and run:
//
//   cat > /tmp/ov.json <<EOF2
//   {"Replace": {"/repo/discovery/zz_c20_strict_zombie_repro_test.go":
//                "/verif/findings/C20_strict_zombie_wrong_key_repro_test.go"}}
//   EOF2
//   cd /repo && go test -overlay /tmp/ov.json -run TestC20StrictZombie \
//       -count=1 ./discovery/
//
// graph/db makeZombiePubkeys (kv_store.go, shared by sql_store.go) documents
// its results as (pubkey1, pubkey2) | (pubkey1, blank) | (blank, pubkey2), but
// the third case returns `[33]byte{}, node1`: when a channel is pruned with
// strict zombie pruning (routing.strictgraphpruning, always on with neutrino)
// because node 2's policy is missing or the older one, the zombie index entry
// carries NODE 1's key in the slot of node 2.
//
// AuthenticatedGossiper.processZombieUpdate verifies a channel_update whose
// direction bit is 1 under "NodeKey2Bytes" of that entry. Consequences, both
// shown below on the real gossiper + builder + graph DB:
//
//  1. a fresh channel_update flagged as node 2's direction but signed by
//     NODE 1 verifies: the channel is removed from the zombie index and the
//     update is stashed in prematureChannelUpdates for replay - although it is
//     not signed by the node owning that direction, and although the whole
//     point of the single-sided entry is that node 1 cannot resurrect the
//     channel on its own;
//  2. the authentic fresh channel_update of node 2 - the only message that is
//     supposed to resurrect the channel - is refused with "unable to verify
//     channel update signature" (the channel can never come back).
//
// On HEAD all three tests fail; with `return [33]byte{}, node2` in
// makeZombiePubkeys (candidate fix C20_strict_zombie_wrong_key_candidate_fix.diff)
// they pass.

import (
	"bytes"
	"context"
	"fmt"
	"testing"
	"time"

	"github.com/btcsuite/btcd/btcec/v2"
	"github.com/btcsuite/btcd/btcec/v2/ecdsa"
	"github.com/btcsuite/btcd/chaincfg/v2"
	"github.com/lightningnetwork/lnd/channeldb"
	"github.com/lightningnetwork/lnd/graph"
	graphdb "github.com/lightningnetwork/lnd/graph/db"
	"github.com/lightningnetwork/lnd/graph/db/models"
	"github.com/lightningnetwork/lnd/lnpeer"
	"github.com/lightningnetwork/lnd/lntest/mock"
	"github.com/lightningnetwork/lnd/lnwire"
	"github.com/lightningnetwork/lnd/netann"
	"github.com/lightningnetwork/lnd/routing/route"
	"github.com/lightningnetwork/lnd/ticker"
	"github.com/stretchr/testify/require"
)

type c20ReproCtx struct {
	t        *testing.T
	graph    *graphdb.ChannelGraph
	vgraph   *graphdb.VersionedGraph
	gossiper *AuthenticatedGossiper
	relayed  chan lnwire.Message

	// node[0] < node[1] lexicographically, as BOLT 7 orders them.
	node [2]*btcec.PrivateKey
	scid lnwire.ShortChannelID
}

func c20ReproPub(k *btcec.PrivateKey) [33]byte {
	var p [33]byte
	copy(p[:], k.PubKey().SerializeCompressed())

	return p
}

func c20ReproSign(t *testing.T, k *btcec.PrivateKey, m lnwire.Message) lnwire.Sig {
	signer := mock.SingleSigner{Privkey: k}
	sig, err := netann.SignAnnouncement(&signer, testKeyLoc, m)
	require.NoError(t, err)
	s, err := lnwire.NewSigFromSignature(sig)
	require.NoError(t, err)

	return s
}

func (c *c20ReproCtx) update(dir int, signer *btcec.PrivateKey,
	ts time.Time) *lnwire.ChannelUpdate1 {

	u := &lnwire.ChannelUpdate1{
		ChainHash:       *chaincfg.MainNetParams.GenesisHash,
		ShortChannelID:  c.scid,
		Timestamp:       uint32(ts.Unix()),
		MessageFlags:    lnwire.ChanUpdateRequiredMaxHtlc,
		ChannelFlags:    lnwire.ChanUpdateChanFlags(dir),
		TimeLockDelta:   40,
		HtlcMinimumMsat: 100,
		HtlcMaximumMsat: 200,
		BaseFee:         1,
		FeeRate:         1,
	}
	u.Signature = c20ReproSign(c.t, signer, u)

	return u
}

// send hands a message to the gossiper as coming from a remote peer and
// reports (result, true) or (nil, false) when the gossiper neither accepted
// nor rejected it within the timeout (i.e. it stashed it for later).
func (c *c20ReproCtx) send(m lnwire.Message) (error, bool) {
	peer := &mockPeer{pk: remoteKeyPriv1.PubKey()}
	fut := c.gossiper.ProcessRemoteAnnouncement(c.t.Context(), m, peer)
	wctx, cancel := context.WithTimeout(c.t.Context(), 2*time.Second)
	defer cancel()
	err := AwaitGossipResult(wctx, fut)
	if wctx.Err() != nil {
		return nil, false
	}

	return err, true
}

func (c *c20ReproCtx) zombieKeys() (bool, [33]byte, [33]byte) {
	isZ, k1, k2, err := c.vgraph.IsZombieEdge(c.t.Context(), c.scid.ToUint64())
	require.NoError(c.t, err)

	return isZ, k1, k2
}

// newC20ReproCtx builds a real gossiper over a real graph.Builder over a real
// graph DB (AssumeChannelValid, so that no chain backend is needed: signatures
// are still verified, only the funding output lookup is skipped), announces a
// channel between two nodes through gossip, gives node 1 a recent policy and
// node 2 a policy that is 20 days old (or none), and then deletes the channel
// exactly the way Builder.pruneZombieChans does with StrictZombiePruning.
func newC20ReproCtx(t *testing.T, node2HasPolicy bool) *c20ReproCtx {
	ctx := t.Context()
	c := &c20ReproCtx{t: t, relayed: make(chan lnwire.Message, 100)}

	c.graph = graphdb.MakeTestGraph(t)
	c.vgraph = graphdb.NewVersionedGraph(c.graph, lnwire.GossipVersion1)
	selfPub := route.NewVertex(selfKeyDesc.PubKey)
	require.NoError(t, c.graph.SetSourceNode(ctx, models.NewV1Node(
		selfPub, &models.NodeV1Fields{
			LastUpdate: time.Unix(1500000000, 0),
			Features:   lnwire.NewRawFeatureVector(),
			Alias:      "self",
		},
	)))

	isAlias := func(lnwire.ShortChannelID) bool { return false }
	notifier := newMockNotifier()
	builder, err := graph.NewBuilder(&graph.Config{
		SelfNode:            selfPub,
		Graph:               c.graph,
		Chain:               &mock.ChainIO{BestHeight: 100},
		Notifier:            notifier,
		ChannelPruneExpiry:  graph.DefaultChannelPruneExpiry,
		GraphPruneInterval:  1000 * time.Hour,
		FirstTimePruneDelay: 1000 * time.Hour,
		AssumeChannelValid:  true,
		StrictZombiePruning: true,
		IsAlias:             isAlias,
	})
	require.NoError(t, err)
	require.NoError(t, builder.Start())
	t.Cleanup(func() { _ = builder.Stop() })

	db := channeldb.OpenForTesting(t, t.TempDir())
	waitingProofStore, err := channeldb.NewWaitingProofStore(db)
	require.NoError(t, err)

	c.gossiper = New(Config{
		ChanSeries: newMockChannelGraphTimeSeries(
			lnwire.ShortChannelID{BlockHeight: 100},
		),
		ChainIO:     &mock.ChainIO{BestHeight: 100},
		ChainParams: &chaincfg.MainNetParams,
		Notifier:    notifier,
		Broadcast: func(_ map[route.Vertex]struct{},
			msgs ...lnwire.Message) error {

			for _, m := range msgs {
				c.relayed <- m
			}

			return nil
		},
		NotifyWhenOnline: func([33]byte, chan<- lnpeer.Peer) {},
		NotifyWhenOffline: func([33]byte) <-chan struct{} {
			return make(chan struct{})
		},
		FetchSelfAnnouncement: func() lnwire.NodeAnnouncement1 {
			return lnwire.NodeAnnouncement1{Timestamp: testTimestamp}
		},
		UpdateSelfAnnouncement: func() (lnwire.NodeAnnouncement1, error) {
			return lnwire.NodeAnnouncement1{
				Timestamp: testTimestamp,
			}, nil
		},
		Graph:                 builder,
		TrickleDelay:          trickleDelay,
		RetransmitTicker:      ticker.NewForce(retransmitDelay),
		RebroadcastInterval:   rebroadcastInterval,
		ProofMatureDelta:      proofMatureDelta,
		WaitingProofStore:     waitingProofStore,
		MessageStore:          newMockMessageStore(),
		RotateTicker:          ticker.NewForce(DefaultSyncerRotationInterval),
		HistoricalSyncTicker:  ticker.NewForce(DefaultHistoricalSyncInterval),
		NumActiveSyncers:      3,
		AnnSigner:             &mock.SingleSigner{Privkey: selfKeyPriv},
		SubBatchDelay:         time.Millisecond,
		MinimumBatchSize:      10,
		MaxChannelUpdateBurst: DefaultMaxChannelUpdateBurst,
		ChannelUpdateInterval: DefaultChannelUpdateInterval,
		IsAlias:               isAlias,
		SignAliasUpdate: func(*lnwire.ChannelUpdate1) (*ecdsa.Signature,
			error) {

			return nil, nil
		},
		FindBaseByAlias: func(lnwire.ShortChannelID) (
			lnwire.ShortChannelID, error) {

			return lnwire.ShortChannelID{}, fmt.Errorf("no base scid")
		},
		GetAlias: func(lnwire.ChannelID) (lnwire.ShortChannelID, error) {
			return lnwire.ShortChannelID{}, fmt.Errorf("no peer alias")
		},
		FindChannel:        mockFindChannel,
		ScidCloser:         newMockScidCloser(false),
		BanThreshold:       DefaultBanThreshold,
		AssumeChannelValid: true,
	}, selfKeyDesc)
	require.NoError(t, c.gossiper.Start())
	c.gossiper.syncMgr.markGraphSynced()
	t.Cleanup(func() { _ = c.gossiper.Stop() })

	// Two nodes, ordered as BOLT 7 demands.
	k1, err := btcec.NewPrivateKey()
	require.NoError(t, err)
	k2, err := btcec.NewPrivateKey()
	require.NoError(t, err)
	p1, p2 := c20ReproPub(k1), c20ReproPub(k2)
	if bytes.Compare(p1[:], p2[:]) > 0 {
		k1, k2 = k2, k1
	}
	c.node = [2]*btcec.PrivateKey{k1, k2}
	c.scid = lnwire.ShortChannelID{BlockHeight: 50, TxIndex: 1}

	// The channel enters the graph through a fully signed announcement.
	ann := &lnwire.ChannelAnnouncement1{
		Features:       lnwire.NewRawFeatureVector(),
		ChainHash:      *chaincfg.MainNetParams.GenesisHash,
		ShortChannelID: c.scid,
		NodeID1:        c20ReproPub(k1),
		NodeID2:        c20ReproPub(k2),
		BitcoinKey1:    c20ReproPub(bitcoinKeyPriv1),
		BitcoinKey2:    c20ReproPub(bitcoinKeyPriv2),
	}
	ann.NodeSig1 = c20ReproSign(t, k1, ann)
	ann.NodeSig2 = c20ReproSign(t, k2, ann)
	ann.BitcoinSig1 = c20ReproSign(t, bitcoinKeyPriv1, ann)
	ann.BitcoinSig2 = c20ReproSign(t, bitcoinKeyPriv2, ann)
	res, done := c.send(ann)
	require.True(t, done)
	require.NoError(t, res)

	// Node 1 keeps its side alive (policy of yesterday), node 2 has fallen
	// behind (policy of 20 days ago, or none at all).
	now := time.Now()
	res, done = c.send(c.update(0, k1, now.Add(-24*time.Hour)))
	require.True(t, done)
	require.NoError(t, res)
	if node2HasPolicy {
		res, done = c.send(c.update(1, k2, now.Add(-20*24*time.Hour)))
		require.True(t, done)
		require.NoError(t, res)
	}
	_, e1, e2, err := c.graph.FetchChannelEdgesByID(ctx, c.scid.ToUint64())
	require.NoError(t, err)
	require.NotNil(t, e1)
	require.Equal(t, node2HasPolicy, e2 != nil)

	// Builder.pruneZombieChans with StrictZombiePruning: node 2's edge is
	// stale => the channel is a zombie =>
	// DeleteChannelEdges(strictZombiePruning=true, markZombie=true, id).
	require.NoError(t, c.graph.DeleteChannelEdges(
		ctx, lnwire.GossipVersion1, true, true, c.scid.ToUint64(),
	))
	isZ, _, _ := c.zombieKeys()
	require.True(t, isZ)

	return c
}

// TestC20StrictZombieIndexKeys: the zombie entry must be (blank, node 2).
func TestC20StrictZombieIndexKeys(t *testing.T) {
	for _, node2HasPolicy := range []bool{true, false} {
		c := newC20ReproCtx(t, node2HasPolicy)
		_, k1, k2 := c.zombieKeys()
		require.Equal(t, [33]byte{}, k1, "node 1 must not be able to "+
			"resurrect the channel on its own")
		require.Equal(t, c20ReproPub(c.node[1]), k2, "the zombie index "+
			"must hold node 2's key in node 2's slot "+
			"(node2HasPolicy=%v); node 1's key is %x", node2HasPolicy,
			c20ReproPub(c.node[0]))
	}
}

// TestC20StrictZombieResurrectedByWrongSigner: a fresh channel_update flagged
// as node 2's direction but signed by node 1 is not authentic; it must be
// rejected, leave the zombie index untouched and must not be kept for replay.
func TestC20StrictZombieResurrectedByWrongSigner(t *testing.T) {
	c := newC20ReproCtx(t, true)

	forged := c.update(1, c.node[0], time.Now())
	res, done := c.send(forged)

	isZ, _, _ := c.zombieKeys()
	require.True(t, isZ, "a channel_update for node 2's direction signed "+
		"by node 1 removed the channel from the zombie index")

	require.True(t, done, "the forged update was stashed for replay "+
		"instead of being rejected")
	require.Error(t, res)

	cached, err := c.gossiper.prematureChannelUpdates.Get(c.scid.ToUint64())
	require.True(t, err != nil || cached == nil || len(cached.msgs) == 0,
		"forged update kept in prematureChannelUpdates")
}

// TestC20StrictZombieOwnerCannotResurrect: the authentic fresh update of node
// 2 is the one message that is meant to bring the channel back.
func TestC20StrictZombieOwnerCannotResurrect(t *testing.T) {
	c := newC20ReproCtx(t, true)

	res, done := c.send(c.update(1, c.node[1], time.Now()))
	if done {
		require.NoError(t, res, "authentic fresh update of node 2 "+
			"refused for the zombie channel")
	}
	isZ, _, _ := c.zombieKeys()
	require.False(t, isZ, "authentic fresh update of node 2 did not "+
		"resurrect the channel")
}
