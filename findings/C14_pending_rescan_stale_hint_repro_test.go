package chainntnfs_test

// Standalone reproduction of the C14 finding KF-C14-2 "the persisted height
// hint of a request whose historical rescan is still pending is not lowered
// when blocks are disconnected" (no dependency on the /verif harness runtime;
// shares the c14ReproHints cache with C14_clientless_rescan_repro_test.go, so
// overlay both files). Run:
//
//   cat > /tmp/ov.json <<EOF2
//   {"Replace": {
//     "/repo/chainntnfs/zz_c14_clientless_rescan_repro_test.go":
//        "/verif/findings/C14_clientless_rescan_repro_test.go",
//     "/repo/chainntnfs/zz_c14_pending_rescan_stale_hint_repro_test.go":
//        "/verif/findings/C14_pending_rescan_stale_hint_repro_test.go"}}
//   EOF2
//   cd /repo && go test -overlay /tmp/ov.json \
//       -run 'TestC14PendingRescanStaleHint' -count=1 ./chainntnfs/
//
// updateHints only touches requests with rescanStatus == rescanComplete.
// A request that is re-registered after a restart starts out rescanPending
// with the hint of the previous session in the cache. If the chain is
// reorganised below that hint before the backend's rescan completes, the
// persisted hint stays above the tip; if the node stops in that window and the
// transaction confirms in the new branch below the stale hint while the node
// is down, every later registration starts from max(cache, caller hint) and
// never looks at the block that holds the transaction.

import (
	"testing"

	"github.com/btcsuite/btcd/btcutil/v2"
	"github.com/btcsuite/btcd/wire/v2"
	"github.com/lightningnetwork/lnd/chainntnfs"
)

func TestC14PendingRescanStaleHint(t *testing.T) {
	hints := newC14ReproHints()

	tx := wire.NewMsgTx(2)
	tx.AddTxIn(&wire.TxIn{PreviousOutPoint: wire.OutPoint{Index: 3}})
	tx.AddTxOut(&wire.TxOut{Value: 1000, PkScript: c14ReproScript})
	txid := tx.TxHash()
	empty := func(nonce uint32) *btcutil.Block {
		return btcutil.NewBlock(&wire.MsgBlock{
			Header: wire.BlockHeader{Nonce: nonce},
		})
	}

	// Session 1: the tx is unconfirmed; the notifier persists hint 161.
	n1 := chainntnfs.NewTxNotifier(160, 144, hints, hints)
	reg, err := n1.RegisterConf(&txid, c14ReproScript, 1, 161)
	if err != nil {
		t.Fatalf("register: %v", err)
	}
	if reg.HistoricalDispatch != nil {
		t.Fatalf("unexpected historical dispatch")
	}
	if err := n1.ConnectTip(empty(161), 161); err != nil {
		t.Fatalf("connect: %v", err)
	}
	_ = n1.NotifyHeight(161)
	req, _ := chainntnfs.NewConfRequest(&txid, c14ReproScript)
	if h, _ := hints.QueryConfirmHint(req); h != 161 {
		t.Fatalf("expected persisted hint 161, got %d", h)
	}
	n1.TearDown()

	// Session 2 starts at height 162 (one empty block while down). The
	// request is registered again; the backend's rescan [161,162] is slow.
	n2 := chainntnfs.NewTxNotifier(162, 144, hints, hints)
	reg, err = n2.RegisterConf(&txid, c14ReproScript, 1, 150)
	if err != nil {
		t.Fatalf("register: %v", err)
	}
	if reg.HistoricalDispatch == nil {
		t.Fatalf("expected a historical dispatch")
	}

	// A five block reorg arrives before the rescan completes.
	for h := uint32(162); h >= 158; h-- {
		if err := n2.DisconnectTip(h); err != nil {
			t.Fatalf("disconnect: %v", err)
		}
	}
	h, _ := hints.QueryConfirmHint(req)
	if h > 158 {
		t.Errorf("tip is 157, the tx is unconfirmed, but the persisted "+
			"hint is still %d: a tx confirming at 158 lies below it", h)
	}

	// The node stops; block 158 of the new branch (mined while it is
	// down) holds the transaction.
	n2.TearDown()
	n3 := chainntnfs.NewTxNotifier(158, 144, hints, hints)
	defer n3.TearDown()
	reg, err = n3.RegisterConf(&txid, c14ReproScript, 1, 150)
	if err != nil {
		t.Fatalf("register: %v", err)
	}
	switch d := reg.HistoricalDispatch; {
	case d == nil:
		t.Errorf("no historical rescan requested at all: the confirmation " +
			"at height 158 will never be found")
	case d.StartHeight > 158:
		t.Errorf("historical rescan starts at %d, the tx confirmed at 158",
			d.StartHeight)
	}
}
