package input

// Standalone reproduction for the C18 finding "nested P2WKH wallet inputs are
// estimated as nested P2WSH inputs" (fixed by the /repo commit "fix: estimate a
// nested P2WKH input with its own sigScript size").
//
// Copy to /repo/input/ and run:
//   go test -run TestVerifFindingNestedP2WKHWeight ./input/
// It fails before the fix (estimate 48 weight units above the signed
// transaction) and passes after it. A sweep that reached its MaxFeeRate ceiling
// paid rate*(W+48) for a transaction of weight W, i.e. a fee rate above the
// configured maximum (property C18, oracle pub_feerate_le_max of the publisher
// unit once NestedWitnessPubKey wallet UTXOs are offered for top-ups).

import (
	"testing"

	"github.com/btcsuite/btcd/blockchain"
	"github.com/btcsuite/btcd/btcutil/v2"
	"github.com/btcsuite/btcd/wire/v2"
)

func TestVerifFindingNestedP2WKHWeight(t *testing.T) {
	var est TxWeightEstimator
	if err := NestedWitnessKeyHash.AddWeightEstimation(&est); err != nil {
		t.Fatal(err)
	}
	est.AddP2WKHOutput()

	// The transaction as it is signed: sigScript = push of the 22-byte
	// witness program, witness = worst-case 73-byte signature (incl.
	// sighash flag) + 33-byte public key.
	tx := wire.NewMsgTx(2)
	sigScript := append([]byte{0x16, 0x00, 0x14}, make([]byte, 20)...)
	tx.AddTxIn(&wire.TxIn{
		SignatureScript: sigScript,
		Witness:         wire.TxWitness{make([]byte, 73), make([]byte, 33)},
	})
	tx.AddTxOut(&wire.TxOut{Value: 1, PkScript: append([]byte{0x00, 0x14}, make([]byte, 20)...)})

	real := blockchain.GetTransactionWeight(btcutil.NewTx(tx))
	if got := int64(est.Weight()); got != real {
		t.Fatalf("estimated weight %d, signed transaction weighs %d (difference %d wu)",
			got, real, got-real)
	}
}
