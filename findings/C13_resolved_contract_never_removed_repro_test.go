package contractcourt

// Directed reproduction of finding KF-C13-2 (found by the C13 monitor in
// /verif). Plain test of package contractcourt; run with
//
//	go test ./contractcourt -run TestReproC13ResolvedContractNeverRemoved -count=1
//
// It FAILS on the pinned tree.
//
// Scenario: a force-closed channel whose only remaining contract is our commit
// output. The commit sweep resolver sees its sweep confirm, calls
// markResolved() and Checkpoint(c, report) — the contract is now durable with
// resolved=true — and the node stops before ChannelArbitrator.resolveContract
// gets to log.ResolveContract (a separate transaction). The test builds that
// durable image with the real bolt arbitrator log and restarts the arbitrator
// as ChainArbitrator does for a pending-close channel.
//
// After the restart the contract is decoded as already resolved:
// launchResolvers skips it, resolveContract's `for !IsResolved()` loop exits
// without calling ResolveContract or signalling, and
// StateWaitingFullResolution keeps finding it in FetchUnresolvedContracts. The
// channel never reaches StateFullyResolved (not after further restarts
// either), although the uninterrupted run does.

import (
	"testing"

	"github.com/btcsuite/btcd/chainhash/v2"
	"github.com/btcsuite/btcd/wire/v2"
	"github.com/lightningnetwork/lnd/channeldb"
	"github.com/lightningnetwork/lnd/fn/v2"
	"github.com/lightningnetwork/lnd/input"
	"github.com/lightningnetwork/lnd/lnwallet"
	"github.com/stretchr/testify/require"
)

func TestReproC13ResolvedContractNeverRemoved(t *testing.T) {
	// nil log => real bolt-backed arbitrator log.
	chanArbCtx, err := createTestChannelArbitrator(t, nil)
	require.NoError(t, err)
	boltLog := chanArbCtx.log.(*testArbLog).ArbitratorLog

	// Buffer the state notifications so that a failing assertion cannot
	// leave the arbitrator blocked in CommitState during cleanup.
	chanArbCtx.log.(*testArbLog).newStates = make(chan ArbitratorState, 32)

	const closeHeight = 100
	commitHash := chainhash.Hash{0x02}
	commitRes := lnwallet.CommitOutputResolution{
		SelfOutPoint: wire.OutPoint{Hash: commitHash, Index: 0},
		SelfOutputSignDesc: input.SignDescriptor{
			WitnessScript: []byte{0x63},
			Output:        &wire.TxOut{Value: 100000},
		},
		MaturityDelay: 4,
	}

	require.NoError(t, boltLog.LogContractResolutions(&ContractResolutions{
		CommitHash:       commitHash,
		CommitResolution: &commitRes,
	}))
	require.NoError(t, boltLog.InsertConfirmedCommitSet(&CommitSet{
		ConfCommitKey: fn.Some(LocalHtlcSet),
		HtlcSets: map[HtlcSetKey][]channeldb.HTLC{
			LocalHtlcSet: nil,
		},
	}))

	// The resolver as commitSweepResolver.Resolve leaves it behind:
	// markResolved() followed by Checkpoint.
	resolver := newCommitSweepResolver(
		commitRes, closeHeight, wire.OutPoint{}, ResolverConfig{
			ChannelArbitratorConfig: chanArbCtx.chanArb.cfg,
		},
	)
	resolver.markResolved()
	require.NoError(t, boltLog.InsertUnresolvedContracts(nil, resolver))
	require.NoError(t, boltLog.CommitState(StateWaitingFullResolution))

	newCtx, err := chanArbCtx.Restart(func(c *chanArbTestCtx) {
		c.chanArb.cfg.IsPendingClose = true
		c.chanArb.cfg.ClosingHeight = closeHeight
		c.chanArb.cfg.CloseType = channeldb.LocalForceClose
	})
	require.NoError(t, err)
	defer newCtx.CleanUp()

	// Nothing is left to do on chain: the channel must become fully
	// resolved. (On the pinned tree this times out: "new state not
	// received".)
	newCtx.AssertStateTransitions(StateFullyResolved)

	unresolved, err := boltLog.FetchUnresolvedContracts()
	require.NoError(t, err)
	require.Empty(t, unresolved)
}
