package lnwire

// Standalone reproduction of C10 finding KF-C10-3 (no dependency on the /verif
// harness runtime). Overlay it into /repo/lnwire and run:
//
//   cat > /tmp/ov.json <<EOF2
//   {"Replace": {"/repo/lnwire/zz_c10_grow_repro_test.go":
//                "/verif/findings/C10_query_scids_grows_on_reencode_repro_test.go"}}
//   EOF2
//   cd /repo && go test -overlay /tmp/ov.json -run TestC10ScidBodyGrowsRepro -count=1 ./lnwire/
//
// decodeShortChanIDs accepts an encoded_short_ids field of length 0 (not even
// the encoding-type byte), but encodeShortChanIDs always writes length >= 1
// plus the encoding byte. The re-encoding of an accepted message is therefore
// one byte longer than the input: a maximal 65535-byte query_short_channel_ids
// (reply_channel_range shares the decoder, is probed too and is not affected
// on HEAD) is ACCEPTED by ReadMessage although the decoded value
// cannot be written any more (payload 65534 > MaxMsgBody 65533), i.e. the
// "decode => canonical fixpoint" half of C10 does not hold for it. (Smaller
// inputs of that shape do reach a fixpoint after growing by one byte.)
//
// The test FAILS on HEAD.

import (
	"bytes"
	"testing"
)

func TestC10ScidBodyGrowsRepro(t *testing.T) {
	pad := func(b []byte, total int) []byte {
		// one unknown odd TLV record (type 101) filling the message
		// up to total bytes, so that messages validating their extra
		// data as TLV accept it too
		room := total - len(b) - 1 - 3
		b = append(b, 0x65, 0xfd, byte(room>>8), byte(room))
		return append(b, make([]byte, room)...)
	}

	query := append([]byte{0x01, 0x05}, make([]byte, 32)...) // type 261, chain hash
	query = append(query, 0x00, 0x00)                        // encoded_short_ids: len 0
	query = pad(query, 65535)

	reply := append([]byte{0x01, 0x08}, make([]byte, 32+4+4+1)...) // type 264
	reply = append(reply, 0x00, 0x00)
	reply = pad(reply, 65535)

	for name, in := range map[string][]byte{"query_short_chan_ids": query,
		"reply_channel_range": reply} {

		msg, err := ReadMessage(bytes.NewReader(in), 0)
		if err != nil {
			t.Logf("%s: rejected (%v) - fine", name, err)
			continue
		}
		var buf bytes.Buffer
		if _, err := WriteMessage(&buf, msg, 0); err != nil {
			t.Errorf("%s: a %d-byte message was accepted by ReadMessage but the decoded "+
				"value does not encode: %v", name, len(in), err)
		}
	}
}
