package chainntnfs_test

// Standalone reproduction of a C14 finding candidate: "a RegisterConf that
// lands between ConnectTip(h) and NotifyHeight(h) hands ITS OWN view of the
// confirmation details (with / without the block) to every other client of
// the same request that becomes due at h" (no dependency on the /verif
// harness runtime nor on the package's own test helpers). Overlay it into
// chainntnfs and run:
//
//   cat > /tmp/ov.json <<EOF2
//   {"Replace": {"/repo/chainntnfs/zz_c14_include_block_repro_test.go":
//                "/verif/findings/C14_include_block_cross_client_repro_test.go"}}
//   EOF2
//   cd /repo && go test -overlay /tmp/ov.json \
//       -run 'TestC14IncludeBlockCrossClient' -count=1 ./chainntnfs/
//
// The backends (bitcoindnotify/btcdnotify/neutrinonotify) call ConnectTip and
// NotifyHeight one after the other from their dispatcher goroutine, whereas
// RegisterConfirmationsNtfn calls TxNotifier.RegisterConf from the caller's
// goroutine, so a registration can run between the two. In RegisterConf's
// "rescanComplete" branch the details are shaped for the registrant
// (Block stripped unless it passed WithIncludeBlock) and then dispatched to
// the WHOLE conf set:
//
//     for _, subscriber := range confSet.ntfns {
//         err := n.dispatchConfDetails(subscriber, confDetails)
//
// ConnectTip(h) has already advanced currentHeight to h, so every queued
// subscriber whose confirmation height is h is dispatched right there with
// the registrant's view: a WithIncludeBlock client gets Block == nil when the
// registrant did not ask for the block, and a client that did not ask for the
// block gets one when the registrant did.

import (
	"testing"

	"github.com/btcsuite/btcd/btcutil/v2"
	"github.com/btcsuite/btcd/wire/v2"
	"github.com/lightningnetwork/lnd/chainntnfs"
)

type c14InclBlkHints struct{}

func (c14InclBlkHints) CommitSpendHint(uint32, ...chainntnfs.SpendRequest) error { return nil }
func (c14InclBlkHints) QuerySpendHint(chainntnfs.SpendRequest) (uint32, error) {
	return 0, chainntnfs.ErrSpendHintNotFound
}
func (c14InclBlkHints) PurgeSpendHint(...chainntnfs.SpendRequest) error            { return nil }
func (c14InclBlkHints) CommitConfirmHint(uint32, ...chainntnfs.ConfRequest) error { return nil }
func (c14InclBlkHints) QueryConfirmHint(chainntnfs.ConfRequest) (uint32, error) {
	return 0, chainntnfs.ErrConfirmHintNotFound
}
func (c14InclBlkHints) PurgeConfirmHint(...chainntnfs.ConfRequest) error { return nil }

func c14InclBlkRun(t *testing.T, firstWantsBlock bool) {
	hints := c14InclBlkHints{}
	n := chainntnfs.NewTxNotifier(10, chainntnfs.ReorgSafetyLimit, hints, hints)
	defer n.TearDown()

	script := append([]byte{0x00, 0x20}, make([]byte, 32)...)
	tx := wire.MsgTx{Version: 2}
	tx.AddTxOut(&wire.TxOut{Value: 1000, PkScript: script})
	txid := tx.TxHash()

	optsFor := func(want bool) []chainntnfs.NotifierOption {
		if want {
			return []chainntnfs.NotifierOption{chainntnfs.WithIncludeBlock()}
		}
		return nil
	}

	// Client A: two confirmations.
	regA, err := n.RegisterConf(&txid, script, 2, 10, optsFor(firstWantsBlock)...)
	if err != nil {
		t.Fatal(err)
	}
	if err := n.UpdateConfDetails(regA.HistoricalDispatch.ConfRequest, nil); err != nil {
		t.Fatal(err)
	}

	// The transaction confirms at height 11.
	blk := btcutil.NewBlock(&wire.MsgBlock{Transactions: []*wire.MsgTx{&tx}})
	if err := n.ConnectTip(blk, 11); err != nil {
		t.Fatal(err)
	}
	if err := n.NotifyHeight(11); err != nil {
		t.Fatal(err)
	}

	// Block 12 arrives: the backend has called ConnectTip ...
	if err := n.ConnectTip(nil, 12); err != nil {
		t.Fatal(err)
	}
	// ... and before it gets to NotifyHeight(12) client B registers for the
	// same transaction with the opposite option.
	regB, err := n.RegisterConf(&txid, script, 1, 10, optsFor(!firstWantsBlock)...)
	if err != nil {
		t.Fatal(err)
	}
	if err := n.NotifyHeight(12); err != nil {
		t.Fatal(err)
	}

	check := func(name string, ev *chainntnfs.ConfirmationEvent, want bool) {
		select {
		case d := <-ev.Confirmed:
			if want && d.Block == nil {
				t.Errorf("client %s registered WithIncludeBlock but got Block == nil", name)
			}
			if !want && d.Block != nil {
				t.Errorf("client %s did not ask for the block but got one", name)
			}
		default:
			t.Errorf("client %s not notified", name)
		}
	}
	check("A", regA.Event, firstWantsBlock)
	check("B", regB.Event, !firstWantsBlock)
}

func TestC14IncludeBlockCrossClientMissing(t *testing.T)     { c14InclBlkRun(t, true) }
func TestC14IncludeBlockCrossClientUnrequested(t *testing.T) { c14InclBlkRun(t, false) }
