package lnwallet

// Standalone reproduction (no harness runtime): the channel opener restarts
// after its update_fee was signed, retransmitted and acked by the peer, and
// after the peer's covering signature was received but before the revocation
// was sent. After the reload the opener rejects the peer's (retransmitted,
// honest) commitment signature.

import (
	"testing"

	"github.com/lightningnetwork/lnd/channeldb"
	"github.com/lightningnetwork/lnd/lnwallet/chainfee"
	"github.com/lightningnetwork/lnd/lnwire"
	"github.com/stretchr/testify/require"
)

func verifReproSync(t *testing.T, a, b *LightningChannel) ([]lnwire.Message, []lnwire.Message) {
	aSync, err := a.channelState.ChanSyncMsg()
	require.NoError(t, err)
	bSync, err := b.channelState.ChanSyncMsg()
	require.NoError(t, err)
	aMsgs, _, _, err := a.ProcessChanSyncMsg(ctxb, bSync)
	require.NoError(t, err)
	bMsgs, _, _, err := b.ProcessChanSyncMsg(ctxb, aSync)
	require.NoError(t, err)
	return aMsgs, bMsgs
}

func TestVerifReproFeeUpdateRestart(t *testing.T) {
	firstRestart := true
	alice, bob, err := CreateTestChannels(t, channeldb.SingleFunderTweaklessBit)
	require.NoError(t, err)

	// Alice (opener) lowers the fee and signs.
	require.NoError(t, alice.UpdateFee(chainfee.SatPerKWeight(3000)))
	require.NoError(t, bob.ReceiveUpdateFee(chainfee.SatPerKWeight(3000)))
	aliceSig, err := alice.SignNextCommitment(ctxb)
	require.NoError(t, err)

	var sig *CommitSigs = aliceSig.CommitSigs
	if firstRestart {
		// Connection drops before Bob gets the signature; both reload.
		alice, err = restartChannel(alice)
		require.NoError(t, err)
		bob, err = restartChannel(bob)
		require.NoError(t, err)
		aMsgs, bMsgs := verifReproSync(t, alice, bob)
		require.Len(t, bMsgs, 0)
		require.Len(t, aMsgs, 2) // update_fee + commit_sig
		fee := aMsgs[0].(*lnwire.UpdateFee)
		require.NoError(t, bob.ReceiveUpdateFee(chainfee.SatPerKWeight(fee.FeePerKw)))
		cs := aMsgs[1].(*lnwire.CommitSig)
		sig = &CommitSigs{CommitSig: cs.CommitSig, HtlcSigs: cs.HtlcSigs, PartialSig: cs.PartialSig}
	}
	require.NoError(t, bob.ReceiveNewCommitment(sig))
	bobRev, _, _, err := bob.RevokeCurrentCommitment()
	require.NoError(t, err)
	_, _, err = alice.ReceiveRevocation(bobRev)
	require.NoError(t, err)

	// Bob signs Alice's commitment, now covering her fee update.
	bobSig, err := bob.SignNextCommitment(ctxb)
	require.NoError(t, err)
	require.NoError(t, alice.ReceiveNewCommitment(bobSig.CommitSigs))

	// Alice dies before sending her revocation; both reload and resync.
	alice, err = restartChannel(alice)
	require.NoError(t, err)
	bob, err = restartChannel(bob)
	require.NoError(t, err)
	aMsgs, bMsgs := verifReproSync(t, alice, bob)
	require.Len(t, aMsgs, 0)
	require.Len(t, bMsgs, 1) // commit_sig retransmission
	cs := bMsgs[0].(*lnwire.CommitSig)
	err = alice.ReceiveNewCommitment(&CommitSigs{CommitSig: cs.CommitSig,
		HtlcSigs: cs.HtlcSigs, PartialSig: cs.PartialSig})
	require.NoError(t, err, "opener rejects the honest retransmitted signature after reload")
}
