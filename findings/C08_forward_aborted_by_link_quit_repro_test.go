package htlcswitch

// Standalone reproduction of a C08 finding (no dependency on the /verif
// harness runtime). Copy into /repo/htlcswitch/ and run
//   go test -run TestReproC08ForwardAbortedByLinkQuit -count=1 ./htlcswitch/
//
// Switch.ForwardPackets writes the circuits of a batch of ADDs to the circuit
// map and then hands the packets to the switch one by one; when the incoming
// link stops in between (peer disconnect), routeAsync returns
// ErrLinkShuttingDown and the remaining packets are abandoned although their
// circuits are committed. When the link comes back (same process) it replays
// the forwarding package; CommitCircuits then reports the circuits as
// "dropped" (exists, not loaded from disk, no keystone = assumed to be in
// flight) and the ADD is neither forwarded nor failed back: the incoming HTLC
// and the half-open circuit stay until the process restarts or the HTLC times
// out on chain.

import (
	"crypto/sha256"
	"testing"
	"time"

	"github.com/lightningnetwork/lnd/lnwire"
)

func TestReproC08ForwardAbortedByLinkQuit(t *testing.T) {
	alicePeer, err := newMockServer(t, "alice", testStartingHeight, nil, testDefaultDelta)
	if err != nil {
		t.Fatal(err)
	}
	bobPeer, err := newMockServer(t, "bob", testStartingHeight, nil, testDefaultDelta)
	if err != nil {
		t.Fatal(err)
	}
	s, err := initSwitchWithTempDB(t, testStartingHeight)
	if err != nil {
		t.Fatal(err)
	}

	chanID1, chanID2, aliceChanID, bobChanID := genIDs()
	aliceLink := newMockChannelLink(s, chanID1, aliceChanID, emptyScid, alicePeer, true, false, false, false)
	bobLink := newMockChannelLink(s, chanID2, bobChanID, emptyScid, bobPeer, true, false, false, false)

	mkPacket := func() *htlcPacket {
		preimage, err := genPreimage()
		if err != nil {
			t.Fatal(err)
		}
		rhash := sha256.Sum256(preimage[:])
		return &htlcPacket{
			incomingChanID: aliceLink.ShortChanID(),
			incomingHTLCID: 0,
			outgoingChanID: bobLink.ShortChanID(),
			obfuscator:     NewMockObfuscator(),
			htlc:           &lnwire.UpdateAddHTLC{PaymentHash: rhash, Amount: 1},
		}
	}
	packet := mkPacket()

	// First attempt: the switch's forwarder is busy (here: not started
	// yet, so nothing reads htlcPlex) and the incoming link quits while the
	// batch is being handed over.
	linkQuit := make(chan struct{})
	go func() {
		time.Sleep(200 * time.Millisecond)
		close(linkQuit)
	}()
	err = s.ForwardPackets(linkQuit, packet)
	if err == nil {
		t.Fatalf("expected the hand-over to be aborted by the link quit")
	}
	t.Logf("first attempt aborted: %v; pending circuits=%d", err, s.circuits.NumPending())

	// The link comes back (same switch, same process) and replays its
	// forwarding package.
	if err := s.Start(); err != nil {
		t.Fatal(err)
	}
	defer s.Stop()
	if err := s.AddLink(aliceLink); err != nil {
		t.Fatal(err)
	}
	if err := s.AddLink(bobLink); err != nil {
		t.Fatal(err)
	}
	replay := *packet
	replay.circuit = nil
	if err := s.ForwardPackets(nil, &replay); err != nil {
		t.Fatal(err)
	}

	// The ADD must now either reach the outgoing link or be failed back to
	// the incoming link.
	select {
	case <-bobLink.packets:
	case pkt := <-aliceLink.packets:
		if _, ok := pkt.htlc.(*lnwire.UpdateFailHTLC); !ok {
			t.Fatalf("unexpected packet on the incoming link: %T", pkt.htlc)
		}
	case <-time.After(3 * time.Second):
		t.Fatalf("replayed ADD was neither forwarded nor failed back: "+
			"pending circuits=%d open=%d (HTLC left dangling)",
			s.circuits.NumPending(), s.circuits.NumOpen())
	}
}
