package htlcswitch

// Standalone reproduction (no harness runtime): when a processed forwarding
// package whose first ADD is already acked is replayed after a restart, the
// second ADD must be re-forwarded with ITS OWN source reference (index 1).
// Before the fix it was handed to the switch with the reference of index 0,
// so its eventual response acked the wrong ADD.

import (
	"encoding/binary"
	"testing"

	sphinx "github.com/lightningnetwork/lightning-onion"
	"github.com/btcsuite/btcd/btcutil/v2"
	"github.com/lightningnetwork/lnd/channeldb"
	"github.com/lightningnetwork/lnd/htlcswitch/hop"
	"github.com/lightningnetwork/lnd/lnwire"
	"github.com/stretchr/testify/require"
)

func TestVerifReproReforwardIndexShift(t *testing.T) {
	harness, err := newSingleLinkTestHarness(t, btcutil.SatoshiPerBitcoin*5, 0)
	require.NoError(t, err)
	link := harness.aliceLink.(*channelLink)
	require.NoError(t, harness.start())

	var captured []*htlcPacket
	link.cfg.ForwardPackets = func(_ <-chan struct{}, _ bool,
		pkts ...*htlcPacket) error {

		captured = append(captured, pkts...)
		return nil
	}

	next := lnwire.NewShortChanIDFromInt(4242)
	mkAdd := func(id uint64) channeldb.LogUpdate {
		var nextBytes [8]byte
		binary.BigEndian.PutUint64(nextBytes[:], next.ToUint64())
		amt := lnwire.NewMSatFromSatoshis(10000)
		hops := []*hop.Payload{
			hop.NewLegacyPayload(&sphinx.HopData{
				NextAddress:   nextBytes,
				ForwardAmount: uint64(amt),
				OutgoingCltv:  testStartingHeight + 20,
			}),
		}
		blob, err := generateRoute(hops...)
		require.NoError(t, err)
		_, htlc, _, err := generatePayment(
			amt, amt+lnwire.NewMSatFromSatoshis(10),
			testStartingHeight+40, blob,
		)
		require.NoError(t, err)
		htlc.ID = id

		return channeldb.LogUpdate{LogIndex: id, UpdateMsg: htlc}
	}

	fwdPkg := channeldb.NewFwdPkg(
		link.ShortChanID(), 7,
		[]channeldb.LogUpdate{mkAdd(0), mkAdd(1)}, nil,
	)
	fwdPkg.State = channeldb.FwdStateProcessed
	fwdPkg.FwdFilter = channeldb.NewPkgFilter(2)
	fwdPkg.FwdFilter.Set(0)
	fwdPkg.FwdFilter.Set(1)
	fwdPkg.AckFilter = channeldb.NewPkgFilter(2)
	fwdPkg.AckFilter.Set(0) // the response to ADD 0 is already committed

	link.processRemoteAdds(fwdPkg)

	require.Len(t, captured, 1, "exactly the unacked ADD is re-forwarded")
	require.Equal(t, uint64(1), captured[0].incomingHTLCID)
	require.NotNil(t, captured[0].sourceRef)
	require.Equal(t, uint16(1), captured[0].sourceRef.Index,
		"the re-forwarded ADD must carry its own forwarding package index")
}
