package lnwire

// Standalone reproduction of two C10 findings about the TLV extension of
// lnwire messages (no dependency on the /verif harness runtime). Overlay it
// into /repo/lnwire and run:
//
//   cat > /tmp/ov.json <<EOF2
//   {"Replace": {"/repo/lnwire/zz_c10_ext_repro_test.go":
//                "/verif/findings/C10_ext_records_repro_test.go"}}
//   EOF2
//   cd /repo && go test -overlay /tmp/ov.json -run 'TestC10Ext.*Repro' -count=1 ./lnwire/
//
// KF-C10-5  booleanDecoder (TrueBoolean, second_peer record 8 of
//           channel_update_2) accepts a declared length of 1 but consumes no
//           value byte: the reader desynchronises from the declared lengths
//           and a non-canonical stream is accepted.
//
// KF-C10-6  (oracle unknown_records_preserved) Messages that carry typed
//           extension records (open_channel, accept_channel, funding_created,
//           funding_signed, channel_ready, closing_signed, closing_complete,
//           closing_sig, revoke_and_ack, channel_reestablish, channel_update,
//           query_channel_range, reply_channel_range, gossip_timestamp_range,
//           channel_update_2) DROP every unknown record of a canonical
//           extension when the decoded message is encoded again:
//           Encode calls EncodeMessageExtraData(&m.ExtraData, known...), which
//           overwrites ExtraData with the known records only.
//
// Both tests FAIL on HEAD.

import (
	"bytes"
	"testing"

	"pgregory.net/rapid"
)

func TestC10ExtUnknownRecordDroppedRepro(t *testing.T) {
	// funding_signed: channel id, signature, then ONE unknown odd record
	// (type 3, length 1, value ff) as the whole, canonical extension.
	in := append([]byte{0, 35}, make([]byte, 32+64)...)
	in = append(in, 0x03, 0x01, 0xff)

	msg, err := ReadMessage(bytes.NewReader(in), 0)
	if err != nil {
		t.Fatalf("rejected: %v", err)
	}
	var out bytes.Buffer
	if _, err := WriteMessage(&out, msg, 0); err != nil {
		t.Fatal(err)
	}
	if !bytes.Equal(in, out.Bytes()) {
		t.Errorf("funding_signed with the unknown odd record 03 01 ff re-encodes without it:\n in  ...%x\n out ...%x",
			in[len(in)-8:], out.Bytes()[len(out.Bytes())-5:])
	}
}

func TestC10ExtTrueBooleanLengthRepro(t *testing.T) {
	// Draw a channel_update_2 that carries the second_peer record.
	var valid []byte
	for seed := 0; seed < 200 && valid == nil; seed++ {
		m := rapid.Custom(func(rt *rapid.T) Message {
			return (&ChannelUpdate2{}).RandTestMessage(rt)
		}).Example(seed)
		if m.(*ChannelUpdate2).SecondPeer.IsNone() {
			continue
		}
		var b bytes.Buffer
		if _, err := WriteMessage(&b, m, 0); err != nil {
			t.Fatal(err)
		}
		valid = b.Bytes()
	}
	if valid == nil {
		t.Skip("no channel_update_2 with second_peer generated")
	}
	// second_peer is record 08 00, followed by record 0a 02 (cltv delta).
	i := bytes.Index(valid, []byte{0x08, 0x00, 0x0a, 0x02})
	if i < 0 {
		t.Skip("record pattern not found")
	}
	mut := bytes.Clone(valid)
	mut[i+1] = 0x01 // declared length 1, but no value byte is inserted

	msg, err := ReadMessage(bytes.NewReader(mut), 0)
	if err != nil {
		return // rejected: what the statement asks for
	}
	var out bytes.Buffer
	_, _ = WriteMessage(&out, msg, 0)
	t.Errorf("channel_update_2 whose second_peer record declares length 1 (the value byte would be "+
		"0x0a, i.e. the next record's type) was accepted; re-encoded equal=%v",
		bytes.Equal(out.Bytes(), mut))
}
