package contractcourt

// Directed reproduction of finding KF-C13-1 (found by the C13 monitor in
// /verif). Plain test of package contractcourt; run with
//
//	go test ./contractcourt -run TestReproC13RestartInContractClosed -count=1
//
// It FAILS on the pinned tree.
//
// Scenario: the peer force closes; one HTLC we offered is a real output on the
// confirmed commitment and far from its expiry. handleRemoteForceCloseEvent
// writes the contract resolutions, the confirmed commit set, marks the channel
// closed and commits StateContractClosed. The node stops right there (before
// the resolvers are inserted and StateWaitingFullResolution is committed).
// The test builds exactly that durable image with the real bolt arbitrator
// log and restarts the arbitrator the way ChainArbitrator does for a
// pending-close channel (IsPendingClose, CloseType, ClosingHeight).
//
// progressStateMachineAfterRestart only maps the close type to a close trigger
// for StateDefault/StateBroadcastCommit/StateCommitmentBroadcasted; in
// StateContractClosed it re-runs the classification with chainTrigger, and
// checkCommitChainActions returns an empty action map for chainTrigger when no
// HTLC has reached its broadcast cutoff. No HTLC resolver is created: the
// offered HTLC is never timed out on chain and never failed back upstream.

import (
	"testing"
	"time"

	"github.com/btcsuite/btcd/chainhash/v2"
	"github.com/btcsuite/btcd/wire/v2"
	"github.com/lightningnetwork/lnd/channeldb"
	"github.com/lightningnetwork/lnd/fn/v2"
	"github.com/lightningnetwork/lnd/input"
	"github.com/lightningnetwork/lnd/lnwallet"
	"github.com/stretchr/testify/require"
)

func TestReproC13RestartInContractClosed(t *testing.T) {
	// nil log => real bolt-backed arbitrator log.
	chanArbCtx, err := createTestChannelArbitrator(t, nil)
	require.NoError(t, err)
	boltLog := chanArbCtx.log.(*testArbLog).ArbitratorLog

	// Buffer the state notifications so that a failing assertion cannot
	// leave the arbitrator blocked in CommitState during cleanup.
	chanArbCtx.log.(*testArbLog).newStates = make(chan ArbitratorState, 32)

	const closeHeight = 100
	commitHash := chainhash.Hash{0x01}
	htlc := channeldb.HTLC{
		Incoming:      false,
		Amt:           5_000_000,
		HtlcIndex:     9,
		OutputIndex:   2,
		RefundTimeout: closeHeight + 500,
	}
	htlcRes := lnwallet.OutgoingHtlcResolution{
		Expiry: htlc.RefundTimeout,
		ClaimOutpoint: wire.OutPoint{
			Hash: commitHash, Index: uint32(htlc.OutputIndex),
		},
		SweepSignDesc: input.SignDescriptor{
			Output: &wire.TxOut{Value: 5000},
		},
	}

	// What handleRemoteForceCloseEvent + the first advanceState iteration
	// make durable before the stop.
	require.NoError(t, boltLog.LogContractResolutions(&ContractResolutions{
		CommitHash: commitHash,
		HtlcResolutions: lnwallet.HtlcResolutions{
			OutgoingHTLCs: []lnwallet.OutgoingHtlcResolution{
				htlcRes,
			},
		},
	}))
	require.NoError(t, boltLog.InsertConfirmedCommitSet(&CommitSet{
		ConfCommitKey: fn.Some(RemoteHtlcSet),
		HtlcSets: map[HtlcSetKey][]channeldb.HTLC{
			RemoteHtlcSet: {htlc},
		},
	}))
	require.NoError(t, boltLog.CommitState(StateContractClosed))

	// Restart as ChainArbitrator.loadPendingCloseChannels does.
	newCtx, err := chanArbCtx.Restart(func(c *chanArbTestCtx) {
		c.chanArb.cfg.IsPendingClose = true
		c.chanArb.cfg.ClosingHeight = closeHeight
		c.chanArb.cfg.CloseType = channeldb.RemoteForceClose
	})
	require.NoError(t, err)
	defer newCtx.CleanUp()

	// The restarted arbitrator finishes the interrupted transition.
	newCtx.AssertStateTransitions(StateWaitingFullResolution)

	// The offered HTLC still has an output on the confirmed commitment:
	// there must be a resolver watching / timing it out.
	found := false
	deadline := time.Now().Add(2 * time.Second)
	for !found && time.Now().Before(deadline) {
		newCtx.chanArb.activeResolversLock.RLock()
		for _, r := range newCtx.chanArb.activeResolvers {
			hr, ok := r.(htlcContractResolver)
			if ok && hr.HtlcPoint() == htlcRes.ClaimOutpoint {
				found = true
			}
		}
		newCtx.chanArb.activeResolversLock.RUnlock()
		time.Sleep(10 * time.Millisecond)
	}

	unresolved, err := boltLog.FetchUnresolvedContracts()
	require.NoError(t, err)

	require.True(t, found, "after a restart in StateContractClosed the "+
		"offered HTLC %v (output on the confirmed commitment, expiry "+
		"%d, closed at %d) has no resolver; contracts in the log: %d",
		htlcRes.ClaimOutpoint, htlc.RefundTimeout, closeHeight,
		len(unresolved))
}
