#!/bin/sh
# sweep_seeds.sh <tier> <seed>... : sweep.sh for several seeds in turn.
TIER=${1:-quick}; shift
for s in "$@"; do echo "=== seed $s"; "$(dirname "$0")/sweep.sh" $TIER $s; done
