#!/usr/bin/env python3
"""baseline_full.py [repo] : run the pinned suite (BASELINE.json cmd, module by module,
no build tags = hooks off) on the tree and report every stable_pass test that did not
pass; tests that fail are re-run once in isolation (the machine is usually loaded by
the checks) before being reported."""
import json, subprocess, sys, os
repo = sys.argv[1] if len(sys.argv) > 1 else '/repo'
b = json.load(open('/root/.vp/BASELINE.json'))
stable = set(b['stable_pass'])
mods = [l.strip() for l in open('/w/out/gomods.txt') if l.strip()]
env = dict(os.environ, GOFLAGS='-mod=mod', GOPROXY='off', GOSUMDB='off', GOTOOLCHAIN='local')
go = '/root/go/pkg/mod/golang.org/toolchain@v0.0.1-go1.25.13.linux-amd64/bin/go'
passed = set(); pkgs = set(); pkgdir = {}
for m in mods:
    cwd = os.path.normpath(os.path.join(repo, m))
    p = subprocess.run([go, 'test', '-json', '-vet=off', '-count=1', '-timeout', '25m', './...'],
                       cwd=cwd, env=env, capture_output=True, text=True)
    for l in p.stdout.splitlines():
        try: r = json.loads(l)
        except Exception: continue
        if 'Package' in r:
            pkgs.add(r['Package']); pkgdir[r['Package']] = cwd
        if r.get('Action') == 'pass' and r.get('Test'):
            passed.add(r['Package'] + '::' + r['Test'])
    print(f"module {m}: cumulative passed={len(passed)}", flush=True)
missing = sorted(stable - passed)
print(f"stable={len(stable)} passed_of_stable={len(stable & passed)} missing_first_pass={len(missing)}")
still = []
for t in missing:
    pkg, name = t.split('::', 1)
    top = name.split('/')[0]
    cwd = pkgdir.get(pkg)
    if cwd is None:
        still.append(t); continue
    p = subprocess.run([go, 'test', '-json', '-vet=off', '-count=1', '-timeout', '25m', '-run', '^' + top + '$', pkg],
                       cwd=cwd, env=env, capture_output=True, text=True)
    ok = False
    for l in p.stdout.splitlines():
        try: r = json.loads(l)
        except Exception: continue
        if r.get('Action') == 'pass' and r.get('Test') == name: ok = True
    print(("  RETRY-PASS " if ok else "  MISSING ") + t, flush=True)
    if not ok: still.append(t)
print(f"RESULT stable={len(stable)} missing_after_retry={len(still)}")
sys.exit(1 if still else 0)
