#!/usr/bin/env python3
"""baseline_pkg.py <repo> <pkgpattern>... : run `go test -json` on the packages and
report every test listed in BASELINE.json stable_pass for those packages that did
not pass."""
import json, subprocess, sys, os
repo = sys.argv[1]; pats = sys.argv[2:]
b = json.load(open('/root/.vp/BASELINE.json'))
stable = set(b['stable_pass'])
env = dict(os.environ, GOFLAGS='-mod=mod', GOPROXY='off', GOSUMDB='off', GOTOOLCHAIN='local')
go = '/root/go/pkg/mod/golang.org/toolchain@v0.0.1-go1.25.13.linux-amd64/bin/go'
p = subprocess.run([go, 'test', '-json', '-vet=off', '-count=1', '-timeout', '25m'] + pats, cwd=repo, env=env, capture_output=True, text=True)
passed = set(); pkgs = set()
for l in p.stdout.splitlines():
    try: r = json.loads(l)
    except Exception: continue
    if 'Package' in r: pkgs.add(r['Package'])
    if r.get('Action') == 'pass' and r.get('Test'):
        passed.add(r['Package'] + '::' + r['Test'])
want = {s for s in stable if s.split('::')[0] in pkgs}
missing = sorted(want - passed)
print(f"packages={len(pkgs)} stable_in_pkgs={len(want)} passed_of_stable={len(want & passed)} missing={len(missing)}")
for m in missing[:30]: print("  MISSING", m)
sys.exit(1 if missing else 0)
