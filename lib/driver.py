#!/usr/bin/env python3
"""Driver for the /verif runtime-monitoring checks.

./check <ID> [--tier quick|thorough] [--seed N] [--replay path] [--only-unit U]

Builds the harness test binaries for property <ID> from $VERIF_REPO (default
/repo) working tree via `go test -c -overlay`, runs them as sharded child
processes, merges the NDJSON monitor streams into evidence/<ID>.json, and
decides: exit 0 held on what was observed / exit 1 + VIOLATION line / exit 2
inconclusive (never a VIOLATION line).
"""
import argparse
import concurrent.futures as cf
import hashlib
import json
import os
import re
import shutil
import subprocess
import sys
import time

VERIF = os.path.dirname(os.path.dirname(os.path.abspath(__file__)))
sys.path.insert(0, os.path.join(VERIF, "lib"))
from props import PROPS  # noqa: E402

GO_CANDIDATES = [
    "/root/go/pkg/mod/golang.org/toolchain@v0.0.1-go1.25.13.linux-amd64/bin/go",
]
PORCUPINE = "github.com/anishathalye/porcupine v1.3.0"


def go_bin():
    for g in GO_CANDIDATES:
        if os.path.exists(g):
            return g
    return "go"


def go_env():
    env = dict(os.environ)
    env.update({
        "GOFLAGS": "-mod=mod", "GOPROXY": "off", "GOSUMDB": "off",
        "GOTOOLCHAIN": "local", "GONOSUMDB": "*", "GONOSUMCHECK": "1",
    })
    if go_bin() == "go":
        # plain go auto-switches toolchains; these two would break that.
        env.pop("GOTOOLCHAIN", None)
        env.pop("GOSUMDB", None)
    env.setdefault("GOCACHE", os.path.expanduser("~/.cache/go-build"))
    return env


def repo_root():
    return os.environ.get("VERIF_REPO", "/repo")


def build_dir():
    return os.environ.get("VERIF_BUILD", os.path.join(VERIF, "build"))


def log(msg):
    print(f"[check] {msg}", file=sys.stderr, flush=True)


def render_common(pkgname, dst):
    src = open(os.path.join(VERIF, "harness/common/common.go.tmpl")).read()
    os.makedirs(os.path.dirname(dst), exist_ok=True)
    with open(dst, "w") as f:
        f.write(src.replace("{{PKG}}", pkgname))


def prepare_unit(prop, unit):
    """Generate overlay + modfile for one unit; return dict of paths."""
    repo = repo_root()
    bd = build_dir()
    key = f"{prop}_{unit['name']}"
    gen = os.path.join(bd, "gen", key)
    shutil.rmtree(gen, ignore_errors=True)
    os.makedirs(gen, exist_ok=True)
    modroot = os.path.join(repo, unit.get("module", ""))
    pkgdir = os.path.join(modroot, unit["pkg"])
    replace = {}
    common = os.path.join(gen, "zz_verif_common_test.go")
    render_common(unit.get("pkgname", os.path.basename(unit["pkg"])), common)
    replace[os.path.join(pkgdir, "zz_verif_common_test.go")] = common
    for i, f in enumerate(unit["files"]):
        src = os.path.join(VERIF, "harness", f)
        base = os.path.basename(f)
        replace[os.path.join(pkgdir, "zz_verif_" + base)] = src
    # non-test accessor files overlaid into other packages
    for xpkg, files in unit.get("exports", {}).items():
        for f in files:
            # "dst.go=src/path.go" overlays under another base name (used to
            # turn a *_test.go engine file into a non-test file of xpkg);
            # "common" renders the harness runtime as a non-test file.
            if f == "common":
                cdst = os.path.join(gen, "zz_verif_common_" + os.path.basename(xpkg) + ".go")
                render_common(os.path.basename(xpkg), cdst)
                replace[os.path.join(modroot, xpkg, "zz_verif_common.go")] = cdst
                continue
            dst = os.path.basename(f)
            if "=" in f:
                dst, f = f.split("=", 1)
            src = os.path.join(VERIF, "harness", f)
            replace[os.path.join(modroot, xpkg, "zz_verif_" + dst)] = src
    overlay = os.path.join(gen, "overlay.json")
    with open(overlay, "w") as f:
        json.dump({"Replace": replace}, f, indent=1)
    # modfile
    moddir = os.path.join(gen, "mod")
    os.makedirs(moddir, exist_ok=True)
    gomod = open(os.path.join(modroot, "go.mod")).read()
    # relative replace paths are resolved against the main module root, keep.
    if unit.get("porcupine"):
        gomod += f"\nrequire {PORCUPINE}\n"
    with open(os.path.join(moddir, "go.mod"), "w") as f:
        f.write(gomod)
    sums = open(os.path.join(modroot, "go.sum")).read()
    extra = os.path.join(VERIF, "lib", "extra.go.sum")
    if os.path.exists(extra):
        sums += open(extra).read()
    with open(os.path.join(moddir, "go.sum"), "w") as f:
        f.write(sums)
    return {"overlay": overlay, "modfile": os.path.join(moddir, "go.mod"),
            "modroot": modroot, "pkgdir": pkgdir, "key": key}


def compile_unit(prop, unit, race):
    p = prepare_unit(prop, unit)
    bd = build_dir()
    os.makedirs(os.path.join(bd, "bin"), exist_ok=True)
    binpath = os.path.join(bd, "bin", p["key"] + (".race" if race else "") + ".test")
    cmd = [go_bin(), "test", "-c", "-o", binpath, "-overlay", p["overlay"],
           "-modfile", p["modfile"]]
    if unit.get("tags"):
        cmd += ["-tags", unit["tags"]]
    if race:
        cmd.append("-race")
    cmd.append("./" + unit["pkg"] if unit["pkg"] != "." else ".")
    t0 = time.time()
    r = subprocess.run(cmd, cwd=p["modroot"], env=go_env(), capture_output=True, text=True)
    dt = time.time() - t0
    if r.returncode != 0:
        log(f"BUILD FAILED for {p['key']} ({dt:.0f}s):\n{r.stdout}\n{r.stderr}")
        return None, p, (r.stdout + r.stderr)
    log(f"built {os.path.basename(binpath)} in {dt:.0f}s")
    return binpath, p, ""


def run_shard(binpath, p, unit, prop, tier, seed, shard, nshards, only_case, watchdog):
    """Run one shard; re-run it once if the process died inside the Go runtime's
    own all-goroutine traceback (runtime.Stack(all=true), which some harnesses
    call to detect that every goroutine is parked): that crash (SIGSEGV in
    runtime.(*unwinder).next on goroutine 0, seen about once per several
    million calls) is a fault of the instrumentation, not of lnd, and cases
    are a pure function of (seed, index), so the re-run covers the same cases."""
    r = run_shard_once(binpath, p, unit, prop, tier, seed, shard, nshards, only_case, watchdog)
    if r["rc"] == 2:
        try:
            head = open(r["log"], errors="replace").read(20000)
        except Exception:
            head = ""
        if "SIGSEGV" in head and "runtime.tracebackothers" in head and "runtime.Stack" in head:
            r2 = run_shard_once(binpath, p, unit, prop, tier, seed, shard, nshards, only_case, watchdog)
            r2["wall"] += r["wall"]
            r2["retried_after_runtime_stack_crash"] = True
            return r2
    return r


def run_shard_once(binpath, p, unit, prop, tier, seed, shard, nshards, only_case, watchdog):
    bd = build_dir()
    outdir = os.path.join(bd, "out")
    os.makedirs(outdir, exist_ok=True)
    tag = f"{p['key']}.{shard}"
    ndjson = os.path.join(outdir, tag + ".ndjson")
    logf = os.path.join(outdir, tag + ".log")
    racep = os.path.join(outdir, tag + ".race")
    for f in [ndjson, logf]:
        if os.path.exists(f):
            os.remove(f)
    for f in os.listdir(outdir):
        if f.startswith(tag + ".race"):
            os.remove(os.path.join(outdir, f))
    env = dict(os.environ)
    env.update({
        "VERIF_OUT": ndjson, "VERIF_SEED": str(seed), "VERIF_SHARD": str(shard),
        "VERIF_NSHARDS": str(nshards), "VERIF_TIER": tier,
        "VERIF_DIR": VERIF, "VERIF_SCRATCH": os.path.join(bd, "scratch", tag),
        "GORACE": f"halt_on_error=0 log_path={racep} history_size=2",
        "GOMAXPROCS": str(unit.get("gomaxprocs", 4)),
    })
    if only_case is not None:
        env["VERIF_ONLY_CASE"] = str(only_case)
    else:
        env.pop("VERIF_ONLY_CASE", None)
    shutil.rmtree(env["VERIF_SCRATCH"], ignore_errors=True)
    os.makedirs(env["VERIF_SCRATCH"], exist_ok=True)
    env["TMPDIR"] = env["VERIF_SCRATCH"]
    cmd = ["timeout", "-s", "QUIT", "-k", "20", str(watchdog), binpath,
           "-test.run", "^" + unit["test"] + "$", "-test.count=1",
           "-test.timeout", str(watchdog + 60) + "s", "-test.v"]
    t0 = time.time()
    with open(logf, "w") as lf:
        r = subprocess.run(cmd, cwd=p["pkgdir"], env=env, stdout=lf, stderr=subprocess.STDOUT)
    shutil.rmtree(env["VERIF_SCRATCH"], ignore_errors=True)
    return {"shard": shard, "rc": r.returncode, "ndjson": ndjson, "log": logf,
            "race_prefix": racep, "wall": time.time() - t0}


RACE_RE = re.compile(r"^WARNING: DATA RACE", re.M)


def parse_race_reports(prefix, anchors):
    """Return (attributed, unattributed) lists of de-duplicated race reports."""
    d = os.path.dirname(prefix)
    base = os.path.basename(prefix)
    blocks = []
    for f in os.listdir(d):
        if f.startswith(base):
            txt = open(os.path.join(d, f), errors="replace").read()
            for b in txt.split("=================="):
                if "WARNING: DATA RACE" in b:
                    blocks.append(b)
    return blocks


def classify_race(block, anchors):
    """A report is verdict-bearing only if both access stacks' top lnd frames
    are in non-test, non-harness files of the lnd tree, one is anchored, and
    neither access is made by a component's Stop method (a shutdown-ordering
    race such as WaitGroup.Add vs Wait cannot change what the property
    observes; it is kept as a diagnostic, keyed `lifecycle:`)."""
    # split the two access stacks
    parts = re.split(r"\n\n", block.strip())
    stacks = []
    for part in parts:
        if re.match(r"^(Read|Write|Previous read|Previous write|Atomic|Previous atomic)", part.strip(), re.I) or \
           part.strip().startswith("WARNING: DATA RACE"):
            stacks.append(part)
    tops = []
    funcs = []
    for st in stacks[:2] if len(stacks) >= 2 else stacks:
        frames = re.findall(r"^\s+(\S+)\(\)\n\s+(/\S+\.go):(\d+)", st, re.M)
        top = None
        fn = "?"
        for fname, fpath, line in frames:
            if "/lnd" in fpath or fpath.startswith(repo_root()):
                top = fpath
                fn = fname.split("/")[-1]
                break
        if top is None and frames:
            top = frames[0][1]
            fn = frames[0][0].split("/")[-1]
        tops.append(top or "?")
        funcs.append(fn)
    def is_prod(f):
        return f != "?" and f.startswith(repo_root()) and not f.endswith("_test.go") \
            and "zz_verif" not in f and "/mock" not in os.path.basename(f) \
            and "test_utils" not in f
    rel = [os.path.relpath(t, repo_root()) if t.startswith(repo_root()) else t for t in tops]
    lifecycle = any(re.search(r"\)\.(Stop|stop)$", fn) for fn in funcs)
    attributed = len(tops) >= 2 and all(is_prod(t) for t in tops) and \
        any(r in anchors for r in rel) and not lifecycle
    key = "|".join(sorted(f"{r}:{fn}" for r, fn in zip(rel, funcs)))
    if lifecycle:
        key = "lifecycle:" + key
    return attributed, key


def load_known():
    path = os.path.join(VERIF, "known_findings.json")
    if not os.path.exists(path):
        return []
    return json.load(open(path)).get("findings", [])


def known_match(known, prop, viol):
    for k in known:
        if k.get("status") != "known":
            continue
        if k["property"] != prop:
            continue
        if k.get("oracle") and k["oracle"] != viol.get("oracle"):
            continue
        if k.get("key_regex") and re.search(k["key_regex"], viol.get("key", "")):
            return k
        if k.get("key") and k["key"] == viol.get("key"):
            return k
    return None


def merge_unit(results, unit, prop):
    counters = {}
    sigs = set()
    samples = []
    viols = []
    notes = {}
    incomplete = []
    diags = []
    for r in results:
        done = False
        harness_fail = False
        last_case = None
        if os.path.exists(r["ndjson"]):
            for line in open(r["ndjson"], errors="replace"):
                line = line.strip()
                if not line:
                    continue
                try:
                    rec = json.loads(line)
                except Exception:
                    continue
                t = rec.get("t")
                if t == "case":
                    last_case = rec
                elif t == "case_done":
                    last_case = None
                elif t == "violation":
                    viols.append(rec)
                elif t == "diag":
                    if len(diags) < 10:
                        diags.append(rec)
                elif t == "summary":
                    for k, v in rec.get("counters", {}).items():
                        if k.startswith("max:"):
                            counters[k] = max(counters.get(k, v), v)
                        else:
                            counters[k] = counters.get(k, 0) + v
                    sigs.update(rec.get("sigs") or [])
                    for s in rec.get("samples") or []:
                        if len(samples) < 5:
                            samples.append(s)
                    notes.update(rec.get("notes") or {})
                elif t == "harness_fail":
                    harness_fail = True
                elif t == "done":
                    done = True
        if done and r["rc"] == 1 and not harness_fail and race_only_failure(r["log"]):
            # every failed sub-test failed only because the race detector
            # reported something during it; the reports themselves are
            # classified (attributed = violation, else diagnostic) below.
            notes[f"shard{r['shard']}.race_flagged_subtests"] = True
        elif not done or r["rc"] != 0:
            # a non-zero exit with a complete stream is a failed test
            # (t.Fatalf watchdog / harness error): inconclusive.
            incomplete.append({"shard": r["shard"], "rc": r["rc"], "log": r["log"],
                               "last_case": last_case})
    return {"counters": counters, "sigs": sigs, "samples": samples, "viols": viols,
            "notes": notes, "incomplete": incomplete, "diags": diags}


RACE_FAIL_LINE = "race detected during execution of test"


def race_only_failure(logpath):
    """True iff the go test log shows failed tests and every message line
    (`    file.go:123: text`) in it is the testing package's race notice."""
    try:
        txt = open(logpath, errors="replace").read()
    except Exception:
        return False
    if "--- FAIL" not in txt or RACE_FAIL_LINE not in txt:
        return False
    if re.search(r"^(panic: |fatal error: )", txt, re.M):
        return False
    for m in re.finditer(r"^\s+\S+\.go:\d+: (.*)$", txt, re.M):
        if RACE_FAIL_LINE not in m.group(1):
            return False
    return True


def tail(path, n=60):
    try:
        lines = open(path, errors="replace").read().splitlines()
        return "\n".join(lines[-n:])
    except Exception:
        return ""


def lnd_panic_in_log(path):
    """True if the child log shows a Go panic/fatal error whose stack goes
    through non-test lnd code."""
    try:
        txt = open(path, errors="replace").read()
    except Exception:
        return False, ""
    m = re.search(r"^(panic: .*|fatal error: .*)$", txt, re.M)
    if not m:
        return False, ""
    after = txt[m.start():m.start() + 20000]
    return True, after[:4000]


def main():
    ap = argparse.ArgumentParser()
    ap.add_argument("prop")
    ap.add_argument("--tier", default=None)
    ap.add_argument("--seed", default=None)
    ap.add_argument("--replay", default=None)
    ap.add_argument("--only-unit", default=None)
    ap.add_argument("--jobs", type=int, default=int(os.environ.get("VERIF_JOBS", "16")))
    args = ap.parse_args()
    prop = args.prop
    if prop not in PROPS:
        print(f"unknown property {prop}", file=sys.stderr)
        return 2
    cfg = PROPS[prop]
    tier = args.tier or os.environ.get("VERIF_TIER") or "quick"
    if tier not in ("quick", "thorough"):
        tier = "quick"
    seed = int(args.seed if args.seed is not None else os.environ.get("VERIF_SEED", "1") or "1")
    only_case = None
    only_unit = args.only_unit
    if args.replay:
        rp = json.load(open(args.replay))
        seed = int(rp["seed"])
        tier = rp.get("tier", tier)
        only_case = rp.get("case")
        only_unit = rp.get("unit")
        if only_case is not None and only_case < 0:
            only_case = None
    t0 = time.time()
    known = load_known()
    all_viol = []
    inconclusive = []
    unit_reports = {}
    total_counters = {}
    all_sigs = set()
    all_samples = []
    race_attr = {}
    race_unattr = {}
    diags = []
    notes = {}
    for unit in cfg["units"]:
        if only_unit and unit["name"] != only_unit:
            continue
        if tier not in unit.get("tiers", ["quick", "thorough"]):
            continue
        race = bool(unit.get("race", {}).get(tier, False))
        binpath, p, err = compile_unit(prop, unit, race)
        if binpath is None:
            inconclusive.append(f"build failed for unit {unit['name']}: {err[-1500:]}")
            continue
        nshards = unit.get("shards", {}).get(tier, 8)
        if only_case is not None:
            nshards = 1
        watchdog = unit.get("watchdog", {}).get(tier, 900 if tier == "quick" else 5400)
        results = []
        with cf.ThreadPoolExecutor(max_workers=min(args.jobs, nshards)) as ex:
            futs = [ex.submit(run_shard, binpath, p, unit, prop, tier, seed, s, nshards,
                              only_case, watchdog) for s in range(nshards)]
            for f in futs:
                results.append(f.result())
        m = merge_unit(results, unit, prop)
        unit_reports[unit["name"]] = {
            "counters": m["counters"], "distinct": len(m["sigs"]),
            "shards": nshards, "race_build": race,
            "wall_s": round(max(r["wall"] for r in results), 1),
        }
        for r in results:
            if r.get("retried_after_runtime_stack_crash"):
                notes[f"{unit['name']}.shard{r['shard']}.rerun"] = (
                    "re-run once after the Go runtime crashed inside runtime.Stack(all) "
                    "(harness instrumentation); same cases")
        for k, v in m["counters"].items():
            kk = f"{unit['name']}.{k}"
            total_counters[kk] = v
        all_sigs.update(f"{unit['name']}:{s}" for s in m["sigs"])
        all_samples.extend(m["samples"][:3])
        diags.extend(m["diags"])
        notes.update({f"{unit['name']}.{k}": v for k, v in m["notes"].items()})
        for v in m["viols"]:
            v["unit"] = unit["name"]
            all_viol.append(v)
        for inc in m["incomplete"]:
            panicked, snippet = lnd_panic_in_log(inc["log"])
            lc = inc["last_case"]
            if panicked and lc is not None and unit.get("fatal_is_violation", False):
                all_viol.append({"prop": prop, "unit": unit["name"], "oracle": "no_panic",
                                 "key": "process-fatal", "detail": snippet,
                                 "case": lc.get("i", -1), "seed": seed, "tier": tier,
                                 "witness": lc.get("input")})
            elif inc["rc"] in (124, 137) or inc["rc"] == -3 or inc["rc"] == 131:
                inconclusive.append(f"unit {unit['name']} shard {inc['shard']} hit the watchdog "
                                    f"(rc={inc['rc']}); log {inc['log']}")
            else:
                inconclusive.append(f"unit {unit['name']} shard {inc['shard']} ended early rc={inc['rc']}"
                                    f" last_case={json.dumps(lc)[:300] if lc else None}\n"
                                    + tail(inc["log"], 40))
        # race reports
        if race:
            anchors = set(cfg.get("race_anchors", []))
            for r in results:
                for b in parse_race_reports(r["race_prefix"], anchors):
                    a, key = classify_race(b, anchors)
                    tgt = race_attr if a else race_unattr
                    if key not in tgt:
                        tgt[key] = {"count": 0, "report": b[:3000]}
                    tgt[key]["count"] += 1
        # floors
        if only_case is None:
            for cname, floor in unit.get("floors", {}).get(tier, {}).items():
                got = m["counters"].get(cname, 0)
                if got < floor:
                    inconclusive.append(f"unit {unit['name']}: counter {cname}={got} below floor {floor}")
    for key, info in race_attr.items():
        all_viol.append({"prop": prop, "unit": "race", "oracle": "race_detector", "key": key,
                         "detail": info["report"], "case": -1, "seed": seed, "tier": tier})

    # known findings / replay files
    os.makedirs(os.path.join(VERIF, "replay", prop), exist_ok=True)
    new_viol = []
    known_hits = {}
    for v in all_viol:
        k = known_match(known, prop, v)
        if k:
            known_hits.setdefault(k["id"], {"k": k, "n": 0})["n"] += 1
        else:
            new_viol.append(v)
    lines = []
    for kid, info in known_hits.items():
        lines.append(f"KNOWN-FINDING: property={prop} {info['k']['what']} (id={kid}, seen {info['n']}x this run)")
    seen_keys = set()
    replay_paths = []
    for v in new_viol:
        fp = (v.get("oracle", ""), v.get("key", ""))
        if fp in seen_keys:
            continue
        seen_keys.add(fp)
        h = hashlib.sha1(json.dumps([fp, v.get("case"), seed]).encode()).hexdigest()[:10]
        path = os.path.join(VERIF, "replay", prop, f"{v.get('oracle','x')}-{h}.json")
        with open(path, "w") as f:
            json.dump({"property": prop, "unit": v.get("unit"), "seed": seed, "tier": tier,
                       "case": v.get("case", -1), "oracle": v.get("oracle"), "key": v.get("key"),
                       "detail": v.get("detail"), "witness": v.get("witness")}, f, indent=1)
        replay_paths.append(path)
        if len(replay_paths) >= 20:
            break

    evaluations = sum(v for k, v in total_counters.items() if k.endswith(".cases"))
    if cfg.get("eval_counter"):
        evaluations = sum(v for k, v in total_counters.items()
                          if k.split(".", 1)[1] == cfg["eval_counter"]) or evaluations
    status = "violated" if new_viol else ("inconclusive" if inconclusive else "held")
    ev = {
        "property_id": prop, "tier": tier, "seed": seed, "level": cfg["level"],
        "coverage": {
            "evaluations": int(evaluations),
            "distinct_nontrivial": len(all_sigs),
            "rule": cfg["rule"],
            "samples": all_samples[:6] or [{"note": "no sample recorded"}],
            "counters": total_counters,
            "units": unit_reports,
            "exhaustive": bool(cfg.get("exhaustive", False)),
            "diagnostics": diags[:10],
            "notes": notes,
            "race_reports": {"attributed": len(race_attr), "unattributed": len(race_unattr),
                             "unattributed_keys": sorted(race_unattr)[:20]},
            "known_findings_seen": sorted(known_hits),
            "status": status,
            "inconclusive_reasons": [s[:600] for s in inconclusive[:10]],
            "repo": repo_root(),
        },
        "assumptions": cfg.get("assumptions", []),
        "wall_s": round(time.time() - t0, 1),
        "violations": len(new_viol),
    }
    if repo_root() == "/repo" and only_case is None and not args.only_unit:
        os.makedirs(os.path.join(VERIF, "evidence"), exist_ok=True)
        with open(os.path.join(VERIF, "evidence", f"{prop}.json"), "w") as f:
            json.dump(ev, f, indent=1, default=str)
    else:
        alt = os.path.join(build_dir(), "out", f"evidence_{prop}.json")
        os.makedirs(os.path.dirname(alt), exist_ok=True)
        with open(alt, "w") as f:
            json.dump(ev, f, indent=1, default=str)

    for ln in lines:
        print(ln)
    print(f"[check] {prop} tier={tier} seed={seed} evaluations={evaluations} "
          f"distinct={len(all_sigs)} violations={len(new_viol)} known={len(known_hits)} "
          f"status={status} wall={ev['wall_s']}s")
    if new_viol:
        for pth in replay_paths:
            print(f"VIOLATION property={prop} replay={pth}")
        v = new_viol[0]
        print(f"[check] first violation: oracle={v.get('oracle')} key={v.get('key')}\n"
              f"{(v.get('detail') or '')[:1500]}", file=sys.stderr)
        return 1
    if inconclusive:
        print(f"[check] INCONCLUSIVE property={prop}:", file=sys.stderr)
        for s in inconclusive[:10]:
            print("  - " + s[:2000], file=sys.stderr)
        return 2
    return 0


if __name__ == "__main__":
    sys.exit(main())
