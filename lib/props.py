"""Loads per-property configuration from lib/propdefs/C??.py (each defines PROP).

Each property has one or more *units*: a harness (files under /verif/harness)
overlaid into one lnd package and compiled into that package's test binary.
"""
import importlib.util
import os

PROPS = {}
_d = os.path.join(os.path.dirname(os.path.abspath(__file__)), "propdefs")
for _f in sorted(os.listdir(_d)):
    if _f.endswith(".py") and _f[0] == "C":
        _spec = importlib.util.spec_from_file_location("propdef_" + _f[:-3], os.path.join(_d, _f))
        _m = importlib.util.module_from_spec(_spec)
        _spec.loader.exec_module(_m)
        PROPS[_f[:-3]] = _m.PROP
