PROP = {
    "level": "exploration",
    "technique": ("runtime monitors: (1) lattice run of the real LinearFeeFunction with per-call invariants; (2) real "
                  "TxPublisher driven block by block with a recording wallet that judges every transaction handed to "
                  "testmempoolaccept / publish against exact integer re-computation of fee, weight, dust and budget"),
    "level_text": ("Fee function: 4e5 (quick) / 1e8 (thorough) generated (ending rate, conf target 0..3000, estimator "
                   "answer incl. below floor / above max / error, explicit start, block pattern) runs; after every "
                   "Increment/IncreaseFeeRate: never decreases, never above the ending rate, start >= relay floor, "
                   "equals the ending rate from conf target 1 on. Publisher: 2.4e4 / 3e6 generated sweeps (1-4 inputs incl. "
                   "second-level style required outputs, wallet top-ups through BudgetInputSet, aux extra output, scripted "
                   "mempool/publish answers, skipped/repeated heights, third-party/own spends); every tx handed to the "
                   "wallet: fee <= budget, fee*1000 <= MaxFeeRate*weight(signed tx), all inputs exactly once, no output "
                   "below dust, published replacements non-decreasing in fee rate, fee function at its ceiling from "
                   "deadline-1 on."),
    "level_note": ("Sampled. Inputs are harness inputs with real StandardWitnessTypes whose witnesses are crafted at the "
                   "type's size upper bound (worst-case signatures), so the signed weight equals lnd's estimate; shorter "
                   "real signatures raise the effective rate by <1% and are not modelled. The sweeper's aggregator / "
                   "retry loop above the publisher is not driven (BudgetInputSet is). CPFP parents are not generated "
                   "(the bumper's fee ignores them)."),
    "design_ref": "DESIGN.md §3 C18",
    "rule": ("fee function: distinct (block pattern, width bucket, explicit start?, domain class, ending-rate bucket); "
             "publisher: a case is non-trivial when at least one tx was handed to the wallet; distinct (#inputs, "
             "#required outputs, via input set, wallet top-up, #published bucket, #replaced, #failed, #unknown-spend, "
             "change script type, aux output)."),
    "assumptions": [
        "required outputs / aux outputs supplied by the caller are themselves not dust",
        "witnesses have the size upper bound of their witness type",
        "explicit StartingFeeRate above the ending rate and relay floor above the ending rate are kept in separate fingerprint classes",
    ],
    "units": [
        {
            "name": "feefunction", "pkg": "sweep", "test": "TestVerifC18FeeFunction",
            "files": ["sweep/c18_test.go"],
            "shards": {"quick": 8, "thorough": 16},
            "floors": {
                "quick": {"cases": 200000, "oracle_ff_monotone_evals": 4000000, "oracle_ff_capped_evals": 4000000,
                          "oracle_ff_ceiling_evals": 800000, "oracle_ff_floor_evals": 60000,
                          "ff_runs_reaching_deadline": 140000},
                "thorough": {"cases": 50000000, "oracle_ff_monotone_evals": 1000000000,
                             "oracle_ff_capped_evals": 1000000000, "oracle_ff_ceiling_evals": 200000000,
                             "oracle_ff_floor_evals": 15000000, "ff_runs_reaching_deadline": 35000000},
            },
        },
        {
            "name": "publisher", "pkg": "sweep", "test": "TestVerifC18Publisher",
            "files": ["sweep/c18_test.go"],
            "shards": {"quick": 8, "thorough": 16},
            "floors": {
                "quick": {"cases": 12000, "oracle_pub_budget_evals": 40000, "oracle_pub_maxrate_evals": 40000,
                          "oracle_pub_dust_evals": 40000, "oracle_pub_inputs_evals": 40000,
                          "oracle_pub_monotone_evals": 12000, "oracle_pub_ceiling_evals": 16000,
                          "pub_cases_with_replacement": 3000, "pub_with_wallet_topup": 1100},
                "thorough": {"cases": 1500000, "oracle_pub_budget_evals": 5000000, "oracle_pub_maxrate_evals": 5000000,
                             "oracle_pub_dust_evals": 5000000, "oracle_pub_inputs_evals": 5000000,
                             "oracle_pub_monotone_evals": 1500000, "oracle_pub_ceiling_evals": 2000000,
                             "pub_cases_with_replacement": 360000, "pub_with_wallet_topup": 135000},
            },
        },
    ],
}
