PROP = {
    "level": "exploration",
    "technique": ("runtime monitors: (1) lattice run of the real LinearFeeFunction with per-call invariants; (2) real "
                  "TxPublisher driven block by block with a recording wallet that judges every transaction handed to "
                  "testmempoolaccept / publish against exact integer re-computation of fee, weight, dust and budget "
                  "(from the transaction and the values of the generated inputs, never from lnd's estimator), every "
                  "ErrNotEnoughBudget give-up against the harness' own rate x size; "
                  "(3) real UtxoSweeper (block handler, monitorFeeBumpResult, handleBumpEvent and its handlers) over the "
                  "real BudgetAggregator in a loop with the real TxPublisher over several blocks, faults injected at "
                  "the wallet/mempool boundary: the fee function and every transaction of every (re)grouped request "
                  "are judged against the rate each of its inputs was last offered at and the budgets attached to "
                  "the inputs; "
                  "(4) the same loop with the input lifecycle of the real UtxoSweeper driven by the harness as the "
                  "caller and the chain: real SweepInput / UpdateParams calls whose messages the harness, playing the "
                  "collector, feeds to handleNewInput / handleExistingInput / handleUpdateReq, spend notifications "
                  "through the sweeper's own subscriptions (handleInputSpent), own sweeps confirming, answers of "
                  "wallet / mempool / signer scripted per (lead input, block); judged with the oracle code of (3) "
                  "against the budgets / deadlines the caller had attached when the request was built, plus the "
                  "per-transaction clauses and the ceiling at deadline-1 on every live record"),
    "level_text": ("Fee function: 4e5 (quick) / 1e8 (thorough) generated (ending rate, conf target 0..3000, estimator "
                   "answer incl. below floor / above max / error, explicit start, block pattern) runs; after every "
                   "Increment/IncreaseFeeRate: never decreases, never above the ending rate, start >= relay floor, "
                   "equals the ending rate from conf target 1 on. Publisher: 2.4e4 / 3e6 generated sweeps (1-5 inputs incl. "
                   "second-level style required outputs, wallet top-ups through BudgetInputSet, aux extra output, scripted "
                   "mempool/publish answers, skipped/repeated heights, third-party/own spends; optional input attributes: "
                   "required locktimes, relative timelocks (BlocksToMaturity), segwit-v0 and taproot witness types, and in "
                   "~40% of the cases unconfirmed parents (UnconfParent: PRNG weight 1..4e5 wu, fee at a rate of zero / "
                   "below / next to / above the starting rate, the relay floor and MaxFeeRate; one or several inputs, "
                   "several outputs of one parent; half of them 330 sat anchors paid for by a wallet utxo or a further "
                   "input), p2wpkh / p2tr / np2wkh wallet utxos); every tx handed to the "
                   "wallet: fee <= budget, fee*1000 <= MaxFeeRate*weight(signed tx), all inputs exactly once, no output "
                   "below dust, published replacements non-decreasing in fee rate, fee function at its ceiling from "
                   "deadline-1 on; a sweep given up with ErrNotEnoughBudget although the budget covers rate x size (with a "
                   "non-dust change) counts as ceiling not reached. Regroup: 3e4 / 3e6 generated populations of 1-9 pending inputs (1-3 deadlines, "
                   "mixed budgets, Immediate, locktimes, exclusive groups, required outputs, no-deadline params, "
                   "MaxInputsPerTx 2..100, wallet utxos, inputs arriving in later blocks; about half the inputs carry "
                   "the rate of an earlier attempt, recorded through the sweeper's own markInputsPublishFailed or set "
                   "like mempool RBFInfo) driven for 6-20 blocks (every block, skipped heights, on to the deadlines) "
                   "in lnd's consumer order sweeper -> publisher, every BumpResult going through monitorFeeBumpResult "
                   "and handleBumpEvent; scripted CheckMempoolAcceptance / PublishTransaction answers (insufficient "
                   "fee, min relay / mempool min fee, mempool fee, missing inputs with and without a third-party "
                   "spend, not implemented, generic), third-party spends between blocks; for every input the rates "
                   "of the txs handed to the wallet (and of each fresh fee function) never fall below "
                   "min(previous rate, ceiling of the request); every tx: fee <= sum of the budgets of the inputs "
                   "it spends, all inputs of the request exactly once; a request given up with ErrNotEnoughBudget "
                   "although the budgets attached to its inputs cover rate x size counts as ceiling not reached "
                   "(regroup_ceiling). The populations carry the same optional input attributes (relative timelocks, "
                   "unconfirmed parents incl. shared ones and anchors) as the publisher's. Lifecycle: 1.6e4 / 2.4e6 "
                   "generated populations (as regroup's) over 9-30 blocks in which every input enters through the real "
                   "SweepInput (optionally with a starting fee rate, or with an own earlier sweep in the mempool + "
                   "sweeper store: decideRBFInfo), at the start or in a later block, incl. deadlines at / behind the "
                   "current height, Immediate, shared exclusive groups; per block a PRNG script of caller / chain "
                   "events: re-offer of a pending input in every state (Init / PendingPublish / Published / "
                   "PublishFailed) with changed budget (half / double / random), deadline (sooner / later / past / "
                   "none), Immediate, exclusive group, starting fee rate; UpdateParams likewise (also of unknown "
                   "inputs); offer again after the sweeper gave the input up (fatal / excluded); the latest own sweep "
                   "confirms (TxConfirmed), an earlier own sweep confirms (TxUnknownSpend with our tx), a third party "
                   "spends an input, an earlier own sweep of a sub-set and a third-party spend hit one request; the "
                   "sweeper's spend subscriptions are served before its block handler or after the publisher's; "
                   "answers per (lead input, block) of testmempoolaccept (ok / insufficient fee / mempool min fee / "
                   "min relay fee / mempool fee / too-long-mempool-chain / generic / missing inputs with and without "
                   "spend / not implemented, for the first n calls of the block), publish and the signer (input "
                   "script creation fails), hitting the initial broadcast, the first and later bumps, with further "
                   "blocks following. Every tx handed to the wallet: fee <= sum of the budgets the caller had attached "
                   "to its inputs when the request was built, fee*1000 <= MaxFeeRate*weight, all inputs of its request "
                   "exactly once, no output below dust; per input the offered rates never fall below min(previous "
                   "rate, ceiling of the request) across requests / blocks (baseline: a starting rate the caller or "
                   "the mempool supplied, then every tx handed over); every record the publisher still monitors at "
                   "height >= attached deadline-1 has its fee function at min(attached budgets / size, MaxFeeRate); "
                   "give-ups as in regroup."),
    "level_note": ("Sampled. Inputs are harness inputs with real StandardWitnessTypes whose witnesses are crafted at the "
                   "type's size upper bound (worst-case signatures), so the signed weight equals lnd's estimate; shorter "
                   "real signatures raise the effective rate by <1% and are not modelled. The sweeper is driven "
                   "synchronously (its collector goroutine is replaced by the harness calling the same handlers in the "
                   "same order). In the regroup unit handleNewInput / the spend-notification path / confirmations "
                   "of own sweeps are not driven (inputs are put into the pending map, third-party spends reach the "
                   "sweeper through the publisher); the lifecycle unit drives them: the real SweepInput / UpdateParams / "
                   "monitorSpend goroutines put their messages on the sweeper's channels, the harness takes them and "
                   "calls the collector's handlers in the collector's order (loop-top updateSweeperInputs, handler, "
                   "immediate sweep), one deterministic interleaving per case (spend notifications of one event sorted "
                   "by input; served before the sweeper's block handler or after the publisher's); races between the "
                   "collector's channels, reorgs, a restart of the sweeper, the aux sweeper and a neutrino backend are "
                   "not explored there. Lifecycle attribution: a tx is attributed to the request whose record is being "
                   "initialised, else to the live request with exactly its inputs (each sweep address is handed out "
                   "once); txs of two live requests with the same inputs and no change output (~0.1%) are judged "
                   "against the larger budget and not for monotonicity. Fee rate decreases the caller itself brings "
                   "about are diagnostics, counted as life_decrease_*: (a) an input re-offered / updated WITHOUT a "
                   "starting fee rate while it carried one (handleExistingInput / handleUpdateReq replace the params, "
                   "the retry starts from the estimator; ~1e3 per quick run), (b) an input the caller put into a "
                   "second live request (UpdateParams on a published input, or offered again while an old record "
                   "lives). After an offer of an input the sweeper had given up the baseline restarts. "
                   "The harness, as caller, keeps reading every result channel SweepInput / UpdateParams return (a "
                   "caller that does not read blocks the collector when the sweeper signals an input twice from one "
                   "handler, counted as life_result_channels_signalled_twice; liveness is not part of C18). The lifecycle "
                   "ceiling oracle skips requests whose inputs carry no caller-attached deadline (default deadline) "
                   "or different ones. "
                   "Groupings inside lnd follow Go map iteration and an unstable sort, so counters vary by ~0.01% "
                   "between runs of one seed; verdicts are per-request invariants. Two fingerprint classes of "
                   "regroup_feerate_monotone (key suffixes +carried-rate-wiped-by-txfailed-without-fee-rate, "
                   "+carried-rate-lowered-by-failed-result) are reported at most 3 times per process each, the rest "
                   "is counted (regroup_decrease_*). The ceiling of a regrouped request "
                   "uses a BIP-141 weight model written in the harness (calibrated as a diagnostic against every tx "
                   "built) with 8 wu + 1 sat/kw slack. The give-up oracles (pub_ceiling_by_deadline_minus_1 / "
                   "regroup_ceiling, key gave-up-not-enough-budget-...) are event-triggered: they judge the rate the "
                   "failed result reports for the retry (>= the rate of the failed attempt, so they err on the "
                   "publisher's side) with that weight model, 8 wu + 1 sat slack, and only when a non-dust change is "
                   "possible; on the unchanged tree they are evaluated a few dozen times per quick run. The known "
                   "class KF-C18-2 (key +only-by-sub-dust-change-folded-into-fee) is restricted to excesses of less "
                   "than one dust limit over the fee at the fee function's rate. A fifth of the wallet utxos on offer "
                   "for top-ups are np2wkh (signed with the real 23 byte sigScript); violations of transactions "
                   "spending one carry the key class +np2wkh-wallet-input (lnd's 48 wu over-estimate of such inputs, "
                   "fixed in /repo 037394c)."),
    "design_ref": "DESIGN.md §3 C18",
    "rule": ("fee function: distinct (block pattern, width bucket, explicit start?, domain class, ending-rate bucket); "
             "publisher: a case is non-trivial when at least one tx was handed to the wallet; distinct (#inputs, "
             "#required outputs, via input set, wallet top-up, #published bucket, #replaced, #failed, #unknown-spend, "
             "change script type, aux output, unconfirmed-parent class (none / never handed over / always at or above "
             "the offered rate / below the offered rate / shared parent below the offered rate), relative timelock "
             "present); regroup: a population is non-trivial when the sweeper built at least "
             "one request; distinct (#inputs bucket, #requests, MaxInputsPerTx, request mixing different earlier "
             "rates, earlier rate above the ceiling, wallet top-up, locktimes, exclusive, immediate, late arrivals, "
             "#requests with tx bucket, buckets of #failed / #fatal / #unknown-spend / #replaced results, #later-round "
             "requests bucket, request with an unconfirmed parent); lifecycle: a case is non-trivial when the sweeper "
             "built at least one request; distinct (#inputs bucket, #requests, #later-round requests, #requests with tx, "
             "set of caller events applied by (kind, state of the input), set of (stage, answer) faults that hit a tx, "
             "buckets of #confirmed / #failed / #fatal / #unknown-spend / #replaced results, ceiling checked, request "
             "mixing different earlier rates)."),
    "assumptions": [
        "required outputs / aux outputs supplied by the caller are themselves not dust",
        "witnesses have the size upper bound of their witness type",
        "explicit StartingFeeRate above the ending rate and relay floor above the ending rate are kept in separate fingerprint classes",
    ],
    "units": [
        {
            "name": "feefunction", "pkg": "sweep", "test": "TestVerifC18FeeFunction",
            "files": ["sweep/c18_test.go", "sweep/c18life_test.go"],
            "shards": {"quick": 8, "thorough": 16},
            "floors": {
                "quick": {"cases": 200000, "oracle_ff_monotone_evals": 4000000, "oracle_ff_capped_evals": 4000000,
                          "oracle_ff_ceiling_evals": 800000, "oracle_ff_floor_evals": 60000,
                          "ff_runs_reaching_deadline": 140000},
                "thorough": {"cases": 50000000, "oracle_ff_monotone_evals": 1000000000,
                             "oracle_ff_capped_evals": 1000000000, "oracle_ff_ceiling_evals": 200000000,
                             "oracle_ff_floor_evals": 15000000, "ff_runs_reaching_deadline": 35000000},
            },
        },
        {
            "name": "publisher", "pkg": "sweep", "test": "TestVerifC18Publisher",
            "files": ["sweep/c18_test.go", "sweep/c18life_test.go"],
            "shards": {"quick": 8, "thorough": 16},
            "floors": {
                "quick": {"cases": 12000, "oracle_pub_budget_evals": 40000, "oracle_pub_maxrate_evals": 40000,
                          "oracle_pub_dust_evals": 40000, "oracle_pub_inputs_evals": 40000,
                          "oracle_pub_monotone_evals": 12000, "oracle_pub_ceiling_evals": 16000,
                          "pub_cases_with_replacement": 3000, "pub_with_wallet_topup": 1100,
                          "pub_cases_with_unconf_parent": 4700, "pub_cases_with_shared_unconf_parent": 800,
                          "pub_txs_with_parent_below_offered_rate": 14000,
                          "pub_txs_with_parents_at_or_above_offered_rate": 3500,
                          "pub_cases_replaced_with_parent_below_offered_rate": 1100,
                          "pub_cases_ceiling_checked_with_parent_below_offered_rate": 1100,
                          "pub_cases_with_csv_input": 2900, "oracle_pub_gave_up_evals": 10,
                          "pub_txs_with_np2wkh_input": 1700},
                "thorough": {"cases": 1500000, "oracle_pub_budget_evals": 5000000, "oracle_pub_maxrate_evals": 5000000,
                             "oracle_pub_dust_evals": 5000000, "oracle_pub_inputs_evals": 5000000,
                             "oracle_pub_monotone_evals": 1500000, "oracle_pub_ceiling_evals": 2000000,
                             "pub_cases_with_replacement": 360000, "pub_with_wallet_topup": 135000,
                             "pub_cases_with_unconf_parent": 580000, "pub_cases_with_shared_unconf_parent": 100000,
                             "pub_txs_with_parent_below_offered_rate": 1750000,
                             "pub_txs_with_parents_at_or_above_offered_rate": 430000,
                             "pub_cases_replaced_with_parent_below_offered_rate": 135000,
                             "pub_cases_ceiling_checked_with_parent_below_offered_rate": 135000,
                             "pub_cases_with_csv_input": 360000, "oracle_pub_gave_up_evals": 1200,
                             "pub_txs_with_np2wkh_input": 210000},
            },
        },
        {
            "name": "regroup", "pkg": "sweep", "test": "TestVerifC18Regroup",
            "files": ["sweep/c18_test.go", "sweep/c18life_test.go"],
            "shards": {"quick": 8, "thorough": 16},
            "floors": {
                "quick": {"cases": 15000, "regroup_blocks": 165000, "regroup_requests": 90000,
                          "regroup_requests_in_later_rounds": 60000, "regroup_requests_with_retried_input": 53000,
                          "regroup_requests_multi_input": 22000, "regroup_requests_mixed_last_offered": 3500,
                          "regroup_requests_with_tx": 55000, "regroup_requests_with_wallet_topup": 12000,
                          "regroup_inputs_marked_publish_failed": 29000, "regroup_fee_functions": 90000,
                          "regroup_txs_of_later_rounds": 125000,
                          "regroup_results_Published": 42000, "regroup_results_Replaced": 74000,
                          "regroup_results_Failed": 55000, "regroup_results_TxFailed_without_fee_rate": 16000,
                          "regroup_results_UnknownSpend": 3600, "regroup_results_Fatal": 2000,
                          "oracle_regroup_monotone_evals": 490000, "oracle_regroup_monotone_over_time_evals": 440000,
                          "regroup_monotone_ceiling_corner_evals": 24000, "oracle_regroup_budget_evals": 300000,
                          "oracle_regroup_inputs_evals": 300000,
                          "regroup_inputs_with_unconf_parent": 13000, "regroup_requests_with_unconf_parent": 18000,
                          "regroup_txs_with_parent_below_offered_rate": 46000,
                          "regroup_txs_with_parents_at_or_above_offered_rate": 19000,
                          "oracle_regroup_gave_up_evals": 3},
                "thorough": {"cases": 1500000, "regroup_blocks": 16500000, "regroup_requests": 9000000,
                             "regroup_requests_in_later_rounds": 6000000,
                             "regroup_requests_with_retried_input": 5300000,
                             "regroup_requests_multi_input": 2200000, "regroup_requests_mixed_last_offered": 350000,
                             "regroup_requests_with_tx": 5500000, "regroup_requests_with_wallet_topup": 1200000,
                             "regroup_inputs_marked_publish_failed": 2900000, "regroup_fee_functions": 9000000,
                             "regroup_txs_of_later_rounds": 12500000,
                             "regroup_results_Published": 4200000, "regroup_results_Replaced": 7400000,
                             "regroup_results_Failed": 5500000, "regroup_results_TxFailed_without_fee_rate": 1600000,
                             "regroup_results_UnknownSpend": 360000, "regroup_results_Fatal": 200000,
                             "oracle_regroup_monotone_evals": 49000000,
                             "oracle_regroup_monotone_over_time_evals": 44000000,
                             "regroup_monotone_ceiling_corner_evals": 2400000,
                             "oracle_regroup_budget_evals": 30000000, "oracle_regroup_inputs_evals": 30000000,
                             "regroup_inputs_with_unconf_parent": 1300000,
                             "regroup_requests_with_unconf_parent": 1800000,
                             "regroup_txs_with_parent_below_offered_rate": 4600000,
                             "regroup_txs_with_parents_at_or_above_offered_rate": 1900000,
                             "oracle_regroup_gave_up_evals": 1000},
            },
        },
        {
            "name": "lifecycle", "pkg": "sweep", "test": "TestVerifC18Lifecycle",
            "files": ["sweep/c18_test.go", "sweep/c18life_test.go"],
            "shards": {"quick": 8, "thorough": 16},
            "floors": {
                "quick": {
                    "cases": 8000, "regroup_blocks": 110000, "regroup_inputs": 39000, "regroup_requests": 69000,
                    "regroup_requests_in_later_rounds": 56000, "regroup_requests_with_retried_input": 46000,
                    "regroup_requests_multi_input": 11000, "regroup_requests_with_tx": 32000,
                    "regroup_requests_with_wallet_topup": 14000, "regroup_requests_with_unconf_parent": 15000,
                    "regroup_txs_of_later_rounds": 99000, "regroup_results_Published": 28000,
                    "regroup_results_Replaced": 56000, "regroup_results_Failed": 41000,
                    "regroup_results_Confirmed": 3100, "regroup_results_UnknownSpend": 8300,
                    "regroup_results_Fatal": 3400, "life_sweep_input_calls": 50000, "life_update_params_calls": 6700,
                    "life_reoffers_Init": 3100, "life_reoffers_Published": 4500, "life_reoffers_PublishFailed": 1400,
                    "life_reoffers_PendingPublish": 83, "life_updates_Init": 2000, "life_updates_Published": 3000,
                    "life_updates_PublishFailed": 940, "life_offers_after_give_up": 900,
                    "life_inputs_offered_with_starting_rate": 7200, "life_inputs_with_own_sweep_in_mempool": 3600,
                    "life_own_sweeps_confirmed": 3100, "life_own_multi_input_sweeps_confirmed": 960,
                    "life_earlier_own_sweeps_confirmed": 1000, "life_third_party_spends": 7700,
                    "life_partial_own_and_third_party_spends": 160, "life_spend_notifications_handled": 9200,
                    "life_signer_failures": 2100, "life_non_fee_failure_at_bump": 2700,
                    "life_non_fee_failure_after_successful_bump": 2000,
                    "life_requests_retrying_after_non_fee_bump_failure": 2700,
                    "life_answers_initial_testmempoolaccept_toolong": 500,
                    "life_answers_initial_testmempoolaccept_other": 510,
                    "life_answers_first_bump_testmempoolaccept_toolong": 220,
                    "life_answers_first_bump_testmempoolaccept_other": 200,
                    "life_answers_first_bump_testmempoolaccept_minrelay": 140,
                    "life_answers_first_bump_testmempoolaccept_mempoolmin": 140,
                    "life_answers_first_bump_testmempoolaccept_insufficient": 210,
                    "life_answers_later_bump_testmempoolaccept_toolong": 590,
                    "life_answers_later_bump_testmempoolaccept_other": 580,
                    "life_answers_later_bump_testmempoolaccept_minrelay": 370,
                    "life_answers_later_bump_testmempoolaccept_mempoolmin": 420,
                    "life_answers_later_bump_testmempoolaccept_insufficient": 590,
                    "life_answers_later_bump_testmempoolaccept_missing": 390,
                    "life_answers_first_bump_publish_other": 100, "life_answers_later_bump_publish_other": 290,
                    "oracle_regroup_monotone_evals": 290000, "oracle_regroup_monotone_over_time_evals": 270000,
                    "regroup_monotone_ceiling_corner_evals": 16000, "oracle_regroup_budget_evals": 220000,
                    "oracle_regroup_inputs_evals": 220000, "oracle_life_maxrate_evals": 220000,
                    "oracle_life_dust_evals": 220000, "oracle_life_ceiling_evals": 90000,
                    "life_cases_with_ceiling_check": 6100, "oracle_regroup_gave_up_evals": 3},
                "thorough": {
                    "cases": 1200000, "regroup_blocks": 16500000, "regroup_inputs": 5850000,
                    "regroup_requests": 10350000, "regroup_requests_in_later_rounds": 8400000,
                    "regroup_requests_with_retried_input": 6900000, "regroup_requests_multi_input": 1650000,
                    "regroup_requests_with_tx": 4800000, "regroup_requests_with_wallet_topup": 2100000,
                    "regroup_requests_with_unconf_parent": 2250000, "regroup_txs_of_later_rounds": 14850000,
                    "regroup_results_Published": 4200000, "regroup_results_Replaced": 8400000,
                    "regroup_results_Failed": 6150000, "regroup_results_Confirmed": 465000,
                    "regroup_results_UnknownSpend": 1245000, "regroup_results_Fatal": 510000,
                    "life_sweep_input_calls": 7500000, "life_update_params_calls": 1005000,
                    "life_reoffers_Init": 465000, "life_reoffers_Published": 675000,
                    "life_reoffers_PublishFailed": 210000, "life_reoffers_PendingPublish": 12450,
                    "life_updates_Init": 300000, "life_updates_Published": 450000,
                    "life_updates_PublishFailed": 141000, "life_offers_after_give_up": 135000,
                    "life_inputs_offered_with_starting_rate": 1080000,
                    "life_inputs_with_own_sweep_in_mempool": 540000, "life_own_sweeps_confirmed": 465000,
                    "life_own_multi_input_sweeps_confirmed": 144000, "life_earlier_own_sweeps_confirmed": 150000,
                    "life_third_party_spends": 1155000, "life_partial_own_and_third_party_spends": 24000,
                    "life_spend_notifications_handled": 1380000, "life_signer_failures": 315000,
                    "life_non_fee_failure_at_bump": 405000, "life_non_fee_failure_after_successful_bump": 300000,
                    "life_requests_retrying_after_non_fee_bump_failure": 405000,
                    "life_answers_initial_testmempoolaccept_toolong": 75000,
                    "life_answers_initial_testmempoolaccept_other": 76500,
                    "life_answers_first_bump_testmempoolaccept_toolong": 33000,
                    "life_answers_first_bump_testmempoolaccept_other": 30000,
                    "life_answers_first_bump_testmempoolaccept_minrelay": 21000,
                    "life_answers_first_bump_testmempoolaccept_mempoolmin": 21000,
                    "life_answers_first_bump_testmempoolaccept_insufficient": 31500,
                    "life_answers_later_bump_testmempoolaccept_toolong": 88500,
                    "life_answers_later_bump_testmempoolaccept_other": 87000,
                    "life_answers_later_bump_testmempoolaccept_minrelay": 55500,
                    "life_answers_later_bump_testmempoolaccept_mempoolmin": 63000,
                    "life_answers_later_bump_testmempoolaccept_insufficient": 88500,
                    "life_answers_later_bump_testmempoolaccept_missing": 58500,
                    "life_answers_first_bump_publish_other": 15000, "life_answers_later_bump_publish_other": 43500,
                    "oracle_regroup_monotone_evals": 43500000, "oracle_regroup_monotone_over_time_evals": 40500000,
                    "regroup_monotone_ceiling_corner_evals": 2400000, "oracle_regroup_budget_evals": 33000000,
                    "oracle_regroup_inputs_evals": 33000000, "oracle_life_maxrate_evals": 33000000,
                    "oracle_life_dust_evals": 33000000, "oracle_life_ceiling_evals": 13500000,
                    "life_cases_with_ceiling_check": 915000, "oracle_regroup_gave_up_evals": 450},
            },
        },
    ],
}
