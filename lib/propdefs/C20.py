PROP = {
    "level": "exploration",
    "technique": ("runtime monitor: graph-snapshot differential oracle + broadcast monitor around a real "
                  "AuthenticatedGossiper over a real graph.Builder/bbolt graph DB, judged by a harness-side "
                  "BOLT-7 reference validity predicate; zombie-index monitor judged by a harness-side "
                  "resurrection reference (direction owner x stored key x prune window); cross-direction workload "
                  "(authentic updates over the channel-flag / message-flag space x timestamp classes relative to each "
                  "direction's stored policy) judged by the same reference predicate and oracles; restart dimension (the whole "
                  "stack re-created on the same database with cold / tiny caches at PRNG points of every phase, plus an "
                  "after-restart replay phase with repeated deliveries of stale / equal / fresh authentic updates), again "
                  "judged by the same reference predicate and oracles"),
    "level_text": ("256 (quick) / 14000 (thorough) PRNG scenarios of 40 remote gossip messages each, followed by a zombie phase, a cross-direction phase and an after-restart replay phase, with node restarts at PRNG points inside all of them (valid channel_announcement / channel_update / "
                   "node_announcement sets from PRNG keys, every single-field corruption with and without re-signing, "
                   "single-byte corruptions of the signed region and of the signatures, replays, orderings incl. "
                   "update-before-channel and not-yet-mined funding blocks, spent / mismatching / missing funding "
                   "outputs) are fed through ProcessRemoteAnnouncement of a real gossiper whose Graph is a real "
                   "graph.Builder over a real bbolt graph DB and whose ChainIO serves generated blocks with real "
                   "2-of-2 P2WSH outputs (AssumeChannelValid off). After every message the full graph (channels, "
                   "both policies, nodes) is diffed against the snapshot before it: every changed key must be "
                   "allowed by the reference predicate (btcec verification over the double-SHA256 digest recomputed "
                   "from the wire bytes, funding lookup in the model chain, strict freshness, known channel) and the "
                   "stored value must match the authenticated message; every message handed to Broadcast (trickle "
                   "forced by a sentinel) must be byte-identical to a message the reference judged valid+fresh. "
                   "Zombie phase (28 further steps per scenario, own PRNG stream): channels are brought into the zombie "
                   "index of the real graph DB in every shape it can hold (both node keys / only node 1's / only node "
                   "2's / none) through the calls lnd itself uses (ChannelGraph.MarkEdgeZombie, Builder.MarkZombieEdge, and "
                   "ChannelGraph.DeleteChannelEdges(strict, markZombie) + PruneGraphNodes exactly as Builder.pruneZombieChans "
                   "issues them, on graph channels with 0/1/2 policies of assorted ages); then channel_updates signed by "
                   "node 1 / node 2 / a stranger x direction bit 0/1 x timestamp classes (fresh, just inside / just outside "
                   "the 14-day prune window, old, 2020, zero, near and far future; 3 in 8 with the disable bit and/or unknown channel-flag "
                   "bits set besides the direction bit; some byte-flipped) and valid / badly signed "
                   "channel_announcements are delivered for them. Oracle zombie_stays_dead_unless_authentic: after quiescence "
                   "a tracked zombie entry may disappear only through an update whose signature verifies under the real key "
                   "of the node owning the flagged direction, whose key is the one stored in that node's slot of the entry, "
                   "and whose timestamp is not older than the prune window (or through a reference-valid announcement "
                   "re-adding the channel); entries are never rewritten; an update that fails the reference is not kept in "
                   "prematureChannelUpdates (not applied / not relayed are judged by the graph and broadcast oracles). "
                   "Cross-direction phase (2 rounds per scenario, own PRNG stream, after the zombie phase): a channel is announced "
                   "(or one already in the graph is reused) and its two stored policies are laid out with plain valid updates as "
                   "{none, only direction 0, only direction 1, direction 0 older by 1e4..5e6 s, direction 0 newer by as much, equal}; "
                   "then 12 channel_updates per round, signed by the owner of the flagged direction (1 in 8 by the other node), over "
                   "channel flags = direction bit x disable bit x unknown bits (2..7) and message flags = with/without max-htlc x "
                   "unknown bits (1..7), with the timestamp drawn from classes relative to BOTH directions' stored timestamps: older "
                   "than both, strictly between them (own direction older / own direction newer), equal to own, equal to the other "
                   "direction's, +-1 around either, newer than both (and the corresponding classes when one or both directions have "
                   "no policy). No additional oracle: each message goes through the same per-message judgement (reference predicate "
                   "= signer is the owner of the direction BIT only, strictly newer than the stored policy OF THAT DIRECTION, "
                   "consistent fields; oracles graph_unchanged_unless_valid, not_relayed_unless_valid, applied_matches_message). "
                   "Counters x_stale_own_fresh_oth_d<dir>_<flag class> (stale for its own direction although newer than the other "
                   "direction's stored policy, or the other has none) and x_fresh_own_stale_oth_* (the mirror case) have floors per "
                   "direction and flag class. "
                   "Restart dimension (own PRNG stream derived from (seed, case), so the message streams of the phases are unchanged): "
                   "before a step of the catalogue phase (1 in 20), of the zombie phase (1 in 14) and before an update of the "
                   "cross-direction phase (1 in 9) gossiper + builder + graph store are stopped and re-created on the SAME "
                   "database: every in-memory structure starts empty (graph store reject cache / channel cache / graph cache, "
                   "builder, gossiper premature + future + reject caches and ban scores); PRNG: the database file is closed and "
                   "re-opened or kept open, and the store gets lnd's default cache sizes or WithRejectCacheSize / "
                   "WithChannelCacheSize of 1..3 entries, so that lookups of other channels evict (1 scenario in 4 runs with such "
                   "tiny caches from its first message, i.e. eviction without any restart). The restart itself is an environment "
                   "action (the snapshot after it is compared with the one before as a diagnostic only). "
                   "After-restart replay phase (2 rounds per scenario, own PRNG stream, after the cross-direction phase): a channel is "
                   "announced (or reused), both directions get a stored policy at PRNG timestamps (direction 0 older by 1e4..5e6 s "
                   "3/8, newer 2/8, equal 1/8, only one direction 2/8), THE NODE IS RESTARTED, then 6 authentic channel_updates of "
                   "the cross product (either direction; timestamp older than both stored ones / strictly between them / equal to "
                   "own / equal to the other direction's / +-1 around either / newer than both; flag space as in the cross-direction "
                   "phase) are delivered 1, 2 or 3 times each - identical bytes, every delivery from a peer identity of its own - "
                   "interleaved (2 in 5 deliveries) with a duplicate channel_announcement of the same channel, a node announcement "
                   "of the catalogue, a lookup of ANOTHER channel (duplicate announcement, or a stale / equal / arbitrary update) that "
                   "competes for the tiny caches, or a further restart. No additional oracle and no changed verdict: every delivery goes "
                   "through the same per-message judgement, the reference model being fed by what was really applied (an update "
                   "that is not strictly newer than the stored policy of ITS direction must leave the snapshot unchanged and must not "
                   "be relayed, on the 1st, 2nd and 3rd delivery alike). The graph snapshot additionally holds every policy as "
                   "served by ChanUpdatesInHorizon - the read path behind gossip queries, which goes through the store's channel "
                   "cache - under keys hz/<scid>/<dir>; such a key may change exactly when the pol/ key of the same channel and "
                   "direction may. Counters with floors: restarts (per phase, db file re-opened, tiny reject / channel cache), "
                   "post_restart_deliveries, post_restart_repeated_deliveries, repeated_stale_deliveries (an authentic not-newer "
                   "update whose identical bytes were already delivered since the last restart; per direction; "
                   "repeated_stale_gt_oth_d<dir> = additionally newer than the OTHER direction's stored policy), "
                   "stale_on_first_lookup_after_restart / stale_after_lookup_after_restart, r_* (rounds, layouts, items per class, "
                   "interleavings)."),
    "level_note": ("Sampled, not exhaustive. Gossip v1 only: the pinned tree rejects v2 messages on the remote path "
                   "(probed at run time, see notes.gossip_versions). 'valid => applied/relayed' is a diagnostic only "
                   "(keep-alive suppression, zombie/closed-scid caches, rate limits are legitimate) - also for the cross-direction "
                   "phase: an authentic fresh update with unusual flags that lnd drops is counted (x_valid_refused) and reported as "
                   "diagnostic valid_not_applied:x.cu..., never as a verdict, because the statement only says 'applied only if'. "
                   "Of the zombie index only "
                   "the entries the harness itself created are judged (removal / rewrite; additions by lnd for channels "
                   "that failed validation are not judged); the closed-scid cache is not part of the judged snapshot. "
                   "Zombie freshness is wall-clock relative inside lnd (time.Since), so zombie-phase timestamps are "
                   "time.Now()-relative with margins of >= 2 h around the prune window; the reference brackets lnd's clock "
                   "reading between submit and quiescence and gives no verdict inside that bracket. Field consistency of a "
                   "resurrecting update is not demanded (processZombieUpdate checks only the signature; the fields are "
                   "checked when the stashed update is replayed). 'authentic fresh update => resurrected' is a diagnostic. "
                   "Restarts are clean shutdowns (Stop of gossiper, builder, graph store; optionally close + re-open of the bbolt file), not "
                   "crashes; the waiting-proof store and the model chain survive, everything else in memory is lost - including updates "
                   "the old gossiper had stashed as premature / for a future height, which is why fewer of those are re-processed than "
                   "without restarts (floors future_reinjected, z_readded_with_stashed_update lowered accordingly). A graph that "
                   "differs across a restart is a diagnostic (restart_changed_graph), not a verdict: the statement speaks about "
                   "messages. Which entry a full reject / channel cache evicts is lnd's choice (Go map order), so with caches of 2..3 "
                   "entries the cache state is not a function of the seed; verdicts do not depend on it on correct code. lnd's "
                   "keep-alive / rate-limit / recently-rejected handling of repeated deliveries stays on the 'valid => applied' side "
                   "(diagnostic only); repeats come from distinct peer identities in the replay phase so that the gossiper's per-peer "
                   "reject cache does not swallow them. The hz/ view records policies only (the channel cache's copies of the node "
                   "announcements are not judged). "
                   "Pruning is driven by the graph-DB calls of pruneZombieChans, not by the builder's ticker. Taproot (P2TR) funding outputs are "
                   "not generated. Wrong chain_hash with otherwise valid content is outside the statement (diagnostic). "
                   "channel_update wire bytes/digests come from a harness-side encoder (lnwire's ChannelUpdate1.Encode drops "
                   "unknown extra TLVs and mutates the message); what a peer would receive is observed with "
                   "lnwire.WriteMessage as peer/brontide does. Known finding on the pinned tree: an accepted channel_update "
                   "carrying an unknown TLV is relayed with bytes that differ from the signed ones (key "
                   "ChannelUpdate:accepted-update-relayed-with-different-signed-bytes). Finding of the zombie monitor on the "
                   "pinned tree: strict zombie pruning records node 1's key in node 2's slot (makeZombiePubkeys), so a "
                   "direction-1 update signed by node 1 resurrects the channel (key prune-strict:odd(-,n1):node1:d1:"
                   "not-signed-by-direction-owner:resurrected+cached; findings/C20_strict_zombie_wrong_key_*)."),
    "design_ref": "DESIGN.md §3 C20",
    "rule": ("One case = one scenario (own keys, own model chain, own gossiper+builder+graph DB) of 40 steps plus 28 zombie-phase steps "
             "plus 2 cross-direction rounds (channel announcement, 0-2 layout updates, 12 flag x timestamp-class updates each) plus 2 "
             "after-restart replay rounds (channel announcement, 0-2 layout updates, restart, 6 updates x 1-3 deliveries with interleaved "
             "lookups), with restarts of the whole stack on the same database at PRNG points; "
             "evaluations = remote messages judged. A step is non-trivial when it is a byte corruption, or the "
             "reference judged it valid, or lnd changed the graph / returned an error / cached it; distinct = "
             "distinct (catalogue label, reference verdict, graph changed, lnd error, cached) classes plus distinct "
             "(message type, corrupted byte offset) pairs, plus distinct zombie classes (route, stored-key shape, "
             "signer, direction bit, reference verdict, resurrected, cached); the cross-direction labels (direction, channel-flag "
             "class, message-flag class, timestamp class, signer) are catalogue labels, as are the replay-phase labels (r.*, .dupN = N-th "
             "delivery of identical bytes); distinct restart classes (phase, db file re-opened, cache sizes, graph differs) are counted too."),
    "assumptions": ["messages reach the gossiper as decoded lnwire objects (undecodable byte corruptions are skipped and counted)",
                    "no channel is closed on chain during a scenario (inert chain view)",
                    "rate limiter disabled (burst 2^30) so that freshness, not rate limiting, decides"],
    "eval_counter": "msgs",
    "units": [{
        "name": "gossip", "pkg": "discovery", "test": "TestVerifC20",
        "files": ["discovery/c20_test.go"],
        "shards": {"quick": 8, "thorough": 16},
        "watchdog": {"quick": 900, "thorough": 5400},
        "floors": {"quick": {"msgs": 4900, "oracle_graph_evals": 5000, "oracle_bcast_evals": 1000,
                             "ref_invalid": 3700, "applied_ca": 400, "applied_cu": 350, "applied_na": 270,
                             "premature_reprocessed": 60, "future_reinjected": 7,
                             # zombie phase (shape x signer x direction; ~half of the minimum over seeds 1-5)
                             "oracle_zombie_evals": 6300, "z_cu": 2300, "z_made": 560, "z_node_announcements_of_channelless_node": 110, "z_may_resurrect": 245,
                             "z_must_reject": 2050, "z_rejected_ok": 2050, "z_resurrected_ok": 210,
                             "z_fresh_yes": 1400, "z_fresh_no": 920, "z_readded_after_resurrection": 79,
                             "z_readded_with_stashed_update": 52, "z_made_direct_both": 80,
                             "z_made_direct_only1": 79, "z_made_direct_only2": 80, "z_made_direct_none": 21,
                             "z_doc_prune_both": 144, "z_doc_prune-strict_only1": 59,
                             "z_doc_prune-strict_only2": 58, "z_both_node1_d0": 118, "z_both_node1_d1": 118,
                             "z_both_node2_d0": 118, "z_both_node2_d1": 118, "z_both_other_d0": 147,
                             "z_both_other_d1": 147, "z_only1_node1_d0": 89, "z_only1_node1_d1": 89,
                             "z_only1_node2_d0": 94, "z_only1_node2_d1": 94, "z_only1_other_d0": 112,
                             "z_only1_other_d1": 112, "z_only2_node1_d0": 52, "z_only2_node1_d1": 52,
                             "z_only2_node2_d0": 49, "z_only2_node2_d1": 49, "z_only2_other_d0": 63,
                             "z_only2_other_d1": 63, "z_none_node1_d0": 18, "z_none_node1_d1": 18,
                             "z_none_node2_d0": 20, "z_none_node2_d1": 20, "z_none_other_d0": 26,
                             "z_none_other_d1": 26,
                             # zombie-phase updates with channel-flag bits beyond the direction bit
                             "z_cu_nonplain_flags": 870, "z_nonplain_flags_node1_d0": 125, "z_nonplain_flags_node1_d1": 130, "z_nonplain_flags_node2_d0": 113,
                             "z_nonplain_flags_node2_d1": 118, "z_nonplain_flags_other_d0": 147, "z_nonplain_flags_other_d1": 153,
                             # cross-direction phase (flag space x timestamp classes relative to each direction's
                             # stored policy; ~half of the minimum over seeds 1-6)
                             "x_cu": 2950, "x_rounds": 245, "x_chan_fresh": 220, "x_d0": 1450, "x_d1": 1450,
                             "x_cf_plain": 580, "x_cf_dis": 1000, "x_cf_unk": 580, "x_cf_dis+unk": 730,
                             "x_ref_valid": 970, "x_ref_notnewer": 1350, "x_ref_badsig": 370, "x_ref_fields": 235,
                             "x_ref_badsig_plain": 70, "x_ref_badsig_dis": 115, "x_ref_badsig_unk": 69,
                             "x_ref_badsig_dis+unk": 78, "x_stale_own_fresh_oth": 470,
                             "x_stale_own_fresh_oth_d0_plain": 33, "x_stale_own_fresh_oth_d0_dis": 61,
                             "x_stale_own_fresh_oth_d0_unk": 30, "x_stale_own_fresh_oth_d0_dis+unk": 44,
                             "x_stale_own_fresh_oth_d1_plain": 40, "x_stale_own_fresh_oth_d1_dis": 70,
                             "x_stale_own_fresh_oth_d1_unk": 33, "x_stale_own_fresh_oth_d1_dis+unk": 47,
                             "x_stale_own_oth_none": 57, "x_own_none": 140, "x_fresh_own_stale_oth": 385,
                             "x_fresh_own_stale_oth_d0_plain": 39, "x_fresh_own_stale_oth_d0_dis": 60,
                             "x_fresh_own_stale_oth_d0_unk": 36, "x_fresh_own_stale_oth_d0_dis+unk": 41,
                             "x_fresh_own_stale_oth_d1_plain": 36, "x_fresh_own_stale_oth_d1_dis": 60,
                             "x_fresh_own_stale_oth_d1_unk": 35, "x_fresh_own_stale_oth_d1_dis+unk": 40,
                             "x_layout_none": 21, "x_layout_only0": 27, "x_layout_only1": 29,
                             "x_layout_d0-older": 60, "x_layout_d0-newer": 57, "x_layout_equal": 21,
                             "x_valid_applied": 950, "x_valid_applied_plain": 185, "x_valid_applied_dis": 320,
                             "x_valid_applied_unk": 180, "x_valid_applied_dis+unk": 240,
                             "x_invalid_refused_ok": 1950,
                             # restart dimension + after-restart replay phase (~half of the minimum over seeds 1-5)
                             "restarts": 1100, "restarts_catalogue": 230, "restarts_zombie": 240,
                             "restarts_xdir": 300, "restarts_replay": 250, "restarts_replay-mid": 110,
                             "restarts_db_file_reopened": 580, "restarts_tiny_reject_cache": 480,
                             "restarts_tiny_channel_cache": 450, "post_restart_deliveries": 14000,
                             "post_restart_repeated_deliveries": 1800, "post_restart_stale": 3400,
                             "repeated_stale_deliveries": 1100, "repeated_stale_deliveries_d0": 550,
                             "repeated_stale_deliveries_d1": 560, "repeated_stale_gt_oth_d0": 220,
                             "repeated_stale_gt_oth_d1": 280, "repeated_stale_tiny_reject_cache": 450,
                             "stale_after_lookup_after_restart": 2900, "stale_gt_oth_after_lookup_d0": 520,
                             "stale_gt_oth_after_lookup_d1": 640, "stale_on_first_lookup_after_restart": 440,
                             "tiny_reject_cache_deliveries": 6300, "tiny_channel_cache_deliveries": 6100,
                             "scenarios_tiny_caches_from_start": 28, "r_rounds": 250, "r_cu": 3000, "r_items": 1500,
                             "r_items_stale": 470, "r_items_equal": 190, "r_items_fresh": 470, "r_dup_ca": 350,
                             "r_na": 230, "r_other_channel_lookup": 450, "r_layout_d0-older": 94,
                             "r_layout_d0-newer": 58, "r_layout_equal": 32, "r_layout_only0": 26,
                             "r_layout_only1": 22, "r_cu_stale_d0": 410, "r_cu_stale_d1": 480, "r_cu_equal_d0": 180,
                             "r_cu_equal_d1": 180, "r_cu_fresh_d0": 510, "r_cu_fresh_d1": 440,
                             "hz_changes_allowed": 3100},
                   "thorough": {"msgs": 270000, "oracle_graph_evals": 280000, "oracle_bcast_evals": 55000,
                                "ref_invalid": 210000, "applied_ca": 20000, "applied_cu": 19000,
                                "applied_na": 15000, "premature_reprocessed": 3800, "future_reinjected": 380,
                                "oracle_zombie_evals": 315000, "z_cu": 115000, "z_made": 28000, "z_node_announcements_of_channelless_node": 3000,
                                "z_may_resurrect": 12250, "z_must_reject": 102500, "z_rejected_ok": 102500,
                                "z_resurrected_ok": 10500, "z_fresh_yes": 70000, "z_fresh_no": 46000,
                                "z_readded_after_resurrection": 3950, "z_readded_with_stashed_update": 2800,
                                "z_made_direct_both": 4000, "z_made_direct_only1": 3950, "z_made_direct_only2": 4000,
                                "z_made_direct_none": 1050, "z_doc_prune_both": 7200, "z_doc_prune-strict_only1": 2950,
                                "z_doc_prune-strict_only2": 2900, "z_both_node1_d0": 5900, "z_both_node1_d1": 5900,
                                "z_both_node2_d0": 5900, "z_both_node2_d1": 5900, "z_both_other_d0": 7350,
                                "z_both_other_d1": 7350, "z_only1_node1_d0": 4450, "z_only1_node1_d1": 4450,
                                "z_only1_node2_d0": 4700, "z_only1_node2_d1": 4700, "z_only1_other_d0": 5600,
                                "z_only1_other_d1": 5600, "z_only2_node1_d0": 2600, "z_only2_node1_d1": 2600,
                                "z_only2_node2_d0": 2450, "z_only2_node2_d1": 2450, "z_only2_other_d0": 3150,
                                "z_only2_other_d1": 3150, "z_none_node1_d0": 900, "z_none_node1_d1": 900,
                                "z_none_node2_d0": 1000, "z_none_node2_d1": 1000, "z_none_other_d0": 1300,
                                "z_none_other_d1": 1300,
                                "z_cu_nonplain_flags": 43500, "z_nonplain_flags_node1_d0": 6250, "z_nonplain_flags_node1_d1": 6500, "z_nonplain_flags_node2_d0": 5650,
                                "z_nonplain_flags_node2_d1": 5900, "z_nonplain_flags_other_d0": 7350, "z_nonplain_flags_other_d1": 7650,
                                "x_cu": 147500, "x_rounds": 12250, "x_chan_fresh": 11000, "x_d0": 72500,
                                "x_d1": 72500, "x_cf_plain": 29000, "x_cf_dis": 50000, "x_cf_unk": 29000,
                                "x_cf_dis+unk": 36500, "x_ref_valid": 48500, "x_ref_notnewer": 67500,
                                "x_ref_badsig": 18500, "x_ref_fields": 11750, "x_ref_badsig_plain": 3500,
                                "x_ref_badsig_dis": 5750, "x_ref_badsig_unk": 3450, "x_ref_badsig_dis+unk": 3900,
                                "x_stale_own_fresh_oth": 23500, "x_stale_own_fresh_oth_d0_plain": 1650,
                                "x_stale_own_fresh_oth_d0_dis": 3050, "x_stale_own_fresh_oth_d0_unk": 1500,
                                "x_stale_own_fresh_oth_d0_dis+unk": 2200, "x_stale_own_fresh_oth_d1_plain": 2000,
                                "x_stale_own_fresh_oth_d1_dis": 3500, "x_stale_own_fresh_oth_d1_unk": 1650,
                                "x_stale_own_fresh_oth_d1_dis+unk": 2350, "x_stale_own_oth_none": 2850,
                                "x_own_none": 7000, "x_fresh_own_stale_oth": 19250,
                                "x_fresh_own_stale_oth_d0_plain": 1950, "x_fresh_own_stale_oth_d0_dis": 3000,
                                "x_fresh_own_stale_oth_d0_unk": 1800, "x_fresh_own_stale_oth_d0_dis+unk": 2050,
                                "x_fresh_own_stale_oth_d1_plain": 1800, "x_fresh_own_stale_oth_d1_dis": 3000,
                                "x_fresh_own_stale_oth_d1_unk": 1750, "x_fresh_own_stale_oth_d1_dis+unk": 2000,
                                "x_layout_none": 1050, "x_layout_only0": 1350, "x_layout_only1": 1450,
                                "x_layout_d0-older": 3000, "x_layout_d0-newer": 2850, "x_layout_equal": 1050,
                                "x_valid_applied": 47500, "x_valid_applied_plain": 9250,
                                "x_valid_applied_dis": 16000, "x_valid_applied_unk": 9000,
                                "x_valid_applied_dis+unk": 12000, "x_invalid_refused_ok": 97500,
                                # restart dimension + after-restart replay phase (quick floors x 50)
                                "restarts": 59000, "restarts_catalogue": 11000, "restarts_zombie": 12000,
                                "restarts_xdir": 15000, "restarts_replay": 12000, "restarts_replay-mid": 5700,
                                "restarts_db_file_reopened": 29000, "restarts_tiny_reject_cache": 24000,
                                "restarts_tiny_channel_cache": 22000, "post_restart_deliveries": 710000,
                                "post_restart_repeated_deliveries": 92000, "post_restart_stale": 170000,
                                "repeated_stale_deliveries": 57000, "repeated_stale_deliveries_d0": 27000,
                                "repeated_stale_deliveries_d1": 28000, "repeated_stale_gt_oth_d0": 11000,
                                "repeated_stale_gt_oth_d1": 14000, "repeated_stale_tiny_reject_cache": 22000,
                                "stale_after_lookup_after_restart": 140000, "stale_gt_oth_after_lookup_d0": 26000,
                                "stale_gt_oth_after_lookup_d1": 32000, "stale_on_first_lookup_after_restart": 22000,
                                "tiny_reject_cache_deliveries": 310000, "tiny_channel_cache_deliveries": 300000,
                                "scenarios_tiny_caches_from_start": 1400, "r_rounds": 12000, "r_cu": 150000,
                                "r_items": 75000, "r_items_stale": 23000, "r_items_equal": 9500,
                                "r_items_fresh": 23000, "r_dup_ca": 17000, "r_na": 11000,
                                "r_other_channel_lookup": 22000, "r_layout_d0-older": 4700,
                                "r_layout_d0-newer": 2900, "r_layout_equal": 1600, "r_layout_only0": 1300,
                                "r_layout_only1": 1100, "r_cu_stale_d0": 20000, "r_cu_stale_d1": 24000,
                                "r_cu_equal_d0": 9200, "r_cu_equal_d1": 9100, "r_cu_fresh_d0": 25000,
                                "r_cu_fresh_d1": 22000, "hz_changes_allowed": 150000}},
    }],
}
