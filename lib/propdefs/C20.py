PROP = {
    "level": "exploration",
    "technique": ("runtime monitor: graph-snapshot differential oracle + broadcast monitor around a real "
                  "AuthenticatedGossiper over a real graph.Builder/bbolt graph DB, judged by a harness-side "
                  "BOLT-7 reference validity predicate; zombie-index monitor judged by a harness-side "
                  "resurrection reference (direction owner x stored key x prune window)"),
    "level_text": ("256 (quick) / 14000 (thorough) PRNG scenarios of 40 remote gossip messages each (valid channel_announcement / channel_update / "
                   "node_announcement sets from PRNG keys, every single-field corruption with and without re-signing, "
                   "single-byte corruptions of the signed region and of the signatures, replays, orderings incl. "
                   "update-before-channel and not-yet-mined funding blocks, spent / mismatching / missing funding "
                   "outputs) are fed through ProcessRemoteAnnouncement of a real gossiper whose Graph is a real "
                   "graph.Builder over a real bbolt graph DB and whose ChainIO serves generated blocks with real "
                   "2-of-2 P2WSH outputs (AssumeChannelValid off). After every message the full graph (channels, "
                   "both policies, nodes) is diffed against the snapshot before it: every changed key must be "
                   "allowed by the reference predicate (btcec verification over the double-SHA256 digest recomputed "
                   "from the wire bytes, funding lookup in the model chain, strict freshness, known channel) and the "
                   "stored value must match the authenticated message; every message handed to Broadcast (trickle "
                   "forced by a sentinel) must be byte-identical to a message the reference judged valid+fresh. "
                   "Zombie phase (28 further steps per scenario, own PRNG stream): channels are brought into the zombie "
                   "index of the real graph DB in every shape it can hold (both node keys / only node 1's / only node "
                   "2's / none) through the calls lnd itself uses (ChannelGraph.MarkEdgeZombie, Builder.MarkZombieEdge, and "
                   "ChannelGraph.DeleteChannelEdges(strict, markZombie) + PruneGraphNodes exactly as Builder.pruneZombieChans "
                   "issues them, on graph channels with 0/1/2 policies of assorted ages); then channel_updates signed by "
                   "node 1 / node 2 / a stranger x direction bit 0/1 x timestamp classes (fresh, just inside / just outside "
                   "the 14-day prune window, old, 2020, zero, near and far future; some byte-flipped) and valid / badly signed "
                   "channel_announcements are delivered for them. Oracle zombie_stays_dead_unless_authentic: after quiescence "
                   "a tracked zombie entry may disappear only through an update whose signature verifies under the real key "
                   "of the node owning the flagged direction, whose key is the one stored in that node's slot of the entry, "
                   "and whose timestamp is not older than the prune window (or through a reference-valid announcement "
                   "re-adding the channel); entries are never rewritten; an update that fails the reference is not kept in "
                   "prematureChannelUpdates (not applied / not relayed are judged by the graph and broadcast oracles)."),
    "level_note": ("Sampled, not exhaustive. Gossip v1 only: the pinned tree rejects v2 messages on the remote path "
                   "(probed at run time, see notes.gossip_versions). 'valid => applied/relayed' is a diagnostic only "
                   "(keep-alive suppression, zombie/closed-scid caches, rate limits are legitimate). Of the zombie index only "
                   "the entries the harness itself created are judged (removal / rewrite; additions by lnd for channels "
                   "that failed validation are not judged); the closed-scid cache is not part of the judged snapshot. "
                   "Zombie freshness is wall-clock relative inside lnd (time.Since), so zombie-phase timestamps are "
                   "time.Now()-relative with margins of >= 2 h around the prune window; the reference brackets lnd's clock "
                   "reading between submit and quiescence and gives no verdict inside that bracket. Field consistency of a "
                   "resurrecting update is not demanded (processZombieUpdate checks only the signature; the fields are "
                   "checked when the stashed update is replayed). 'authentic fresh update => resurrected' is a diagnostic. "
                   "Pruning is driven by the graph-DB calls of pruneZombieChans, not by the builder's ticker. Taproot (P2TR) funding outputs are "
                   "not generated. Wrong chain_hash with otherwise valid content is outside the statement (diagnostic). "
                   "channel_update wire bytes/digests come from a harness-side encoder (lnwire's ChannelUpdate1.Encode drops "
                   "unknown extra TLVs and mutates the message); what a peer would receive is observed with "
                   "lnwire.WriteMessage as peer/brontide does. Known finding on the pinned tree: an accepted channel_update "
                   "carrying an unknown TLV is relayed with bytes that differ from the signed ones (key "
                   "ChannelUpdate:accepted-update-relayed-with-different-signed-bytes). Finding of the zombie monitor on the "
                   "pinned tree: strict zombie pruning records node 1's key in node 2's slot (makeZombiePubkeys), so a "
                   "direction-1 update signed by node 1 resurrects the channel (key prune-strict:odd(-,n1):node1:d1:"
                   "not-signed-by-direction-owner:resurrected+cached; findings/C20_strict_zombie_wrong_key_*)."),
    "design_ref": "DESIGN.md §3 C20",
    "rule": ("One case = one scenario (own keys, own model chain, own gossiper+builder+graph DB) of 40 steps plus 28 zombie-phase steps; "
             "evaluations = remote messages judged. A step is non-trivial when it is a byte corruption, or the "
             "reference judged it valid, or lnd changed the graph / returned an error / cached it; distinct = "
             "distinct (catalogue label, reference verdict, graph changed, lnd error, cached) classes plus distinct "
             "(message type, corrupted byte offset) pairs, plus distinct zombie classes (route, stored-key shape, "
             "signer, direction bit, reference verdict, resurrected, cached)."),
    "assumptions": ["messages reach the gossiper as decoded lnwire objects (undecodable byte corruptions are skipped and counted)",
                    "no channel is closed on chain during a scenario (inert chain view)",
                    "rate limiter disabled (burst 2^30) so that freshness, not rate limiting, decides"],
    "eval_counter": "msgs",
    "units": [{
        "name": "gossip", "pkg": "discovery", "test": "TestVerifC20",
        "files": ["discovery/c20_test.go"],
        "shards": {"quick": 8, "thorough": 16},
        "watchdog": {"quick": 900, "thorough": 5400},
        "floors": {"quick": {"msgs": 4900, "oracle_graph_evals": 5000, "oracle_bcast_evals": 1000,
                             "ref_invalid": 3700, "applied_ca": 400, "applied_cu": 350, "applied_na": 270,
                             "premature_reprocessed": 60, "future_reinjected": 12,
                             # zombie phase (shape x signer x direction; ~half of the minimum over seeds 1-5)
                             "oracle_zombie_evals": 6300, "z_cu": 2300, "z_made": 560, "z_may_resurrect": 245,
                             "z_must_reject": 2050, "z_rejected_ok": 2050, "z_resurrected_ok": 210,
                             "z_fresh_yes": 1400, "z_fresh_no": 920, "z_readded_after_resurrection": 79,
                             "z_readded_with_stashed_update": 73, "z_made_direct_both": 80,
                             "z_made_direct_only1": 79, "z_made_direct_only2": 80, "z_made_direct_none": 21,
                             "z_doc_prune_both": 144, "z_doc_prune-strict_only1": 59,
                             "z_doc_prune-strict_only2": 58, "z_both_node1_d0": 118, "z_both_node1_d1": 118,
                             "z_both_node2_d0": 118, "z_both_node2_d1": 118, "z_both_other_d0": 147,
                             "z_both_other_d1": 147, "z_only1_node1_d0": 89, "z_only1_node1_d1": 89,
                             "z_only1_node2_d0": 94, "z_only1_node2_d1": 94, "z_only1_other_d0": 112,
                             "z_only1_other_d1": 112, "z_only2_node1_d0": 52, "z_only2_node1_d1": 52,
                             "z_only2_node2_d0": 49, "z_only2_node2_d1": 49, "z_only2_other_d0": 63,
                             "z_only2_other_d1": 63, "z_none_node1_d0": 18, "z_none_node1_d1": 18,
                             "z_none_node2_d0": 20, "z_none_node2_d1": 20, "z_none_other_d0": 26,
                             "z_none_other_d1": 26},
                   "thorough": {"msgs": 270000, "oracle_graph_evals": 280000, "oracle_bcast_evals": 55000,
                                "ref_invalid": 210000, "applied_ca": 20000, "applied_cu": 19000,
                                "applied_na": 15000, "premature_reprocessed": 3800, "future_reinjected": 1000,
                                "oracle_zombie_evals": 315000, "z_cu": 115000, "z_made": 28000,
                                "z_may_resurrect": 12250, "z_must_reject": 102500, "z_rejected_ok": 102500,
                                "z_resurrected_ok": 10500, "z_fresh_yes": 70000, "z_fresh_no": 46000,
                                "z_readded_after_resurrection": 3950, "z_readded_with_stashed_update": 3650,
                                "z_made_direct_both": 4000, "z_made_direct_only1": 3950, "z_made_direct_only2": 4000,
                                "z_made_direct_none": 1050, "z_doc_prune_both": 7200, "z_doc_prune-strict_only1": 2950,
                                "z_doc_prune-strict_only2": 2900, "z_both_node1_d0": 5900, "z_both_node1_d1": 5900,
                                "z_both_node2_d0": 5900, "z_both_node2_d1": 5900, "z_both_other_d0": 7350,
                                "z_both_other_d1": 7350, "z_only1_node1_d0": 4450, "z_only1_node1_d1": 4450,
                                "z_only1_node2_d0": 4700, "z_only1_node2_d1": 4700, "z_only1_other_d0": 5600,
                                "z_only1_other_d1": 5600, "z_only2_node1_d0": 2600, "z_only2_node1_d1": 2600,
                                "z_only2_node2_d0": 2450, "z_only2_node2_d1": 2450, "z_only2_other_d0": 3150,
                                "z_only2_other_d1": 3150, "z_none_node1_d0": 900, "z_none_node1_d1": 900,
                                "z_none_node2_d0": 1000, "z_none_node2_d1": 1000, "z_none_other_d0": 1300,
                                "z_none_other_d1": 1300}},
    }],
}
