PROP = {
    "level": "exploration",
    "technique": ("runtime monitor: graph-snapshot differential oracle + broadcast monitor around a real "
                  "AuthenticatedGossiper over a real graph.Builder/bbolt graph DB, judged by a harness-side "
                  "BOLT-7 reference validity predicate"),
    "level_text": ("256 (quick) / 14000 (thorough) PRNG scenarios of 40 remote gossip messages each (valid channel_announcement / channel_update / "
                   "node_announcement sets from PRNG keys, every single-field corruption with and without re-signing, "
                   "single-byte corruptions of the signed region and of the signatures, replays, orderings incl. "
                   "update-before-channel and not-yet-mined funding blocks, spent / mismatching / missing funding "
                   "outputs) are fed through ProcessRemoteAnnouncement of a real gossiper whose Graph is a real "
                   "graph.Builder over a real bbolt graph DB and whose ChainIO serves generated blocks with real "
                   "2-of-2 P2WSH outputs (AssumeChannelValid off). After every message the full graph (channels, "
                   "both policies, nodes) is diffed against the snapshot before it: every changed key must be "
                   "allowed by the reference predicate (btcec verification over the double-SHA256 digest recomputed "
                   "from the wire bytes, funding lookup in the model chain, strict freshness, known channel) and the "
                   "stored value must match the authenticated message; every message handed to Broadcast (trickle "
                   "forced by a sentinel) must be byte-identical to a message the reference judged valid+fresh."),
    "level_note": ("Sampled, not exhaustive. Gossip v1 only: the pinned tree rejects v2 messages on the remote path "
                   "(probed at run time, see notes.gossip_versions). 'valid => applied/relayed' is a diagnostic only "
                   "(keep-alive suppression, zombie/closed-scid caches, rate limits are legitimate). The zombie index "
                   "and the closed-scid cache are not part of the judged snapshot. Taproot (P2TR) funding outputs are "
                   "not generated. Wrong chain_hash with otherwise valid content is outside the statement (diagnostic). "
                   "channel_update wire bytes/digests come from a harness-side encoder (lnwire's ChannelUpdate1.Encode drops "
                   "unknown extra TLVs and mutates the message); what a peer would receive is observed with "
                   "lnwire.WriteMessage as peer/brontide does. Known finding on the pinned tree: an accepted channel_update "
                   "carrying an unknown TLV is relayed with bytes that differ from the signed ones (key "
                   "ChannelUpdate:accepted-update-relayed-with-different-signed-bytes)."),
    "design_ref": "DESIGN.md §3 C20",
    "rule": ("One case = one scenario (own keys, own model chain, own gossiper+builder+graph DB) of 40 steps; "
             "evaluations = remote messages judged. A step is non-trivial when it is a byte corruption, or the "
             "reference judged it valid, or lnd changed the graph / returned an error / cached it; distinct = "
             "distinct (catalogue label, reference verdict, graph changed, lnd error, cached) classes plus distinct "
             "(message type, corrupted byte offset) pairs."),
    "assumptions": ["messages reach the gossiper as decoded lnwire objects (undecodable byte corruptions are skipped and counted)",
                    "no channel is closed on chain during a scenario (inert chain view)",
                    "rate limiter disabled (burst 2^30) so that freshness, not rate limiting, decides"],
    "eval_counter": "msgs",
    "units": [{
        "name": "gossip", "pkg": "discovery", "test": "TestVerifC20",
        "files": ["discovery/c20_test.go"],
        "shards": {"quick": 8, "thorough": 16},
        "watchdog": {"quick": 900, "thorough": 5400},
        "floors": {"quick": {"msgs": 4900, "oracle_graph_evals": 5000, "oracle_bcast_evals": 1000,
                             "ref_invalid": 3700, "applied_ca": 400, "applied_cu": 350, "applied_na": 270,
                             "premature_reprocessed": 60, "future_reinjected": 12},
                   "thorough": {"msgs": 270000, "oracle_graph_evals": 280000, "oracle_bcast_evals": 55000,
                                "ref_invalid": 210000, "applied_ca": 20000, "applied_cu": 19000,
                                "applied_na": 15000, "premature_reprocessed": 3800, "future_reinjected": 1000}},
    }],
}
