PROP = {
    "level": "exploration",
    "technique": "runtime monitor: dispositions-table oracle over a real ChannelArbitrator on a real bolt arbitrator log",
    "level_text": "placeholder",
    "level_note": "placeholder",
    "design_ref": "DESIGN.md §3 C12",
    "rule": "placeholder",
    "assumptions": [],
    "units": [{
        "name": "arb", "pkg": "contractcourt", "test": "TestVerifC12",
        "files": ["contractcourt/c12c13_common_test.go", "contractcourt/c12_test.go"],
        "shards": {"quick": 8, "thorough": 16},
        "floors": {},
    }],
}
