PROP = {
    "level": "exploration",
    "technique": ("runtime monitor: dispositions-table oracle (E4) over a real ChannelArbitrator on a real bolt "
                  "arbitrator log + exhaustive enumeration of the pure classifier cells"),
    "level_text": ("A real ChannelArbitrator (bolt log, real resolvers, stub environment that records ForceCloseChan, "
                   "ResolutionMsgs to the switch, final HTLC outcomes, launched resolvers) is driven with generated "
                   "local/remote/remote-pending HTLC sets (presence patterns the update protocol allows, dust per "
                   "commitment, offered/received, preimage known via beacon or invoice, forwarded/own payment, "
                   "expiries at cutoff +-{0,1,2} of the delivered heights, broadcast deltas {1,5,10,40}, grace "
                   "period via TestClock) and every close trigger (chain deadline, user force close, direct "
                   "confirmation; local / remote / pending-remote / breach / coop confirming, also after our own "
                   "broadcast). Oracles written from the statement: force close by the first height >= expiry-delta "
                   "of an eligible HTLC and never only for unclaimable received HTLCs; after confirmation exactly one "
                   "resolver of the right direction per HTLC output, exactly one upstream fail-back per offered HTLC "
                   "that is dust on / absent from the confirmed commitment (none when absent with known preimage), "
                   "no fail-back after confirmation for an HTLC that has an output, received dust closed out. "
                   "5e3 (quick) / 2e6 (thorough) arbitrator cases; constructChainActions additionally enumerated "
                   "over all multisets of <=2 (quick, + every 41st triple) / <=3 (thorough) HTLC cells."),
    "level_note": ("Sampled, except the classifier sub-space: all multisets of up to 3 of the 136 (48 without a pending "
                   "commitment) protocol-legal HTLC cells x confirmed commitment are enumerated completely in thorough "
                   "(exhaustive for that sub-space only). Deadline obligations are derived from the HTLCs on our own "
                   "commitment; offered HTLCs that exist only on the peer's commitments and own payments inside the "
                   "grace period are neutral (neither must-close nor must-not-close). Fail-backs issued at broadcast "
                   "time for an HTLC that is dust on ours but an output on the commitment that later confirms are a "
                   "diagnostic (documented lnd trade-off), the last sentence of the statement is applied to "
                   "dispositions made after the confirmation. Resolvers are observed right after the close event "
                   "(no chain progress afterwards - that is C13). When R and P carry the same offered HTLC with "
                   "different dust-ness lnd's own result depends on map iteration order, so those cases do not "
                   "replay bit-identically."),
    "design_ref": "DESIGN.md §3 C12",
    "rule": ("PRNG cases (HTLC sets x heights x deltas x clock x trigger x confirmed commitment) executed by the real "
             "ChannelArbitrator; a case is non-trivial when a commitment confirmed and the dispositions were judged; "
             "distinct = distinct (trigger path, confirmed commitment, multiset of per-HTLC (direction, "
             "output/dust/absent on the confirmed commitment, preimage known)) signatures. Classifier cells are "
             "counted separately (cell_evals)."),
    "assumptions": ["the harness supplies, per confirmed commitment, exactly the HTLC/commit/anchor resolutions lnwallet "
                    "would produce (one per non-dust HTLC of that commitment)",
                    "HTLC sets follow the update protocol: offered local subset-of remote and pending; received remote, "
                    "pending subset-of local",
                    "expiry >= broadcast delta (absolute heights), the realistic domain of shouldGoOnChain"],
    "eval_counter": "arb_cases",
    "units": [{
        "name": "arb", "pkg": "contractcourt", "test": "TestVerifC12",
        "files": ["contractcourt/c12c13_common_test.go", "contractcourt/c12_test.go"],
        "shards": {"quick": 8, "thorough": 16},
        "watchdog": {"quick": 600, "thorough": 5400},
        "floors": {
            "quick": {"arb_cases": 2500, "oracle_deadline_evals": 8000, "oracle_resolver_evals": 2500,
                      "oracle_failback_evals": 1000, "oracle_no_failback_evals": 1200,
                      "oracle_received_dust_evals": 800, "oracle_breach_failback_evals": 400,
                      "oracle_known_not_failed_evals": 300, "oracle_user_close_evals": 200,
                      "cell_evals": 30000},
            "thorough": {"arb_cases": 1000000, "oracle_deadline_evals": 3400000, "oracle_resolver_evals": 1100000,
                         "oracle_failback_evals": 460000, "oracle_no_failback_evals": 550000,
                         "oracle_received_dust_evals": 330000, "oracle_breach_failback_evals": 200000,
                         "oracle_known_not_failed_evals": 125000, "oracle_user_close_evals": 100000,
                         "cell_evals": 650000},
        },
    }],
}
