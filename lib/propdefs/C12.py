PROP = {
    "level": "exploration",
    "technique": ("runtime monitor: dispositions-table oracle (E4) over a real ChannelArbitrator on a real bolt "
                  "arbitrator log + exhaustive enumeration of the pure classifier cells"),
    "level_text": ("A real ChannelArbitrator (bolt log, real resolvers, stub environment that records ForceCloseChan, "
                   "ResolutionMsgs to the switch, final HTLC outcomes, launched resolvers) is driven with generated "
                   "local/remote/remote-pending HTLC sets (presence patterns the update protocol allows, dust per "
                   "commitment, offered/received, preimage knowledge by SOURCE - witness cache only / invoice registry only "
                   "with a realistic invoices.Invoice in state Open, Accepted (hold invoice with and without a "
                   "preimage in its terms), Settled or Canceled / both / none (ErrInvoiceNotFound or "
                   "ErrNoInvoicesCreated); the reference rule is the statement's: known iff the cache has it or a "
                   "not-canceled invoice carries it -, forwarded/own payment, "
                   "expiries at cutoff +-{0,1,2} of the delivered heights, broadcast deltas {1,5,10,40}, grace "
                   "period via TestClock) and every close trigger (chain deadline, user force close, direct "
                   "confirmation; local / remote / pending-remote / breach / coop confirming, also after our own "
                   "broadcast). Oracles written from the statement: force close by the first height >= expiry-delta "
                   "of an eligible HTLC and never only for unclaimable received HTLCs; after confirmation exactly one "
                   "resolver of the right direction per HTLC output, exactly one upstream fail-back per offered HTLC "
                   "that is dust on / absent from the confirmed commitment (none when absent with known preimage), "
                   "no fail-back after confirmation for an HTLC that has an output, received dust closed out. "
                   "5e3 (quick) / 2e6 (thorough) arbitrator cases; constructChainActions additionally enumerated "
                   "over all multisets of <=2 (quick, + every 41st triple) / <=3 (thorough) HTLC cells, the known "
                   "preimages of a cell case coming in rotation from the cache, a settled invoice or an open invoice."),
    "level_note": ("Sampled, except the classifier sub-space: all multisets of up to 3 of the 136 (48 without a pending "
                   "commitment) protocol-legal HTLC cells x confirmed commitment are enumerated completely in thorough "
                   "(exhaustive for that sub-space only). Deadline obligations are derived from the HTLCs on our own "
                   "commitment; offered HTLCs that exist only on the peer's commitments and own payments inside the "
                   "grace period are neutral (neither must-close nor must-not-close). A preimage whose only source "
                   "is a CANCELED invoice that still carries it is neutral as well (neither known nor unknown for any "
                   "verdict; counted as src_reg_canceled_pre / neutral_canceled_invoice_offered_absent). "
                   "deadline_must_only_src_<class> counts the deadline obligations that rest on received HTLCs of a "
                   "single knowledge source. After the confirmation the resolver oracle judges the direction of the "
                   "resolver, not success vs contest, so the invoice state is not judged there. Fail-backs issued at broadcast "
                   "time for an HTLC that is dust on ours but an output on the commitment that later confirms are a "
                   "diagnostic (documented lnd trade-off), the last sentence of the statement is applied to "
                   "dispositions made after the confirmation. Resolvers are observed right after the close event "
                   "(no chain progress afterwards - that is C13). When R and P carry the same offered HTLC with "
                   "different dust-ness lnd's own result depends on map iteration order, so those cases do not "
                   "replay bit-identically."),
    "design_ref": "DESIGN.md §3 C12",
    "rule": ("PRNG cases (HTLC sets x heights x deltas x clock x trigger x confirmed commitment) executed by the real "
             "ChannelArbitrator; a case is non-trivial when a commitment confirmed and the dispositions were judged; "
             "distinct = distinct (trigger path, confirmed commitment, multiset of per-HTLC (direction, "
             "output/dust/absent on the confirmed commitment, preimage known)) signatures. Classifier cells are "
             "counted separately (cell_evals)."),
    "assumptions": ["the harness supplies, per confirmed commitment, exactly the HTLC/commit/anchor resolutions lnwallet "
                    "would produce (one per non-dust HTLC of that commitment)",
                    "HTLC sets follow the update protocol: offered local subset-of remote and pending; received remote, "
                    "pending subset-of local",
                    "expiry >= broadcast delta (absolute heights), the realistic domain of shouldGoOnChain"],
    "eval_counter": "arb_cases",
    "units": [{
        "name": "arb", "pkg": "contractcourt", "test": "TestVerifC12",
        "files": ["contractcourt/c12c13_common_test.go", "contractcourt/c12_test.go"],
        "shards": {"quick": 8, "thorough": 16},
        "watchdog": {"quick": 600, "thorough": 5400},
        "floors": {
            "quick": {"arb_cases": 2500, "oracle_deadline_evals": 8000, "oracle_resolver_evals": 2500,
                      "oracle_failback_evals": 1000, "oracle_no_failback_evals": 1200,
                      "oracle_received_dust_evals": 800, "oracle_breach_failback_evals": 400,
                      "oracle_known_not_failed_evals": 300, "oracle_user_close_evals": 200,
                      "cell_evals": 30000,
                      "src_cache": 400, "src_reg_open": 140, "src_reg_accepted": 140, "src_reg_settled": 280,
                      "src_both_open": 130, "src_both_settled": 130, "src_both_accepted_nopre": 130,
                      "src_both_canceled": 130, "src_none": 800, "src_reg_accepted_nopre": 400,
                      "src_reg_open_nopre": 200, "src_reg_canceled_nopre": 190, "src_reg_canceled_pre": 140,
                      "src_offered_registry": 600,
                      "deadline_must_only_src_cache": 120, "deadline_must_only_src_reg_open": 40,
                      "deadline_must_only_src_reg_accepted": 40, "deadline_must_only_src_reg_settled": 80,
                      "deadline_must_only_src_both_settled": 30,
                      "known_not_failed_registry_only_evals": 35,
                      "cell_src_kind_0": 10000, "cell_src_kind_1": 10000, "cell_src_kind_2": 10000},
            "thorough": {"arb_cases": 1000000, "oracle_deadline_evals": 3400000, "oracle_resolver_evals": 1100000,
                         "oracle_failback_evals": 460000, "oracle_no_failback_evals": 550000,
                         "oracle_received_dust_evals": 330000, "oracle_breach_failback_evals": 200000,
                         "oracle_known_not_failed_evals": 125000, "oracle_user_close_evals": 100000,
                         "cell_evals": 650000,
                         "src_cache": 120000, "src_reg_open": 42000, "src_reg_accepted": 42000,
                         "src_reg_settled": 84000, "src_both_open": 39000, "src_both_settled": 39000,
                         "src_both_accepted_nopre": 39000, "src_both_canceled": 39000, "src_none": 240000,
                         "src_reg_accepted_nopre": 120000, "src_reg_open_nopre": 60000,
                         "src_reg_canceled_nopre": 57000, "src_reg_canceled_pre": 42000,
                         "src_offered_registry": 180000, "deadline_must_only_src_cache": 36000,
                         "deadline_must_only_src_reg_open": 12000,
                         "deadline_must_only_src_reg_accepted": 12000,
                         "deadline_must_only_src_reg_settled": 24000,
                         "deadline_must_only_src_both_settled": 9000,
                         "known_not_failed_registry_only_evals": 10500, "cell_src_kind_0": 200000,
                         "cell_src_kind_1": 200000, "cell_src_kind_2": 200000},
        },
    }],
}
