_E1 = ["lnwallet/e1_engine_test.go", "lnwallet/e1_oracles_test.go", "lnwallet/e1_fork_test.go", "lnwallet/e1_debug_test.go"]
PROP = {
    "level": "exploration",
    "technique": ("runtime monitor with a script-interpreter oracle: at PRNG-chosen states of two real LightningChannels "
                  "(incl. pending-remote-commitment windows and right after reloads) a DB-copy fork of the closing side runs "
                  "the real ForceClose / NewUnilateralCloseSummary and every signed transaction and sweep descriptor is "
                  "executed by btcd's interpreter against the real previous outputs"),
    "level_text": ("On E1 schedules (7 channel types, either opener, dust-boundary/duplicate HTLCs both ways, fee updates, "
                   "restarts incl. mid-handler, disconnects) a fork (DB copy + fresh reload) of one side is closed three ways: "
                   "(1) ForceClose(): the signed commitment vs the funding output (2-of-2 P2WSH or MuSig2 key spend), every "
                   "SignedTimeoutTx/SignedSuccessTx (ledger preimage inserted where the resolver inserts it) vs the HTLC output "
                   "of the commitment, locktime == HTLC expiry (0 for success) and BOLT-3 input sequence, the re-signed "
                   "SINGLE|ANYONECANPAY aggregate (SignDetails + wallet input) for anchor types, the second-level outputs after "
                   "CSV (+lease CLTV), the delayed to-local output, the anchor; (2)+(3) the peer's fully signed CURRENT and "
                   "PENDING not-yet-revoked commitment (the window in which the peer already holds h+1 while its revocation is "
                   "in flight) fed as chain_watcher does to NewUnilateralCloseSummary: to-remote spend, received HTLCs claimed "
                   "with the preimage, offered ones timed out at expiry, anchor. Sweeps are built as sweep/txgenerator.go builds "
                   "them and signed via input.Input.CraftInputScript + MockSigner; verification always uses the output of the "
                   "real confirmed transaction. Negative controls per class (CSV-1, locktime expiry-1, wrong preimage, sequence 0 "
                   "on 1-CSV to_remote) must be rejected, else the run is inconclusive. Value/completeness: the validated claims "
                   "cover every output except the peer's main output and anchor and sum to balance + untrimmed HTLCs minus "
                   "second-level fees."),
    "level_note": ("lnwallet unit selects input/witness types with a MIRROR of contractcourt's resolvers (decideWitnessType, "
                   "htlcTimeout/SuccessResolver, makeSweepInput, anchorResolver), so a wrong arm inside those resolvers is not "
                   "seen here; no aux leaves/custom channels; heights 0 (fixture-made placeholder signature) are skipped; "
                   "held on the executions counted in evidence."),
    "design_ref": "DESIGN.md §2 E1/E3, §3 C05",
    "rule": ("case = E1 schedule with PRNG restarts/disconnects; up to 7 check points per schedule (boosted inside "
             "pending-remote windows, after reloads, plus both sides at the final quiescent state), each closing one fork "
             "local / remote-current / remote-pending; non-trivial close = >=1 non-dust HTLC output spent; distinct = "
             "(channel type, closer is opener, close kind, #offered bucket, #received bucket, after a reload)"),
    "assumptions": ["MockSigner holds the channel keys (as the wallet does)",
                    "the peer can only broadcast commitments it held fully signed (recorded by the engine at every height)",
                    "consensus/standardness rules = btcd txscript StandardVerifyFlags on the spending input"],
    "eval_counter": "closes_checked",
    "units": [{
        "name": "closes", "pkg": "lnwallet", "test": "TestVerifC05",
        "files": _E1 + ["lnwallet/c01_test.go", "lnwallet/c05_test.go"],
        "shards": {"quick": 12, "thorough": 16},
        "watchdog": {"quick": 900, "thorough": 5400},
        "floors": {"quick": {}, "thorough": {}},
    }],
}
