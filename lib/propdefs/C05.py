E1X = ["common", "e1_engine.go=lnwallet/e1_engine_test.go", "e1_oracles.go=lnwallet/e1_oracles_test.go",
       "e1_fork.go=lnwallet/e1_fork_test.go", "e1_debug.go=lnwallet/e1_debug_test.go", "lnwallet/e1_export.go",
       "c05_shared.go=lnwallet/c05_shared_test.go", "lnwallet/c05_export.go"]
_E1 = ["lnwallet/e1_engine_test.go", "lnwallet/e1_oracles_test.go", "lnwallet/e1_fork_test.go", "lnwallet/e1_debug_test.go"]
PROP = {
    "level": "exploration",
    "technique": ("runtime monitor with a script-interpreter oracle: at PRNG-chosen states of two real LightningChannels "
                  "(incl. pending-remote-commitment windows and right after reloads) a DB-copy fork of the closing side runs "
                  "the real ForceClose / NewUnilateralCloseSummary and every signed transaction and sweep descriptor is "
                  "executed by btcd's interpreter against the real previous outputs"),
    "level_text": ("On E1 schedules (7 channel types, either opener, dust-boundary/duplicate HTLCs both ways, fee updates, "
                   "restarts incl. mid-handler, disconnects) a fork (DB copy + fresh reload) of one side is closed three ways: "
                   "(1) ForceClose(): the signed commitment vs the funding output (2-of-2 P2WSH or MuSig2 key spend), every "
                   "SignedTimeoutTx/SignedSuccessTx (ledger preimage inserted where the resolver inserts it) vs the HTLC output "
                   "of the commitment, locktime == HTLC expiry (0 for success) and BOLT-3 input sequence, the re-signed "
                   "SINGLE|ANYONECANPAY aggregate (SignDetails + wallet input) for anchor types, the second-level outputs after "
                   "CSV (+lease CLTV), the delayed to-local output, the anchor; (2)+(3) the peer's fully signed CURRENT and "
                   "PENDING not-yet-revoked commitment (the window in which the peer already holds h+1 while its revocation is "
                   "in flight) fed as chain_watcher does to NewUnilateralCloseSummary: to-remote spend, received HTLCs claimed "
                   "with the preimage, offered ones timed out at expiry, anchor. Sweeps are built as sweep/txgenerator.go builds "
                   "them and signed via input.Input.CraftInputScript + MockSigner; verification always uses the output of the "
                   "real confirmed transaction. Negative controls per class (CSV-1, locktime expiry-1, wrong preimage, sequence 0 "
                   "on 1-CSV to_remote) must be rejected, else the run is inconclusive. Value/completeness: the validated claims "
                   "cover every output except the peer's main output and anchor and sum to balance + untrimmed HTLCs minus "
                   "second-level fees. Unit 'resolvers' (package contractcourt, same schedule driver through an exported "
                   "facade) hands the same resolutions to the REAL commitSweepResolver / anchorResolver / htlcTimeoutResolver / "
                   "htlcSuccessResolver (preimage applied as the contest resolver does), records the input.Input objects their "
                   "Launch() offers to the sweeper (second stage: a fresh resolver in the outputIncubating state is notified of the "
                   "verified re-signed second-level tx), and runs each through CraftInputScript + the interpreter against the "
                   "real outputs, so the resolvers' own witness-type / CLTV / CSV choices are judged. The same unit then has "
                   "each of the three confirmations DISPATCHED BY A REAL, STARTED chainWatcher (c05cw_test.go + "
                   "cw_common_test.go): whenever the schedule has (re)loaded both parties from disk (creation, restart, "
                   "disconnect) 6 OpenChannel instances per party are decoded from that party's LIVE database (FetchAllChannels, as "
                   "ChainArbitrator.Start does); at a check point a chain watcher is created and started on one of these by now "
                   "STALE instances (mock notifier, the party's signer, GetStateNumHint, single-confirmation mode, subscription "
                   "to all close event streams), the party's own ForceClose()d commitment / the peer's current / the peer's "
                   "pending commitment is delivered as the spend of the funding outpoint (completion awaited with blockbeats "
                   "through the watcher's BeatConsumer, 30 s watchdog) and the LocalUnilateralCloseInfo / "
                   "RemoteUnilateralCloseInfo the watcher dispatches (closeObserver -> handleCommitSpend -> newChainSet -> "
                   "dispatchLocalForceClose / dispatchRemoteForceClose on the watcher's own instance) is fed to the SAME resolver "
                   "+ interpreter oracles as the directly built summary (kinds cw-local / cw-remote-current / cw-remote-pending). "
                   "Additional oracles: close_dispatched (a confirmation whose direct summary is fine must come out of the "
                   "watcher as a close of that kind - not a logged error, another kind of close, a breach, a panic of the "
                   "observer goroutine, the data-loss wait or nothing) and cw_resolutions_complete (every HTLC that has an "
                   "output on the confirmed commitment as persisted has a resolution for exactly that output in the dispatched "
                   "summary). The watcher path never writes to the live database, the schedule continues undisturbed."),
    "level_note": ("unit 'closes' selects input/witness types with a MIRROR of contractcourt's resolvers (decideWitnessType, "
                   "htlcTimeout/SuccessResolver, makeSweepInput, anchorResolver); unit 'resolvers' runs the real ones but not the "
                   "utxo-nursery path that legacy (pre-anchor) second-level outputs take (counted as "
                   "legacy_second_level_to_nursery; their descriptors are judged by unit 'closes'); witness-type mix-ups whose "
                   "generators are byte-identical (taproot local/remote commit spend) are invisible to a script oracle; no aux "
                   "leaves/custom channels; heights 0 (fixture-made placeholder signature) are skipped; the chain-watcher path "
                   "runs in unit 'resolvers' only (unit 'closes' and its value_claimable oracle still use directly built "
                   "summaries; for watcher-dispatched summaries completeness is judged per HTLC output instead of by value), in "
                   "single-confirmation mode, on at most 2 check points per party between two loads (6 instances; "
                   "cw_no_instance_left counts the rest), without a revoked-commitment control inside the schedule (a breach "
                   "dispatch would mark the live channel borked; the discriminating power of the event streams is counted as "
                   "cw_negctl_*); a watcher that neither dispatches, logs an error, panics nor returns within 30 s is "
                   "inconclusive; held on the executions counted in evidence."),
    "design_ref": "DESIGN.md §2 E1/E3, §3 C05",
    "rule": ("case = E1 schedule with PRNG restarts/disconnects; up to 7 check points per schedule (boosted inside "
             "pending-remote windows, after reloads, plus both sides at the final quiescent state), each closing one fork "
             "local / remote-current / remote-pending; non-trivial close = >=1 non-dust HTLC output spent; distinct = "
             "(channel type, closer is opener, close kind incl. the watcher-dispatched kinds cw-*, #offered bucket, "
             "#received bucket, after a reload)"),
    "assumptions": ["MockSigner holds the channel keys (as the wallet does)",
                    "the peer can only broadcast commitments it held fully signed (recorded by the engine at every height)",
                    "consensus/standardness rules = btcd txscript StandardVerifyFlags on the spending input",
                    "the chain watcher's channel state instance is the one decoded from the database when the party was last loaded "
                    "(creation / restart / disconnect of the schedule), not the instance the LightningChannel advances"],
    "eval_counter": "closes_checked",
    "units": [{
        "name": "closes", "pkg": "lnwallet", "test": "TestVerifC05",
        "files": _E1 + ["lnwallet/c01_test.go", "lnwallet/c05_shared_test.go", "lnwallet/c05_test.go"],
        "shards": {"quick": 12, "thorough": 16},
        "watchdog": {"quick": 900, "thorough": 7200},
        "floors": {"quick": {"closes_checked": 2500, "nontrivial": 1800, "nontrivial_local": 700,
                             "nontrivial_remote-current": 500, "nontrivial_remote-pending": 400,
                             "nontrivial_after_reload": 60,
                             "oracle_local_commit_valid": 1000, "oracle_local_timeout_tx_valid": 500,
                             "oracle_local_success_tx_valid": 900, "oracle_second_level_sweep_valid": 1500,
                             "oracle_second_level_resign_valid": 1000, "oracle_to_local_sweep_valid": 900,
                             "oracle_to_remote_sweep_valid": 1300, "oracle_remote_htlc_success_valid": 700,
                             "oracle_remote_htlc_timeout_valid": 1200, "oracle_anchor_sweep_valid": 1600,
                             "oracle_value_claimable": 2500,
                             "negctl_to_local_csv_minus_1": 800, "negctl_second_level_csv_minus_1": 1500,
                             "negctl_timeout_tx_locktime_minus_1": 500, "negctl_success_tx_wrong_preimage": 900,
                             "negctl_remote_timeout_locktime_minus_1": 1200,
                             "negctl_remote_success_wrong_preimage": 700, "negctl_to_remote_csv_0": 900},
                   "thorough": {"closes_checked": 60000, "nontrivial": 40000, "nontrivial_remote-pending": 10000}},
    }, {
        "name": "resolvers", "pkg": "contractcourt", "test": "TestVerifC05CC",
        "files": ["contractcourt/c05cc_test.go", "contractcourt/cw_common_test.go", "contractcourt/c05cw_test.go"],
        "exports": {"lnwallet": E1X},
        "shards": {"quick": 10, "thorough": 16},
        "watchdog": {"quick": 900, "thorough": 7200},
        "floors": {"quick": {"closes_checked": 1300, "nontrivial": 900, "nontrivial_local": 350,
                             "nontrivial_remote-current": 270, "nontrivial_remote-pending": 250,
                             "oracle_resolver_commit_sweep_valid": 1200, "oracle_resolver_anchor_sweep_valid": 900,
                             "oracle_resolver_htlc_success_valid": 750, "oracle_resolver_htlc_timeout_valid": 900,
                             "oracle_resolver_second_level_output_valid": 600,
                             "negctl_commit_csv_minus_1": 1000, "negctl_second_level_csv_minus_1": 600,
                             "negctl_remote_timeout_locktime_minus_1": 650, "negctl_timeout_tx_locktime_minus_1": 220,
                             "oracle_cw_close_dispatched": 1200, "oracle_cw_resolutions_complete": 1200,
                             "cw_stale_local": 350, "cw_stale_remote": 650,
                             "nontrivial_cw-local": 340, "nontrivial_cw-remote-current": 260,
                             "nontrivial_cw-remote-pending": 230,
                             "cw_negctl_local_only_local_event": 490, "cw_negctl_remote_only_remote_event": 730},
                   "thorough": {"closes_checked": 30000, "nontrivial": 20000, "nontrivial_remote-pending": 5000,
                                "oracle_cw_close_dispatched": 30000, "cw_stale_local": 8000, "cw_stale_remote": 16000,
                                "nontrivial_cw-local": 8000}},
    }],
}
