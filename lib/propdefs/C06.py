_E1 = ["lnwallet/e1_engine_test.go", "lnwallet/e1_oracles_test.go", "lnwallet/e1_fork_test.go", "lnwallet/e1_debug_test.go"]
PROP = {
    "level": "exploration",
    "technique": "runtime monitors: differential oracle (BOLT-3 shachain reference written in the harness) over the real RevocationStore/Producer incl. hostile insertions; release-rule monitor with DB-copy reload at every revoke_and_ack handed out by two real LightningChannels",
    "level_text": ("store unit: the real store/producer are driven with the first k secrets of PRNG seeds (k up to 4096, thorough "
                   "up to 2^20), every LookUp (exhaustive for k<=300, structured samples beyond), bucket count, encoded size and "
                   "serialisation round trip are compared with a BOLT-3 reference (generate_from_seed / insert_secret / "
                   "derive_old_secret) and hostile secrets (bit flip, neighbouring index, replay, random, other seed) must be "
                   "accepted exactly when the BOLT-3 rule cannot detect them. A quarter of the store cases are DEEP stores: the state after the first k "
                   "secrets for structured k up to 2^48-9 (2^j, 2^j+-1, two-bit, alternating, 46/47-bit, random 48-bit; up to 48 buckets) is built "
                   "structurally from lnd's own producer (construction validated against real sequential insertion for small k in every case) "
                   "and gets the same oracles: sampled LookUps, serialisation round trip, hostile secret at k, honest continuation that opens "
                   "deeper buckets, round trip after each continuation step. release unit: on E1 schedules with restarts, "
                   "disconnects and hostile revocations, at the instant a revoke_and_ack is returned a copy of that side's DB is "
                   "reloaded: its current commitment must already be newer and pass btcd's script interpreter; released heights are "
                   "consecutive (repeat only as a reconnect retransmission) and the next point is the chain's point h+2; corrupted or "
                   "out-of-order revocations are rejected by ReceiveRevocation."),
    "level_note": ("2^48 index space is sampled: honest sequential insertion reaches bucket ~20 (AddNextEntry is sequential), deeper buckets through structurally built stores (deep cases); "
                   "a crash inside RevokeCurrentCommitment (between its DB write and its return) is not modelled; in half of the release "
                   "cases other subsystems write channel markers (MarkConfirmationHeight / MarkRealScid / MarkAsOpen / "
                   "MarkCloseConfirmationHeight) through their own stale OpenChannel instance between actions, each followed by the "
                   "reload fork (counter foreign_marker_writes); held on the "
                   "executions counted in evidence."),
    "design_ref": "DESIGN.md §3 C06",
    "rule": ("store: case = (seed, k, hostile position/kind); distinct = (trailing zeros of k, size class, hostile kind, hostile "
             "bucket>0). release: case = E1 schedule with faults; non-trivial = >=4 releases; distinct = schedule signature"),
    "assumptions": ["the harness BOLT-3 reference is the specification of the store", "MockSigner; in-memory transport"],
    "units": [
        {"name": "store", "pkg": "shachain", "test": "TestVerifC06Store",
         "files": ["shachain/c06_test.go"],
         "shards": {"quick": 6, "thorough": 16},
         "floors": {"quick": {"oracle_lookup": 100000, "oracle_hostile": 400, "hostile_rejected": 100,
                              "deep_cases": 200, "deep_construction_selfcheck": 200, "oracle_roundtrip_deep": 1200,
                              "oracle_hostile_deep": 200, "max:deep_buckets": 48},
                    "thorough": {"oracle_lookup": 2000000, "deep_cases": 10000, "max:deep_buckets": 48}}},
        {"name": "release", "pkg": "lnwallet", "test": "TestVerifC06Release",
         "files": _E1 + ["lnwallet/c01_test.go", "lnwallet/c06_test.go"],
         "shards": {"quick": 10, "thorough": 16},
         "watchdog": {"quick": 900, "thorough": 5400},
         "floors": {"quick": {"oracle_release": 3000, "oracle_hostile_revocation": 300, "nontrivial": 200},
                    "thorough": {"oracle_release": 35000}}},
    ],
}
