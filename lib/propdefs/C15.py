PROP = {
    "level": "exploration",
    "technique": ("runtime monitor: trace-specification oracle over a real InvoiceRegistry (+expiry watcher, TestClock) "
                  "on the bbolt and the SQLite invoice stores; state-monotonicity / AmtPaid monitors on LookupInvoice; "
                  "race detector on concurrent notifications"),
    "level_text": ("Generated event sequences (AddInvoice, NotifyExitHopHtlc incl. replays, SettleHodlInvoice, CancelInvoice, "
                   "clock advance past the set timeout / invoice expiry, height changes) over <=3 invoices (regular, hold, "
                   "zero-amount, AMP, spontaneous keysend/AMP, blinded path id) and <=10 HTLCs run on both stores (quick 3000 / thorough 300000 sequences x 2 stores); every "
                   "HtlcSettleResolution (returned or delivered on the hodl channel) is judged from the harness' own log of "
                   "what each HTLC carried: preimage hashes to the HTLC's hash, set carried the required payment address, "
                   "one common total >= invoice amount, sum >= total, every member expiry >= accept height + required delta; "
                   "invoice/HTLC states only move forward, AmtPaid exact, replay keeps the verdict, never settled and canceled. "
                   "For a quarter of the HTLC events the harness' HtlcInterceptor holds the registry between its invoice lookup and its update transaction while the set timeout of the held shards fires (interceptor_windows_set_timed_out counts windows in which the store showed the shards canceled before the call returned). A second unit issues the notifications from 2-3 goroutines + an admin goroutine (quick 600 cases; thorough 30000 under -race)."),
    "level_note": ("Sampled sequences, not exhaustive. Terms of spontaneous (keysend / AMP) invoices are read from the store "
                   "because lnd chooses them. A keysend HTLC that proves knowledge of the preimage is exempt from the "
                   "payment-address clause (documented lnd behaviour, reported as diagnostic). Replay clause is judged only "
                   "for HTLCs that were accepted/settled before (a never-recorded HTLC is legitimately re-evaluated). "
                   "KV-vs-SQLite equality of verdict kinds is a diagnostic, not a verdict. Known finding KF-C15-1/2 "
                   "(replayed keysend/AMP HTLC re-checked against the current height before replay detection) is matched "
                   "only by the fingerprint class '/replay-precheck:invalid_(keysend|amp)_parameters'."),
    "design_ref": "DESIGN.md §3 C15",
    "rule": ("One case = one PRNG event sequence executed on the KV and on the SQLite store (seq unit) or once with "
             "concurrent notifiers (conc unit). A run is non-trivial when at least one HTLC was accepted or settled; "
             "distinct = distinct (invoice kinds/features, HTLC styles, per-HTLC verdict-kind sequences, "
             "flags settled/replay/cancel/mpp-timeout) signatures."),
    "assumptions": ["the HtlcInterceptor never modifies an amount and never cancels a set; for a quarter of the HTLC "
                    "events it keeps the registry inside the interceptor call until the set timeout of the HTLCs the "
                    "registry had read as accepted has elapsed and been executed (interceptor window)",
                    "GC of canceled invoices disabled",
                    "Postgres backend not exercised (not available offline)"],
    "race_anchors": ["invoices/update.go", "invoices/update_invoice.go", "invoices/invoiceregistry.go",
                     "invoices/invoices.go", "invoices/resolution.go", "invoices/sql_store.go",
                     "channeldb/invoices.go", "amp/derivation.go", "invoices/invoice_expiry_watcher.go"],
    "eval_counter": "oracle_settle_rule_evals",
    "units": [
        {
            "name": "seq", "pkg": "invoices", "pkgname": "invoices_test", "test": "TestVerifC15",
            "files": ["invoices/c15_test.go"],
            "shards": {"quick": 8, "thorough": 16},
            "watchdog": {"quick": 900, "thorough": 5400},
            # ~50 % of what the unchanged tree yields (min over seeds 1..5 quick; seed 1 thorough)
            "floors": {
                "quick": {"cases": 3000, "runs_kv": 3000, "runs_sqlite": 3000, "diff_evals": 3000,
                          "oracle_settle_rule_evals": 2200, "oracle_preimage_evals": 5500,
                          "oracle_monotone_evals": 150000, "oracle_amtpaid_evals": 12000,
                          "oracle_replay_evals": 4800, "hodl_resolutions": 4500,
                          "settled_sets_mpp_multi": 180, "settled_sets_amp_multi": 220,
                          "settled_sets_legacy_hold": 90, "settled_sets_mpp_multi_hold": 55,
                          "interceptor_windows_set_timed_out": 1100},
                "thorough": {"cases": 300000, "runs_kv": 300000, "runs_sqlite": 300000,
                             "oracle_settle_rule_evals": 225000, "oracle_preimage_evals": 570000,
                             "oracle_monotone_evals": 15000000, "oracle_amtpaid_evals": 1270000,
                             "oracle_replay_evals": 500000, "hodl_resolutions": 450000,
                             "settled_sets_mpp_multi": 18000, "settled_sets_amp_multi": 22000,
                             "settled_sets_legacy_hold": 11000, "settled_sets_mpp_multi_hold": 5500,
                             "interceptor_windows_set_timed_out": 110000},
            },
        },
        {
            "name": "conc", "pkg": "invoices", "pkgname": "invoices_test", "test": "TestVerifC15Conc",
            "files": ["invoices/c15_test.go"],
            "race": {"quick": False, "thorough": True},
            "shards": {"quick": 4, "thorough": 16},
            "watchdog": {"quick": 900, "thorough": 5400},
            "gomaxprocs": 4,
            "floors": {
                # oracle_monotone_evals depends on how often the observer goroutine gets to run: low floor
                "quick": {"cases": 600, "oracle_settle_rule_evals": 180, "oracle_preimage_evals": 480,
                          "oracle_monotone_evals": 1000, "oracle_replay_evals": 430,
                          "hodl_resolutions": 180, "settled_sets_mpp_multi": 20,
                          "interceptor_windows_set_timed_out": 100},
                "thorough": {"cases": 30000, "oracle_settle_rule_evals": 10500, "oracle_preimage_evals": 25000,
                             "oracle_monotone_evals": 150000, "oracle_replay_evals": 24000,
                             "hodl_resolutions": 16000, "settled_sets_mpp_multi": 1000,
                             "interceptor_windows_set_timed_out": 5000},
            },
        },
    ],
}
