PROP = {
    "level": "exploration",
    "technique": ("runtime monitor: trace-specification oracle over a real InvoiceRegistry (+expiry watcher, TestClock) "
                  "on the bbolt and the SQLite invoice stores; state-monotonicity / AmtPaid monitors on LookupInvoice; "
                  "race detector on concurrent notifications"),
    "level_text": ("Generated event sequences (AddInvoice, NotifyExitHopHtlc incl. replays, SettleHodlInvoice, CancelInvoice, "
                   "clock advance past the set timeout / invoice expiry, height changes) over <=3 invoices (regular, hold, "
                   "zero-amount, AMP, spontaneous keysend/AMP, blinded path id) and <=10 HTLCs run on both stores; every "
                   "HtlcSettleResolution (returned or delivered on the hodl channel) is judged from the harness' own log of "
                   "what each HTLC carried: preimage hashes to the HTLC's hash, set carried the required payment address, "
                   "one common total >= invoice amount, sum >= total, every member expiry >= accept height + required delta; "
                   "invoice/HTLC states only move forward, AmtPaid exact, replay keeps the verdict, never settled and canceled. "
                   "Thorough adds a -race slice with 2-3 notifier goroutines + an admin goroutine."),
    "level_note": ("Sampled sequences, not exhaustive. Terms of spontaneous (keysend / AMP) invoices are read from the store "
                   "because lnd chooses them. A keysend HTLC that proves knowledge of the preimage is exempt from the "
                   "payment-address clause (documented lnd behaviour, reported as diagnostic). Replay clause is judged only "
                   "for HTLCs that were accepted/settled before (a never-recorded HTLC is legitimately re-evaluated). "
                   "KV-vs-SQLite equality of verdict kinds is a diagnostic, not a verdict."),
    "design_ref": "DESIGN.md §3 C15",
    "rule": ("One case = one PRNG event sequence executed on the KV and on the SQLite store (seq unit) or once with "
             "concurrent notifiers (conc unit). A run is non-trivial when at least one HTLC was accepted or settled; "
             "distinct = distinct (invoice kinds/features, HTLC styles, per-HTLC verdict-kind sequences, "
             "flags settled/replay/cancel/mpp-timeout) signatures."),
    "assumptions": ["HtlcInterceptor is the no-op mock (no external amount modification / set cancellation)",
                    "GC of canceled invoices disabled",
                    "Postgres backend not exercised (not available offline)"],
    "race_anchors": ["invoices/update.go", "invoices/update_invoice.go", "invoices/invoiceregistry.go",
                     "invoices/invoices.go", "invoices/resolution.go", "invoices/sql_store.go",
                     "channeldb/invoices.go", "amp/derivation.go", "invoices/invoice_expiry_watcher.go"],
    "eval_counter": "oracle_settle_rule_evals",
    "units": [
        {
            "name": "seq", "pkg": "invoices", "pkgname": "invoices_test", "test": "TestVerifC15",
            "files": ["invoices/c15_test.go"],
            "shards": {"quick": 8, "thorough": 16},
            "watchdog": {"quick": 600, "thorough": 3000},
            "floors": {"quick": {}, "thorough": {}},
        },
        {
            "name": "conc", "pkg": "invoices", "pkgname": "invoices_test", "test": "TestVerifC15Conc",
            "files": ["invoices/c15_test.go"],
            "race": {"quick": False, "thorough": True},
            "shards": {"quick": 4, "thorough": 16},
            "watchdog": {"quick": 600, "thorough": 3000},
            "gomaxprocs": 4,
            "floors": {"quick": {}, "thorough": {}},
        },
    ],
}
