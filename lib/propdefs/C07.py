PROP = {
    "level": "fault_enumeration",
    "technique": ("runtime monitor: sequential differential oracle (reference model of the circuit map) on the real "
                  "circuitMap over a real bbolt backend, restart forks after every durable write, write-failure "
                  "injection through a kvdb.Backend wrapper, porcupine linearizability check of concurrent histories "
                  "under -race"),
    "level_text": ("PRNG op sequences (commit batches with duplicates, open, trim, close, fail, delete, channel "
                   "advance/close, restart) over 3 channels x 4 HTLC ids; every return value and every lookup compared "
                   "with a sequential model; after every op that wrote to disk the bbolt file is copied and a fresh "
                   "circuit map on the copy must equal the model's restart image (NextLocalHtlcIndex is read from real "
                   "channels advanced with AddHTLC+SignNextCommitment); every write transaction of an op can be failed. "
                   "Concurrent 3-goroutine histories are checked for linearizability per circuit."),
    "level_note": ("Sampled sequences, not all; crash points are transaction boundaries (every circuit-map write is one "
                   "kvdb transaction); switch-level at-most-once on the wire is C08's monitor."),
    "design_ref": "DESIGN.md §3 C07",
    "rule": ("A sequence is non-trivial when at least one restart (fork or in place) was compared; distinct = distinct "
             "sets of exhibited behaviours (dup dropped with keystone / in memory, dup failed back after restart, "
             "keystone trimmed at restart, purge, kept by resolution, second response rejected, write failure per op "
             "kind, ...). Concurrent unit: distinct (initial state, op multiset) signatures of linearizable histories."),
    "assumptions": [
        "caller contract of the circuit map: outgoing HTLC ids of a channel are assigned in order (restarts/trims are "
        "judged only when the uncommitted keystones of a channel are contiguous), a keystone is only written for a "
        "half-open circuit, one goroutine owns CommitCircuits/DeleteCircuits of an incoming key",
        "FetchClosedChannels/CheckResolutionMsg are answered from the case; FetchAllOpenChannels returns real channels",
        "a pending on-chain resolution is never combined with a fully closed *incoming* channel (statement ambiguous)",
    ],
    "race_anchors": ["htlcswitch/circuit_map.go", "htlcswitch/circuit.go"],
    "eval_counter": "ops",
    "units": [{
        "name": "seq", "pkg": "htlcswitch", "test": "TestVerifC07",
        "files": ["htlcswitch/c07_test.go"],
        "shards": {"quick": 8, "thorough": 16},
        "watchdog": {"quick": 900, "thorough": 5400},
        "floors": {"quick": {"ops": 30000, "model_compare_evals": 50000, "fork_restarts": 15000,
                             "fork_second_restarts": 7000, "fork_trimmed_keystones": 5000,
                             "fork_purged_circuits": 2500, "fork_kept_by_resolution": 400,
                             "dup_failed_back_after_restart": 2000, "dup_dropped_has_keystone": 2500,
                             "second_response_rejected": 400, "write_failures_injected": 1000},
                   "thorough": {"ops": 3000000, "model_compare_evals": 5000000, "fork_restarts": 1500000,
                                "fork_second_restarts": 700000, "fork_trimmed_keystones": 500000,
                                "fork_purged_circuits": 250000, "fork_kept_by_resolution": 40000,
                                "dup_failed_back_after_restart": 200000, "dup_dropped_has_keystone": 250000,
                                "second_response_rejected": 40000, "write_failures_injected": 100000}},
    }, {
        "name": "conc", "pkg": "htlcswitch", "test": "TestVerifC07Conc",
        "files": ["htlcswitch/c07_test.go", "htlcswitch/c07conc_test.go"],
        "porcupine": True,
        "race": {"quick": True, "thorough": True},
        "shards": {"quick": 8, "thorough": 16},
        "watchdog": {"quick": 900, "thorough": 5400},
        "gomaxprocs": 4,
        "floors": {"quick": {"histories_linearizable": 800, "conc_ops": 19000},
                   "thorough": {"histories_linearizable": 20000, "conc_ops": 480000}},
    }],
}
