PROP = {
    "level": "fault_enumeration",
    "technique": ("runtime monitor: sequential differential oracle (reference model of the circuit map) on the real "
                  "circuitMap over a real bbolt backend, restart forks after every durable write, write-failure "
                  "injection through a kvdb.Backend wrapper, porcupine linearizability check of concurrent histories "
                  "under -race; switch-level reference-model monitor: a real Switch (circuit map + resolution-message store "
                  "+ mailboxes) on a persistent DB with mock links, restarted in place at arbitrary points"),
    "level_text": ("PRNG op sequences (commit batches with duplicates, open, trim, close, fail, delete, channel "
                   "advance/close, restart) over 3 channels x 4 HTLC ids; every return value and every lookup compared "
                   "with a sequential model; after every op that wrote to disk the bbolt file is copied and a fresh "
                   "circuit map on the copy must equal the model's restart image (NextLocalHtlcIndex is read from real "
                   "channels advanced with AddHTLC+SignNextCommitment); every write transaction of an op can be failed. "
                   "Concurrent 3-goroutine histories are checked for linearizability per circuit. "
                   "Switch unit: PRNG op sequences over 1-3 forwarded HTLCs (one incoming, two outgoing channels) on a real "
                   "Switch: forwards and duplicate re-forwards, outgoing link receive / OpenCircuits / commit / local FailAdd, "
                   "off-chain responses, outgoing channel on chain + ProcessContractResolution (settle|fail, duplicates, "
                   "competing off-chain response), channel fully closed, incoming link receive / lock-in (DeleteCircuits + "
                   "AckPacket, or only the first half) / flap, Switch Stop+New+Start on the same DB; adds handed per HTLC, every "
                   "response reaching the incoming link and the restarted switch's circuits are compared with a model of "
                   "(circuit, keystone committed?, resolution stored?, locked in?, outgoing channel status)."),
    "level_note": ("Sampled sequences, not all; crash points are transaction boundaries (every circuit-map write is one "
                   "kvdb transaction); at-most-once on the wire between real links is C08's monitor. The switch unit stops "
                   "the switch gracefully between operations (no crash inside a switch operation), has no real channels in "
                   "its DB (keystones are trimmed by the outgoing link's start as channelLink.Start does, off-chain responses "
                   "are re-forwarded by the mock link, not from forwarding packages) and never closes the incoming channel."),
    "design_ref": "DESIGN.md §3 C07",
    "rule": ("A sequence is non-trivial when at least one restart (fork or in place) was compared; distinct = distinct "
             "sets of exhibited behaviours (dup dropped with keystone / in memory, dup failed back after restart, "
             "keystone trimmed at restart, purge, kept by resolution, second response rejected, write failure per op "
             "kind, ...). Concurrent unit: distinct (initial state, op multiset) signatures of linearizable histories."),
    "assumptions": [
        "caller contract of the circuit map: outgoing HTLC ids of a channel are assigned in order (restarts/trims are "
        "judged only when the uncommitted keystones of a channel are contiguous), a keystone is only written for a "
        "half-open circuit, one goroutine owns CommitCircuits/DeleteCircuits of an incoming key",
        "FetchClosedChannels/CheckResolutionMsg are answered from the case; FetchAllOpenChannels returns real channels",
        "a pending on-chain resolution is never combined with a fully closed *incoming* channel (statement ambiguous)",
        "switch unit: the contract court sends a resolution message only for an outgoing HTLC that reached a commitment, "
        "always the same message for one HTLC; the incoming link forwards an add at most once per link epoch and never "
        "after it committed a response; a response counts as locked in once the link deleted the circuit and acked the "
        "packet (channelLink.ackDownStreamPackets) - until then a re-delivery after a link or switch restart is expected",
    ],
    "race_anchors": ["htlcswitch/circuit_map.go", "htlcswitch/circuit.go"],
    "eval_counter": "ops",
    "units": [{
        "name": "seq", "pkg": "htlcswitch", "test": "TestVerifC07",
        "files": ["htlcswitch/c07_test.go"],
        "shards": {"quick": 8, "thorough": 16},
        "watchdog": {"quick": 900, "thorough": 5400},
        "floors": {"quick": {"ops": 30000, "model_compare_evals": 50000, "fork_restarts": 15000,
                             "fork_second_restarts": 7000, "fork_trimmed_keystones": 5000,
                             "fork_purged_circuits": 2500, "fork_kept_by_resolution": 400,
                             "dup_failed_back_after_restart": 2000, "dup_dropped_has_keystone": 2500,
                             "second_response_rejected": 400, "write_failures_injected": 1000},
                   "thorough": {"ops": 3000000, "model_compare_evals": 5000000, "fork_restarts": 1500000,
                                "fork_second_restarts": 700000, "fork_trimmed_keystones": 500000,
                                "fork_purged_circuits": 250000, "fork_kept_by_resolution": 40000,
                                "dup_failed_back_after_restart": 200000, "dup_dropped_has_keystone": 250000,
                                "second_response_rejected": 40000, "write_failures_injected": 100000}},
    }, {
        "name": "conc", "pkg": "htlcswitch", "test": "TestVerifC07Conc",
        "files": ["htlcswitch/c07_test.go", "htlcswitch/c07conc_test.go"],
        "porcupine": True,
        "race": {"quick": True, "thorough": True},
        "shards": {"quick": 8, "thorough": 16},
        "watchdog": {"quick": 900, "thorough": 5400},
        "gomaxprocs": 4,
        "floors": {"quick": {"histories_linearizable": 800, "conc_ops": 19000},
                   "thorough": {"histories_linearizable": 20000, "conc_ops": 480000}},
    }, {
        "name": "switch", "pkg": "htlcswitch", "test": "TestVerifC07Switch",
        "files": ["htlcswitch/c07_test.go", "htlcswitch/c07sw_test.go", "htlcswitch/c07swcrash_test.go"],
        "shards": {"quick": 8, "thorough": 16},
        "watchdog": {"quick": 900, "thorough": 5400},
        "floors": {"quick": {"sw_ops": 60000, "sw_restarts": 7500, "sw_restart_state_evals": 7500, "sw_forwards": 6000,
                             "sw_response_evals": 4700, "sw_resolutions": 1600, "sw_awaiting_resolution_evals": 650,
                             "sw_resolution_redelivered_after_restart": 650,
                             "sw_resolution_redelivered_after_full_close": 500, "sw_kept_by_resolution": 450,
                             "sw_purged_closed_circuits": 50, "sw_failed_back_after_restart": 2000,
                             "sw_dup_dropped": 1400, "sw_lock_ins": 1300, "sw_second_response_dropped": 600,
                             "sw_trimmed_keystones": 270},
                   "thorough": {"sw_ops": 2400000, "sw_restarts": 300000, "sw_restart_state_evals": 300000,
                                "sw_forwards": 240000, "sw_response_evals": 190000, "sw_resolutions": 64000,
                                "sw_awaiting_resolution_evals": 26000,
                                "sw_resolution_redelivered_after_restart": 26000,
                                "sw_resolution_redelivered_after_full_close": 20000, "sw_kept_by_resolution": 18000,
                                "sw_purged_closed_circuits": 2000, "sw_failed_back_after_restart": 80000,
                                "sw_dup_dropped": 56000, "sw_lock_ins": 52000, "sw_second_response_dropped": 24000,
                                "sw_trimmed_keystones": 10000}},
    }],
}
