PROP = {
    "level": "fault_enumeration",
    "technique": ("runtime monitor: sequential differential oracle (reference model of the circuit map) on the real "
                  "circuitMap over a real bbolt backend, restart forks after every durable write, write-failure "
                  "injection through a kvdb.Backend wrapper, porcupine linearizability check of concurrent histories "
                  "under -race; switch-level reference-model monitor: a real Switch (circuit map + resolution-message store "
                  "+ mailboxes) on a persistent DB with mock links, restarted in place at arbitrary points, and booted "
                  "afresh from a DB image taken behind every committed write transaction of an operation (crash points "
                  "inside a switch operation, through a kvdb.Backend wrapper)"),
    "level_text": ("PRNG op sequences (commit batches with duplicates, open, trim, close, fail, delete, channel "
                   "advance/close, restart) over 3 channels x 4 HTLC ids; every return value and every lookup compared "
                   "with a sequential model; after every op that wrote to disk the bbolt file is copied and a fresh "
                   "circuit map on the copy must equal the model's restart image (NextLocalHtlcIndex is read from real "
                   "channels advanced with AddHTLC+SignNextCommitment); every write transaction of an op can be failed. "
                   "Concurrent 3-goroutine histories are checked for linearizability per circuit. "
                   "Switch unit: PRNG op sequences over 1-3 forwarded HTLCs (two incoming, two outgoing channels) on a real "
                   "Switch: forwards, batch forwards (one CommitCircuits transaction) and duplicate re-forwards, a batch "
                   "hand-over interrupted by the incoming link's quit channel at a chosen position (forwarder goroutine parked "
                   "deterministically; fresh adds and replays mixed) followed by replays, outgoing link receive / OpenCircuits / "
                   "commit / local FailAdd, off-chain responses, outgoing channel on chain + ProcessContractResolution "
                   "(settle|fail, duplicates, competing off-chain response), outgoing channel fully closed, incoming channel on "
                   "chain (close pending) and fully closed while the switch runs, incoming link receive / lock-in "
                   "(DeleteCircuits + AckPacket, or only the first half) / flap, Switch Stop+New+Start on the same DB; adds "
                   "handed per HTLC, every response reaching the incoming links and the restarted switch's circuits are "
                   "compared with a model of (circuit, keystone committed?, resolution stored?, locked in?, status of the "
                   "incoming and the outgoing channel). In half of the cases every operation runs under a capture of the DB "
                   "wrapper: the bbolt file is copied right after EVERY committed write transaction (write transactions "
                   "serialised meanwhile) together with the outputs produced until the next one begins (adds handed over, "
                   "resolution messages acknowledged); a fresh Switch is booted from every image (all images of operations "
                   "that change durable state; 1 in 8 of the images of a start that changes nothing), its circuits must be the "
                   "restart image of the model's durable state before or after the operation (the last image: after), then "
                   "the links start, the outgoing links re-forward un-acked responses, the incoming links replay un-acked "
                   "adds: hand-overs before the crash instant + after it <= 1 per HTLC, <= 1 legitimate response per HTLC and "
                   "none after a lock-in, a replayed add is never lost, a durably handed (or already acknowledged) resolution "
                   "is re-delivered."),
    "level_note": ("Sampled sequences, not all; crash points are transaction boundaries (every circuit-map write is one "
                   "kvdb transaction; bbolt commits are atomic, torn pages are not modelled); at-most-once on the wire between "
                   "real links is C08's monitor. Switch unit: crash images are judged in throw-away forks (the case itself "
                   "continues from the completed operation, in-place restarts are graceful); outputs between two commits are "
                   "sampled when the next write transaction begins (after a few scheduler yields), so an output racing with "
                   "that instant may be attributed to the later image (only makes the oracle more permissive); it has no real "
                   "channels in its DB (keystones are trimmed by the outgoing link's start as channelLink.Start does, off-chain "
                   "responses are re-forwarded by the mock link, not from forwarding packages); a fully closed incoming channel "
                   "together with a stored, not yet locked-in resolution is not judged (nowhere to deliver to); a running "
                   "switch has no purge path for a closed incoming channel (RemoveLink only), the purge is judged at the next "
                   "start and in every crash image."),
    "design_ref": "DESIGN.md §3 C07",
    "rule": ("A sequence is non-trivial when at least one restart (fork or in place) was compared; distinct = distinct "
             "sets of exhibited behaviours (dup dropped with keystone / in memory, dup failed back after restart, "
             "keystone trimmed at restart, purge, purge by closed incoming channel, kept by resolution, second response "
             "rejected, interrupted batch, crash fork inside an operation, write failure per op kind, ...). Concurrent unit: distinct (initial state, op multiset) signatures of linearizable histories."),
    "assumptions": [
        "caller contract of the circuit map: outgoing HTLC ids of a channel are assigned in order (restarts/trims are "
        "judged only when the uncommitted keystones of a channel are contiguous), a keystone is only written for a "
        "half-open circuit, one goroutine owns CommitCircuits/DeleteCircuits of an incoming key",
        "FetchClosedChannels/CheckResolutionMsg are answered from the case; FetchAllOpenChannels returns real channels",
        "a pending on-chain resolution combined with a fully closed *incoming* channel is not judged (statement "
        "ambiguous; seq unit: never generated, switch unit: generated, skipped by the oracle and counted)",
        "switch unit: the contract court sends a resolution message only for an outgoing HTLC that reached a commitment, "
        "always the same message for one HTLC; the incoming link forwards an add at most once per link epoch and never "
        "after it committed a response; a response counts as locked in once the link deleted the circuit and acked the "
        "packet (channelLink.ackDownStreamPackets) - until then a re-delivery after a link or switch restart is expected; "
        "after a crash the incoming link replays exactly the adds whose response it has not committed, the outgoing link "
        "re-forwards the off-chain responses the incoming side has not committed; the contract court re-sends a resolution "
        "message that was not acknowledged, never one that was",
    ],
    "race_anchors": ["htlcswitch/circuit_map.go", "htlcswitch/circuit.go"],
    "eval_counter": "ops",
    "units": [{
        "name": "seq", "pkg": "htlcswitch", "test": "TestVerifC07",
        "files": ["htlcswitch/c07_test.go"],
        "shards": {"quick": 8, "thorough": 16},
        "watchdog": {"quick": 900, "thorough": 5400},
        "floors": {"quick": {"ops": 30000, "model_compare_evals": 50000, "fork_restarts": 15000,
                             "fork_second_restarts": 7000, "fork_trimmed_keystones": 5000,
                             "fork_purged_circuits": 2500, "fork_kept_by_resolution": 400,
                             "dup_failed_back_after_restart": 2000, "dup_dropped_has_keystone": 2500,
                             "second_response_rejected": 400, "write_failures_injected": 1000},
                   "thorough": {"ops": 3000000, "model_compare_evals": 5000000, "fork_restarts": 1500000,
                                "fork_second_restarts": 700000, "fork_trimmed_keystones": 500000,
                                "fork_purged_circuits": 250000, "fork_kept_by_resolution": 40000,
                                "dup_failed_back_after_restart": 200000, "dup_dropped_has_keystone": 250000,
                                "second_response_rejected": 40000, "write_failures_injected": 100000}},
    }, {
        "name": "conc", "pkg": "htlcswitch", "test": "TestVerifC07Conc",
        "files": ["htlcswitch/c07_test.go", "htlcswitch/c07conc_test.go"],
        "porcupine": True,
        "race": {"quick": True, "thorough": True},
        "shards": {"quick": 8, "thorough": 16},
        "watchdog": {"quick": 900, "thorough": 5400},
        "gomaxprocs": 4,
        "floors": {"quick": {"histories_linearizable": 800, "conc_ops": 19000},
                   "thorough": {"histories_linearizable": 20000, "conc_ops": 480000}},
    }, {
        "name": "switch", "pkg": "htlcswitch", "test": "TestVerifC07Switch",
        "files": ["htlcswitch/c07_test.go", "htlcswitch/c07sw_test.go", "htlcswitch/c07swcrash_test.go"],
        "shards": {"quick": 8, "thorough": 16},
        "watchdog": {"quick": 900, "thorough": 5400},
        "floors": {"quick": {"sw_ops": 70000, "sw_restarts": 8000, "sw_restart_state_evals": 8000, "sw_forwards": 5900,
                              "sw_response_evals": 3300, "sw_resolutions": 1700, "sw_awaiting_resolution_evals": 390,
                              "sw_resolution_redelivered_after_restart": 390,
                              "sw_resolution_redelivered_after_full_close": 320, "sw_kept_by_resolution": 360,
                              "sw_purged_closed_circuits": 45, "sw_failed_back_after_restart": 1400,
                              "sw_dup_dropped": 1250, "sw_lock_ins": 950, "sw_second_response_dropped": 700,
                              "sw_trimmed_keystones": 250, "sw_purged_incoming_closed_circuits": 590,
                              "sw_kept_incoming_close_pending": 470, "sw_incoming_fully_closed": 480,
                              "sw_batch_forwards": 470, "sw_interrupted_batches": 500,
                              "sw_interrupted_batches_with_replays": 70, "swc_forks": 5600, "swc_forks_mid_op": 1400,
                              "swc_restart_state_evals": 12000, "swc_forward_evals": 12500, "swc_response_evals": 5000,
                              "swc_failed_back_evals": 5800, "swc_awaiting_resolution_evals": 700,
                              "swc_image0_evals": 35000, "swc_handed_after_crash": 390, "swc_transient_state_seen": 270},
                   "thorough": {"sw_ops": 2800000, "sw_restarts": 320000, "sw_restart_state_evals": 320000,
                                 "sw_forwards": 236000, "sw_response_evals": 132000, "sw_resolutions": 68000,
                                 "sw_awaiting_resolution_evals": 15600, "sw_resolution_redelivered_after_restart": 15600,
                                 "sw_resolution_redelivered_after_full_close": 12800, "sw_kept_by_resolution": 14400,
                                 "sw_purged_closed_circuits": 1800, "sw_failed_back_after_restart": 56000,
                                 "sw_dup_dropped": 50000, "sw_lock_ins": 38000, "sw_second_response_dropped": 28000,
                                 "sw_trimmed_keystones": 10000, "sw_purged_incoming_closed_circuits": 23600,
                                 "sw_kept_incoming_close_pending": 18800, "sw_incoming_fully_closed": 19200,
                                 "sw_batch_forwards": 18800, "sw_interrupted_batches": 20000,
                                 "sw_interrupted_batches_with_replays": 2800, "swc_forks": 224000,
                                 "swc_forks_mid_op": 56000, "swc_restart_state_evals": 480000, "swc_forward_evals": 500000,
                                 "swc_response_evals": 200000, "swc_failed_back_evals": 232000,
                                 "swc_awaiting_resolution_evals": 28000, "swc_image0_evals": 1400000,
                                 "swc_handed_after_crash": 15600, "swc_transient_state_seen": 10800}},
    }],
}
