PROP = {
    "level": "exploration",
    "technique": ("runtime monitor over the real lnwire/tlv codecs: totality (no panic / process-fatal, allocation bound), "
                  "byte fixpoint b->m1->b1->m2->b2 and value fixpoint m1 == m2 (normalising structural equality, m1 taken from an "
                  "independent second decode), lossless round trip of generated values, of field-domain values (one scalar "
                  "leaf of a generated value at a time at 0/1/2/3/single bits/max/max-1/PRNG, found by reflection incl. TLV "
                  "record wrappers) and of harness-built boundary "
                  "values (every variable-length field at 0/1/representation boundaries/field limit/largest that fits "
                  "65535, refusals judged against the harness's own size computation), history independence of the "
                  "well-formed round trip (refused encodes of catalogued ill-formed values, failing decodes and large "
                  "encodes run before / concurrently with / in the middle of it; bytes before == bytes after), differential oracle "
                  "(independent canonical-TLV recogniser) for tlv.Stream"),
    "level_text": ("Every message type accepted by makeEmptyMessage (plus custom types) and every onion failure code "
                   "(message and padded packet form) is decoded from generated valid encodings (lnwire's own rapid "
                   "generators driven deterministically by the case seed), structure-aware mutants of them and raw bytes; "
                   "every accepted input must reach a byte fixpoint after one re-encode AND the re-encoding must decode to a message "
                   "equal to the first decode (oracle reencode_decodes_equal, key = decoded type + first differing field); generated "
                   "values must round-trip losslessly within 65535 bytes; on every visit of a message type / failure code a generated value "
                   "is walked by reflection and up to 20 (thorough 32) of its scalar leaves (bool, (u)int8..64 and named enum/flag types, "
                   "elements of fixed-size byte arrays, also inside tlv.RecordT/OptionalRecordT/fn.Option/BigSizeT and unexported fields) are "
                   "set one at a time to 0,1,2,3,max,max-1,max/2,max/2+1, single bits (all for <= 16-bit leaves) and PRNG values; the value "
                   "must encode (or be refused), stay <= 65535 bytes, decode to a value equal to a pristine copy and re-encode identically "
                   "(oracle wellformed_roundtrip keys ...|value-differs|fd:<leaf>, ...|reencode-differs|fd:<leaf>); on every visit of a message type every variable-length field of it (addresses of all "
                   "kinds incl. dns hostnames of 1,2,63,64,127,128,251-255 bytes and address lists filling the message, feature "
                   "vectors, alias, scripts, error/warning data, ping/pong padding, reasons, blobs, extra opaque data, custom records, "
                   "htlc signature counts, scid lists plain/zlib, timestamps, nonce maps) is put at its boundary lengths and "
                   "round-tripped (oracle wellformed_roundtrip: own-encoding-rejected / reencode-differs / value-differs / "
                   "encode-refused-within-limits); the TLV extension of every message that has one is mutated in isolation "
                   "(record lengths, non-minimal BigSize, swap/dup/truncate/lower type, and value-domain mutants: one record of 1..8 value bytes "
               "at the same boundary values, and every record type the encoder emits for that message but elided in this encoding "
               "inserted with boundary values) and an accepted message must carry an "
                   "extension that an independent BOLT-1 walker accepts; HISTORY: every boundary value, every generated "
                   "value and one field-domain value in three (plus every unmodified one) is encoded once first thing, then 0-3 "
                   "PRNG-chosen disturbances run in the same goroutine - (a) the real encoder is handed one of 140 classes "
                   "of ILL-FORMED values of 49 targets it must refuse (unsupported / nil net.Addr, onion address of unknown "
                   "length or bad base32, nil feature vector / public key, short channel id or outpoint index beyond its wire "
                   "width, unknown scid encoding, timestamp/scid mismatch, custom records below the custom range or colliding "
                   "with the extra data, non-TLV extra data, node_announcement_2 alias / tor records, blobs, lists and "
                   "extensions beyond their uint16 prefix, failure packets > 256 bytes; the ill element first / middle / "
                   "last of its list; through Message.Encode, DataToSign where present and WriteMessage / EncodeFailure"
                   "[Message]), (b) a failing decode of hostile bytes of the same or another target, (c) encode + decode of "
                   "another 50-65 KB well-formed value - and for 1 value in 24 another 2-4 goroutines run disturbances "
                   "concurrently with the round trip; the value's round trip is then judged as before and oracle "
                   "history_independent requires the bytes produced after the disturbances (and once more after the "
                   "concurrent disturbers finished) to equal the bytes produced before them; for one value in three 1-2 other "
                   "decodes (same target valid / hostile, large other) run between the decode of the value's own encoding and "
                   "the comparison / re-encode of the decoded value; in module tlv the four Stream decode entry points must accept exactly "
                   "the streams an independent reference recogniser calls canonical and re-encode them byte-identically."),
    "level_note": ("Sampled, not exhaustive. History independence is sampled over sequences of at most 3 preceding "
                   "calls (plus 2-4 concurrent disturbers for 1 value in 24) from a hand-built catalogue of ill-formed values "
                   "(encoder refusals only where lnd returns an error, not where it panics by contract); what a concurrent "
                   "disturber leaves in another P's sync.Pool slot is seen only if the scheduler moves the checking goroutine "
                   "there (scheduling-dependent coverage, never a scheduling-dependent verdict); a run in which no encode was "
                   "refused is inconclusive (hist_* floors). A hang shows up as the shard watchdog (inconclusive), not as a violation. "
                   "Allocation is judged only when grossly exceeded (>64 MiB for one <=65 KB input); the measured maximum "
                   "is reported. lnwire in the main module links tlv v1.4.0 from the module cache, so the working-tree tlv "
                   "is exercised only by the tlv unit."),
    "design_ref": "DESIGN.md §3 C10",
    "rule": ("An input is one byte string handed to a real decoder. Non-trivial = the decoder was actually run on it. "
             "distinct = distinct (target message type / failure code / tlv mutation class, input class, accepted|rejected "
             "[, reference reason]) tuples observed; a field-domain value counts as (target, leaf path, ok|refused|rejected)."),
    "assumptions": ["protocol version 0 only",
                    "value equality after decode is judged with nil==empty for slices/maps and the 4-/16-byte forms of one IPv4 address "
                    "equal (wire-invisible representation); ExtraOpaqueData fields are compared record-wise: for the 14 message types of "
                    "KF-C10-6 (Encode rebuilds ExtraData from typed records) a lost unknown record is reported under the known key "
                    "unknown_records_preserved <msg>|unknown-records-dropped-on-reencode and differences confined to record types the encoder "
                    "emits itself are diagnostics (raw copy of typed fields, judged through the typed fields); for every other owner any "
                    "byte difference is a verdict",
                    "field-domain generator: leaves not generated: Sig.sigType, QueryShortChanIDs/ReplyChannelRange.noSort, Color.A (not "
                    "carried by the wire), Custom.Type (discriminator), fn.Option presence, foreign structs (public keys, net.TCPAddr, "
                    "tor.OnionAddr), maps, strings and variable-length byte content (c10wf covers lengths); ShortChannelID.BlockHeight/TxIndex "
                    "stay within 24 bits; cross-field constraints enforced by the harness on both copies: htlc_maximum_msat = 0 when "
                    "message_flags bit 0 is clear, short channel ids ascending (timestamps follow), DynCommit carries one channel id; an "
                    "encoder refusal is not a violation; an encoder panic and a decoder rejection of the encoder's own output are diagnostics "
                    "(fd_encode_panic, fd_own_encoding_rejected: nonces / alias / duplicate ids / dns port 0)",
                    "ext_accept_implies_canonical is a diagnostic for the 9 message types whose Decode keeps the extension as "
                    "opaque bytes on the pinned tree (stfu, dyn_reject, update_fail_htlc, update_fee, update_fail_malformed_htlc, "
                    "announcement_signatures, query_short_channel_ids, reply_short_channel_ids_end, kickoff_sig)",
                    "wellformed_roundtrip: the extra data of messages whose Encode rebuilds the extension from typed records "
                    "(open/accept_channel, funding_*, channel_ready, closing_*, revoke_and_ack, channel_reestablish, channel_update, "
                    "query/reply_channel_range, gossip_timestamp_range) is not a free field of a value (see KF-C10-6) and is not "
                    "varied; values that exceed a documented field limit (script > 34, alias2 of 0 or > 32 bytes, > 16 nonces, "
                    "> 100000 scids, hostname > 255) are not generated; two dns addresses in one node_announcement and a 1-byte "
                    "(non-TLV) extension are diagnostics only",
                    "history_independent: the value is encoded twice (before and after the disturbances) from the same Go "
                    "object, i.e. Encode is taken to be idempotent on its receiver (holds for all messages on the pinned tree: "
                    "ExtraData rebuilt from typed records and in-place scid sorting are idempotent); an encode refused once "
                    "and accepted once is a diagnostic (hist_refusal_flipped), a catalogue entry the encoder accepts or panics "
                    "on is a diagnostic (hist_illenc_accepted / hist_illenc_panic, both 0 on the pinned tree); disturbances of "
                    "the race unit are off",
                    "ext_reencode_reproduces_input is a diagnostic; its narrowly fingerprinted sub-case unknown_records_preserved "
                    "(exactly the unknown-type records missing after re-encode) is verdict-bearing and matched by KF-C10-6"],
    "eval_counter": "decodes",
    "race_anchors": ["lnwire/message.go", "lnwire/lnwire.go", "lnwire/extra_bytes.go", "lnwire/custom_records.go",
                     "lnwire/onion_error.go", "lnwire/features.go", "lnwire/query_short_chan_ids.go",
                     "lnwire/reply_channel_range.go", "tlv/stream.go", "tlv/varint.go", "tlv/primitive.go",
                     "tlv/truncated.go"],
    "units": [
        {
            "name": "lnwire", "pkg": "lnwire", "test": "TestVerifC10",
            "files": ["lnwire/c10_test.go", "lnwire/c10wf_test.go", "lnwire/c10fd_test.go", "lnwire/c10hist_test.go"],
            "shards": {"quick": 8, "thorough": 16},
            "fatal_is_violation": True,
            "floors": {"quick": {"decodes": 285000, "accepted": 130000, "rejected": 155000, "fixpoint_evals": 93000,
                                 "lossless_evals": 2280, "alloc_evals": 95000, "ext_decodes": 58000,
                                 "ext_accept_implies_canonical_evals": 33000, "ext_reencode_evals": 23000,
                                 "unknown_records_preserved_evals": 23000,
                                 # value fixpoint + field-domain values + extension value-domain mutants (c10fd_test.go)
                                 "reencode_decodes_equal_evals": 93000, "ext_fixpoint_evals": 33000,
                                 "ext_valdom_mutants": 22000, "ext_valdom_accepted": 21000,
                                 "fd_values": 37500, "fd_roundtrip_evals": 37500, "fd_typed_fields_equal": 37000,
                                 "fd_leaves": 3500,
                                 # well-formed boundary values (c10wf_test.go); the per-round volumes are
                                 # fixed by construction, floors = half of the measured value
                                 "wf_values": 4578, "wellformed_roundtrip_evals": 4264, "wf_roundtrip_ok": 4204,
                                 "wf_roundtrip_ok_at_limit": 508, "wf_encode_refused_oversize": 310, "wf_addrs": 54,
                                 "wf_addrs_dns": 396, "wf_addrs_maxfit": 54, "wf_alias": 48, "wf_bigsize": 96,
                                 "wf_blob": 198, "wf_custom_records": 330, "wf_custom_records_nearlimit": 180,
                                 "wf_data": 96, "wf_ext": 1128, "wf_ext_nearlimit": 324, "wf_features": 792,
                                 "wf_na2_addrs": 144, "wf_nonces": 60, "wf_padding": 96, "wf_reason": 54,
                                 "wf_scids_plain": 96, "wf_scids_zlib": 120, "wf_script": 210, "wf_sigs": 54,
                                 "wf_timestamps": 48,
                                 # history dimension (c10hist_test.go): ~50 % of the minimum over seeds 1..5
                                 "hist_values": 19700, "history_independent_evals": 19700,
                                 "history_independent_evals_disturbed": 15000,
                                 "history_independent_evals_after_refused_encode": 10500,
                                 "history_independent_evals_concurrent": 820,
                                 "history_independent_post_concurrent_evals": 800,
                                 "hist_illenc_refused": 19200, "hist_illenc_refused_partway": 12000,
                                 "hist_illenc_datatosign_refused": 3800,
                                 # 140 catalogue classes, each refused at least once in every one of the 8 shards
                                 "hist_illenc_classes_refused": 560,
                                 "hist_baddec_rejected": 8300, "hist_oklarge_ok": 12000, "hist_okdec_accepted": 4800,
                                 "hist_mid_values": 6400, "hist_concurrent_disturbances": 8600},
                       "thorough": {"decodes": 9500000, "accepted": 4300000, "rejected": 5100000,
                                    "fixpoint_evals": 3100000, "lossless_evals": 76000, "alloc_evals": 3200000,
                                    "ext_decodes": 1900000, "ext_accept_implies_canonical_evals": 1100000,
                                    "ext_reencode_evals": 760000,
                                    "reencode_decodes_equal_evals": 3100000, "ext_fixpoint_evals": 1100000,
                                    "ext_valdom_mutants": 730000, "ext_valdom_accepted": 700000,
                                    "fd_values": 1450000, "fd_roundtrip_evals": 1450000,
                                    "fd_typed_fields_equal": 1430000, "fd_leaves": 116000,
                                    "wf_values": 152600, "wellformed_roundtrip_evals": 142133, "wf_roundtrip_ok": 140133,
                                    "wf_roundtrip_ok_at_limit": 16933, "wf_encode_refused_oversize": 10333,
                                    "wf_addrs": 1800, "wf_addrs_dns": 13200, "wf_addrs_maxfit": 1800, "wf_alias": 1600,
                                    "wf_bigsize": 3200, "wf_blob": 6600, "wf_custom_records": 11000,
                                    "wf_custom_records_nearlimit": 6000, "wf_data": 3200, "wf_ext": 37600,
                                    "wf_ext_nearlimit": 10800, "wf_features": 26400, "wf_na2_addrs": 4800,
                                    "wf_nonces": 2000, "wf_padding": 3200, "wf_reason": 1800, "wf_scids_plain": 3200,
                                    "wf_scids_zlib": 4000, "wf_script": 7000, "wf_sigs": 1800, "wf_timestamps": 1600,
                                    # history dimension: quick floors x 30 (400 rounds instead of 12; not measured)
                                    "hist_values": 590000, "history_independent_evals": 590000,
                                    "history_independent_evals_disturbed": 450000,
                                    "history_independent_evals_after_refused_encode": 315000,
                                    "history_independent_evals_concurrent": 24600,
                                    "history_independent_post_concurrent_evals": 24000,
                                    "hist_illenc_refused": 576000, "hist_illenc_refused_partway": 360000,
                                    "hist_illenc_datatosign_refused": 114000, "hist_illenc_classes_refused": 1120,
                                    "hist_baddec_rejected": 249000, "hist_oklarge_ok": 360000,
                                    "hist_okdec_accepted": 144000, "hist_mid_values": 192000,
                                    "hist_concurrent_disturbances": 258000}},
            "watchdog": {"quick": 900, "thorough": 10800},
        },
        {
            "name": "lnwire_race", "pkg": "lnwire", "test": "TestVerifC10Race",
            "files": ["lnwire/c10_test.go", "lnwire/c10wf_test.go", "lnwire/c10fd_test.go", "lnwire/c10hist_test.go"],
            "tiers": ["thorough"],
            "race": {"quick": True, "thorough": True},
            "shards": {"quick": 8, "thorough": 16},
            "fatal_is_violation": True,
            "floors": {"thorough": {"decodes": 200000, "concurrent_batches": 285}},
        },
        {
            "name": "tlv", "module": "tlv", "pkg": ".", "pkgname": "tlv", "test": "TestVerifC10TLV",
            "files": ["tlv/c10tlv_test.go"],
            "shards": {"quick": 4, "thorough": 16},
            "fatal_is_violation": True,
            "floors": {"quick": {"decodes": 470000, "accept_iff_canonical_evals": 470000, "accepted": 190000,
                                 "rejected": 275000, "roundtrip_evals": 95000, "varint_evals": 2200},
                       "thorough": {"decodes": 47000000, "accept_iff_canonical_evals": 47000000, "accepted": 19000000,
                                    "rejected": 27000000, "roundtrip_evals": 9500000, "varint_evals": 220000}},
        },
    ],
}
