PROP = {
    "level": "exploration",
    "technique": ("runtime monitor over the real lnwire/tlv codecs: totality (no panic / process-fatal, allocation bound), "
                  "byte fixpoint b->m1->b1->m2->b2, lossless round trip of generated values, differential oracle "
                  "(independent canonical-TLV recogniser) for tlv.Stream"),
    "level_text": ("Every message type accepted by makeEmptyMessage (plus custom types) and every onion failure code "
                   "(message and padded packet form) is decoded from generated valid encodings (lnwire's own rapid "
                   "generators driven deterministically by the case seed), structure-aware mutants of them and raw bytes; "
                   "every accepted input must reach a byte fixpoint after one re-encode, generated values must round-trip "
                   "losslessly within 65535 bytes; the TLV extension of every message that has one is mutated in isolation "
                   "(record lengths, non-minimal BigSize, swap/dup/truncate/lower type) and an accepted message must carry an "
                   "extension that an independent BOLT-1 walker accepts; in module tlv the four Stream decode entry points must accept exactly "
                   "the streams an independent reference recogniser calls canonical and re-encode them byte-identically."),
    "level_note": ("Sampled, not exhaustive. A hang shows up as the shard watchdog (inconclusive), not as a violation. "
                   "Allocation is judged only when grossly exceeded (>64 MiB for one <=65 KB input); the measured maximum "
                   "is reported. lnwire in the main module links tlv v1.4.0 from the module cache, so the working-tree tlv "
                   "is exercised only by the tlv unit."),
    "design_ref": "DESIGN.md §3 C10",
    "rule": ("An input is one byte string handed to a real decoder. Non-trivial = the decoder was actually run on it. "
             "distinct = distinct (target message type / failure code / tlv mutation class, input class, accepted|rejected "
             "[, reference reason]) tuples observed."),
    "assumptions": ["protocol version 0 only",
                    "value equality after decode is judged with nil==empty for slices/maps (wire-invisible representation)",
                    "ext_accept_implies_canonical is a diagnostic for the 9 message types whose Decode keeps the extension as "
                    "opaque bytes on the pinned tree (stfu, dyn_reject, update_fail_htlc, update_fee, update_fail_malformed_htlc, "
                    "announcement_signatures, query_short_channel_ids, reply_short_channel_ids_end, kickoff_sig)",
                    "ext_reencode_reproduces_input is a diagnostic; its narrowly fingerprinted sub-case unknown_records_preserved "
                    "(exactly the unknown-type records missing after re-encode) is verdict-bearing and matched by KF-C10-6"],
    "eval_counter": "decodes",
    "race_anchors": ["lnwire/message.go", "lnwire/lnwire.go", "lnwire/extra_bytes.go", "lnwire/custom_records.go",
                     "lnwire/onion_error.go", "lnwire/features.go", "lnwire/query_short_chan_ids.go",
                     "lnwire/reply_channel_range.go", "tlv/stream.go", "tlv/varint.go", "tlv/primitive.go",
                     "tlv/truncated.go"],
    "units": [
        {
            "name": "lnwire", "pkg": "lnwire", "test": "TestVerifC10",
            "files": ["lnwire/c10_test.go"],
            "shards": {"quick": 8, "thorough": 16},
            "fatal_is_violation": True,
            "floors": {"quick": {"decodes": 225000, "accepted": 70000, "rejected": 150000, "fixpoint_evals": 59000,
                                 "lossless_evals": 2280, "alloc_evals": 95000, "ext_decodes": 36000,
                                 "ext_accept_implies_canonical_evals": 12000, "ext_reencode_evals": 2900,
                                 "unknown_records_preserved_evals": 2900},
                       "thorough": {"decodes": 7500000, "accepted": 2300000, "rejected": 5000000,
                                    "fixpoint_evals": 1900000, "lossless_evals": 76000, "alloc_evals": 3200000,
                                    "ext_decodes": 1200000, "ext_accept_implies_canonical_evals": 400000,
                                    "ext_reencode_evals": 95000}},
            "watchdog": {"quick": 900, "thorough": 10800},
        },
        {
            "name": "lnwire_race", "pkg": "lnwire", "test": "TestVerifC10Race",
            "files": ["lnwire/c10_test.go"],
            "tiers": ["thorough"],
            "race": {"quick": True, "thorough": True},
            "shards": {"quick": 8, "thorough": 16},
            "fatal_is_violation": True,
            "floors": {"thorough": {"decodes": 200000, "concurrent_batches": 285}},
        },
        {
            "name": "tlv", "module": "tlv", "pkg": ".", "pkgname": "tlv", "test": "TestVerifC10TLV",
            "files": ["tlv/c10tlv_test.go"],
            "shards": {"quick": 4, "thorough": 16},
            "fatal_is_violation": True,
            "floors": {"quick": {"decodes": 470000, "accept_iff_canonical_evals": 470000, "accepted": 190000,
                                 "rejected": 275000, "roundtrip_evals": 95000, "varint_evals": 2200},
                       "thorough": {"decodes": 47000000, "accept_iff_canonical_evals": 47000000, "accepted": 19000000,
                                    "rejected": 27000000, "roundtrip_evals": 9500000, "varint_evals": 220000}},
        },
    ],
}
