PROP = {
    "level": "exploration",
    "technique": ("runtime monitor over the real lnwire/tlv codecs: totality (no panic / process-fatal, allocation bound), "
                  "byte fixpoint b->m1->b1->m2->b2, lossless round trip of generated values and of harness-built boundary "
                  "values (every variable-length field at 0/1/representation boundaries/field limit/largest that fits "
                  "65535, refusals judged against the harness's own size computation), differential oracle "
                  "(independent canonical-TLV recogniser) for tlv.Stream"),
    "level_text": ("Every message type accepted by makeEmptyMessage (plus custom types) and every onion failure code "
                   "(message and padded packet form) is decoded from generated valid encodings (lnwire's own rapid "
                   "generators driven deterministically by the case seed), structure-aware mutants of them and raw bytes; "
                   "every accepted input must reach a byte fixpoint after one re-encode, generated values must round-trip "
                   "losslessly within 65535 bytes; on every visit of a message type every variable-length field of it (addresses of all "
                   "kinds incl. dns hostnames of 1,2,63,64,127,128,251-255 bytes and address lists filling the message, feature "
                   "vectors, alias, scripts, error/warning data, ping/pong padding, reasons, blobs, extra opaque data, custom records, "
                   "htlc signature counts, scid lists plain/zlib, timestamps, nonce maps) is put at its boundary lengths and "
                   "round-tripped (oracle wellformed_roundtrip: own-encoding-rejected / reencode-differs / value-differs / "
                   "encode-refused-within-limits); the TLV extension of every message that has one is mutated in isolation "
                   "(record lengths, non-minimal BigSize, swap/dup/truncate/lower type) and an accepted message must carry an "
                   "extension that an independent BOLT-1 walker accepts; in module tlv the four Stream decode entry points must accept exactly "
                   "the streams an independent reference recogniser calls canonical and re-encode them byte-identically."),
    "level_note": ("Sampled, not exhaustive. A hang shows up as the shard watchdog (inconclusive), not as a violation. "
                   "Allocation is judged only when grossly exceeded (>64 MiB for one <=65 KB input); the measured maximum "
                   "is reported. lnwire in the main module links tlv v1.4.0 from the module cache, so the working-tree tlv "
                   "is exercised only by the tlv unit."),
    "design_ref": "DESIGN.md §3 C10",
    "rule": ("An input is one byte string handed to a real decoder. Non-trivial = the decoder was actually run on it. "
             "distinct = distinct (target message type / failure code / tlv mutation class, input class, accepted|rejected "
             "[, reference reason]) tuples observed."),
    "assumptions": ["protocol version 0 only",
                    "value equality after decode is judged with nil==empty for slices/maps (wire-invisible representation)",
                    "ext_accept_implies_canonical is a diagnostic for the 9 message types whose Decode keeps the extension as "
                    "opaque bytes on the pinned tree (stfu, dyn_reject, update_fail_htlc, update_fee, update_fail_malformed_htlc, "
                    "announcement_signatures, query_short_channel_ids, reply_short_channel_ids_end, kickoff_sig)",
                    "wellformed_roundtrip: the extra data of messages whose Encode rebuilds the extension from typed records "
                    "(open/accept_channel, funding_*, channel_ready, closing_*, revoke_and_ack, channel_reestablish, channel_update, "
                    "query/reply_channel_range, gossip_timestamp_range) is not a free field of a value (see KF-C10-6) and is not "
                    "varied; values that exceed a documented field limit (script > 34, alias2 of 0 or > 32 bytes, > 16 nonces, "
                    "> 100000 scids, hostname > 255) are not generated; two dns addresses in one node_announcement and a 1-byte "
                    "(non-TLV) extension are diagnostics only",
                    "ext_reencode_reproduces_input is a diagnostic; its narrowly fingerprinted sub-case unknown_records_preserved "
                    "(exactly the unknown-type records missing after re-encode) is verdict-bearing and matched by KF-C10-6"],
    "eval_counter": "decodes",
    "race_anchors": ["lnwire/message.go", "lnwire/lnwire.go", "lnwire/extra_bytes.go", "lnwire/custom_records.go",
                     "lnwire/onion_error.go", "lnwire/features.go", "lnwire/query_short_chan_ids.go",
                     "lnwire/reply_channel_range.go", "tlv/stream.go", "tlv/varint.go", "tlv/primitive.go",
                     "tlv/truncated.go"],
    "units": [
        {
            "name": "lnwire", "pkg": "lnwire", "test": "TestVerifC10",
            "files": ["lnwire/c10_test.go", "lnwire/c10wf_test.go"],
            "shards": {"quick": 8, "thorough": 16},
            "fatal_is_violation": True,
            "floors": {"quick": {"decodes": 225000, "accepted": 70000, "rejected": 150000, "fixpoint_evals": 59000,
                                 "lossless_evals": 2280, "alloc_evals": 95000, "ext_decodes": 36000,
                                 "ext_accept_implies_canonical_evals": 12000, "ext_reencode_evals": 2900,
                                 "unknown_records_preserved_evals": 2900,
                                 # well-formed boundary values (c10wf_test.go); the per-round volumes are
                                 # fixed by construction, floors = half of the measured value
                                 "wf_values": 4578, "wellformed_roundtrip_evals": 4264, "wf_roundtrip_ok": 4204,
                                 "wf_roundtrip_ok_at_limit": 508, "wf_encode_refused_oversize": 310, "wf_addrs": 54,
                                 "wf_addrs_dns": 396, "wf_addrs_maxfit": 54, "wf_alias": 48, "wf_bigsize": 96,
                                 "wf_blob": 198, "wf_custom_records": 330, "wf_custom_records_nearlimit": 180,
                                 "wf_data": 96, "wf_ext": 1128, "wf_ext_nearlimit": 324, "wf_features": 792,
                                 "wf_na2_addrs": 144, "wf_nonces": 60, "wf_padding": 96, "wf_reason": 54,
                                 "wf_scids_plain": 96, "wf_scids_zlib": 120, "wf_script": 210, "wf_sigs": 54,
                                 "wf_timestamps": 48},
                       "thorough": {"decodes": 7500000, "accepted": 2300000, "rejected": 5000000,
                                    "fixpoint_evals": 1900000, "lossless_evals": 76000, "alloc_evals": 3200000,
                                    "ext_decodes": 1200000, "ext_accept_implies_canonical_evals": 400000,
                                    "ext_reencode_evals": 95000,
                                    "wf_values": 152600, "wellformed_roundtrip_evals": 142133, "wf_roundtrip_ok": 140133,
                                    "wf_roundtrip_ok_at_limit": 16933, "wf_encode_refused_oversize": 10333,
                                    "wf_addrs": 1800, "wf_addrs_dns": 13200, "wf_addrs_maxfit": 1800, "wf_alias": 1600,
                                    "wf_bigsize": 3200, "wf_blob": 6600, "wf_custom_records": 11000,
                                    "wf_custom_records_nearlimit": 6000, "wf_data": 3200, "wf_ext": 37600,
                                    "wf_ext_nearlimit": 10800, "wf_features": 26400, "wf_na2_addrs": 4800,
                                    "wf_nonces": 2000, "wf_padding": 3200, "wf_reason": 1800, "wf_scids_plain": 3200,
                                    "wf_scids_zlib": 4000, "wf_script": 7000, "wf_sigs": 1800, "wf_timestamps": 1600}},
            "watchdog": {"quick": 900, "thorough": 10800},
        },
        {
            "name": "lnwire_race", "pkg": "lnwire", "test": "TestVerifC10Race",
            "files": ["lnwire/c10_test.go", "lnwire/c10wf_test.go"],
            "tiers": ["thorough"],
            "race": {"quick": True, "thorough": True},
            "shards": {"quick": 8, "thorough": 16},
            "fatal_is_violation": True,
            "floors": {"thorough": {"decodes": 200000, "concurrent_batches": 285}},
        },
        {
            "name": "tlv", "module": "tlv", "pkg": ".", "pkgname": "tlv", "test": "TestVerifC10TLV",
            "files": ["tlv/c10tlv_test.go"],
            "shards": {"quick": 4, "thorough": 16},
            "fatal_is_violation": True,
            "floors": {"quick": {"decodes": 470000, "accept_iff_canonical_evals": 470000, "accepted": 190000,
                                 "rejected": 275000, "roundtrip_evals": 95000, "varint_evals": 2200},
                       "thorough": {"decodes": 47000000, "accept_iff_canonical_evals": 47000000, "accepted": 19000000,
                                    "rejected": 27000000, "roundtrip_evals": 9500000, "varint_evals": 220000}},
        },
    ],
}
