PROP = {
    "level": "fault_enumeration",
    "technique": "runtime monitor: stop after every durable write (kvdb interposer) + outcome equality with the uninterrupted run",
    "level_text": "placeholder",
    "level_note": "placeholder",
    "design_ref": "DESIGN.md §3 C13",
    "rule": "placeholder",
    "assumptions": [],
    "units": [{
        "name": "restart", "pkg": "contractcourt", "test": "TestVerifC13",
        "files": ["contractcourt/c12c13_common_test.go", "contractcourt/c13_test.go"],
        "shards": {"quick": 8, "thorough": 16},
        "floors": {},
    }],
}
