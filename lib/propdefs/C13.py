PROP = {
    "level": "fault_enumeration",
    "technique": ("runtime monitor: kvdb interposer (E2) stops the process after every durable write of the arbitrator "
                  "log, outcome equality with the uninterrupted run"),
    "level_text": ("Per generated close scenario (local / remote / pending-remote / breach / coop, direct or after a "
                   "user force close, 0-4 HTLCs: timeout path, peer claims on chain, preimage known / learned later / "
                   "via invoice / never, dust, dangling, anchor and legacy second level) the real ChannelArbitrator, "
                   "the real resolvers and the real bolt arbitrator log run to their terminal state against a "
                   "restart-robust world model (chain with spends, sweeper, nursery, notifier, switch, beacon, "
                   "registry; MarkChannelClosed / final outcomes / reports / witness cache / nursery store are writes "
                   "in the same database). W durable writes are counted in the uninterrupted run; then for every k in "
                   "1..W the run is repeated with the process stopped right after write k and restarted from what is "
                   "durable exactly as ChainArbitrator.Start does (IsPendingClose/CloseType/ClosingHeight if the close "
                   "was durable, else the chain watcher re-delivers the close). Thorough adds W random two-stop runs "
                   "per scenario. Compared with the uninterrupted outcome: terminal state, upstream map is a function "
                   "and equal, same resolver reports and final HTLC outcomes, fully-resolved only with an empty "
                   "contract bucket and no HTLC/commit output left open, every durable unresolved contract has a live "
                   "resolver after restart. Unit finalstage runs the last stage for real: a real ChainArbitrator over a "
                   "real channeldb with the arbitrator log and the channel state in the same kvdb backend holds one "
                   "channel closed by a PRNG-chosen close (remote / pending-remote / local / coop / breach with the "
                   "justice tx confirmed at once or later; nothing at stake, 0-2 blocks before the close); every one "
                   "of the W committed read-write transactions from the close event to the end (arbitrator log writes, "
                   "CloseChannel, breach resolver writes, MarkChanFullyClosed, WipeHistory) is a stop point; after "
                   "the stop a fresh channeldb.DB + ChainArbitrator.Start on the same backend re-creates the "
                   "arbitrators from FetchAllChannels / FetchClosedChannels(pendingOnly), the close is re-delivered "
                   "iff the channel is still open, blocks are driven, and (close recorded, pending-close, fully "
                   "closed, close type) must equal the uninterrupted outcome."),
    "level_note": ("Stop = database frozen right after commit k AND, in the same instant in the committing goroutine, "
                   "the process is cut off from the world (nothing it does afterwards reaches switch, chain, sweeper "
                   "or notifier); the zombie is reaped with Stop(). That is a process stop at that instant for the "
                   "committing goroutine with all other goroutines wherever they were; simply freezing would let "
                   "post-stop side effects leak, simply calling Stop() is not synchronous with the write. Because "
                   "resolver goroutines interleave, write k of a rerun is not always the k-th write of the reference "
                   "run; the evidence counts distinct (scenario kind, lnd write site, #HTLCs) stop points instead. "
                   "'Reaches the same terminal outcome' is bounded progress: the world is driven 12 blocks past the "
                   "last expiry with quiescence (all goroutines parked, no world/DB activity) awaited after every "
                   "block. The utxo nursery and the sweeper are part of the world model (their own persistence is not "
                   "exercised). In unit restart MarkChannelClosed / NotifyChannelResolved are played by the world "
                   "model; unit finalstage runs them for real (ChainArbitrator.ResolveContract, ChainArbitrator.Start, "
                   "channeldb) but only with nothing at stake on the commitment (no HTLC, no commit output, no anchor: "
                   "no sweeper involved; breach = breach resolver only). There the stop ends the committing goroutine "
                   "on the spot (runtime.Goexit right after the commit) and freezes the database for all others; 30 "
                   "rounds of quiescence+block bound 'never fully closed' (the uninterrupted run needs <= 1). An "
                   "arbitrator log left behind for a fully closed channel (stop between MarkChanFullyClosed and "
                   "WipeHistory) is not part of the statement: diagnostic final_log_differs only. A swap that is not persisted is outcome-neutral (same resolver key, idempotent "
                   "re-execution) and only shows up in a diagnostic."),
    "design_ref": "DESIGN.md §3 C13",
    "rule": ("A scenario is non-trivial when its uninterrupted run reaches StateFullyResolved; every one of its W "
             "durable writes is used as a stop point. distinct = distinct (close kind, lnd/env write site after which "
             "the stop fell, number of HTLCs) stop-point classes actually reached, plus (unit finalstage) distinct "
             "(close kind, lnd function that committed the write after which the stop fell) pairs."),
    "assumptions": ["world model: a mature input offered to the sweeper confirms in the next block; re-offered inputs "
                    "that are already spent are answered with the confirmed spender; spend/epoch registrations are "
                    "re-answered from chain state after a restart",
                    "MarkChannelClosed, PutFinalHtlcOutcome, PutResolverReport, AddPreimages, MarkCommitmentBroadcasted, "
                    "IncubateOutputs are durable writes of the same kvdb backend (as in lnd) and count as stop points",
                    "peer claims and learned preimages are scripted >= 3 blocks before the HTLC expiry so outcomes do "
                    "not depend on goroutine scheduling"],
    "eval_counter": "stop_runs",
    "units": [{
        "name": "restart", "pkg": "contractcourt", "test": "TestVerifC13",
        "files": ["contractcourt/c12c13_common_test.go", "contractcourt/c13_test.go",
                  "contractcourt/c13final_test.go"],
        "shards": {"quick": 8, "thorough": 16},
        "watchdog": {"quick": 600, "thorough": 5400},
        "floors": {
            "quick": {"scenarios": 160, "stop_runs": 2000, "oracle_terminal_evals": 2000,
                      "oracle_upstream_evals": 2000, "oracle_no_resolver_lost_evals": 2000,
                      "oracle_resolved_when_done_evals": 2000, "oracle_contracts_evals": 1500},
            "thorough": {"scenarios": 12000, "stop_runs": 170000, "double_stop_runs": 170000,
                         "double_stop_reached": 130000, "oracle_terminal_evals": 340000,
                         "oracle_upstream_evals": 340000, "oracle_no_resolver_lost_evals": 340000,
                         "oracle_contracts_evals": 270000},
        },
    }, {
        # Same file set as the unit above on purpose: the package is compiled once (build cache), only linked twice.
        "name": "finalstage", "pkg": "contractcourt", "test": "TestVerifC13Final",
        "files": ["contractcourt/c12c13_common_test.go", "contractcourt/c13_test.go",
                  "contractcourt/c13final_test.go"],
        "shards": {"quick": 4, "thorough": 8},
        "watchdog": {"quick": 600, "thorough": 3600},
        "floors": {
            "quick": {"final_scenarios": 48, "final_stop_runs": 340, "oracle_final_terminal_evals": 340},
            "thorough": {"final_scenarios": 600, "final_stop_runs": 4000, "oracle_final_terminal_evals": 4000},
        },
    }],
}
