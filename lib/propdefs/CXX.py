E1X = ["common", "e1_engine.go=lnwallet/e1_engine_test.go", "e1_oracles.go=lnwallet/e1_oracles_test.go",
       "e1_fork.go=lnwallet/e1_fork_test.go", "e1_debug.go=lnwallet/e1_debug_test.go", "lnwallet/e1_export.go"]
PROP = {"disabled": True, "level": "exploration", "technique": "probe", "level_text": "probe", "level_note": "probe", "rule": "probe",
        "units": [{"name": "probe", "pkg": "contractcourt", "test": "TestVerifProbeE1Export",
                   "files": ["contractcourt/probe_test.go"], "exports": {"lnwallet": E1X}, "shards": {"quick": 1}}]}
