_E1 = ["lnwallet/e1_engine_test.go", "lnwallet/e1_oracles_test.go", "lnwallet/e1_fork_test.go", "lnwallet/e1_debug_test.go"]
PROP = {
    "level": "exploration",
    "technique": "runtime monitor over two real LightningChannel state machines: conservation / cross-party identity / BOLT-3 output exactness / ledger oracles after every step of PRNG asynchronous schedules",
    "level_text": ("Two real LightningChannel machines on real bbolt channeldbs exchange real lnwire messages (re-encoded on "
                   "delivery) under PRNG asynchronous schedules (adds, settles, fails, malformed fails, fee updates, signs, "
                   "in-order deliveries within the one-unacked-commitment window); after every action monitors check: every honest "
                   "message accepted (sig-verify taxonomy), msat conservation on every held commitment, outputs+fee<=capacity, "
                   "exact output multiset under the BOLT-3 trim rule re-implemented in the harness, cross-party txid/field identity "
                   "per height, balance deltas explained by HTLC adds/removals only, mirror + closed-form ledger balances at quiescence."),
    "level_note": ("Held on the schedules executed (counts in evidence), all 7 channel types x both openers; aux/custom "
                   "channel leaves not exercised; up to ~15 HTLCs in flight in ordinary schedules plus bursts of 20-320 adds in one case out of fifteen (counter burst_cases); peer misbehaviour out of scope by the statement."),
    "design_ref": "DESIGN.md §2 E1, §3 C01",
    "rule": ("case = (channel params, 30-80 PRNG actions) from (seed, index); non-trivial = at least one HTLC became irrevocably "
             "committed, at least one commitment signed, not constraint-terminated; distinct = distinct (channel type, opener, "
             "bucketed counts of adds/settles/fails/fee updates, max in-flight bucket, saw dust boundary, saw duplicate, "
             "saw signature while peer signature in flight) signatures"),
    "assumptions": ["fixture channel created like lnwallet.CreateTestChannels (height-0 commitments are fixture-made and not judged)",
                    "MockSigner / in-memory message queues instead of a network"],
    "units": [{
        "name": "schedules", "pkg": "lnwallet", "test": "TestVerifC01",
        "files": _E1 + ["lnwallet/c01_test.go"],
        "shards": {"quick": 12, "thorough": 16},
        "watchdog": {"quick": 900, "thorough": 5400},
        "floors": {"quick": {"nontrivial": 400, "oracle_cross_party": 10000, "oracle_mirror": 500},
                   "thorough": {"nontrivial": 5000}},
    }],
}
