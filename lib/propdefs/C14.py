PROP = {
    "level": "exploration",
    "technique": ("runtime monitor: per-client trace automaton against a harness-side chain model + persisted-hint "
                  "oracle, real TxNotifier on the real channeldb.HeightHintCache (bbolt); -race slice with concurrent "
                  "registrations / rescan completions"),
    "level_text": ("PRNG chain histories (connect, disconnect to any depth within the reorg safety limit, reconnect with "
                   "the tx absent / moved / replaced by a conflicting tx, notifier restart on the same hint cache) drive "
                   "the real TxNotifier exactly as the btcd/bitcoind backends do; after every backend step every client "
                   "drains its channels and a trace automaton checks soundness (Confirmed/Spend only with the details of "
                   "the active chain and enough confirmations, never twice), the reorg notice before any renewed "
                   "notification, completeness at quiescent points, and persisted hint <= true inclusion height. "
                   "Several clients share a ConfRequest with different options (WithIncludeBlock on/off, different "
                   "confirmation counts) and register before the confirmation, after the details are cached, and while "
                   "others still wait for more confirmations; oracle conf_block_details checks on every Confirmed that a "
                   "client that asked for the block gets the reference chain's block at the notified height of the active "
                   "branch (hash = BlockHash, transaction at TxIndex, same transaction list) and that a client that did "
                   "not ask gets none (historical rescans are answered with the block attached, as the real backends do). "
                   "One transaction can satisfy SEVERAL DIFFERENT requests: batch transactions pay 2-4 different watched "
                   "scripts (unwatched outputs before / between / after, PRNG output order) and sweep transactions spend "
                   "2-4 different watched outpoints (own witness per input, unwatched inputs in between), taken from the "
                   "initial universe or created mid-history with fresh scripts/outpoints; batches of registrations put "
                   "txid+script, script-only, outpoint and script-only-spend requests of different clients / numConfs on "
                   "different outputs (inputs) of one such transaction before or after its inclusion, and the backend then "
                   "tries to mine it ('registered, then broadcast'); reorgs replace it by single-output members or by "
                   "another batch over a subset. A request is satisfied by the transaction that carries its script at any "
                   "output index (its outpoint at any input index); the same per-client oracles apply, and counters prove "
                   "that Confirmed/Spend was delivered for requests met at a LATER output (input) than another matched "
                   "request of the same transaction handed to ConnectTip."),
    "level_note": ("Sampled histories over an initial universe of <=4 watched scripts / <=4 watched outpoints and <=22 "
                   "transactions (single-group members, conf+spend combos, batch transactions over 2-4 scripts, sweeps over "
                   "2-4 outpoints), extended mid-history by up to 3 fresh batch/sweep transactions (2-4 new groups each, "
                   "plus replacements); three mining styles (uniform / multi-request transactions favoured sometimes / "
                   "always with slow single-group members); reorg safety limit in {3,6,144}. Not generated: address reuse "
                   "(the same watched script paid twice, also not by two outputs of one transaction), witness-less "
                   "spenders, slow consumers, a rescan result that is already stale when delivered, reorgs while the node "
                   "is down."),
    "design_ref": "DESIGN.md §3 C14",
    "rule": ("A history is non-trivial when at least one Confirmed/Spend was delivered and at least one block was "
             "disconnected; distinct = distinct (safety limit, max reorg depth bucket, #Confirmed, #Spend, "
             "#NegativeConf, #Reorg, #historical dispatches (bucketed), #restarts) signatures."),
    "assumptions": [
        "clients are prompt consumers (drain every channel after every backend step)",
        "watched scripts/outpoints are unique (no address reuse; several DIFFERENT watched scripts/outpoints in one "
        "transaction are generated); every spender of a watched output carries its witness",
        "height hints supplied by callers are valid (<= true inclusion height when included)",
        "historical rescans are served from the chain as of delivery time and need the whole requested range to exist",
        "reorg depth <= reorg safety limit measured from the highest tip ever reached; no reorg while the notifier is down",
    ],
    "race_anchors": ["chainntnfs/txnotifier.go", "chainntnfs/interface.go", "channeldb/height_hint.go",
                     "chainntnfs/best_block_view.go"],
    "units": [
        {
            "name": "histories", "pkg": "chainntnfs", "pkgname": "chainntnfs_test", "test": "TestVerifC14",
            "files": ["chainntnfs/c14_test.go"],
            "shards": {"quick": 8, "thorough": 16},
            "watchdog": {"quick": 600, "thorough": 3000},
            "floors": {
                "quick": {"cases": 3000, "oracle_conf_sound_evals": 10000, "oracle_spend_sound_evals": 13500,
                          "oracle_conf_complete_evals": 135000, "oracle_spend_complete_evals": 190000,
                          "oracle_hint_evals": 290000, "negative_conf_events": 1100, "spend_reorg_events": 1500,
                          "historical_delivered": 16500, "disconnects": 24000,
                          "histories_with_limit_depth_reorg": 520,
                          "oracle_conf_block_details_evals": 10000, "oracle_conf_block_requested_evals": 5000,
                          "oracle_conf_block_unrequested_evals": 5000, "conf_block_mixed_option_deliveries": 5300,
                          "conf_block_requested_after_noblock_cached_registration": 300,
                          "conf_block_requested_from_rescan": 2500,
                          # one transaction satisfying several different requests (handed to ConnectTip with
                          # live requests on >= 2 different outputs / inputs) and deliveries / completeness
                          # evaluations for the requests met at a later output (input) than another one
                          "multi_request_txs": 1400, "multi_request_txs_mixed_kinds": 850,
                          "multi_request_txs_3plus": 500,
                          "multi_outpoint_spenders": 1300, "multi_outpoint_spenders_mixed_kinds": 800,
                          "multi_outpoint_spenders_3plus": 450,
                          "conf_delivered_later_requested_output": 2400,
                          "spend_delivered_later_requested_input": 2600,
                          "oracle_conf_complete_later_output_evals": 27000,
                          "oracle_spend_complete_later_input_evals": 28000},
                "thorough": {"cases": 100000, "oracle_conf_sound_evals": 320000, "oracle_spend_sound_evals": 450000,
                             "oracle_conf_complete_evals": 4500000, "oracle_spend_complete_evals": 6000000,
                             "oracle_hint_evals": 9500000, "negative_conf_events": 37000,
                             "spend_reorg_events": 50000, "historical_delivered": 550000, "disconnects": 800000,
                             "histories_with_limit_depth_reorg": 17000,
                             "oracle_conf_block_details_evals": 320000, "oracle_conf_block_requested_evals": 150000,
                             "oracle_conf_block_unrequested_evals": 150000,
                             "conf_block_mixed_option_deliveries": 150000,
                             "multi_request_txs": 47000, "multi_request_txs_mixed_kinds": 29000,
                             "multi_outpoint_spenders": 45000, "multi_outpoint_spenders_mixed_kinds": 27000,
                             "conf_delivered_later_requested_output": 80000,
                             "spend_delivered_later_requested_input": 90000,
                             "oracle_conf_complete_later_output_evals": 900000,
                             "oracle_spend_complete_later_input_evals": 1000000},
            },
        },
        {
            "name": "concurrent", "pkg": "chainntnfs", "pkgname": "chainntnfs_test", "test": "TestVerifC14Concurrent",
            "files": ["chainntnfs/c14_test.go"],
            "race": {"quick": False, "thorough": True},
            "shards": {"quick": 8, "thorough": 16},
            "watchdog": {"quick": 600, "thorough": 3000},
            "gomaxprocs": 4,
            "floors": {
                "quick": {"cases": 80, "concurrent_connects": 900, "concurrent_client_ops": 1300,
                          "oracle_conf_sound_evals": 300, "oracle_spend_sound_evals": 450,
                          "oracle_conf_complete_evals": 2400, "oracle_hint_evals": 4500,
                          "oracle_conf_block_details_evals": 280, "oracle_conf_block_requested_evals": 130,
                          "conf_block_mixed_option_deliveries": 160,
                          "multi_request_txs": 30, "multi_outpoint_spenders": 30,
                          "conf_delivered_later_requested_output": 55,
                          "spend_delivered_later_requested_input": 60},
                "thorough": {"cases": 6000, "concurrent_connects": 66000, "concurrent_client_ops": 96000,
                             "oracle_conf_sound_evals": 22000, "oracle_spend_sound_evals": 33000,
                             "oracle_conf_complete_evals": 180000, "oracle_hint_evals": 330000,
                             "oracle_conf_block_details_evals": 22000, "oracle_conf_block_requested_evals": 9500,
                             "multi_request_txs": 2700, "multi_outpoint_spenders": 2900,
                             "conf_delivered_later_requested_output": 5000,
                             "spend_delivered_later_requested_input": 5900},
            },
        },
    ],
}
