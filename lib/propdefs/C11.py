PROP = {
    "level": "exploration",
    "technique": ("runtime monitor: independent BOLT-8 reference (own HKDF/handshake transcript/rotation bookkeeping) stepped "
                  "alongside pairs of real brontide Machines/Conns over a deterministic in-memory faulty pipe; ciphertext "
                  "equality, (key,nonce) duplicate monitor on AEAD.Seal, stream identity under short writes, tamper forks"),
    "level_text": ("Per session: PRNG static/ephemeral keys; the handshake must complete with the right static key and fail with "
                   "a wrong one and under every single-byte corruption of each act; every act and every header/body ciphertext "
                   "byte of up to ~3200 messages (sizes 0..65535, >=3 key rotations per direction in the long sessions, "
                   "rotation-straddling counts) must equal the reference ciphertext; short writes + Flush retries must put the "
                   "reference bytes on the wire exactly once, also when a second connection of the same process (own keys; brontide's pooled write buffers are process-wide) writes, flushes and reads back messages between two Flush attempts of a partially written header or body; the reader must return the plaintexts in order; flip / truncate / "
                   "replay / reorder / reflect / splice forks (receiver state snapshotted) must fail without data."),
    "level_note": ("Sampled sessions, not exhaustive. Faults are write-side short writes with a timeout error (the case lnd "
                   "documents as resumable); read-side timeouts are not resumable in lnd and are not injected. The real "
                   "Listener/Dial pair runs only in a small loopback slice whose environment failures are diagnostics."),
    "design_ref": "DESIGN.md §3 C11",
    "rule": ("One evaluation = one transport message written by a real Machine, compared byte-for-byte with the reference "
             "ciphertext and read back by the peer. distinct = distinct (rotations A->B capped at 3, rotations B->A capped at 3, "
             "fault rate, any short write) session classes plus distinct tamper kinds exercised."),
    "assumptions": ["reference AEAD is x/crypto chacha20poly1305 (shared primitive, independent key/nonce schedule)",
                    "reference self-check against the BOLT-8 appendix vectors must pass, otherwise the run is inconclusive"],
    "eval_counter": "messages",
    "race_anchors": ["brontide/noise.go", "brontide/conn.go", "brontide/listener.go"],
    "units": [{
        "name": "transport", "pkg": "brontide", "test": "TestVerifC11",
        "files": ["brontide/c11_test.go"],
        "shards": {"quick": 8, "thorough": 16},
        "fatal_is_violation": True,
        "floors": {"quick": {"messages": 140000, "ciphertext_reference_evals": 140000, "stream_identity_evals": 140000,
                             "delivery_evals": 140000, "nonce_reuse_evals": 280000, "tamper_evals": 14000,
                             "handshakes_completed": 150, "handshake_corruption_evals": 5000,
                             "handshake_wrong_key_evals": 300, "rotations": 250, "short_writes": 400000,
                             "bystander_messages": 220000, "bystander_inside_partial_header": 60000,
                             },
                   "thorough": {"messages": 20000000, "ciphertext_reference_evals": 20000000,
                                "stream_identity_evals": 20000000, "delivery_evals": 20000000,
                                "nonce_reuse_evals": 40000000, "tamper_evals": 2000000,
                                "handshakes_completed": 22000, "handshake_corruption_evals": 2500000,
                                "handshake_wrong_key_evals": 45000, "rotations": 40000, "short_writes": 60000000,
                                "bystander_messages": 13000000, "bystander_inside_partial_header": 3600000}},
    }, {
        "name": "transport_race", "pkg": "brontide", "test": "TestVerifC11Race",
        "files": ["brontide/c11_test.go"],
        "tiers": ["thorough"],
        "race": {"quick": True, "thorough": True},
        "shards": {"quick": 8, "thorough": 16},
        "fatal_is_violation": True,
        "floors": {"thorough": {"messages": 300000, "handshakes_completed": 400}},
    }],
}
