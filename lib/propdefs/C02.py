_E1 = ["lnwallet/e1_engine_test.go", "lnwallet/e1_oracles_test.go", "lnwallet/e1_fork_test.go", "lnwallet/e1_debug_test.go"]
PROP = {
    "level": "fault_enumeration",
    "technique": "runtime monitor with crash-point injection: database forks after every state-machine call (bbolt: copy through a read transaction; sqlite kvdb backend: file-level crash image = database file + write-ahead log, reopened through WAL recovery) + real restarts (incl. mid-handler; on sqlite the restarting party closes and reopens its backend, alternately orderly shutdown and kill) of two real LightningChannels; durable-projection equality, released-secret safety, continue-after-restart oracles",
    "level_text": ("Crash points are enumerated on executions of the real code, once per kvdb backend family that works offline: unit "
                   "`crashpoints` runs both parties' channeldb on bbolt, unit `crashpoints_sqlite` (build tag kvdb_sqlite) on the SQL family's "
                   "sqlite backend (kvdb/sqlbase + kvdb/sqlite, opened as lncfg does for db.backend=sqlite). After every action of PRNG "
                   "asynchronous schedules a consistent image of each side's database is reloaded (FetchOpenChannels+NewLightningChannel) and "
                   "compared with the live object (persisted commitments incl. HTLC sigs/indexes, restored chains incl. pending remote commitment, "
                   "revocation points/store, LastWasRevoke, forwarding packages); no released revocation secret is for a height >= the "
                   "height a reload would broadcast, and the reloaded commitment passes btcd's script interpreter with the right state "
                   "hint; real restarts (either side, also between ReceiveNewCommitment and RevokeCurrentCommitment) followed by "
                   "channel_reestablish and a full drain must keep all C01 oracles and the exactly-once ledger. In a third of the cases every "
                   "committed write transaction of either party is a crash point too (commit hook on the backend wrapper; both backends "
                   "return from Update once per committed transaction). On sqlite the image is what kill -9 leaves (database file + WAL, no "
                   "-shm) and a sample of the images is verified against a full bucket-tree dump of the live database (counter "
                   "sqlite_fork_selfcheck); a real restart closes the restarting party's backend and opens it again (orderly shutdown in place, "
                   "or from the kill image). Thorough adds O(L^2) systematic replays (same schedule, one restart index each)."),
    "level_note": ("both kvdb backend families that run offline are exercised: bbolt and the sqlite kvdb backend (smaller volume; counters "
                   "backend_bbolt_cases / backend_sqlite_cases and the `be=` component of the case signatures say which ran); the Postgres "
                   "and etcd kvdb backends are not exercised (no server available offline; Postgres shares kvdb/sqlbase with sqlite, its "
                   "server-side transaction semantics are not covered). Update-log equality after reload is a diagnostic (restoreStateLogs "
                   "normalises heights), the verdict-bearing counterpart is behavioural (continue-after-restart); in half of the cases a "
                   "second, never refreshed OpenChannel instance per party (what funding manager / chain watcher hold) writes channel "
                   "markers between actions and the reload fork is judged right after it (counters foreign_marker_writes, "
                   "foreign_writes_on_really_stale_instance); held on the executions counted in evidence."),
    "design_ref": "DESIGN.md §2 E1/E2, §3 C02",
    "rule": ("case = C01-style schedule + PRNG restarts (4-11 % per action, 1/3 of them mid-handler) + forks every 1/2/4 actions, run on one "
             "kvdb backend (bbolt or sqlite); non-trivial = >=1 HTLC irrevocably committed and >=1 real restart, not constraint-terminated; "
             "distinct = schedule signature incl. restart/mid-crash buckets and backend"),
    "assumptions": ["a crash is modelled as dropping the in-memory objects between two kvdb transactions (each channeldb write is one atomic transaction); on the sqlite backend the surviving disk state is the database file plus its write-ahead log as they are between two transactions (no torn page writes, no lost fsync: process crash, not power loss)",
                    "every restart also reloads the peer (lnd reloads a channel from disk on every reconnect)",
                    "kvdb backends exercised: bbolt and sqlite; Postgres and etcd are unavailable offline and not exercised"],
    "units": [{
        "name": "crashpoints", "pkg": "lnwallet", "test": "TestVerifC02",
        "files": _E1 + ["lnwallet/c01_test.go", "lnwallet/c02_test.go"],
        "shards": {"quick": 12, "thorough": 16},
        "watchdog": {"quick": 900, "thorough": 5400},
        "floors": {"quick": {"nontrivial": 200, "forks": 7000, "restarts": 800, "backend_bbolt_cases": 350},
                   "thorough": {"nontrivial": 1800, "backend_bbolt_cases": 3000}},
    }, {
        # same test logic on the sqlite kvdb backend; e1_sqlite_test.go only
        # exists in a kvdb_sqlite build and plugs into E1 through function
        # variables, so no other unit needs the tag or the file.
        "name": "crashpoints_sqlite", "pkg": "lnwallet", "test": "TestVerifC02Sqlite",
        "tags": "kvdb_sqlite",
        "files": _E1 + ["lnwallet/e1_sqlite_test.go", "lnwallet/c01_test.go", "lnwallet/c02_test.go"],
        "shards": {"quick": 12, "thorough": 16},
        "watchdog": {"quick": 900, "thorough": 5400},
        "floors": {"quick": {"nontrivial": 70, "forks": 4000, "restarts": 170, "backend_sqlite_cases": 75,
                             "sqlite_fork_selfcheck": 600, "sqlite_fork_images_with_wal": 4000,
                             "sqlite_restart_clean": 70, "sqlite_restart_killed": 70, "mid_commit_forks": 500},
                   "thorough": {"nontrivial": 900, "forks": 60000, "backend_sqlite_cases": 1200,
                                "sqlite_fork_selfcheck": 9000, "sqlite_restart_clean": 800,
                                "sqlite_restart_killed": 800}},
    }],
}
