_E1 = ["lnwallet/e1_engine_test.go", "lnwallet/e1_oracles_test.go", "lnwallet/e1_fork_test.go", "lnwallet/e1_debug_test.go"]
PROP = {
    "level": "fault_enumeration",
    "technique": "runtime monitor with crash-point injection: DB-copy forks after every state-machine call + real restarts (incl. mid-handler) of two real LightningChannels; durable-projection equality, released-secret safety, continue-after-restart oracles",
    "level_text": ("Crash points are enumerated on executions of the real code: after every action of PRNG asynchronous schedules "
                   "a consistent copy of each side's bbolt DB is reloaded (FetchOpenChannels+NewLightningChannel) and compared with "
                   "the live object (persisted commitments incl. HTLC sigs/indexes, restored chains incl. pending remote commitment, "
                   "revocation points/store, LastWasRevoke, forwarding packages); no released revocation secret is for a height >= the "
                   "height a reload would broadcast, and the reloaded commitment passes btcd's script interpreter with the right state "
                   "hint; real restarts (either side, also between ReceiveNewCommitment and RevokeCurrentCommitment) followed by "
                   "channel_reestablish and a full drain must keep all C01 oracles and the exactly-once ledger. Thorough adds O(L^2) "
                   "systematic replays (same schedule, one restart index each)."),
    "level_note": ("bbolt backend only (the atomic-transaction abstraction is what the property relies on); update-log "
                   "equality after reload is a diagnostic (restoreStateLogs normalises heights), the verdict-bearing counterpart "
                   "is behavioural (continue-after-restart); held on the executions counted in evidence."),
    "design_ref": "DESIGN.md §2 E1/E2, §3 C02",
    "rule": ("case = C01-style schedule + PRNG restarts (4-11 % per action, 1/3 of them mid-handler) + forks every 1/2/4 actions; "
             "non-trivial = >=1 HTLC irrevocably committed and >=1 real restart, not constraint-terminated; distinct = schedule "
             "signature incl. restart/mid-crash buckets"),
    "assumptions": ["a crash is modelled as dropping the in-memory objects between two kvdb transactions (each channeldb write is one atomic transaction)",
                    "every restart also reloads the peer (lnd reloads a channel from disk on every reconnect)"],
    "units": [{
        "name": "crashpoints", "pkg": "lnwallet", "test": "TestVerifC02",
        "files": _E1 + ["lnwallet/c01_test.go", "lnwallet/c02_test.go"],
        "shards": {"quick": 12, "thorough": 16},
        "watchdog": {"quick": 900, "thorough": 5400},
        "floors": {"quick": {"nontrivial": 200, "forks": 7000, "restarts": 800},
                   "thorough": {"nontrivial": 1800}},
    }],
}
