PROP = {
    "level": "exploration",
    "technique": ("runtime monitor: independent per-hop re-evaluation (exact math/big C09 forwarding rule, limits, "
                  "restrictions, totals, onion size) of every route returned by the real findPath+newRoute / "
                  "paymentSession.RequestRoute over generated channel graphs in a real graph DB"),
    "level_text": "",
    "level_note": "",
    "design_ref": "DESIGN.md §3 C19",
    "rule": "",
    "assumptions": [],
    "units": [{
        "name": "routes", "pkg": "routing", "test": "TestVerifC19",
        "files": ["routing/c19_test.go"],
        "shards": {"quick": 8, "thorough": 16},
        "floors": {},
    }],
    "race_anchors": [],
}
