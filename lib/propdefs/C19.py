_Q = {
    "routes_judged": 7000, "routes_multi_hop": 2500,
    "oracle_connectivity_evals": 10000, "oracle_amount_range_evals": 10000,
    "oracle_bandwidth_evals": 4000, "oracle_forwarding_fee_evals": 3000,
    "oracle_expiry_gap_evals": 3000, "oracle_fee_limit_evals": 7000,
    "oracle_cltv_limit_evals": 7000, "oracle_restrictions_evals": 2500,
    "oracle_totals_evals": 7000, "oracle_onion_fits_evals": 7000,
    "oracle_blinded_range_evals": 350,
    "routes_with_inbound_fee": 1500, "routes_inbound_clamped": 800,
    "routes_tight_limit": 1500, "routes_restricted": 800,
    "routes_parallel_choice": 1500, "routes_self_payment": 400,
    "routes_blinded": 350, "routes_with_hints": 300,
    "routes_payload_near_limit": 150, "routes_via_payment_session": 300,
}

PROP = {
    "level": "exploration",
    "technique": ("runtime monitor: independent per-hop re-evaluation (exact math/big C09 forwarding rule, limits, "
                  "restrictions, totals, onion size) of every route returned by the real findPath+newRoute "
                  "(FindRoute composition) and paymentSession.RequestRoute over generated channel graphs held in a "
                  "real graph DB (with and without graph cache)"),
    "level_text": ("Generated directed multigraphs (3-7 nodes, 3-12 channels incl. parallel ones, asymmetric / missing / "
                   "disabled policies, min/max HTLC and capacity at the amount +-1, zero and negative inbound fees larger "
                   "than the outbound fee, time-lock deltas 0..2016) are written into a real lnd graph DB; 8 queries per "
                   "graph (amounts at capacity/bandwidth/min/max +-1, outgoing-channel / last-hop / ignored node+pair "
                   "restrictions, bandwidth hints through the real bandwidthManager, destination payloads sized so the "
                   "1300-byte onion limit binds, route hints, blinded tails, self-payments, source != self), each followed "
                   "by re-queries with fee limit and CLTV limit set to the found optimum and optimum-1. Every returned "
                   "route is judged against the harness's own graph description. 2e3 graphs / ~2.9e4 pathfinding calls "
                   "quick, 1e5 graphs / ~1.4e6 calls thorough."),
    "level_note": ("Sampled, not exhaustive. Soundness only: a 'no route' answer is never judged. Inside a blinded tail "
                   "only the aggregate constraints (fee, CLTV delta, htlc min/max) are judged at the introduction node. "
                   "Route-hint edges carry no min/max/capacity, so only fee and delta are judged for them. CLTV-limit "
                   "reading: RestrictParams.CltvLimit excludes the final CLTV delta (lnd's documented definition; "
                   "RequestRoute/QueryRoutes subtract it from the payment-level limit), i.e. TotalTimeLock - height - "
                   "finalDelta <= limit; in session mode finalDelta includes BlockPadding. The disabled flag of a LOCAL "
                   "channel being ignored (lnd trusts the link/bandwidth hint) is a diagnostic, not a verdict."),
    "design_ref": "DESIGN.md §3 C19",
    "rule": ("A case is one generated graph with 8 pathfinding queries plus tight-limit re-queries; every non-error "
             "route is judged. Non-trivial = returned routes with >= 2 hops; distinct = distinct (hop count, a "
             "forwarding node charges an inbound fee, zero-floor clamp bound, tight-limit kind, restriction kinds, "
             "parallel-channel choice, plain/hints/blinded, self-payment, FindRoute vs payment-session composition) "
             "classes."),
    "assumptions": [
        "ignored nodes/pairs are folded into the ProbabilitySource exactly as routerrpc QueryRoutes does (probability 0)",
        "amounts <= 2^50 msat, fee rates <= 1e6 ppm, inbound rates within +-3e5 ppm (no int64 overflow domain)",
        "local bandwidth = what the harness configured on the mock links / hint map; an ineligible link reports 0",
    ],
    "eval_counter": "routes_judged",
    "units": [{
        "name": "routes", "pkg": "routing", "test": "TestVerifC19",
        "files": ["routing/c19_test.go"],
        "shards": {"quick": 8, "thorough": 16},
        "watchdog": {"quick": 900, "thorough": 5400},
        "floors": {"quick": _Q,
                   "thorough": {k: v * 50 for k, v in _Q.items()}},
    }],
    "race_anchors": [],
}
