PROP = {
    "level": "exploration",
    "technique": "runtime monitor: differential oracle (exact math/big re-evaluation) over the real channelLink decision functions, sequentially over a boundary lattice and concurrently while UpdateForwardingPolicy switches between two configured policies (an accept must be exact under one of them)",
    "level_text": ("Every in-domain decision of the real CheckHtlcForward/CheckHtlcTransit on a real channelLink is compared "
                   "with an exact unbounded-integer evaluation of the statement's rules; accept<=>all rules hold and a "
                   "rejection must name a rule that is really violated. 2e5 (quick) / 2e7 (thorough) boundary-lattice cases. "
                   "Unit concurrent_policy: decisions taken by two goroutines while a third switches the link between two "
                   "configured policies through UpdateForwardingPolicy (HTLCs each policy rejects for a different rule, so that "
                   "a decision blending fields of both would accept): an accept must be exact under the old or the new policy, "
                   "a rejection must name a rule violated under one of them."),
    "level_note": ("Sampled, not exhaustive; domain restriction: |capped inbound rate*(out+fee)| < 2^62 unless in<out "
                   "(beyond it CalcFee's int64 product overflows; counted as out_of_domain). Bandwidth is one fixture channel's."),
    "design_ref": "DESIGN.md §3 C09",
    "rule": ("PRNG boundary-lattice cases (policy, amounts, expiries, height) for "
             "CheckHtlcForward/CheckHtlcTransit on a real channelLink; every in-domain decision is "
             "compared with an exact math/big evaluation. A case is non-trivial when judged; distinct = "
             "distinct (verdict, failure type, number of violated rules, transit?, inbound-fee sign) classes."),
    "assumptions": ["domain restriction of DESIGN.md C09 (|capped inbound rate * (out+fee)| < 2^62 unless in<out)",
                    "bandwidth is the real AvailableBalance of one fixture channel"],
    "units": [{
        "name": "decision", "pkg": "htlcswitch", "test": "TestVerifC09",
        "files": ["htlcswitch/c09_test.go"],
        "shards": {"quick": 8, "thorough": 16},
        "floors": {"quick": {"decisions": 100000, "accepted": 2000, "rejected": 50000},
                   "thorough": {"decisions": 10000000, "accepted": 200000}},
    }, {
        "name": "concurrent_policy", "pkg": "htlcswitch", "test": "TestVerifC09Conc",
        "files": ["htlcswitch/c09_test.go", "htlcswitch/c09conc_test.go"],
        "shards": {"quick": 4, "thorough": 16}, "gomaxprocs": 4,
        "floors": {"quick": {"conc_decisions": 20000, "conc_neither_accepts_cases": 200},
                   "thorough": {"conc_decisions": 500000, "conc_neither_accepts_cases": 5000}},
    }],
}
