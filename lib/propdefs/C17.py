_E1 = ["lnwallet/e1_engine_test.go", "lnwallet/e1_oracles_test.go", "lnwallet/e1_fork_test.go", "lnwallet/e1_debug_test.go"]
E1X = ["common", "e1_engine.go=lnwallet/e1_engine_test.go", "e1_oracles.go=lnwallet/e1_oracles_test.go",
       "e1_fork.go=lnwallet/e1_fork_test.go", "e1_debug.go=lnwallet/e1_debug_test.go", "lnwallet/e1_export.go"]
PROP = {
    "level": "exploration",
    "technique": "runtime monitor: both real LightningChannels (two real ChanClosers for the legacy negotiation, two RBF-coop state machines for the RBF flow) build/sign/complete the cooperative close over a fee x script lattice on HTLC-free states reached by E1 schedules; byte identity, btcd script interpreter, exact-output oracle written from the statement, bounded-progress oracle for the negotiation",
    "level_text": ("HTLC-free states with arbitrary msat balances (after settles/fails/fee updates, reconnects, either opener, all 7 "
                   "channel types, musig2 closing sessions for taproot) are reached by running real E1 schedules; on fresh reloads of "
                   "both sides a lattice of fees (0 .. above the payer's balance), delivery script pairs (P2WPKH/P2WSH/P2TR, equal "
                   "scripts) and payer options is tried: both sides must agree on affordability, build byte-identical transactions, "
                   "each signature must verify (CompleteCooperativeClose on both sides after a wire round trip of the signatures), the "
                   "completed tx must pass btcd's interpreter against the harness-derived funding script and its outputs must equal "
                   "balance (+commit fee+anchors for the opener) - fee (payer), omitted below the owner's dust limit, sum+fee<=capacity. "
                   "A quarter of the cases are balance-shaping cases: the non-opener starts with nothing, every HTLC of the schedule is failed and "
                   "one settled HTLC then lifts its balance to a dust threshold -1/0/+1 sat (either channel dust limit, the dust value of either "
                   "delivery script, standard script dust values; any sub-satoshi remainder), and a third of the fees put the PAYER's output at "
                   "its dust limit -1/0/+1 or the fee at everything it owns -1/0/+1, so that the dust rule is judged exactly at its boundary for "
                   "both the paying and the non-paying party. In the RBF flow an honest closee refusing the honest closer's closing_complete "
                   "because it expects a transaction with other outputs (ErrCloserNoClosee / ErrCloserAndClosee) counts as the two sides not "
                   "building the same transaction. In a third of the RBF dialogues one or both parties name a NEW delivery script "
                   "(closer_scriptpubkey, any of the three classes) in their 2nd/3rd closing_complete, as closer in either order and "
                   "interleaved with the peer's offers: every exchange is judged with the scripts of THAT round, the closee must "
                   "build and complete the same transaction, and every later offer of the other side must pay the peer to the latest "
                   "script the peer has announced to it (coop_exact_outputs key rbf:stale-peer-script); a closee refusing an offer that "
                   "names its own latest script counts as the two sides not building the same transaction."),
    "level_note": ("transaction level + legacy negotiation (two real ChanClosers over the real channels, ideal-fee lattice "
                   "[100..50000] sat^2, caps containing the other's ideal; finishes on both sides, <=200 messages, final fee among "
                   "the offers both signed, identical valid tx) + RBF-coop state machine (unit rbf: one rbf_coop_transitions machine per "
                   "party over the two real channels, ProcessEvent driven synchronously without the protofsm runtime, daemon events "
                   "executed by the harness: wire round trip + RbfMsgMapper, PRNG interleavings incl. early offers, link / no-link "
                   "observer, 1-3 offers per side over a fee lattice incl. unaffordable and dust-edge fees, musig2 sessions for "
                   "taproot; Environment as peer/brontide.go builds it, i.e. BlockHeight 0; lnd has no public event that changes its own "
                   "delivery script mid-close, so for an offer with a new closer script the harness rewrites the LOCAL script in all "
                   "close terms reachable from the OFFERING party's machine right before its SendOfferEvent - the offering machine then "
                   "produces the spec-conformant closing_complete with valid (musig2) signatures, the receiving machine is untouched; "
                   "both sides make three offers in those dialogues; crossing offers that still name the old script are legitimately "
                   "refused and only counted). 'terminates' is bounded progress; "
                   "held on the trials counted."),
    "design_ref": "DESIGN.md §3 C17",
    "rule": ("case = E1 schedule in which every HTLC is eventually resolved, then 6 PRNG trials (fee, script pair, payer) on "
             "reloaded copies; non-trivial = completed closes; distinct = (channel type, opener, payer option, number of outputs, "
             "which side is below dust, zero fee, script lengths); unit rbf: case = E1 schedule then one RBF-coop close dialogue "
             "of the two state machines, non-trivial = dialogues yielding at least one transaction, distinct = (channel type, "
             "closer is opener, offer number of that closer, closer/closee output below dust, early offer seen, link mode, closer names a new script, closee has changed its script)"),
    "assumptions": ["MockSigner; musig2 nonces generated as peer.MusigChanCloser does",
                    "both parties of the RBF unit are lnd state machines; in half of the cases a party is configured with a non-zero Environment.BlockHeight and, as closer, signs the lock time it announces through the harness' CloseSigner wrapper (lnd's own closer signs lock time 0 while announcing BlockHeight, a configuration production code never uses: not judged)"],
    "units": [{
        "name": "closetx", "pkg": "lnwallet", "test": "TestVerifC17",
        "files": _E1 + ["lnwallet/c01_test.go", "lnwallet/c17_test.go"],
        "shards": {"quick": 10, "thorough": 16},
        "watchdog": {"quick": 900, "thorough": 5400},
        "floors": {"quick": {"trials": 1500, "oracle_exact_outputs": 800, "unaffordable_trials": 100,
                             "shaped_nonopener_balance": 60, "payer_edge_fee_trials": 500},
                   "thorough": {"trials": 13000}},
    }, {
        "name": "negotiation", "pkg": "lnwallet/chancloser", "test": "TestVerifC17Negotiation",
        "files": ["lnwallet/chancloser/c17neg_test.go"], "exports": {"lnwallet": E1X},
        "shards": {"quick": 8, "thorough": 16},
        "watchdog": {"quick": 900, "thorough": 5400},
        "floors": {"quick": {"nontrivial": 150, "oracle_terminates": 150},
                   "thorough": {"nontrivial": 1700}},
    }, {
        "name": "rbf", "pkg": "lnwallet/chancloser", "test": "TestVerifC17Rbf",
        "files": ["lnwallet/chancloser/c17rbf_test.go"], "exports": {"lnwallet": E1X},
        "shards": {"quick": 8, "thorough": 16},
        "watchdog": {"quick": 900, "thorough": 5400},
        "floors": {"quick": {"nontrivial": 185, "rbf_parties_with_block_height": 130, "oracle_identical_tx": 490, "oracle_exact_outputs": 490,
                             "oracle_interpreter": 490, "rbf_replacements": 170, "unaffordable_refused": 110,
                             "closer_output_dust": 90, "closee_output_dust": 22, "both_sides_closed": 115,
                             "shaped_nonopener_balance": 45, "rbf_script_changes": 60,
                             "rbf_script_change_closes": 55, "oracle_peer_script_after_change": 25},
                   "thorough": {"nontrivial": 13000, "rbf_parties_with_block_height": 5000, "oracle_identical_tx": 35000, "oracle_exact_outputs": 35000,
                                "rbf_replacements": 13000, "unaffordable_refused": 8500,
                                "closee_output_dust": 2400}},
    }],
}
