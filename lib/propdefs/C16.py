PROP = {
    "level": "exploration",
    "technique": ("runtime monitor: differential execution of KVStore (bbolt) and SQLStore (SQLite) against a "
                  "reference model + ledger invariants; porcupine linearizability check of ControlTower histories "
                  "with a delay-only interposer on the stores' transaction executors"),
    "level_text": ("PRNG operation sequences (InitPayment, RegisterAttempt with amounts straddling the remaining amount / "
                   "MPP / plain / blinded / mismatching records, SettleAttempt, FailAttempt, Fail, DeletePayment(s), "
                   "DeleteFailedAttempts, fetches; unknown and deleted payments) run on both real stores side by side; "
                   "every call's admit/refuse decision and every returned/fetched MPPayment projection is compared "
                   "between the backends and with a model written from the documented rules, and invariants stated "
                   "directly from the property are evaluated on a ledger of observed results. 2-4 goroutines through the "
                   "real routing.ControlTower (+ direct DeletePayment(hash, failedHtlcsOnly) and the bulk "
                   "DeletePayments with all four flag combinations, as the RPC server calls them) produce "
                   "client-boundary histories checked for linearizability per payment hash with porcupine (the bulk "
                   "delete is one sub-operation per hash); a third of the histories start all clients at once on "
                   "freshly initiated / unknown / failed payments with operations admissible in that state. The "
                   "kvdb.Backend (View/Update/Batch) and the SQL transaction executor (ExecTx) handed to the stores are "
                   "wrapped: driven by the case PRNG a client yields or sleeps before a transaction and is held after "
                   "its commit until another client's write has committed (delays only, never inside a transaction), so "
                   "that calls made of more than one transaction get other clients' transactions between them; the "
                   "number of histories where that was observed is counted. A read-only transaction (kvdb View / read-only "
                   "ExecTx) is such a boundary too: after it returns the client is mostly held (own PRNG table) until "
                   "another client's write has committed, so a call that checks in a read-only transaction and writes in "
                   "a later one meets the other client's write in between. A quarter of the histories is a race profile "
                   "on ONE hash driven on the store API itself (no tower mutex): RegisterAttempt released together with "
                   "the operation that flips its admissibility (SettleAttempt of the only other in-flight shard, Fail, "
                   "FailAttempt of the other shard with an amount that only fits afterwards, DeletePayment(s) of an "
                   "initiated payment, InitPayment of a failed one), amounts chosen so that the new shard is admissible "
                   "before and inadmissible after (or the reverse), plus 0-3 further operations per client; another "
                   "eighth of the remaining histories runs the general mix directly on the store. For direct store calls "
                   "the MPPayment returned by RegisterAttempt / SettleAttempt / FailAttempt / Fail is part of the "
                   "observed output and must be the model state right after the operation in the linearization. "
                   "Model-free clauses on every history: once any call has returned a record reporting Succeeded, no "
                   "call that starts later returns another status (histories without creation/deletion); "
                   "fetched records obey the amount bound and the status function; an attempt admitted and never "
                   "settled/failed keeps its hash reported in flight and InitPayment refused."),
    "level_note": ("Sampled, not exhaustive. Attempt ids are unique per payment hash in the core units (the SQL schema makes "
                   "them globally unique, the KV store per payment); duplicate ids are exercised in their own unit. "
                   "Concurrent schedules are the Go runtime's (GOMAXPROCS=4, -race in thorough) perturbed by the "
                   "PRNG-drawn pauses at transaction boundaries; where inside a multi-transaction call another client "
                   "lands is not enumerated. The bulk delete's cross-hash atomicity and its returned count are not "
                   "verdict-bearing in the concurrent unit (count: KV-vs-SQL in the sequential unit). Direct store slice: "
                   "the documented caller contract is respected - PaymentControl.RegisterAttempt: 'Callers MUST "
                   "serialize calls to RegisterAttempt for the same payment hash', so the harness holds a per-hash mutex "
                   "around direct RegisterAttempt calls only (never two registrations of one hash at once); no other "
                   "method pair is documented as needing caller serialisation (Fail: 'allows concurrent calls ... without "
                   "synchronization'), so RegisterAttempt runs concurrently with SettleAttempt / FailAttempt / Fail / "
                   "InitPayment / deletes of the same hash. Inside lnd every caller of these four methods goes through "
                   "routing.ControlTower, whose per-hash mutex serialises them (only DeletePayment(s), "
                   "DeleteFailedAttempts and fetches bypass it), so a register-vs-settle/fail race inside the store is "
                   "reachable at the store API (paymentsdb.DB, the subject of the statement), not through the tower."),
    "design_ref": "DESIGN.md §3 C16",
    "rule": ("A sequence is non-trivial when at least one attempt was admitted, at least one call was refused and a "
             "terminal status (succeeded/failed) was reported; distinct = distinct sets of (operation, model outcome "
             "class) pairs. A concurrent history is non-trivial when >=2 operations on one hash overlapped in time; "
             "distinct = distinct (ops per hash, outcome multiset) signatures. The concurrent unit additionally "
             "requires a minimum number of histories in which a complete write transaction of another client was "
             "observed between two transactions of one call (interleaved_between_tx, per backend), of holds released "
             "by another client's commit, of histories containing the bulk delete overlapping a registration, of "
             "race-profile histories per backend whose registration and opposing operation overlapped in time, of "
             "records returned by direct store calls that were checked, and of holds after a read-only transaction "
             "released by another client's commit."),
    "assumptions": ["attempt ids are not shared between payment hashes (core units)",
                    "SQLite stands for the SQL backend (Postgres fixtures do not run offline)",
                    "a porcupine timeout (Unknown) makes that history inconclusive, it is counted, never a violation",
                    "a database-busy answer is a rolled-back call (no effect); for the two-step ControlTower.InitPayment "
                    "it is ambiguous and the history is skipped (counted)",
                    "the transaction interposer only delays (yield / sleep / hold until another client's commit, capped) "
                    "outside transactions; it never fails or reorders a call",
                    "direct store calls keep the documented caller contract: RegisterAttempt calls of one hash are "
                    "serialised by the harness; all other store methods may run concurrently on one hash"],
    "race_anchors": ["payments/db/payment.go", "payments/db/payment_status.go", "payments/db/kv_store.go",
                     "payments/db/sql_store.go", "routing/control_tower.go"],
    "eval_counter": "cases",
    "units": [
        {
            "name": "seqdiff", "pkg": "payments/db", "pkgname": "paymentsdb", "test": "TestVerifC16Seq",
            "files": ["payments/db/c16_test.go"],
            "shards": {"quick": 8, "thorough": 16},
            "watchdog": {"quick": 600, "thorough": 5400},
            "floors": {"quick": {"cases": 2000, "ops": 40000, "admitted": 3000, "admitted_completing": 800, "cases_reached_succeeded": 500, "eval_model_projection": 40000,
                                 "eval_kv_sql_outcome": 40000, "eval_status_invariants": 40000,
                                 "nontrivial_cases": 500},
                       "thorough": {"cases": 100000, "ops": 2200000, "admitted": 180000, "admitted_completing": 100000,
                                    "cases_reached_succeeded": 30000, "eval_model_projection": 4000000,
                                    "eval_status_invariants": 5000000, "nontrivial_cases": 55000}},
        },
        {
            "name": "dupid", "pkg": "payments/db", "pkgname": "paymentsdb", "test": "TestVerifC16DupID",
            "files": ["payments/db/c16_test.go"],
            "shards": {"quick": 4, "thorough": 16},
            "watchdog": {"quick": 600, "thorough": 3600},
            "floors": {"quick": {"cases": 200, "eval_dup_kv_sql": 600},
                       "thorough": {"cases": 7000}},
        },
        {
            "name": "tower", "pkg": "routing", "pkgname": "routing", "test": "TestVerifC16CT",
            "files": ["routing/c16ct_test.go"],
            "porcupine": True,
            "race": {"quick": False, "thorough": True},
            "gomaxprocs": 4,
            "shards": {"quick": 8, "thorough": 16},
            "watchdog": {"quick": 600, "thorough": 5400},
            "floors": {"quick": {"histories": 1400, "lin_ok": 1300, "histories_with_overlap": 700,
                                 "eval_conc_invariants": 450, "eval_inflight_kept": 550, "eval_fetched_record": 650,
                                 "histories_contend": 200, "histories_with_delall_kv": 175,
                                 "histories_with_delall_sql": 190, "histories_delall_overlaps_reg": 250,
                                 "interleaved_between_tx": 75, "interleaved_between_tx_kv": 33,
                                 "interleaved_between_tx_sql": 40, "holds_released_by_commit": 1100,
                                 "histories_race_kv": 90, "histories_race_sql": 95,
                                 "race_pair_overlapped_kv": 90, "race_pair_overlapped_sql": 88,
                                 "race_kind_settle": 70, "race_kind_failpay": 55, "histories_direct": 260,
                                 "eval_returned_record": 570, "eval_succeeded_absorbing": 100,
                                 "holds_after_ro_released_by_commit": 320},
                       "thorough": {"histories": 20000, "lin_ok": 19000, "histories_with_overlap": 10000,
                                    "eval_inflight_kept": 8500, "histories_with_delall_kv": 3600,
                                    "histories_with_delall_sql": 3700, "histories_delall_overlaps_reg": 5000,
                                    "interleaved_between_tx": 1100, "interleaved_between_tx_kv": 500,
                                    "interleaved_between_tx_sql": 550, "holds_released_by_commit": 15000,
                                    "race_pair_overlapped_kv": 1300, "race_pair_overlapped_sql": 1300,
                                    "eval_returned_record": 8000,
                                    "holds_after_ro_released_by_commit": 4500}},
        },
    ],
}
