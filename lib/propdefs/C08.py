PROP = {
    "level": "exploration",
    "technique": "runtime monitor over a real three-node switch/link/channel cluster: wire monitor on every settle/fail the forwarder sends upstream (preimage learned downstream; outgoing HTLC gone from the forwarder's on-disk commitments), conservation/dangling oracle at quiescence, injected delays, single-link flaps, graceful cluster restarts and crash-consistent whole-cluster power losses (global cut through all databases behind a kvdb interposer, boot from the copies), hold invoices settled/cancelled at PRNG instants; a saturation phase (small HTLC-slot / in-flight-value limit on the forwarder's outgoing channel taken up by held payments) that makes the forwarder's outgoing LINK reject forwarded adds before the faults strike, with the sender retrying afterwards; race detector in the thorough tier",
    "level_text": ("Batches of 5-20 concurrent payments (A->B->C, C->B->A, direct; amounts around dust/min_htlc; valid, unknown hash, "
                   "underpaid, fee-too-low and CLTV-delta-too-small onions, hold invoices that the receiver settles or cancels later) run through three real Switches with real links, circuit "
                   "maps and channels; message delays, 0-3 flaps of one channel's links with the switches running (links removed, channel reloaded on both "
                   "ends, channel_reestablish run for real) and 0-2 whole-cluster restarts (all in-flight messages lost, every node reloaded "
                   "from its DBs, results re-queried by attempt id) are injected; in a quarter of the cases additionally a burst of 2-5 "
                   "power losses in the middle of activity: every database of the cluster (per node: channel/switch database with circuit map, "
                   "payment results and forwarding packages; invoice database) sits behind a kvdb interposer sharing one RW lock, a cut taken "
                   "with no write transaction open (by the clock, or right behind the k-th commit - of any kind or of a PRNG-chosen kind - of a PRNG-chosen store with the committing handler frozen) "
                   "copies all of them, the cluster runs on for a PRNG time and is then thrown away, and a new cluster with new invoice registries boots "
                   "from the copies (monitor tables and preimage caches rolled back to the cut, every result re-queried by attempt id, hold decisions re-issued, "
                   "a third of the payments launched only after the boots); the case is judged once, at its end. In a quarter of the cases (PRNG, independent of the fault plan) a "
               "saturation phase runs first: the channel that is Bob's outgoing channel for one direction (A->C or C->A) has a small limit (3-8 accepted HTLCs, or an "
               "in-flight value that 2-5 held payments exhaust; set on the channel state on both ends and re-applied on every reload), hold-invoice payments through Bob "
               "take it up, then a burst of 2-6 further forwards passes Bob's switch (policy, expiry, bandwidth all fine) and is refused by his outgoing link "
               "(lnwallet rejects the add; the link's mailbox fails it back - counted as link_level_add_rejects through the switch's channel-update callback, which, a circuit-map write-error fallback aside, only "
               "that path uses), the receiver settles/cancels what it holds (limit free again; three times in four the network is quiescent before going on), then the "
               "ordinary payments and the fault plan run - which in such a case always contains a restart of Bob's incoming link of that direction (flap / held down of that channel, "
               "cluster restart or power loss) - and after the faults the sender pays two thirds of the rejected invoices again with new attempt ids plus 1-4 new "
               "payments; a payment is judged by the outcome over all its attempts. Monitors: (1) every update_fulfill Bob sends upstream "
                   "must follow an update_fulfill with that preimage on the outgoing channel; every update_fail upstream must find the "
                   "outgoing HTLC in none of Bob's on-disk commitments (fresh FetchChannel); at most one resolution kind per incoming "
                   "HTLC and at most one per connection; every update_add Bob sends on the outgoing channel of a forwarded payment whose incoming HTLC he already resolved upstream on an "
               "earlier connection, with no newer incoming add for that hash, must still find that incoming HTLC in one of Bob's on-disk upstream commitments "
               "(outgoing_add_without_live_incoming: a legitimate replay of a still pending add passes, an add offered after the incoming HTLC is irrevocably gone does not); (2) at quiescence (observable state stable) no HTLC/circuit is left, every "
                   "payment has a terminal result consistent with the receiver's invoice, and all four channel-end balances equal the "
                   "start plus exactly the settled payments and fees; (3) thorough: the same under the Go race detector."),
    "level_note": ("3-node line topology with the fixture's mock onion iterator; hodl-mask dev flags not used (hold invoices are real hold invoices of the invoice registry); 'no HTLC left dangling' is "
                   "idle-but-dirty detection (never idle => inconclusive); goroutine schedules are the runtime's, not enumerated; held on "
                   "the cases counted in evidence. Link-level rejection is produced by exhausted HTLC slots / in-flight value only (not by concurrent adds exceeding the balance, fee exposure, "
               "a flushing link or expiry in the mailbox); the small limits are written into the fixture's channel state objects (createTestChannel hard-codes 50 HTLCs / the capacity), "
               "not negotiated; outgoing_add_without_live_incoming deliberately stays silent when a newer incoming add for the same hash (a retry) has arrived - the balance oracles judge those."),
    "design_ref": "DESIGN.md §3 C08",
    "rule": ("case = (5-20 PRNG payments in 1-3 waves incl. hold invoices, delay profile, 0-3 link flaps, 0-2 cluster restarts and 0 or 2-5 consecutive power losses at PRNG instants, in a quarter of the cases preceded by a saturation phase (limit kind, direction, fillers, burst) and followed by retries); non-trivial = at least "
             "one payment settled; distinct = (restarts, flaps, power loss none/idle/mid-activity, number of distinct (direction,kind,outcome) classes, settled count bucket, delay profile, saturation none/direction+limit kind)"),
    "race_anchors": ["htlcswitch/link.go", "htlcswitch/switch.go", "htlcswitch/circuit_map.go", "htlcswitch/mailbox.go",
                     "htlcswitch/payment_result.go", "channeldb/forwarding_package.go", "lnwallet/channel.go"],
    "assumptions": ["an incoming link quitting while Switch.ForwardPackets is inside a replayed batch is not placed deliberately (no handle without a source hook; seed C08i = C07f is caught by C07 only)",
                    "cluster restart = simultaneous stop of all three nodes after which every node reloads from its databases",
                    "invoice registries and preimage caches are carried over a graceful restart (they are persistent in lnd)",
                    "power loss = all three nodes lose power at the same instant: each database holds exactly the write transactions committed before it, all messages in flight are lost; invoices (a database of their own per node in the fixture) and the preimage cache are cut at the same instant"],
    "units": [{
        "name": "threehop", "pkg": "htlcswitch", "test": "TestVerifC08",
        "files": ["htlcswitch/c08_test.go"],
        "race": {"quick": False, "thorough": True},
        "shards": {"quick": 8, "thorough": 16},
        "gomaxprocs": 4,
        "watchdog": {"quick": 1200, "thorough": 7200},
        "floors": {"quick": {"oracle_quiescence": 20, "oracle_upstream_resolution": 100, "nontrivial": 20,
                             "powerloss_cases": 6, "powerloss_cuts": 18, "powerloss_cut_during_activity": 12,
                             "sat_cases": 7, "sat_burst_rejected": 25, "link_level_add_rejects": 50,
                             "oracle_outgoing_add_has_live_incoming": 200},
                   "thorough": {"oracle_quiescence": 400, "powerloss_cases": 80, "powerloss_cuts": 250, "powerloss_cut_during_activity": 150,
                                "sat_cases": 90, "sat_burst_rejected": 300, "link_level_add_rejects": 600}},
    }],
}
