E1X = ["common", "e1_engine.go=lnwallet/e1_engine_test.go", "e1_oracles.go=lnwallet/e1_oracles_test.go",
       "e1_fork.go=lnwallet/e1_fork_test.go", "e1_debug.go=lnwallet/e1_debug_test.go", "lnwallet/e1_export.go"]
PROP = {
    "level": "exploration",
    "technique": ("runtime monitor: btcd script interpreter on every input of every justice transaction the real breach code "
                  "(NewBreachRetribution -> newRetributionInfo -> RetributionStore -> createJusticeTx / updateBreachInfo) builds "
                  "for every revoked height of PRNG two-party channel histories, from a reloaded copy of the victim's database only"),
    "level_text": ("Two real LightningChannel machines on real bbolt channeldbs run PRNG asynchronous histories (30-60 actions + "
                   "drain + tail traffic; HTLCs both directions incl. dust boundary/duplicates, settles, fails, fee updates, "
                   "reconnects with reload of both sides; 7 channel types x either opener; 1/3 of the cases with the revocation log "
                   "stored WITHOUT amount data). The engine records the fully signed commitment each party held at every height. "
                   "Then each party is the victim once: its database is copied and reloaded, and for EVERY height of the peer it "
                   "holds a revocation for: (1) the state hint decoded from the real revoked tx equals the height and the victim's REAL "
                   "chain watcher (newChainWatcher on the reloaded state; the steps of handleCommitSpend: newChainSet, "
                   "extractStateNumHint with its own obfuscator, handleKnownLocalState, handleKnownRemoteState -> "
                   "handlePossibleBreach -> dispatchContractBreach) hands exactly one retribution for that height and txid to the "
                   "contractBreach callback; that retribution is the one judged below; (2) NewBreachRetribution also succeeds "
                   "with nil instead of the breach tx (ErrRevLogDataMissing accepted only for nil + no amount data); (3) every recorded "
                   "outpoint/pkScript/amount equals the real output of the revoked tx, no output is recorded twice and every output "
                   "except the <=2 anchors (scripts re-derived in the harness for non-taproot) is recorded; (4) the real "
                   "newRetributionInfo (1/3 through a real RetributionStore Add/ForAll round trip incl. the taproot briefcase) and "
                   "BreachArbitrator.createJusticeTx with the victim's signer build spendAll/spendCommitOuts/spendHTLCs and btcd's "
                   "interpreter (StandardVerifyFlags, MultiPrevOutFetcher over the REAL prevouts) accepts every input of every "
                   "variant; (5) for states of which a fork of the cheater produced its own signed HTLC-timeout/success txs "
                   "(ForceClose while the state was current, preimage inserted as the contest resolver does, each validated by the "
                   "interpreter against the revoked tx) a PRNG subset is 'confirmed', the real updateBreachInfo/"
                   "convertToSecondLevelRevoke runs, every advanced HTLC must then be pursued on the second-level output and not on "
                   "the spent one, and every input of all rebuilt variants incl. the per-HTLC second-level sweeps passes the "
                   "interpreter against the real second-level outputs. Negative control: the same pipeline with the revocation "
                   "secret of another height must be rejected by the interpreter (else t.Fatalf => inconclusive)."),
    "level_note": ("Held on the histories executed (counts in evidence). Second-level clause only for states snapshotted while "
                   "current (PRNG 1/6 per action + the quiescent state), not for every revoked height; legacy (pre-TLV) "
                   "revocation-log format, aux/custom-channel leaves and resolution blobs, the chain watcher's own spend "
                   "dispatch and exactRetribution's publish/retry loop are not exercised; justice fee rate fixed at the floor; "
                   "<= ~15 HTLC outputs per state; height-0 (fixture-signed) commitments skipped. KNOWN FINDING KF-C04-1 (lease "
                   "channel, victim is initiator: justice nLockTime 0 vs CLTV(lease expiry) on the own to_remote output) fires "
                   "on the pinned tree under key CommitmentToRemoteConfirmed/lease."),
    "design_ref": "DESIGN.md §2 E1/E3, §3 C04",
    "rule": ("case = (channel params, 30-60 PRNG actions, reconnects 1/25, cheater snapshots 1/6, noAmtData 1/3) from (seed, index); "
             "non-trivial = case with >=1 revoked state carrying >=1 non-dust HTLC output; distinct = distinct (channel type, "
             "cheater is opener, #HTLC-outputs bucket, incoming+outgoing present, with/without spendTx, with/without amount "
             "data) plus (type, opener, bucket, second-level, via-store) signatures over the judged revoked states"),
    "assumptions": ["the revoked transaction is the fully signed commitment the engine recorded from the cheater before it revoked it (heights >= 1)",
                    "victim signs with the fixture MockSigner holding its channel base keys; sweep script and fee estimator are fixtures",
                    "the cheater's second-level transactions are published unmodified (1-in-1-out), as convertToSecondLevelRevoke assumes (output index == input index)"],
    "units": [{
        "name": "breach", "pkg": "contractcourt", "test": "TestVerifC04",
        "files": ["contractcourt/c04_test.go"], "exports": {"lnwallet": E1X},
        "shards": {"quick": 8, "thorough": 16},
        "watchdog": {"quick": 1200, "thorough": 7200},
        "floors": {"quick": {"nontrivial": 150, "revoked_states_with_htlc_outputs": 2000,
                             "oracle_watcher_dispatch_evals": 2500, "oracle_recorded_outputs_evals": 4000,
                             "oracle_justice_inputs": 40000, "oracle_second_level_inputs": 2000,
                             "second_level_states": 600, "store_roundtrips": 1500, "negctl_evals": 1500,
                             "noamt_cases": 50, "reconnects": 250},
                   "thorough": {"nontrivial": 6000, "revoked_states_with_htlc_outputs": 80000,
                                "oracle_watcher_dispatch_evals": 100000, "oracle_recorded_outputs_evals": 170000,
                                "oracle_justice_inputs": 1500000, "oracle_second_level_inputs": 75000,
                                "second_level_states": 24000, "store_roundtrips": 55000,
                                "negctl_evals": 65000, "noamt_cases": 2000, "reconnects": 10000}},
    }],
}
