E1X = ["common", "e1_engine.go=lnwallet/e1_engine_test.go", "e1_oracles.go=lnwallet/e1_oracles_test.go",
       "e1_fork.go=lnwallet/e1_fork_test.go", "e1_debug.go=lnwallet/e1_debug_test.go", "lnwallet/e1_export.go"]
PROP = {
    "level": "exploration",
    "technique": "runtime monitor: script-interpreter oracle on every input of every justice transaction the real breach code builds, for every revoked height of PRNG two-party channel histories, from a reloaded copy of the victim's database only",
    "level_text": "placeholder",
    "level_note": "placeholder",
    "design_ref": "DESIGN.md §2 E1/E3, §3 C04",
    "rule": "placeholder",
    "assumptions": [],
    "units": [{
        "name": "breach", "pkg": "contractcourt", "test": "TestVerifC04",
        "files": ["contractcourt/c04_test.go"], "exports": {"lnwallet": E1X},
        "shards": {"quick": 8, "thorough": 16},
        "watchdog": {"quick": 900, "thorough": 5400},
        "floors": {},
    }],
}
