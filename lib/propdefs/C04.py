E1X = ["common", "e1_engine.go=lnwallet/e1_engine_test.go", "e1_oracles.go=lnwallet/e1_oracles_test.go",
       "e1_fork.go=lnwallet/e1_fork_test.go", "e1_debug.go=lnwallet/e1_debug_test.go", "lnwallet/e1_export.go"]
PROP = {
    "level": "exploration",
    "technique": ("runtime monitor: btcd script interpreter on every input of every justice transaction the real breach code "
                  "(NewBreachRetribution -> newRetributionInfo -> RetributionStore -> createJusticeTx / updateBreachInfo) builds "
                  "for every revoked height of PRNG two-party channel histories, from a reloaded copy of the victim's database only; "
                  "plus the victim's real started chainWatcher goroutine, on a channel state instance decoded at the victim's last "
                  "restart, fed the revoked commitment as the funding-outpoint spend"),
    "level_text": ("Two real LightningChannel machines on real bbolt channeldbs run PRNG asynchronous histories (30-60 actions + "
                   "drain + tail traffic; HTLCs both directions incl. dust boundary/duplicates, settles, fails, fee updates, "
                   "reconnects with reload of both sides; 7 channel types x either opener; 1/3 of the cases with the revocation log "
                   "stored WITHOUT amount data). The engine records the fully signed commitment each party held at every height. "
                   "Then each party is the victim once: its database is copied and reloaded, and for EVERY height of the peer it "
                   "holds a revocation for: (1) the state hint decoded from the real revoked tx equals the height and the victim's REAL "
                   "chain watcher (newChainWatcher on the reloaded state; the steps of handleCommitSpend: newChainSet, "
                   "extractStateNumHint with its own obfuscator, handleKnownLocalState, handleKnownRemoteState -> "
                   "handlePossibleBreach -> dispatchContractBreach) hands exactly one retribution for that height and txid to the "
                   "contractBreach callback; that retribution is the one judged below; (2) NewBreachRetribution also succeeds "
                   "with nil instead of the breach tx (ErrRevLogDataMissing accepted only for nil + no amount data); (3) every recorded "
                   "outpoint/pkScript/amount equals the real output of the revoked tx, no output is recorded twice and every output "
                   "except the <=2 anchors (scripts re-derived in the harness for non-taproot) is recorded; (4) the real "
                   "newRetributionInfo (1/3 through a real RetributionStore Add/ForAll round trip incl. the taproot briefcase) and "
                   "BreachArbitrator.createJusticeTx with the victim's signer build spendAll/spendCommitOuts/spendHTLCs and btcd's "
                   "interpreter (StandardVerifyFlags, MultiPrevOutFetcher over the REAL prevouts) accepts every input of every "
                   "variant; (5) for states of which a fork of the cheater produced its own signed HTLC-timeout/success txs "
                   "(ForceClose while the state was current, preimage inserted as the contest resolver does, each validated by the "
                   "interpreter against the revoked tx) a PRNG subset is 'confirmed', the real updateBreachInfo/"
                   "convertToSecondLevelRevoke runs (the cheater publishing one transaction per HTLC or one aggregated, re-signed transaction for several), every advanced HTLC must then be pursued exactly once on its own second-level output and not on "
                   "the spent one, and every input of all rebuilt variants incl. the per-HTLC second-level sweeps passes the "
                   "interpreter against the real second-level outputs. Negative control: the same pipeline with the revocation "
                   "secret of another height must be rejected by the interpreter (else t.Fatalf => inconclusive). "
                   "(6) STARTED chain watchers on STALE instances (c04cw_test.go): at case start and at every reconnect (= restart: "
                   "both parties are reloaded from disk) 5 OpenChannel instances per party are decoded from that party's LIVE "
                   "database (FetchAllChannels, as ChainArbitrator.Start does) and a real chainWatcher is created and Start()ed on "
                   "each (mock notifier, the party's signer, GetStateNumHint, recording contractBreach callback, subscription to "
                   "all close event streams; alternately single-confirmation mode and the production capacity-scaled "
                   "multi-confirmation mode: spend -> pending -> confirmation notification -> handleCommitSpend). The history "
                   "then goes on through the LightningChannel's own instance. At the end, for <= 4 revoked heights per victim "
                   "(the newest revoked, the commitment that was current when the instance was loaded, the newest one revoked "
                   "before the load, a PRNG one revoked before the load, PRNG fill) the cheater's recorded revoked commitment is "
                   "delivered to one watcher as the spend of the funding outpoint through the notifier channel; completion is "
                   "awaited with blockbeats pushed through the watcher's BeatConsumer (no sleeping; 30 s watchdog). Oracle "
                   "state_recognised: closeObserver -> handleCommitSpend must hand a BreachRetribution for exactly that height and "
                   "txid to contractBreach - not a logged error, not a remote/local unilateral or cooperative close event, not the "
                   "data-loss commit-point wait, not nothing (judged only where NewBreachRetribution on the reloaded state "
                   "succeeds, i.e. the data is persisted); the dispatched retribution then goes through (3) and (4). Negative "
                   "control: the cheater's CURRENT commitment through another stale watcher must come out as a remote unilateral "
                   "close and never as a breach (else t.Fatalf)."),
    "level_note": ("Held on the histories executed (counts in evidence). Second-level clause only for states snapshotted while "
                   "current (PRNG 1/6 per action + the quiescent state), not for every revoked height; legacy (pre-TLV) "
                   "revocation-log format, aux/custom-channel leaves and resolution blobs, "
                   "exactRetribution's publish/retry loop, the ChainArbitrator/BreachArbitrator hand-off behind the contractBreach "
                   "callback, reorgs of the breach transaction (NegativeConf) and a real ChainNotifier are not exercised; the "
                   "started-watcher path judges a sample of <= 4 revoked heights per victim and history, not all of them (all "
                   "heights go through the watcher's handler functions on the reloaded state); a watcher that neither dispatches, "
                   "logs an error nor returns within 30 s is reported inconclusive, not as a violation; justice fee rate fixed at the floor; "
                   "<= ~15 HTLC outputs per state; height-0 (fixture-signed) commitments skipped. KNOWN FINDING KF-C04-1 (lease "
                   "channel, victim is initiator: justice nLockTime 0 vs CLTV(lease expiry) on the own to_remote output) fires "
                   "on the pinned tree under key CommitmentToRemoteConfirmed/lease."),
    "design_ref": "DESIGN.md §2 E1/E3, §3 C04",
    "rule": ("case = (channel params, 30-60 PRNG actions, reconnects 1/25, cheater snapshots 1/6, noAmtData 1/3) from (seed, index); "
             "non-trivial = case with >=1 revoked state carrying >=1 non-dust HTLC output; distinct = distinct (channel type, "
             "cheater is opener, #HTLC-outputs bucket, incoming+outgoing present, with/without spendTx, with/without amount "
             "data) plus (type, opener, bucket, second-level, via-store) and (type, opener, bucket, started-watcher, revoked "
             "after the watcher's instance was loaded, amount data) signatures over the judged revoked states"),
    "assumptions": ["the revoked transaction is the fully signed commitment the engine recorded from the cheater before it revoked it (heights >= 1)",
                    "victim signs with the fixture MockSigner holding its channel base keys; sweep script and fee estimator are fixtures",
                    "the cheater's second-level transactions are published unmodified (1-in-1-out) or, on anchor and taproot channels, several HTLCs of one lock time aggregated into one transaction re-signed by the cheater (input i pays output i, as lnd's sweeper does and as convertToSecondLevelRevoke assumes); other shapes (extra fee inputs, reordered outputs) are not generated",
                    "the chain watcher's channel state instance is the one decoded from the database at the party's last (re)start and is "
                    "not the instance the LightningChannel advances (as in lnd: ChainArbitrator.Start -> FetchAllChannels vs. the link's channel)"],
    "units": [{
        "name": "breach", "pkg": "contractcourt", "test": "TestVerifC04",
        "files": ["contractcourt/c04_test.go", "contractcourt/cw_common_test.go", "contractcourt/c04cw_test.go"], "exports": {"lnwallet": E1X},
        "shards": {"quick": 8, "thorough": 16},
        "watchdog": {"quick": 1200, "thorough": 7200},
        "floors": {"quick": {"nontrivial": 150, "revoked_states_with_htlc_outputs": 2000,
                             "oracle_watcher_dispatch_evals": 2500, "oracle_recorded_outputs_evals": 4000,
                             "oracle_justice_inputs": 40000, "oracle_second_level_inputs": 2000,
                             "second_level_states": 600, "second_level_aggregates": 40, "store_roundtrips": 1500, "negctl_evals": 1500,
                             "noamt_cases": 50, "reconnects": 250,
                             "oracle_cw_state_recognised_evals": 1200, "oracle_cw_retribution_evals": 1200,
                             "cw_heights_revoked_after_load": 1000, "cw_heights_revoked_before_load": 140,
                             "cw_states_with_htlc_outputs": 1000, "cw_negctl_evals": 300,
                             "cw_multi_conf_deliveries": 750, "cw_single_conf_deliveries": 750},
                   "thorough": {"nontrivial": 6000, "revoked_states_with_htlc_outputs": 80000,
                                "oracle_watcher_dispatch_evals": 100000, "oracle_recorded_outputs_evals": 170000,
                                "oracle_justice_inputs": 1500000, "oracle_second_level_inputs": 75000,
                                "second_level_states": 24000, "second_level_aggregates": 1500, "store_roundtrips": 55000,
                                "negctl_evals": 65000, "noamt_cases": 2000, "reconnects": 10000,
                                "oracle_cw_state_recognised_evals": 45000, "oracle_cw_retribution_evals": 45000,
                                "cw_heights_revoked_after_load": 38000, "cw_heights_revoked_before_load": 5000,
                                "cw_states_with_htlc_outputs": 37000, "cw_negctl_evals": 11000,
                                "cw_multi_conf_deliveries": 28000, "cw_single_conf_deliveries": 28000}},
    }],
}
