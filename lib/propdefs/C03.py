_E1 = ["lnwallet/e1_engine_test.go", "lnwallet/e1_oracles_test.go", "lnwallet/e1_fork_test.go", "lnwallet/e1_debug_test.go"]
PROP = {
    "level": "fault_enumeration",
    "technique": "runtime monitor with disconnect injection on two real LightningChannels: channel_reestablish exchange judged by a harness-side record of what was sent/processed (exact retransmission set and order), acceptance, mirror + exactly-once ledger after drain",
    "level_text": ("Disconnects are injected at PRNG positions of asynchronous schedules and systematically at every index of "
                   "replayed schedules (each direction has then delivered an arbitrary in-order prefix), repeated and also during "
                   "resynchronisation; both sides reload from their bbolt DB and run ChanSyncMsg/ProcessChanSyncMsg exactly as "
                   "link.syncChanStates does. Oracles: no error from ProcessChanSyncMsg on either side; the retransmitted list "
                   "equals exactly the updates+commitment_signed and/or revoke_and_ack the peer has not durably processed "
                   "(driver's own bookkeeping), byte-identical, in the original relative order; every retransmitted message is "
                   "accepted; after draining, mirrored commitments and the closed-form ledger (every irrevocably committed "
                   "HTLC present or resolved exactly once)."),
    "level_note": ("'always resynchronises' is checked as bounded progress (drain reaches quiescence within 400 rounds); without "
                   "data-loss-protect fields only for the legacy type; taproot nonces are regenerated on every reload; held on "
                   "the executions counted in evidence."),
    "design_ref": "DESIGN.md §2 E1, §3 C03",
    "rule": ("case = C01-style schedule + PRNG disconnects (5-14 % per action) incl. cuts during resync; systematic part: same "
             "schedule replayed with the cut at index k for k<40; non-trivial = >=1 HTLC irrevocably committed and >=1 disconnect, "
             "not constraint-terminated; distinct = schedule signature incl. disconnect bucket and DLP stripping"),
    "assumptions": ["both sides reload from disk at every disconnect (lnd creates the link from a freshly loaded channel)",
                    "a disconnect loses all in-flight messages of both directions (TCP)"],
    "units": [{
        "name": "reconnect", "pkg": "lnwallet", "test": "TestVerifC03",
        "files": _E1 + ["lnwallet/c01_test.go", "lnwallet/c03_test.go"],
        "shards": {"quick": 12, "thorough": 16},
        "watchdog": {"quick": 900, "thorough": 5400},
        "floors": {"quick": {"nontrivial": 250, "retransmit_checks": 2000, "retransmit_nonempty": 300, "oracle_ledger": 300},
                   "thorough": {"nontrivial": 2800}},
    }],
}
