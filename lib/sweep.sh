#!/bin/sh
# sweep.sh <tier> <seed> [ids...] : run checks sequentially, print one line each.
TIER=${1:-quick}; SEED=${2:-1}; shift 2 2>/dev/null
IDS="$@"
[ -z "$IDS" ] && IDS=$(python3 -c "
import json; print(' '.join(c['property_id'] for c in json.load(open('$(dirname $0)/../MANIFEST.json'))['checks']))")
cd "$(dirname "$0")/.."
for id in $IDS; do
  S=$(date +%s)
  ./check $id --tier $TIER --seed $SEED > /tmp/sweep-$id.log 2>&1
  RC=$?
  E=$(date +%s)
  echo "$id rc=$RC wall=$((E-S))s $(grep -c '^VIOLATION' /tmp/sweep-$id.log) viol $(grep -c '^KNOWN-FINDING' /tmp/sweep-$id.log) known | $(grep 'check\] '$id /tmp/sweep-$id.log | tail -1 | cut -c1-160)"
done
