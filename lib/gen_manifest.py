#!/usr/bin/env python3
"""Regenerates /verif/MANIFEST.json from lib/propdefs and lib/not_applicable.json."""
import json, os, sys
VERIF = os.path.dirname(os.path.dirname(os.path.abspath(__file__)))
sys.path.insert(0, os.path.join(VERIF, "lib"))
from props import PROPS

all_ids = [json.loads(l)["id"] for l in open(os.path.join(VERIF, "properties.jsonl"))]
na_path = os.path.join(VERIF, "lib", "not_applicable.json")
na_reasons = json.load(open(na_path)) if os.path.exists(na_path) else {}
checks = []
for pid in all_ids:
    if pid not in PROPS or PROPS[pid].get("disabled"):
        continue
    p = PROPS[pid]
    checks.append({
        "property_id": pid,
        "quick_cmd": f"./check {pid} --tier quick",
        "thorough_cmd": f"./check {pid} --tier thorough",
        "evidence_file": f"/verif/evidence/{pid}.json",
        "replay_cmd_template": f"./check {pid} --replay {{path}}",
        "engine": p.get("engine", "go-overlay-harness"),
        "level_claimed": {"category": p["level"], "text": p["level_text"],
                          "design_ref": p.get("design_ref", "DESIGN.md §3 " + pid)},
        "level_note": p["level_note"],
        "technique": p["technique"],
    })
na = []
for pid in all_ids:
    if pid in PROPS and not PROPS[pid].get("disabled"):
        continue
    na.append({"property_id": pid, "reason": na_reasons.get(
        pid, "check not built yet in this session (runtime monitor designed in DESIGN.md §3 %s); not claimed until its harness is committed and silent on the unchanged tree" % pid)})
baseline = json.load(open("/root/.vp/BASELINE.json"))["cmd"] if os.path.exists("/root/.vp/BASELINE.json") else ""
man = {
    "version": 1,
    "setup_cmd": "./setup.sh",
    "hooks": {
        "guard": "verif",
        "enable": ("no source hooks: harness files under /verif/harness are added to lnd packages at build time with "
                   "`go test -c -overlay <generated overlay.json> -modfile <copy of go.mod>`; every lnd file is compiled "
                   "from /repo's working tree"),
        "baseline_off_cmd": baseline,
        "source_commits": [],
        "add_only": True,
    },
    "engines": [
        {"name": "go-overlay-harness", "path": "/verif/lib/driver.py",
         "serves_properties": [c["property_id"] for c in checks],
         "kind_free_text": ("python driver: generates overlay+modfile from /repo, builds the package test binary with the "
                            "harness (optionally -race), runs sharded child processes, merges NDJSON monitor streams into "
                            "evidence, matches known findings, prints VIOLATION lines")},
    ],
    "checks": checks,
    "not_applicable": na,
    "notes": ("Exit codes: 0 held on everything observed, 1 violation (VIOLATION line + replay file), 2 inconclusive "
              "(build failure, coverage floor missed, watchdog) — never a VIOLATION line. VERIF_SEED / VERIF_TIER honoured; "
              "VERIF_REPO may point the checks at another lnd tree (used for seeded-change runs)."),
}
json.dump(man, open(os.path.join(VERIF, "MANIFEST.json"), "w"), indent=1)
print("checks:", [c["property_id"] for c in checks], "na:", len(na))
