#!/bin/bash
# try_seed.sh <seeddir (with patch.diff demo_test.go demo_path.txt)> <name> <check ids...>
# Confirms the seeded change (demo fails with it / passes without it) in a scratch worktree of
# /repo HEAD and runs the given checks against the changed tree. Prints a summary.
SD=$1; NAME=$2; shift 2; CHECKS="$@"
WT=${SEEDWT:-/tmp/seedrun-$$}
export GOFLAGS=-mod=mod GOPROXY=off GOSUMDB=off GOTOOLCHAIN=local
GO=/root/go/pkg/mod/golang.org/toolchain@v0.0.1-go1.25.13.linux-amd64/bin/go
git -C /repo worktree remove --force $WT >/dev/null 2>&1
git -C /repo worktree add $WT HEAD >/dev/null 2>&1 || { echo "worktree failed"; exit 9; }
DP=$(cat $SD/demo_path.txt | tr -d '\n ')
PKG=./$(dirname $DP)
TESTS=$(grep -o '^func Test[A-Za-z0-9_]*' $SD/demo_test.go | sed 's/func //' | paste -sd'|')
cd $WT
git apply $SD/patch.diff || { echo "PATCH DOES NOT APPLY"; git -C /repo worktree remove --force $WT; exit 8; }
$GO build ./... >/tmp/seedrun-$NAME.build.log 2>&1 || { echo "BUILD FAILS with patch"; }
cp $SD/demo_test.go $WT/$DP
$GO test -vet=off -count=1 -run "^($TESTS)\$" $PKG > /tmp/seedrun-$NAME.with.log 2>&1; RC_WITH=$?
git apply -R $SD/patch.diff
$GO test -vet=off -count=1 -run "^($TESTS)\$" $PKG > /tmp/seedrun-$NAME.without.log 2>&1; RC_WITHOUT=$?
rm -f $WT/$DP
git apply $SD/patch.diff
echo "seed $NAME: demo with patch rc=$RC_WITH (want !=0), without rc=$RC_WITHOUT (want 0)"
for id in $CHECKS; do
  VERIF_REPO=$WT VERIF_BUILD=/verif/build/seed-$(basename $WT) /verif/check $id --tier ${TIER:-quick} > /tmp/seedrun-$NAME.$id.log 2>&1
  RC=$?
  echo "  check $id rc=$RC $(grep -c '^VIOLATION' /tmp/seedrun-$NAME.$id.log) violation lines | $(grep 'first violation' /tmp/seedrun-$NAME.$id.log | head -1 | cut -c1-150)"
done
cd /; git -C /repo worktree remove --force $WT
rm -rf /verif/build/seed-$(basename $WT)
