#!/bin/bash
# regress_seeds.sh [names...] : re-run every seeded change (seeded/<name>/patch.diff) against the
# property's quick check in one scratch worktree (per-process path so that several runs do not collide)
# and print caught / MISSED per seed. Does not re-run the authors' demos (see try_seed.sh).
export GOFLAGS=-mod=mod GOPROXY=off GOSUMDB=off GOTOOLCHAIN=local
WT=${SEEDWT:-/tmp/seedrun-$$}
BD=/verif/build/seed-regress-$$
NAMES="$@"; [ -z "$NAMES" ] && NAMES=$(ls /verif/seeded)
git -C /repo worktree remove --force $WT >/dev/null 2>&1
git -C /repo worktree add $WT HEAD >/dev/null 2>&1 || { echo "worktree failed"; exit 9; }
for n in $NAMES; do
  prop=$(echo $n | cut -c1-3)
  git -C $WT checkout -- . ; git -C $WT clean -fdq
  if ! git -C $WT apply /verif/seeded/$n/patch.diff 2>/dev/null; then echo "$n PATCH-DOES-NOT-APPLY"; continue; fi
  VERIF_REPO=$WT VERIF_BUILD=$BD /verif/check $prop --tier ${TIER:-quick} --seed ${SEED:-1} > /tmp/regress-$$-$n.log 2>&1
  rc=$?
  if [ $rc = 1 ]; then echo "$n caught | $(grep 'first violation' /tmp/regress-$$-$n.log | head -1 | cut -c1-140)";
  else echo "$n MISSED rc=$rc | $(tail -1 /tmp/regress-$$-$n.log | cut -c1-140)"; fi
done
git -C /repo worktree remove --force $WT; rm -rf $BD
