#!/usr/bin/env python3
"""mk_mutant.py <worktree> <prop> <name> <file> <old> <new> : apply a textual
mutation in the worktree, save the diff under selftest/mutants/<prop>/<name>.diff
and revert the worktree."""
import subprocess, sys, os
wt, prop, name, f, old, new = sys.argv[1:7]
p = os.path.join(wt, f)
s = open(p).read()
if s.count(old) != 1:
    print("pattern count", s.count(old)); sys.exit(1)
open(p, "w").write(s.replace(old, new))
d = subprocess.check_output(["git", "-C", wt, "diff"]).decode()
os.makedirs(f"/verif/selftest/mutants/{prop}", exist_ok=True)
open(f"/verif/selftest/mutants/{prop}/{name}.diff", "w").write(d)
subprocess.check_call(["git", "-C", wt, "checkout", "--", "."])
print("saved", name, len(d.splitlines()), "lines")
