#!/bin/bash
# import_seed.sh <name> <srcdir> <resultfile> : store a confirmed seeded change under /verif/seeded/<name>/
N=$1; S=$2; R=$3
D=/verif/seeded/$N; mkdir -p $D
cp $S/patch.diff $S/demo_test.go $S/demo_path.txt $D/
python3 - "$N" "$S" "$R" <<'PY'
import json,sys
n,s,r=sys.argv[1:4]
m=json.load(open(s+'/meta.json'))
out={"name":n,"property":m.get("property"),"summary":m.get("summary"),"needs":m.get("needs"),"files":m.get("files"),
     "author":"independent sub-agent (saw only the property text and a scratch worktree)",
     "author_commands":m.get("commands"),
     "confirmed_by_lead":open(r).read().splitlines()}
json.dump(out,open('/verif/seeded/%s/meta.json'%n,'w'),indent=1)
PY
