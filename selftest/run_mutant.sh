#!/bin/sh
# run_mutant.sh <worktree> <prop> <diff> [tier] : apply diff in worktree, run check against it, revert.
WT=$1; PROP=$2; DIFF=$3; TIER=${4:-quick}
git -C $WT checkout -- . && git -C $WT apply $DIFF || exit 9
VERIF_REPO=$WT VERIF_BUILD=/verif/build/mut-$(basename $WT) /verif/check $PROP --tier $TIER > /tmp/mutrun-$(basename $WT)-$PROP.log 2>&1
RC=$?
git -C $WT checkout -- .
echo "$(basename $DIFF) $PROP tier=$TIER rc=$RC $(grep -c '^VIOLATION' /tmp/mutrun-$(basename $WT)-$PROP.log) violation lines; $(grep 'first violation' /tmp/mutrun-$(basename $WT)-$PROP.log | head -1)"
