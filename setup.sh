#!/bin/sh
# Offline setup: nothing to fetch. Warm the Go build cache for the packages the
# harnesses compile into so that the first check does not pay the cold build.
set -e
cd "$(dirname "$0")"
mkdir -p build evidence replay
GO=/root/go/pkg/mod/golang.org/toolchain@v0.0.1-go1.25.13.linux-amd64/bin/go
[ -x "$GO" ] || GO=go
export GOFLAGS=-mod=mod GOPROXY=off GOSUMDB=off GOTOOLCHAIN=local
REPO=${VERIF_REPO:-/repo}
(cd "$REPO" && $GO test -vet=off -count=1 -run '^$' ./htlcswitch/ ./lnwallet/ ./contractcourt/ >/dev/null 2>&1 || true)
exit 0
