package discovery

// C20 monitor: only authentic, fresh gossip changes the channel graph;
// anything else leaves the graph unchanged and is not relayed.
//
// System under observation: a real AuthenticatedGossiper (config cloned from
// createTestCtx) whose Graph is a real graph.Builder over a real bbolt graph
// DB, whose ChainIO is a harness-side model chain serving generated blocks
// with real 2-of-2 P2WSH funding outputs (good / spent / mismatching / junk /
// not-yet-mined). AssumeChannelValid is off, so validateFundingTransaction
// runs for real.
//
// Oracle (per remote message): full graph snapshot before/after, the set of
// changed keys must be justified by a harness-side reference validity
// predicate written from the property statement (BOLT-7 double-SHA256 digest
// recomputed from the wire encoding, btcec signature verification, funding
// lookup in the model chain, strict freshness against the snapshot); every
// message handed to Broadcast must be byte-identical to a submitted message
// that the reference judged valid when it was applied.

import (
	"bytes"
	"context"
	"crypto/sha256"
	"encoding/hex"
	"errors"
	"fmt"
	"image/color"
	"net"
	"os"
	"runtime"
	"sort"
	"strings"
	"sync"
	"testing"
	"time"

	"github.com/btcsuite/btcd/btcec/v2"
	"github.com/btcsuite/btcd/btcec/v2/ecdsa"
	"github.com/btcsuite/btcd/btcutil/v2"
	"github.com/btcsuite/btcd/chaincfg/v2"
	"github.com/btcsuite/btcd/chainhash/v2"
	"github.com/btcsuite/btcd/txscript/v2"
	"github.com/btcsuite/btcd/wire/v2"
	"github.com/lightningnetwork/lnd/actor"
	"github.com/lightningnetwork/lnd/channeldb"
	"github.com/lightningnetwork/lnd/graph"
	graphdb "github.com/lightningnetwork/lnd/graph/db"
	"github.com/lightningnetwork/lnd/graph/db/models"
	"github.com/lightningnetwork/lnd/kvdb"
	"github.com/lightningnetwork/lnd/lnpeer"
	"github.com/lightningnetwork/lnd/lntest/mock"
	"github.com/lightningnetwork/lnd/lnwallet/btcwallet"
	"github.com/lightningnetwork/lnd/lnwire"
	"github.com/lightningnetwork/lnd/routing/chainview"
	"github.com/lightningnetwork/lnd/routing/route"
	"github.com/lightningnetwork/lnd/ticker"
)

// ---------------------------------------------------------------------------
// Model chain (harness-side ground truth + BlockChainIO stub).
// ---------------------------------------------------------------------------

const (
	verifC20KindGood = iota
	verifC20KindSpent
	verifC20KindMismatch
	verifC20KindJunk
	verifC20KindSentinel
)

var verifC20KindNames = []string{"good", "spent", "mismatch", "junk", "sentinel"}

type verifC20Slot struct {
	H    uint32
	Tx   uint32
	Out  uint16
	Kind int
	Used bool
}

func (s *verifC20Slot) scid() lnwire.ShortChannelID {
	return lnwire.ShortChannelID{BlockHeight: s.H, TxIndex: s.Tx, TxPosition: s.Out}
}

type verifC20Chain struct {
	mu     sync.Mutex
	blocks []*wire.MsgBlock
	hashes []chainhash.Hash
	byHash map[chainhash.Hash]int
	txAt   map[chainhash.Hash][2]int // txid -> (height, index)
	spent  map[wire.OutPoint]bool
	tip    int32
}

// verifC20FundingScript builds the P2WSH 2-of-2 funding pkScript for two
// compressed keys (BOLT-3: keys in lexicographic order).
func verifC20FundingScript(k1, k2 []byte) []byte {
	lo, hi := k1, k2
	if bytes.Compare(lo, hi) > 0 {
		lo, hi = hi, lo
	}
	ws, err := txscript.NewScriptBuilder().AddOp(txscript.OP_2).
		AddData(lo).AddData(hi).AddOp(txscript.OP_2).
		AddOp(txscript.OP_CHECKMULTISIG).Script()
	if err != nil {
		panic(err)
	}
	h := sha256.Sum256(ws)
	pk, err := txscript.NewScriptBuilder().AddOp(txscript.OP_0).
		AddData(h[:]).Script()
	if err != nil {
		panic(err)
	}
	return pk
}

func (c *verifC20Chain) addBlock(txs []*wire.MsgTx) {
	var prev chainhash.Hash
	if n := len(c.hashes); n > 0 {
		prev = c.hashes[n-1]
	}
	h := len(c.blocks)
	blk := &wire.MsgBlock{
		Header: wire.BlockHeader{
			Version:   2,
			PrevBlock: prev,
			Timestamp: time.Unix(1600000000+int64(h)*600, 0),
			Nonce:     uint32(h),
		},
		Transactions: txs,
	}
	hash := blk.Header.BlockHash()
	c.blocks = append(c.blocks, blk)
	c.hashes = append(c.hashes, hash)
	c.byHash[hash] = h
	for i, tx := range txs {
		c.txAt[tx.TxHash()] = [2]int{h, i}
	}
}

// lookup is the reference funding-output lookup (visible chain only).
func (c *verifC20Chain) lookup(scid lnwire.ShortChannelID) (*wire.TxOut, wire.OutPoint, bool) {
	c.mu.Lock()
	defer c.mu.Unlock()
	if int64(scid.BlockHeight) > int64(c.tip) {
		return nil, wire.OutPoint{}, false
	}
	blk := c.blocks[scid.BlockHeight]
	if int(scid.TxIndex) >= len(blk.Transactions) {
		return nil, wire.OutPoint{}, false
	}
	tx := blk.Transactions[scid.TxIndex]
	if int(scid.TxPosition) >= len(tx.TxOut) {
		return nil, wire.OutPoint{}, false
	}
	op := wire.OutPoint{Hash: tx.TxHash(), Index: uint32(scid.TxPosition)}
	return tx.TxOut[scid.TxPosition], op, true
}

func (c *verifC20Chain) isSpent(op wire.OutPoint) bool {
	c.mu.Lock()
	defer c.mu.Unlock()
	return c.spent[op]
}

func (c *verifC20Chain) GetBestBlock() (*chainhash.Hash, int32, error) {
	c.mu.Lock()
	defer c.mu.Unlock()
	h := c.hashes[c.tip]
	return &h, c.tip, nil
}

func (c *verifC20Chain) GetBlockHash(height int64) (*chainhash.Hash, error) {
	c.mu.Lock()
	defer c.mu.Unlock()
	if height < 0 || height > int64(c.tip) {
		return nil, fmt.Errorf("block height %d out of range", height)
	}
	h := c.hashes[height]
	return &h, nil
}

func (c *verifC20Chain) GetBlock(hash *chainhash.Hash) (*wire.MsgBlock, error) {
	c.mu.Lock()
	defer c.mu.Unlock()
	i, ok := c.byHash[*hash]
	if !ok || int32(i) > c.tip {
		return nil, fmt.Errorf("block %v not found", hash)
	}
	return c.blocks[i], nil
}

func (c *verifC20Chain) GetBlockHeader(hash *chainhash.Hash) (*wire.BlockHeader, error) {
	b, err := c.GetBlock(hash)
	if err != nil {
		return nil, err
	}
	return &b.Header, nil
}

func (c *verifC20Chain) GetUtxo(op *wire.OutPoint, _ []byte, _ uint32,
	_ <-chan struct{}) (*wire.TxOut, error) {

	c.mu.Lock()
	defer c.mu.Unlock()
	loc, ok := c.txAt[op.Hash]
	if !ok || int32(loc[0]) > c.tip {
		return nil, fmt.Errorf("output %v not found", op)
	}
	tx := c.blocks[loc[0]].Transactions[loc[1]]
	if int(op.Index) >= len(tx.TxOut) {
		return nil, fmt.Errorf("output %v not found", op)
	}
	if c.spent[*op] {
		return nil, btcwallet.ErrOutputSpent
	}
	return tx.TxOut[op.Index], nil
}

// verifC20ChainView is an inert FilteredChainView: no block ever closes a
// channel in these scenarios.
type verifC20ChainView struct {
	nb, sb chan *chainview.FilteredBlock
}

func (v *verifC20ChainView) FilteredBlocks() <-chan *chainview.FilteredBlock     { return v.nb }
func (v *verifC20ChainView) DisconnectedBlocks() <-chan *chainview.FilteredBlock { return v.sb }
func (v *verifC20ChainView) UpdateFilter(_ []graphdb.EdgePoint, _ uint32) error  { return nil }
func (v *verifC20ChainView) FilterBlock(h *chainhash.Hash) (*chainview.FilteredBlock, error) {
	return &chainview.FilteredBlock{Hash: *h}, nil
}
func (v *verifC20ChainView) Start() error { return nil }
func (v *verifC20ChainView) Stop() error  { return nil }

// ---------------------------------------------------------------------------
// Wire helpers and the reference predicate.
// ---------------------------------------------------------------------------

func verifC20Wire(m lnwire.Message) []byte {
	var b bytes.Buffer
	if _, err := lnwire.WriteMessage(&b, m, 0); err != nil {
		return nil
	}
	return b.Bytes()
}

func verifC20NSigs(m lnwire.Message) int {
	switch m.(type) {
	case *lnwire.ChannelAnnouncement1:
		return 4
	case *lnwire.ChannelUpdate1, *lnwire.NodeAnnouncement1:
		return 1
	}
	return 0
}

// verifC20Digest recomputes the BOLT-7 signing digest from the wire encoding:
// double-SHA256 of everything after the signature(s).
func verifC20Digest(m lnwire.Message) ([]byte, []byte) {
	w := verifC20Wire(m)
	off := 2 + 64*verifC20NSigs(m)
	if w == nil || len(w) < off {
		return nil, w
	}
	h1 := sha256.Sum256(w[off:])
	h2 := sha256.Sum256(h1[:])
	return h2[:], w
}

// verifC20SigOK verifies a 64-byte r||s signature with btcec.
func verifC20SigOK(sig64, digest, pub33 []byte) bool {
	if digest == nil || len(sig64) != 64 {
		return false
	}
	pk, err := btcec.ParsePubKey(pub33)
	if err != nil {
		return false
	}
	var r, s btcec.ModNScalar
	if r.SetByteSlice(sig64[:32]) || s.SetByteSlice(sig64[32:]) {
		return false
	}
	if r.IsZero() || s.IsZero() {
		return false
	}
	return ecdsa.NewSignature(&r, &s).Verify(digest, pk)
}

func verifC20Sign(priv *btcec.PrivateKey, digest []byte) lnwire.Sig {
	sig := ecdsa.Sign(priv, digest)
	ls, err := lnwire.NewSigFromSignature(sig)
	if err != nil {
		panic(err)
	}
	return ls
}

func verifC20RawSig(b []byte) lnwire.Sig {
	s, err := lnwire.NewSigFromWireECDSA(b)
	if err != nil {
		panic(err)
	}
	return s
}

func verifC20Pub(k *btcec.PrivateKey) [33]byte {
	var p [33]byte
	copy(p[:], k.PubKey().SerializeCompressed())
	return p
}

func verifC20Key(r *verifRng) *btcec.PrivateKey {
	for {
		b := r.Bytes(32)
		k, _ := btcec.PrivKeyFromBytes(b)
		if !k.Key.IsZero() {
			return k
		}
	}
}

// ---------------------------------------------------------------------------
// Graph snapshot.
// ---------------------------------------------------------------------------

type verifC20Pol struct {
	Ts                  uint32
	MsgFlags, ChanFlags uint8
	Cltv                uint16
	Min, Max            uint64
	Base, Rate          uint64
	fp                  string
}

type verifC20Chan struct {
	N1, N2, B1, B2 [33]byte
	HasBtc         bool
	Cap            int64
	Pol            [2]*verifC20Pol
}

type verifC20Node struct {
	Ts     int64
	HasAnn bool
}

type verifC20Snap struct {
	kv    map[string]string
	chans map[uint64]*verifC20Chan
	nodes map[[33]byte]*verifC20Node
}

func verifC20PolFP(p *models.ChannelEdgePolicy) (*verifC20Pol, string) {
	r := &verifC20Pol{
		Ts:       uint32(p.LastUpdate.Unix()),
		MsgFlags: uint8(p.MessageFlags), ChanFlags: uint8(p.ChannelFlags),
		Cltv: p.TimeLockDelta, Min: uint64(p.MinHTLC), Max: uint64(p.MaxHTLC),
		Base: uint64(p.FeeBaseMSat), Rate: uint64(p.FeeProportionalMillionths),
	}
	inb := "-"
	p.InboundFee.WhenSome(func(f lnwire.Fee) {
		inb = fmt.Sprintf("%d/%d", f.BaseFee, f.FeeRate)
	})
	fp := fmt.Sprintf("ts=%d mf=%d cf=%d cltv=%d min=%d max=%d base=%d rate=%d inb=%s extra=%x sig=%x",
		p.LastUpdate.Unix(), r.MsgFlags, r.ChanFlags, r.Cltv, r.Min, r.Max,
		r.Base, r.Rate, inb, []byte(p.ExtraOpaqueData), p.SigBytes)
	r.fp = fp
	return r, fp
}

func (c *verifC20Ctx) snapshot() *verifC20Snap {
	s := &verifC20Snap{
		kv:    map[string]string{},
		chans: map[uint64]*verifC20Chan{},
		nodes: map[[33]byte]*verifC20Node{},
	}
	reset := func() {
		s.kv = map[string]string{}
		s.chans = map[uint64]*verifC20Chan{}
		s.nodes = map[[33]byte]*verifC20Node{}
	}
	err := c.graph.ForEachChannel(c.ctx, lnwire.GossipVersion1,
		func(info *models.ChannelEdgeInfo, p1, p2 *models.ChannelEdgePolicy) error {
			ch := &verifC20Chan{N1: info.NodeKey1Bytes, N2: info.NodeKey2Bytes,
				Cap: int64(info.Capacity)}
			b1, b2 := "-", "-"
			info.BitcoinKey1Bytes.WhenSome(func(v route.Vertex) {
				ch.B1 = v
				ch.HasBtc = true
				b1 = hex.EncodeToString(v[:])
			})
			info.BitcoinKey2Bytes.WhenSome(func(v route.Vertex) {
				ch.B2 = v
				b2 = hex.EncodeToString(v[:])
			})
			feat := ""
			if info.Features != nil && info.Features.RawFeatureVector != nil {
				var fb bytes.Buffer
				_ = info.Features.RawFeatureVector.Encode(&fb)
				feat = hex.EncodeToString(fb.Bytes())
			}
			proof := "-"
			if info.AuthProof != nil {
				proof = fmt.Sprintf("%x|%x|%x|%x",
					info.AuthProof.NodeSig1Bytes.UnwrapOr(nil),
					info.AuthProof.NodeSig2Bytes.UnwrapOr(nil),
					info.AuthProof.BitcoinSig1Bytes.UnwrapOr(nil),
					info.AuthProof.BitcoinSig2Bytes.UnwrapOr(nil))
			}
			s.kv[fmt.Sprintf("chan/%d", info.ChannelID)] = fmt.Sprintf(
				"n1=%x n2=%x b1=%s b2=%s cap=%d op=%v feat=%s extra=%x chain=%v proof=%s",
				info.NodeKey1Bytes[:], info.NodeKey2Bytes[:], b1, b2,
				info.Capacity, info.ChannelPoint, feat, info.ExtraOpaqueData,
				info.ChainHash, proof)
			for d, p := range []*models.ChannelEdgePolicy{p1, p2} {
				if p == nil {
					continue
				}
				pr, fp := verifC20PolFP(p)
				ch.Pol[d] = pr
				s.kv[fmt.Sprintf("pol/%d/%d", info.ChannelID, d)] = fp
			}
			s.chans[info.ChannelID] = ch
			return nil
		}, reset)
	if err != nil && !errors.Is(err, graphdb.ErrGraphNoEdgesFound) {
		c.t.Fatalf("C20 snapshot ForEachChannel: %v", err)
	}
	err = c.vgraph.ForEachNode(c.ctx, func(n *models.Node) error {
		nr := &verifC20Node{Ts: n.LastUpdate.Unix(), HasAnn: len(n.AuthSigBytes) > 0}
		s.nodes[n.PubKeyBytes] = nr
		if n.PubKeyBytes == c.sentPub {
			return nil
		}
		feat := ""
		if n.Features != nil && n.Features.RawFeatureVector != nil {
			var fb bytes.Buffer
			_ = n.Features.RawFeatureVector.Encode(&fb)
			feat = hex.EncodeToString(fb.Bytes())
		}
		addrs := make([]string, 0, len(n.Addresses))
		for _, a := range n.Addresses {
			addrs = append(addrs, a.String())
		}
		col := n.Color.UnwrapOr(color.RGBA{})
		s.kv["node/"+hex.EncodeToString(n.PubKeyBytes[:])] = fmt.Sprintf(
			"ts=%d ann=%v alias=%q color=%v feat=%s addrs=%v extra=%x sig=%x",
			nr.Ts, nr.HasAnn, n.Alias.UnwrapOr(""), col, feat, addrs,
			n.ExtraOpaqueData, n.AuthSigBytes)
		return nil
	}, func() {})
	if err != nil {
		c.t.Fatalf("C20 snapshot ForEachNode: %v", err)
	}
	return s
}

func verifC20Diff(a, b *verifC20Snap) []string {
	var out []string
	for k, v := range a.kv {
		if w, ok := b.kv[k]; !ok || w != v {
			out = append(out, k)
		}
	}
	for k := range b.kv {
		if _, ok := a.kv[k]; !ok {
			out = append(out, k)
		}
	}
	sort.Strings(out)
	return out
}

func (s *verifC20Snap) nodeHasChannel(id [33]byte) bool {
	for _, ch := range s.chans {
		if ch.N1 == id || ch.N2 == id {
			return true
		}
	}
	return false
}

// ---------------------------------------------------------------------------
// Reference validity predicates (written from the statement).
// ---------------------------------------------------------------------------

type verifC20Verdict struct {
	Valid  bool   // all "only if" conditions of the statement hold
	Reason string // first failing condition
	Scope  string // non-empty: a BOLT-7 condition outside the statement fails (diagnostic only)
}

// refCA: all four signatures verify over the digest under the stated keys and
// the funding output exists, is unspent and pays to the 2-of-2 of the bitcoin
// keys. "new" (channel not yet in the graph) is reported separately.
func (c *verifC20Ctx) refCA(a *lnwire.ChannelAnnouncement1) verifC20Verdict {
	digest, w := verifC20Digest(a)
	if digest == nil {
		return verifC20Verdict{Reason: "unencodable"}
	}
	sigs := w[2 : 2+256]
	keys := [4][]byte{a.NodeID1[:], a.NodeID2[:], a.BitcoinKey1[:], a.BitcoinKey2[:]}
	names := [4]string{"nodesig1", "nodesig2", "btcsig1", "btcsig2"}
	for i := 0; i < 4; i++ {
		if !verifC20SigOK(sigs[64*i:64*i+64], digest, keys[i]) {
			return verifC20Verdict{Reason: "bad-" + names[i]}
		}
	}
	out, op, ok := c.chain.lookup(a.ShortChannelID)
	if !ok {
		return verifC20Verdict{Reason: "funding-missing"}
	}
	if !bytes.Equal(out.PkScript, verifC20FundingScript(a.BitcoinKey1[:], a.BitcoinKey2[:])) {
		return verifC20Verdict{Reason: "funding-script-mismatch"}
	}
	if c.chain.isSpent(op) {
		return verifC20Verdict{Reason: "funding-spent"}
	}
	v := verifC20Verdict{Valid: true}
	if a.ChainHash != *chaincfg.MainNetParams.GenesisHash {
		v.Scope = "wrong-chain"
	}
	return v
}

// refCU: signed by the node owning that direction of a known channel,
// strictly newer than the stored policy, consistent fields.
func verifC20RefCU(u *lnwire.ChannelUpdate1, ch *verifC20Chan) verifC20Verdict {
	if ch == nil {
		return verifC20Verdict{Reason: "unknown-channel"}
	}
	digest, w := verifC20Digest(u)
	if digest == nil {
		return verifC20Verdict{Reason: "unencodable"}
	}
	dir := int(u.ChannelFlags & lnwire.ChanUpdateDirection)
	key := ch.N1[:]
	if dir == 1 {
		key = ch.N2[:]
	}
	if !verifC20SigOK(w[2:66], digest, key) {
		return verifC20Verdict{Reason: "bad-sig-for-direction"}
	}
	if st := ch.Pol[dir]; st != nil && !(u.Timestamp > st.Ts) {
		return verifC20Verdict{Reason: "not-newer"}
	}
	if !u.MessageFlags.HasMaxHtlc() {
		return verifC20Verdict{Reason: "fields-no-max-htlc"}
	}
	if u.HtlcMaximumMsat == 0 || u.HtlcMaximumMsat < u.HtlcMinimumMsat {
		return verifC20Verdict{Reason: "fields-max-lt-min"}
	}
	if ch.Cap > 0 && uint64(u.HtlcMaximumMsat) > uint64(ch.Cap)*1000 {
		return verifC20Verdict{Reason: "fields-max-gt-capacity"}
	}
	v := verifC20Verdict{Valid: true}
	if u.ChainHash != *chaincfg.MainNetParams.GenesisHash {
		v.Scope = "wrong-chain"
	}
	return v
}

// refNA: signed by that node, newer, node has a known channel.
func verifC20RefNA(n *lnwire.NodeAnnouncement1, s *verifC20Snap) verifC20Verdict {
	digest, w := verifC20Digest(n)
	if digest == nil {
		return verifC20Verdict{Reason: "unencodable"}
	}
	if !verifC20SigOK(w[2:66], digest, n.NodeID[:]) {
		return verifC20Verdict{Reason: "bad-sig"}
	}
	if !s.nodeHasChannel(n.NodeID) {
		return verifC20Verdict{Reason: "no-known-channel"}
	}
	if st := s.nodes[n.NodeID]; st != nil && st.HasAnn && !(int64(n.Timestamp) > st.Ts) {
		return verifC20Verdict{Reason: "not-newer"}
	}
	return verifC20Verdict{Valid: true}
}

// ---------------------------------------------------------------------------
// Per-scenario context: real gossiper + real builder + real graph DB.
// ---------------------------------------------------------------------------

type verifC20Bcast struct {
	Key  string
	Type string
}

type verifC20Rec struct {
	Idx      int
	Label    string
	Msg      lnwire.Message
	Hex      string
	fut      actor.Future[error]
	Resolved bool
	Err      string
	Pending  string // "", "premature", "future"
	Scid     uint64
}

type verifC20Ctx struct {
	t  *testing.T
	vc *verifCtx

	ctx    context.Context
	cancel context.CancelFunc

	dir      string
	backend  kvdb.Backend
	graph    *graphdb.ChannelGraph
	vgraph   *graphdb.VersionedGraph
	builder  *graph.Builder
	gossiper *AuthenticatedGossiper
	notifier *mockNotifier
	chain    *verifC20Chain

	bmu  sync.Mutex
	blog []verifC20Bcast

	sentKey  *btcec.PrivateKey
	sentPub  [33]byte
	sentTs   uint32
	sentPeer *mockPeer
	sentKeys map[string]bool

	justified map[string]bool
	recs      []*verifC20Rec
	pending   []*verifC20Rec
	bchecked  int
}

const verifC20Wait = 90 * time.Second

func (c *verifC20Ctx) poll(what string, cond func() bool) {
	deadline := time.Now().Add(verifC20Wait)
	for i := 0; ; i++ {
		if cond() {
			return
		}
		if time.Now().After(deadline) {
			c.t.Fatalf("C20 watchdog: timed out waiting for %s", what)
		}
		if i < 200 {
			runtime.Gosched()
		} else {
			time.Sleep(100 * time.Microsecond)
		}
	}
}

func (c *verifC20Ctx) semaphoreFull() bool {
	sem := c.gossiper.vb.validationSemaphore
	return len(sem) == cap(sem)
}

var verifC20DoneCtx = func() context.Context {
	ctx, cancel := context.WithCancel(context.Background())
	cancel()
	return ctx
}()

// tryResolve polls the future without blocking.
func (r *verifC20Rec) tryResolve() bool {
	if r.Resolved {
		return true
	}
	gossipErr, ctxErr := r.fut.Await(verifC20DoneCtx).Unpack()
	if ctxErr != nil {
		return false
	}
	r.Resolved = true
	if gossipErr != nil {
		r.Err = gossipErr.Error()
	}
	return true
}

func (c *verifC20Ctx) sentinelNA() *lnwire.NodeAnnouncement1 {
	c.sentTs++
	alias, _ := lnwire.NewNodeAlias("sentinel")
	na := &lnwire.NodeAnnouncement1{
		Features:  lnwire.NewRawFeatureVector(),
		Timestamp: c.sentTs,
		NodeID:    c.sentPub,
		Alias:     alias,
		Addresses: testAddrs,
	}
	d, _ := verifC20Digest(na)
	na.Signature = verifC20Sign(c.sentKey, d)
	return na
}

// quiesce pushes a sentinel node announcement through the same serial
// networkHandler (so every earlier message already owns its validation
// barrier slot when the sentinel is received), waits for its result and then
// for all barrier slots to be returned, i.e. every handler goroutine has run
// to completion including adding its output to the broadcast batch.
func (c *verifC20Ctx) quiesce() string {
	na := c.sentinelNA()
	key := hex.EncodeToString(verifC20Wire(na))
	c.sentKeys[key] = true
	f := c.gossiper.ProcessRemoteAnnouncement(c.ctx, na, c.sentPeer)
	tctx, cancel := context.WithTimeout(c.ctx, verifC20Wait)
	err := AwaitGossipResult(tctx, f)
	cancel()
	if err != nil {
		c.t.Fatalf("C20 harness: sentinel node announcement rejected: %v", err)
	}
	c.poll("validation barrier idle", c.semaphoreFull)
	return key
}

func (c *verifC20Ctx) waitBroadcast(key string) {
	c.poll("sentinel broadcast (trickle)", func() bool {
		c.bmu.Lock()
		defer c.bmu.Unlock()
		for i := len(c.blog) - 1; i >= 0; i-- {
			if c.blog[i].Key == key {
				return true
			}
		}
		return false
	})
}

var (
	verifC20WPOnce sync.Once
	verifC20WP     *channeldb.WaitingProofStore
)

func verifC20NewCtx(t *testing.T, vc *verifCtx, r *verifRng, chain *verifC20Chain,
	sentSlot *verifC20Slot, sk [4]*btcec.PrivateKey) *verifC20Ctx {

	verifC20WPOnce.Do(func() {
		db := channeldb.OpenForTesting(t, t.TempDir())
		wp, err := channeldb.NewWaitingProofStore(db)
		if err != nil {
			t.Fatalf("waiting proof store: %v", err)
		}
		verifC20WP = wp
	})

	c := &verifC20Ctx{t: t, vc: vc, chain: chain, justified: map[string]bool{},
		sentKeys: map[string]bool{}}
	c.ctx, c.cancel = context.WithCancel(context.Background())

	base := os.Getenv("VERIF_SCRATCH")
	if base == "" {
		base = t.TempDir()
	}
	dir, err := os.MkdirTemp(base, "c20g")
	if err != nil {
		t.Fatalf("mkdirtemp: %v", err)
	}
	c.dir = dir
	backend, _, err := kvdb.GetTestBackend(dir, "cgr")
	if err != nil {
		t.Fatalf("graph backend: %v", err)
	}
	c.backend = backend
	store, err := graphdb.NewKVStore(backend)
	if err != nil {
		t.Fatalf("graph store: %v", err)
	}
	g, err := graphdb.NewChannelGraph(store, graphdb.WithSyncGraphCachePopulation(),
		graphdb.WithPreAllocCacheNumNodes(16))
	if err != nil {
		t.Fatalf("channel graph: %v", err)
	}
	if err := g.Start(); err != nil {
		t.Fatalf("channel graph start: %v", err)
	}
	c.graph = g
	c.vgraph = graphdb.NewVersionedGraph(g, lnwire.GossipVersion1)

	selfPub := route.NewVertex(selfKeyDesc.PubKey)
	err = g.SetSourceNode(c.ctx, models.NewV1Node(selfPub, &models.NodeV1Fields{
		LastUpdate: time.Unix(1500000000, 0),
		Features:   lnwire.NewRawFeatureVector(),
		Alias:      "self",
	}))
	if err != nil {
		t.Fatalf("set source node: %v", err)
	}

	cv := &verifC20ChainView{
		nb: make(chan *chainview.FilteredBlock),
		sb: make(chan *chainview.FilteredBlock),
	}
	isAlias := func(lnwire.ShortChannelID) bool { return false }
	c.notifier = newMockNotifier()
	b, err := graph.NewBuilder(&graph.Config{
		SelfNode:            selfPub,
		Graph:               g,
		Chain:               chain,
		ChainView:           cv,
		Notifier:            c.notifier,
		ChannelPruneExpiry:  graph.DefaultChannelPruneExpiry,
		GraphPruneInterval:  time.Hour * 1000,
		FirstTimePruneDelay: time.Hour * 1000,
		AssumeChannelValid:  false,
		IsAlias:             isAlias,
	})
	if err != nil {
		t.Fatalf("builder: %v", err)
	}
	if err := b.Start(); err != nil {
		t.Fatalf("builder start: %v", err)
	}
	c.builder = b

	// The sentinel channel is inserted directly into the graph (not through
	// the gossiper), so that the flush mechanism does not depend on the
	// channel-announcement validation path that is being judged.
	c.sentKey = sk[0]
	c.sentPub = verifC20Pub(sk[0])
	c.sentTs = 1500000000
	c.sentPeer = &mockPeer{pk: verifC20Key(r.Fork("sentpeer")).PubKey()}
	{
		n1, n2 := verifC20Pub(sk[0]), verifC20Pub(sk[1])
		if bytes.Compare(n1[:], n2[:]) > 0 {
			n1, n2 = n2, n1
		}
		b1, b2 := verifC20Pub(sk[2]), verifC20Pub(sk[3])
		out, op, ok := chain.lookup(sentSlot.scid())
		if !ok {
			t.Fatalf("sentinel slot missing")
		}
		ds := verifC20Sign(sk[0], bytes.Repeat([]byte{7}, 32))
		proof := models.NewV1ChannelAuthProof(ds.ToSignatureBytes(),
			ds.ToSignatureBytes(), ds.ToSignatureBytes(), ds.ToSignatureBytes())
		edge, err := models.NewV1Channel(sentSlot.scid().ToUint64(),
			*chaincfg.MainNetParams.GenesisHash, n1, n2,
			&models.ChannelV1Fields{BitcoinKey1Bytes: b1, BitcoinKey2Bytes: b2},
			models.WithChanProof(proof), models.WithChannelPoint(op),
			models.WithCapacity(btcutil.Amount(out.Value)),
			models.WithFundingScript(out.PkScript),
		)
		if err != nil {
			t.Fatalf("sentinel edge: %v", err)
		}
		if err := b.AddEdge(c.ctx, edge); err != nil {
			t.Fatalf("sentinel AddEdge: %v", err)
		}
	}

	hID := lnwire.ShortChannelID{BlockHeight: uint32(chain.tip)}
	gossiper := New(Config{
		ChanSeries:  newMockChannelGraphTimeSeries(hID),
		ChainIO:     chain,
		ChainParams: &chaincfg.MainNetParams,
		Notifier:    c.notifier,
		Broadcast: func(_ map[route.Vertex]struct{}, msgs ...lnwire.Message) error {
			c.bmu.Lock()
			defer c.bmu.Unlock()
			for _, m := range msgs {
				c.blog = append(c.blog, verifC20Bcast{
					Key:  hex.EncodeToString(verifC20Wire(m)),
					Type: m.MsgType().String(),
				})
			}
			return nil
		},
		NotifyWhenOnline: func(target [33]byte, peerChan chan<- lnpeer.Peer) {},
		NotifyWhenOffline: func(_ [33]byte) <-chan struct{} {
			return make(chan struct{})
		},
		FetchSelfAnnouncement: func() lnwire.NodeAnnouncement1 {
			return lnwire.NodeAnnouncement1{Timestamp: testTimestamp}
		},
		UpdateSelfAnnouncement: func() (lnwire.NodeAnnouncement1, error) {
			return lnwire.NodeAnnouncement1{Timestamp: testTimestamp}, nil
		},
		Graph:                 b,
		TrickleDelay:          2 * time.Millisecond,
		RetransmitTicker:      ticker.NewForce(retransmitDelay),
		RebroadcastInterval:   24 * time.Hour,
		ProofMatureDelta:      proofMatureDelta,
		WaitingProofStore:     verifC20WP,
		MessageStore:          newMockMessageStore(),
		RotateTicker:          ticker.NewForce(DefaultSyncerRotationInterval),
		HistoricalSyncTicker:  ticker.NewForce(DefaultHistoricalSyncInterval),
		NumActiveSyncers:      3,
		AnnSigner:             &mock.SingleSigner{Privkey: selfKeyPriv},
		SubBatchDelay:         time.Millisecond,
		MinimumBatchSize:      100000,
		MaxChannelUpdateBurst: 1 << 30,
		ChannelUpdateInterval: time.Nanosecond,
		IsAlias:               isAlias,
		SignAliasUpdate: func(*lnwire.ChannelUpdate1) (*ecdsa.Signature, error) {
			return nil, nil
		},
		FindBaseByAlias: func(lnwire.ShortChannelID) (lnwire.ShortChannelID, error) {
			return lnwire.ShortChannelID{}, fmt.Errorf("no base scid")
		},
		GetAlias: func(lnwire.ChannelID) (lnwire.ShortChannelID, error) {
			return lnwire.ShortChannelID{}, fmt.Errorf("no peer alias")
		},
		FindChannel:        mockFindChannel,
		ScidCloser:         newMockScidCloser(false),
		BanThreshold:       DefaultBanThreshold,
		AssumeChannelValid: false,
	}, selfKeyDesc)
	if err := gossiper.Start(); err != nil {
		t.Fatalf("gossiper start: %v", err)
	}
	gossiper.syncMgr.markGraphSynced()
	c.gossiper = gossiper
	return c
}

func (c *verifC20Ctx) close() {
	c.gossiper.Stop()
	c.builder.Stop()
	c.graph.Stop()
	c.cancel()
	c.backend.Close()
	os.RemoveAll(c.dir)
}
