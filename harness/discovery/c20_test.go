package discovery

// C20 monitor: only authentic, fresh gossip changes the channel graph;
// anything else leaves the graph unchanged and is not relayed.
//
// System under observation: a real AuthenticatedGossiper (config cloned from
// createTestCtx) whose Graph is a real graph.Builder over a real bbolt graph
// DB, whose ChainIO is a harness-side model chain serving generated blocks
// with real 2-of-2 P2WSH funding outputs (good / spent / mismatching / junk /
// not-yet-mined). AssumeChannelValid is off, so validateFundingTransaction
// runs for real.
//
// Oracle (per remote message): full graph snapshot before/after, the set of
// changed keys must be justified by a harness-side reference validity
// predicate written from the property statement (BOLT-7 double-SHA256 digest
// recomputed from the wire encoding, btcec signature verification, funding
// lookup in the model chain, strict freshness against the snapshot); every
// message handed to Broadcast must be byte-identical to a submitted message
// that the reference judged valid when it was applied.
//
// Zombie phase (after the 40 steps, own PRNG stream): channels are brought
// into the zombie index of the real graph DB in every key shape, then targeted
// by channel_updates (signer x direction bit x timestamp class) and
// channel_announcements; oracle zombie_stays_dead_unless_authentic, see the
// "Zombie index" section below.
//
// Cross-direction phase (after the zombie phase, own PRNG stream): authentic
// channel_updates over the channel-flag / message-flag space crossed with
// timestamp classes relative to EACH direction's stored policy, on channels
// whose two directions hold far-apart / equal / missing policies; same
// reference predicate and oracles, see the "Cross-direction phase" section.
//
// Restart dimension (own PRNG stream): at PRNG points inside all three phases
// gossiper + builder + graph store are torn down and re-created on the SAME
// database (cold reject / channel / graph caches, empty gossiper caches; the
// database file closed and re-opened or kept; lnd's default cache sizes or
// reject / channel caches of 1..3 entries that evict on lookups of other
// channels; 1 scenario in 4 runs with such tiny caches from its first message).
// After the x phase an after-restart replay phase lays out both directions'
// policies, restarts, and delivers stale / equal / fresh authentic updates of
// either direction 1-3 times each (identical bytes, distinct peers) interleaved
// with duplicate channel_announcements, node announcements and lookups of
// other channels; see the "Restart dimension" section. The graph snapshot
// additionally holds the policies as served by ChanUpdatesInHorizon (the read
// path through the store's channel cache), keys hz/<scid>/<dir>, judged exactly
// like the pol/ key of the same direction. No oracle was added or changed.

import (
	"bytes"
	"context"
	"crypto/sha256"
	"encoding/binary"
	"encoding/hex"
	"errors"
	"fmt"
	"image/color"
	"net"
	"os"
	"runtime"
	"sort"
	"strings"
	"sync"
	"testing"
	"time"

	"github.com/btcsuite/btcd/btcec/v2"
	"github.com/btcsuite/btcd/btcec/v2/ecdsa"
	"github.com/btcsuite/btcd/btcutil/v2"
	"github.com/btcsuite/btcd/chaincfg/v2"
	"github.com/btcsuite/btcd/chainhash/v2"
	"github.com/btcsuite/btcd/txscript/v2"
	"github.com/btcsuite/btcd/wire/v2"
	"github.com/lightningnetwork/lnd/actor"
	"github.com/lightningnetwork/lnd/channeldb"
	"github.com/lightningnetwork/lnd/fn/v2"
	"github.com/lightningnetwork/lnd/graph"
	graphdb "github.com/lightningnetwork/lnd/graph/db"
	"github.com/lightningnetwork/lnd/graph/db/models"
	"github.com/lightningnetwork/lnd/kvdb"
	"github.com/lightningnetwork/lnd/lnpeer"
	"github.com/lightningnetwork/lnd/lntest/mock"
	"github.com/lightningnetwork/lnd/lnwallet/btcwallet"
	"github.com/lightningnetwork/lnd/lnwire"
	"github.com/lightningnetwork/lnd/routing/chainview"
	"github.com/lightningnetwork/lnd/routing/route"
	"github.com/lightningnetwork/lnd/ticker"
)

// ---------------------------------------------------------------------------
// Model chain (harness-side ground truth + BlockChainIO stub).
// ---------------------------------------------------------------------------

const (
	verifC20KindGood = iota
	verifC20KindSpent
	verifC20KindMismatch
	verifC20KindJunk
	verifC20KindSentinel
)

var verifC20KindNames = []string{"good", "spent", "mismatch", "junk", "sentinel"}

type verifC20Slot struct {
	H    uint32
	Tx   uint32
	Out  uint16
	Kind int
	Used bool
}

func (s *verifC20Slot) scid() lnwire.ShortChannelID {
	return lnwire.ShortChannelID{BlockHeight: s.H, TxIndex: s.Tx, TxPosition: s.Out}
}

type verifC20Chain struct {
	mu     sync.Mutex
	blocks []*wire.MsgBlock
	hashes []chainhash.Hash
	byHash map[chainhash.Hash]int
	txAt   map[chainhash.Hash][2]int // txid -> (height, index)
	spent  map[wire.OutPoint]bool
	tip    int32
}

// verifC20FundingScript builds the P2WSH 2-of-2 funding pkScript for two
// compressed keys (BOLT-3: keys in lexicographic order).
func verifC20FundingScript(k1, k2 []byte) []byte {
	lo, hi := k1, k2
	if bytes.Compare(lo, hi) > 0 {
		lo, hi = hi, lo
	}
	ws, err := txscript.NewScriptBuilder().AddOp(txscript.OP_2).
		AddData(lo).AddData(hi).AddOp(txscript.OP_2).
		AddOp(txscript.OP_CHECKMULTISIG).Script()
	if err != nil {
		panic(err)
	}
	h := sha256.Sum256(ws)
	pk, err := txscript.NewScriptBuilder().AddOp(txscript.OP_0).
		AddData(h[:]).Script()
	if err != nil {
		panic(err)
	}
	return pk
}

func (c *verifC20Chain) addBlock(txs []*wire.MsgTx) {
	var prev chainhash.Hash
	if n := len(c.hashes); n > 0 {
		prev = c.hashes[n-1]
	}
	h := len(c.blocks)
	blk := &wire.MsgBlock{
		Header: wire.BlockHeader{
			Version:   2,
			PrevBlock: prev,
			Timestamp: time.Unix(1600000000+int64(h)*600, 0),
			Nonce:     uint32(h),
		},
		Transactions: txs,
	}
	hash := blk.Header.BlockHash()
	c.blocks = append(c.blocks, blk)
	c.hashes = append(c.hashes, hash)
	c.byHash[hash] = h
	for i, tx := range txs {
		c.txAt[tx.TxHash()] = [2]int{h, i}
	}
}

// lookup is the reference funding-output lookup (visible chain only).
func (c *verifC20Chain) lookup(scid lnwire.ShortChannelID) (*wire.TxOut, wire.OutPoint, bool) {
	c.mu.Lock()
	defer c.mu.Unlock()
	if int64(scid.BlockHeight) > int64(c.tip) {
		return nil, wire.OutPoint{}, false
	}
	blk := c.blocks[scid.BlockHeight]
	if int(scid.TxIndex) >= len(blk.Transactions) {
		return nil, wire.OutPoint{}, false
	}
	tx := blk.Transactions[scid.TxIndex]
	if int(scid.TxPosition) >= len(tx.TxOut) {
		return nil, wire.OutPoint{}, false
	}
	op := wire.OutPoint{Hash: tx.TxHash(), Index: uint32(scid.TxPosition)}
	return tx.TxOut[scid.TxPosition], op, true
}

func (c *verifC20Chain) isSpent(op wire.OutPoint) bool {
	c.mu.Lock()
	defer c.mu.Unlock()
	return c.spent[op]
}

func (c *verifC20Chain) GetBestBlock() (*chainhash.Hash, int32, error) {
	c.mu.Lock()
	defer c.mu.Unlock()
	h := c.hashes[c.tip]
	return &h, c.tip, nil
}

func (c *verifC20Chain) GetBlockHash(height int64) (*chainhash.Hash, error) {
	c.mu.Lock()
	defer c.mu.Unlock()
	if height < 0 || height > int64(c.tip) {
		return nil, fmt.Errorf("block height %d out of range", height)
	}
	h := c.hashes[height]
	return &h, nil
}

func (c *verifC20Chain) GetBlock(hash *chainhash.Hash) (*wire.MsgBlock, error) {
	c.mu.Lock()
	defer c.mu.Unlock()
	i, ok := c.byHash[*hash]
	if !ok || int32(i) > c.tip {
		return nil, fmt.Errorf("block %v not found", hash)
	}
	return c.blocks[i], nil
}

func (c *verifC20Chain) GetBlockHeader(hash *chainhash.Hash) (*wire.BlockHeader, error) {
	b, err := c.GetBlock(hash)
	if err != nil {
		return nil, err
	}
	return &b.Header, nil
}

func (c *verifC20Chain) GetUtxo(op *wire.OutPoint, _ []byte, _ uint32,
	_ <-chan struct{}) (*wire.TxOut, error) {

	c.mu.Lock()
	defer c.mu.Unlock()
	loc, ok := c.txAt[op.Hash]
	if !ok || int32(loc[0]) > c.tip {
		return nil, fmt.Errorf("output %v not found", op)
	}
	tx := c.blocks[loc[0]].Transactions[loc[1]]
	if int(op.Index) >= len(tx.TxOut) {
		return nil, fmt.Errorf("output %v not found", op)
	}
	if c.spent[*op] {
		return nil, btcwallet.ErrOutputSpent
	}
	return tx.TxOut[op.Index], nil
}

// verifC20ChainView is an inert FilteredChainView: no block ever closes a
// channel in these scenarios.
type verifC20ChainView struct {
	nb, sb chan *chainview.FilteredBlock
}

func (v *verifC20ChainView) FilteredBlocks() <-chan *chainview.FilteredBlock     { return v.nb }
func (v *verifC20ChainView) DisconnectedBlocks() <-chan *chainview.FilteredBlock { return v.sb }
func (v *verifC20ChainView) UpdateFilter(_ []graphdb.EdgePoint, _ uint32) error  { return nil }
func (v *verifC20ChainView) FilterBlock(h *chainhash.Hash) (*chainview.FilteredBlock, error) {
	return &chainview.FilteredBlock{Hash: *h}, nil
}
func (v *verifC20ChainView) Start() error { return nil }
func (v *verifC20ChainView) Stop() error  { return nil }

// ---------------------------------------------------------------------------
// Wire helpers and the reference predicate.
// ---------------------------------------------------------------------------

// verifC20Wire returns the wire bytes of a message as a peer would have sent
// them. channel_update is encoded by the harness itself (fixed BOLT-7 layout
// followed by the raw extra TLV bytes): lnwire's ChannelUpdate1.Encode
// re-packs ExtraOpaqueData from the records it knows and thereby *mutates the
// message and drops unknown TLVs*, so it can neither serve as the reference
// encoding of what was signed nor be called on a message before lnd sees it.
func verifC20Wire(m lnwire.Message) []byte {
	if u, ok := m.(*lnwire.ChannelUpdate1); ok {
		return verifC20WireCU(u)
	}
	var b bytes.Buffer
	if _, err := lnwire.WriteMessage(&b, m, 0); err != nil {
		return nil
	}
	return b.Bytes()
}

func verifC20WireCU(u *lnwire.ChannelUpdate1) []byte {
	b := make([]byte, 0, 160+len(u.ExtraOpaqueData))
	b = append(b, 0x01, 0x02)
	b = append(b, u.Signature.RawBytes()...)
	b = append(b, u.ChainHash[:]...)
	b = append(b, byte(u.ShortChannelID.BlockHeight>>16), byte(u.ShortChannelID.BlockHeight>>8),
		byte(u.ShortChannelID.BlockHeight), byte(u.ShortChannelID.TxIndex>>16),
		byte(u.ShortChannelID.TxIndex>>8), byte(u.ShortChannelID.TxIndex),
		byte(u.ShortChannelID.TxPosition>>8), byte(u.ShortChannelID.TxPosition))
	b = binary.BigEndian.AppendUint32(b, u.Timestamp)
	b = append(b, byte(u.MessageFlags), byte(u.ChannelFlags))
	b = binary.BigEndian.AppendUint16(b, u.TimeLockDelta)
	b = binary.BigEndian.AppendUint64(b, uint64(u.HtlcMinimumMsat))
	b = binary.BigEndian.AppendUint32(b, u.BaseFee)
	b = binary.BigEndian.AppendUint32(b, u.FeeRate)
	if u.MessageFlags&lnwire.ChanUpdateRequiredMaxHtlc != 0 {
		b = binary.BigEndian.AppendUint64(b, uint64(u.HtlcMaximumMsat))
	}
	b = append(b, u.ExtraOpaqueData...)
	return b
}

// verifC20PeerEncode is what a peer connection does with a message handed to
// Broadcast: lnwire.WriteMessage on the object itself.
func verifC20PeerEncode(m lnwire.Message) []byte {
	var b bytes.Buffer
	if _, err := lnwire.WriteMessage(&b, m, 0); err != nil {
		return nil
	}
	return b.Bytes()
}

func verifC20NSigs(m lnwire.Message) int {
	switch m.(type) {
	case *lnwire.ChannelAnnouncement1:
		return 4
	case *lnwire.ChannelUpdate1, *lnwire.NodeAnnouncement1:
		return 1
	}
	return 0
}

// verifC20Digest recomputes the BOLT-7 signing digest from the wire encoding:
// double-SHA256 of everything after the signature(s).
func verifC20Digest(m lnwire.Message) ([]byte, []byte) {
	w := verifC20Wire(m)
	off := 2 + 64*verifC20NSigs(m)
	if w == nil || len(w) < off {
		return nil, w
	}
	h1 := sha256.Sum256(w[off:])
	h2 := sha256.Sum256(h1[:])
	return h2[:], w
}

// verifC20SigOK verifies a 64-byte r||s signature with btcec.
func verifC20SigOK(sig64, digest, pub33 []byte) bool {
	if digest == nil || len(sig64) != 64 {
		return false
	}
	pk, err := btcec.ParsePubKey(pub33)
	if err != nil {
		return false
	}
	var r, s btcec.ModNScalar
	if r.SetByteSlice(sig64[:32]) || s.SetByteSlice(sig64[32:]) {
		return false
	}
	if r.IsZero() || s.IsZero() {
		return false
	}
	return ecdsa.NewSignature(&r, &s).Verify(digest, pk)
}

func verifC20Sign(priv *btcec.PrivateKey, digest []byte) lnwire.Sig {
	sig := ecdsa.Sign(priv, digest)
	ls, err := lnwire.NewSigFromSignature(sig)
	if err != nil {
		panic(err)
	}
	return ls
}

func verifC20RawSig(b []byte) lnwire.Sig {
	s, err := lnwire.NewSigFromWireECDSA(b)
	if err != nil {
		panic(err)
	}
	return s
}

func verifC20Pub(k *btcec.PrivateKey) [33]byte {
	var p [33]byte
	copy(p[:], k.PubKey().SerializeCompressed())
	return p
}

func verifC20Key(r *verifRng) *btcec.PrivateKey {
	for {
		b := r.Bytes(32)
		k, _ := btcec.PrivKeyFromBytes(b)
		if !k.Key.IsZero() {
			return k
		}
	}
}

// ---------------------------------------------------------------------------
// Graph snapshot.
// ---------------------------------------------------------------------------

type verifC20Pol struct {
	Ts                  uint32
	MsgFlags, ChanFlags uint8
	Cltv                uint16
	Min, Max            uint64
	Base, Rate          uint64
	Extra               []byte
	fp                  string
}

type verifC20Chan struct {
	N1, N2, B1, B2 [33]byte
	HasBtc         bool
	Cap            int64
	Pol            [2]*verifC20Pol
}

type verifC20Node struct {
	Ts     int64
	HasAnn bool
}

type verifC20Snap struct {
	kv    map[string]string
	chans map[uint64]*verifC20Chan
	nodes map[[33]byte]*verifC20Node
	// zomb holds the zombie-index entry ("<key1 hex>|<key2 hex>", "" = not a
	// zombie) of every scid the harness itself brought into the zombie index.
	zomb map[uint64]string
}

func verifC20PolFP(p *models.ChannelEdgePolicy) (*verifC20Pol, string) {
	r := &verifC20Pol{
		Ts:       uint32(p.LastUpdate.Unix()),
		MsgFlags: uint8(p.MessageFlags), ChanFlags: uint8(p.ChannelFlags),
		Cltv: p.TimeLockDelta, Min: uint64(p.MinHTLC), Max: uint64(p.MaxHTLC),
		Base: uint64(p.FeeBaseMSat), Rate: uint64(p.FeeProportionalMillionths),
		Extra: append([]byte(nil), p.ExtraOpaqueData...),
	}
	inb := "-"
	p.InboundFee.WhenSome(func(f lnwire.Fee) {
		inb = fmt.Sprintf("%d/%d", f.BaseFee, f.FeeRate)
	})
	fp := fmt.Sprintf("ts=%d mf=%d cf=%d cltv=%d min=%d max=%d base=%d rate=%d inb=%s extra=%x sig=%x",
		p.LastUpdate.Unix(), r.MsgFlags, r.ChanFlags, r.Cltv, r.Min, r.Max,
		r.Base, r.Rate, inb, []byte(p.ExtraOpaqueData), p.SigBytes)
	r.fp = fp
	return r, fp
}

func (c *verifC20Ctx) snapshot() *verifC20Snap {
	s := &verifC20Snap{
		kv:    map[string]string{},
		chans: map[uint64]*verifC20Chan{},
		nodes: map[[33]byte]*verifC20Node{},
	}
	reset := func() {
		s.kv = map[string]string{}
		s.chans = map[uint64]*verifC20Chan{}
		s.nodes = map[[33]byte]*verifC20Node{}
	}
	err := c.graph.ForEachChannel(c.ctx, lnwire.GossipVersion1,
		func(info *models.ChannelEdgeInfo, p1, p2 *models.ChannelEdgePolicy) error {
			ch := &verifC20Chan{N1: info.NodeKey1Bytes, N2: info.NodeKey2Bytes,
				Cap: int64(info.Capacity)}
			b1, b2 := "-", "-"
			info.BitcoinKey1Bytes.WhenSome(func(v route.Vertex) {
				ch.B1 = v
				ch.HasBtc = true
				b1 = hex.EncodeToString(v[:])
			})
			info.BitcoinKey2Bytes.WhenSome(func(v route.Vertex) {
				ch.B2 = v
				b2 = hex.EncodeToString(v[:])
			})
			feat := ""
			if info.Features != nil && info.Features.RawFeatureVector != nil {
				var fb bytes.Buffer
				_ = info.Features.RawFeatureVector.Encode(&fb)
				feat = hex.EncodeToString(fb.Bytes())
			}
			proof := "-"
			if info.AuthProof != nil {
				proof = fmt.Sprintf("%x|%x|%x|%x",
					info.AuthProof.NodeSig1Bytes.UnwrapOr(nil),
					info.AuthProof.NodeSig2Bytes.UnwrapOr(nil),
					info.AuthProof.BitcoinSig1Bytes.UnwrapOr(nil),
					info.AuthProof.BitcoinSig2Bytes.UnwrapOr(nil))
			}
			s.kv[fmt.Sprintf("chan/%d", info.ChannelID)] = fmt.Sprintf(
				"n1=%x n2=%x b1=%s b2=%s cap=%d op=%v feat=%s extra=%x chain=%v proof=%s",
				info.NodeKey1Bytes[:], info.NodeKey2Bytes[:], b1, b2,
				info.Capacity, info.ChannelPoint, feat, info.ExtraOpaqueData,
				info.ChainHash, proof)
			for d, p := range []*models.ChannelEdgePolicy{p1, p2} {
				if p == nil {
					continue
				}
				pr, fp := verifC20PolFP(p)
				ch.Pol[d] = pr
				s.kv[fmt.Sprintf("pol/%d/%d", info.ChannelID, d)] = fp
			}
			s.chans[info.ChannelID] = ch
			return nil
		}, reset)
	if err != nil && !errors.Is(err, graphdb.ErrGraphNoEdgesFound) {
		c.t.Fatalf("C20 snapshot ForEachChannel: %v", err)
	}
	err = c.vgraph.ForEachNode(c.ctx, func(n *models.Node) error {
		nr := &verifC20Node{Ts: n.LastUpdate.Unix(), HasAnn: len(n.AuthSigBytes) > 0}
		s.nodes[n.PubKeyBytes] = nr
		if n.PubKeyBytes == c.sentPub {
			return nil
		}
		feat := ""
		if n.Features != nil && n.Features.RawFeatureVector != nil {
			var fb bytes.Buffer
			_ = n.Features.RawFeatureVector.Encode(&fb)
			feat = hex.EncodeToString(fb.Bytes())
		}
		addrs := make([]string, 0, len(n.Addresses))
		for _, a := range n.Addresses {
			addrs = append(addrs, a.String())
		}
		col := n.Color.UnwrapOr(color.RGBA{})
		s.kv["node/"+hex.EncodeToString(n.PubKeyBytes[:])] = fmt.Sprintf(
			"ts=%d ann=%v alias=%q color=%v feat=%s addrs=%v extra=%x sig=%x",
			nr.Ts, nr.HasAnn, n.Alias.UnwrapOr(""), col, feat, addrs,
			n.ExtraOpaqueData, n.AuthSigBytes)
		return nil
	}, func() {})
	if err != nil {
		c.t.Fatalf("C20 snapshot ForEachNode: %v", err)
	}
	// Second view of the stored policies: the time-series read path that
	// serves gossip queries of peers (ChanUpdatesInHorizon), which goes
	// through the store's in-memory channel cache. Keys hz/<scid>/<dir>; a
	// change of such a key is judged exactly like the pol/ key of the same
	// channel and direction.
	hzRange := graphdb.ChanUpdateRange{
		StartTime: fn.Some(time.Unix(0, 0)),
		EndTime:   fn.Some(time.Unix(1<<33, 0)),
	}
	for e, err := range c.vgraph.ChanUpdatesInHorizon(c.ctx, hzRange) {
		if err != nil {
			c.t.Fatalf("C20 snapshot ChanUpdatesInHorizon: %v", err)
		}
		if e.Info == nil {
			continue
		}
		for d, p := range []*models.ChannelEdgePolicy{e.Policy1, e.Policy2} {
			if p == nil {
				continue
			}
			_, fp := verifC20PolFP(p)
			s.kv[fmt.Sprintf("hz/%d/%d", e.Info.ChannelID, d)] = fp
		}
	}
	s.zomb = map[uint64]string{}
	for _, scid := range c.zTracked {
		isZ, k1, k2, err := c.vgraph.IsZombieEdge(c.ctx, scid)
		if err != nil {
			c.t.Fatalf("C20 snapshot IsZombieEdge(%d): %v", scid, err)
		}
		if isZ {
			s.zomb[scid] = hex.EncodeToString(k1[:]) + "|" + hex.EncodeToString(k2[:])
		} else {
			s.zomb[scid] = ""
		}
	}
	return s
}

func verifC20Diff(a, b *verifC20Snap) []string {
	var out []string
	for k, v := range a.kv {
		if w, ok := b.kv[k]; !ok || w != v {
			out = append(out, k)
		}
	}
	for k := range b.kv {
		if _, ok := a.kv[k]; !ok {
			out = append(out, k)
		}
	}
	sort.Strings(out)
	return out
}

func (s *verifC20Snap) nodeHasChannel(id [33]byte) bool {
	for _, ch := range s.chans {
		if ch.N1 == id || ch.N2 == id {
			return true
		}
	}
	return false
}

// ---------------------------------------------------------------------------
// Reference validity predicates (written from the statement).
// ---------------------------------------------------------------------------

type verifC20Verdict struct {
	Valid  bool   // all "only if" conditions of the statement hold
	Reason string // first failing condition
	Scope  string // non-empty: a BOLT-7 condition outside the statement fails (diagnostic only)
}

// refCA: all four signatures verify over the digest under the stated keys and
// the funding output exists, is unspent and pays to the 2-of-2 of the bitcoin
// keys. "new" (channel not yet in the graph) is reported separately.
func (c *verifC20Ctx) refCA(a *lnwire.ChannelAnnouncement1) verifC20Verdict {
	digest, w := verifC20Digest(a)
	if digest == nil {
		return verifC20Verdict{Reason: "unencodable"}
	}
	sigs := w[2 : 2+256]
	keys := [4][]byte{a.NodeID1[:], a.NodeID2[:], a.BitcoinKey1[:], a.BitcoinKey2[:]}
	names := [4]string{"nodesig1", "nodesig2", "btcsig1", "btcsig2"}
	for i := 0; i < 4; i++ {
		if !verifC20SigOK(sigs[64*i:64*i+64], digest, keys[i]) {
			return verifC20Verdict{Reason: "bad-" + names[i]}
		}
	}
	out, op, ok := c.chain.lookup(a.ShortChannelID)
	if !ok {
		return verifC20Verdict{Reason: "funding-missing"}
	}
	if !bytes.Equal(out.PkScript, verifC20FundingScript(a.BitcoinKey1[:], a.BitcoinKey2[:])) {
		return verifC20Verdict{Reason: "funding-script-mismatch"}
	}
	if c.chain.isSpent(op) {
		return verifC20Verdict{Reason: "funding-spent"}
	}
	v := verifC20Verdict{Valid: true}
	if a.ChainHash != *chaincfg.MainNetParams.GenesisHash {
		v.Scope = "wrong-chain"
	}
	return v
}

// refCU: signed by the node owning that direction of a known channel,
// strictly newer than the stored policy, consistent fields.
func verifC20RefCU(u *lnwire.ChannelUpdate1, ch *verifC20Chan) verifC20Verdict {
	if ch == nil {
		return verifC20Verdict{Reason: "unknown-channel"}
	}
	digest, w := verifC20Digest(u)
	if digest == nil {
		return verifC20Verdict{Reason: "unencodable"}
	}
	dir := int(u.ChannelFlags & lnwire.ChanUpdateDirection)
	key := ch.N1[:]
	if dir == 1 {
		key = ch.N2[:]
	}
	if !verifC20SigOK(w[2:66], digest, key) {
		return verifC20Verdict{Reason: "bad-sig-for-direction"}
	}
	if st := ch.Pol[dir]; st != nil && !(u.Timestamp > st.Ts) {
		return verifC20Verdict{Reason: "not-newer"}
	}
	if !u.MessageFlags.HasMaxHtlc() {
		return verifC20Verdict{Reason: "fields-no-max-htlc"}
	}
	if u.HtlcMaximumMsat == 0 || u.HtlcMaximumMsat < u.HtlcMinimumMsat {
		return verifC20Verdict{Reason: "fields-max-lt-min"}
	}
	if ch.Cap > 0 && uint64(u.HtlcMaximumMsat) > uint64(ch.Cap)*1000 {
		return verifC20Verdict{Reason: "fields-max-gt-capacity"}
	}
	v := verifC20Verdict{Valid: true}
	if u.ChainHash != *chaincfg.MainNetParams.GenesisHash {
		v.Scope = "wrong-chain"
	}
	return v
}

// refNA: signed by that node, newer, node has a known channel.
func verifC20RefNA(n *lnwire.NodeAnnouncement1, s *verifC20Snap) verifC20Verdict {
	digest, w := verifC20Digest(n)
	if digest == nil {
		return verifC20Verdict{Reason: "unencodable"}
	}
	if !verifC20SigOK(w[2:66], digest, n.NodeID[:]) {
		return verifC20Verdict{Reason: "bad-sig"}
	}
	if !s.nodeHasChannel(n.NodeID) {
		return verifC20Verdict{Reason: "no-known-channel"}
	}
	if st := s.nodes[n.NodeID]; st != nil && st.HasAnn && !(int64(n.Timestamp) > st.Ts) {
		return verifC20Verdict{Reason: "not-newer"}
	}
	return verifC20Verdict{Valid: true}
}

// ---------------------------------------------------------------------------
// Per-scenario context: real gossiper + real builder + real graph DB.
// ---------------------------------------------------------------------------

type verifC20Bcast struct {
	Key  string
	Type string
}

type verifC20Rec struct {
	Idx      int
	Label    string
	Msg      lnwire.Message
	Hex      string
	fut      actor.Future[error]
	Resolved bool
	Err      string
	Pending  string // "", "premature", "future"
	Scid     uint64
}

type verifC20Ctx struct {
	t  *testing.T
	vc *verifCtx

	ctx    context.Context
	cancel context.CancelFunc

	dir      string
	backend  kvdb.Backend
	graph    *graphdb.ChannelGraph
	vgraph   *graphdb.VersionedGraph
	builder  *graph.Builder
	gossiper *AuthenticatedGossiper
	notifier *mockNotifier
	chain    *verifC20Chain

	bmu  sync.Mutex
	blog []verifC20Bcast

	sentKey  *btcec.PrivateKey
	sentPub  [33]byte
	sentTs   uint32
	sentPeer *mockPeer
	sentKeys map[string]bool

	justified map[string]bool
	recs      []*verifC20Rec
	pending   []*verifC20Rec
	bchecked  int

	// scids the harness brought into the zombie index (snapshot.zomb).
	zTracked []uint64

	// restart dimension: what is needed to re-create the stack on the same
	// database, and the options of the store that is currently open.
	sentSlot *verifC20Slot
	sk       [4]*btcec.PrivateKey
	opts     verifC20StoreOpts
	restarts int
}

// verifC20StoreOpts are the in-memory cache sizes of the graph store
// (0 = lnd's default). Tiny sizes make the reject / channel caches evict on
// nearly every lookup of another channel.
type verifC20StoreOpts struct {
	Rej, Chan int
}

const verifC20Wait = 90 * time.Second

func (c *verifC20Ctx) poll(what string, cond func() bool) {
	deadline := time.Now().Add(verifC20Wait)
	for i := 0; ; i++ {
		if cond() {
			return
		}
		if time.Now().After(deadline) {
			c.t.Fatalf("C20 watchdog: timed out waiting for %s", what)
		}
		if i < 200 {
			runtime.Gosched()
		} else {
			time.Sleep(100 * time.Microsecond)
		}
	}
}

func (c *verifC20Ctx) semaphoreFull() bool {
	sem := c.gossiper.vb.validationSemaphore
	return len(sem) == cap(sem)
}

var verifC20DoneCtx = func() context.Context {
	ctx, cancel := context.WithCancel(context.Background())
	cancel()
	return ctx
}()

// tryResolve polls the future without blocking.
func (r *verifC20Rec) tryResolve() bool {
	if r.Resolved {
		return true
	}
	gossipErr, ctxErr := r.fut.Await(verifC20DoneCtx).Unpack()
	if ctxErr != nil {
		return false
	}
	r.Resolved = true
	if gossipErr != nil {
		r.Err = gossipErr.Error()
	}
	return true
}

func (c *verifC20Ctx) sentinelNA() *lnwire.NodeAnnouncement1 {
	c.sentTs++
	alias, _ := lnwire.NewNodeAlias("sentinel")
	na := &lnwire.NodeAnnouncement1{
		Features:  lnwire.NewRawFeatureVector(),
		Timestamp: c.sentTs,
		NodeID:    c.sentPub,
		Alias:     alias,
		Addresses: testAddrs,
	}
	d, _ := verifC20Digest(na)
	na.Signature = verifC20Sign(c.sentKey, d)
	return na
}

// quiesce pushes a sentinel node announcement through the same serial
// networkHandler (so every earlier message already owns its validation
// barrier slot when the sentinel is received), waits for its result and then
// for all barrier slots to be returned, i.e. every handler goroutine has run
// to completion including adding its output to the broadcast batch.
func (c *verifC20Ctx) quiesce() string {
	na := c.sentinelNA()
	key := hex.EncodeToString(verifC20Wire(na))
	c.sentKeys[key] = true
	f := c.gossiper.ProcessRemoteAnnouncement(c.ctx, na, c.sentPeer)
	tctx, cancel := context.WithTimeout(c.ctx, verifC20Wait)
	err := AwaitGossipResult(tctx, f)
	cancel()
	if err != nil {
		c.t.Fatalf("C20 harness: sentinel node announcement rejected: %v", err)
	}
	c.poll("validation barrier idle", c.semaphoreFull)
	return key
}

func (c *verifC20Ctx) waitBroadcast(key string) {
	c.poll("sentinel broadcast (trickle)", func() bool {
		c.bmu.Lock()
		defer c.bmu.Unlock()
		for i := len(c.blog) - 1; i >= 0; i-- {
			if c.blog[i].Key == key {
				return true
			}
		}
		return false
	})
}

var (
	verifC20WPOnce sync.Once
	verifC20WP     *channeldb.WaitingProofStore
)

func verifC20NewCtx(t *testing.T, vc *verifCtx, r *verifRng, chain *verifC20Chain,
	sentSlot *verifC20Slot, sk [4]*btcec.PrivateKey, o verifC20StoreOpts) *verifC20Ctx {

	verifC20WPOnce.Do(func() {
		db := channeldb.OpenForTesting(t, t.TempDir())
		wp, err := channeldb.NewWaitingProofStore(db)
		if err != nil {
			t.Fatalf("waiting proof store: %v", err)
		}
		verifC20WP = wp
	})

	c := &verifC20Ctx{t: t, vc: vc, chain: chain, justified: map[string]bool{},
		sentKeys: map[string]bool{}, sentSlot: sentSlot, sk: sk}
	c.ctx, c.cancel = context.WithCancel(context.Background())

	base := os.Getenv("VERIF_SCRATCH")
	if base == "" {
		base = t.TempDir()
	}
	dir, err := os.MkdirTemp(base, "c20g")
	if err != nil {
		t.Fatalf("mkdirtemp: %v", err)
	}
	c.dir = dir

	c.sentKey = sk[0]
	c.sentPub = verifC20Pub(sk[0])
	c.sentTs = 1500000000
	c.sentPeer = &mockPeer{pk: verifC20Key(r.Fork("sentpeer")).PubKey()}

	c.openStack(true, o)
	return c
}

// openStack opens the graph store on the scenario's database (opening the
// database file first when it is not open), and creates and starts a channel
// graph, a builder and a gossiper over it. first=true additionally writes the
// source node and the sentinel channel; on a re-open (node restart) both are
// already in the database and every in-memory structure of the graph store
// (reject cache, channel cache, graph cache), of the builder and of the
// gossiper (premature / future message caches, reject cache, ban scores)
// starts empty.
func (c *verifC20Ctx) openStack(first bool, o verifC20StoreOpts) {
	t, chain, sk, sentSlot := c.t, c.chain, c.sk, c.sentSlot
	c.opts = o
	if c.backend == nil {
		backend, _, err := kvdb.GetTestBackend(c.dir, "cgr")
		if err != nil {
			t.Fatalf("graph backend: %v", err)
		}
		c.backend = backend
	}
	var mods []graphdb.StoreOptionModifier
	if o.Rej > 0 {
		mods = append(mods, graphdb.WithRejectCacheSize(o.Rej))
	}
	if o.Chan > 0 {
		mods = append(mods, graphdb.WithChannelCacheSize(o.Chan))
	}
	store, err := graphdb.NewKVStore(c.backend, mods...)
	if err != nil {
		t.Fatalf("graph store: %v", err)
	}
	g, err := graphdb.NewChannelGraph(store, graphdb.WithSyncGraphCachePopulation(),
		graphdb.WithPreAllocCacheNumNodes(16))
	if err != nil {
		t.Fatalf("channel graph: %v", err)
	}
	if err := g.Start(); err != nil {
		t.Fatalf("channel graph start: %v", err)
	}
	c.graph = g
	c.vgraph = graphdb.NewVersionedGraph(g, lnwire.GossipVersion1)

	selfPub := route.NewVertex(selfKeyDesc.PubKey)
	if first {
		err = g.SetSourceNode(c.ctx, models.NewV1Node(selfPub, &models.NodeV1Fields{
			LastUpdate: time.Unix(1500000000, 0),
			Features:   lnwire.NewRawFeatureVector(),
			Alias:      "self",
		}))
		if err != nil {
			t.Fatalf("set source node: %v", err)
		}
	}

	cv := &verifC20ChainView{
		nb: make(chan *chainview.FilteredBlock),
		sb: make(chan *chainview.FilteredBlock),
	}
	isAlias := func(lnwire.ShortChannelID) bool { return false }
	// a new notifier per stack: the old one still holds the (now dead) epoch
	// clients of the stopped gossiper.
	c.notifier = newMockNotifier()
	b, err := graph.NewBuilder(&graph.Config{
		SelfNode:            selfPub,
		Graph:               g,
		Chain:               chain,
		ChainView:           cv,
		Notifier:            c.notifier,
		ChannelPruneExpiry:  graph.DefaultChannelPruneExpiry,
		GraphPruneInterval:  time.Hour * 1000,
		FirstTimePruneDelay: time.Hour * 1000,
		AssumeChannelValid:  false,
		IsAlias:             isAlias,
	})
	if err != nil {
		t.Fatalf("builder: %v", err)
	}
	if err := b.Start(); err != nil {
		t.Fatalf("builder start: %v", err)
	}
	c.builder = b

	// The sentinel channel is inserted directly into the graph (not through
	// the gossiper), so that the flush mechanism does not depend on the
	// channel-announcement validation path that is being judged.
	if first {
		n1, n2 := verifC20Pub(sk[0]), verifC20Pub(sk[1])
		if bytes.Compare(n1[:], n2[:]) > 0 {
			n1, n2 = n2, n1
		}
		b1, b2 := verifC20Pub(sk[2]), verifC20Pub(sk[3])
		out, op, ok := chain.lookup(sentSlot.scid())
		if !ok {
			t.Fatalf("sentinel slot missing")
		}
		ds := verifC20Sign(sk[0], bytes.Repeat([]byte{7}, 32))
		proof := models.NewV1ChannelAuthProof(ds.ToSignatureBytes(),
			ds.ToSignatureBytes(), ds.ToSignatureBytes(), ds.ToSignatureBytes())
		edge, err := models.NewV1Channel(sentSlot.scid().ToUint64(),
			*chaincfg.MainNetParams.GenesisHash, n1, n2,
			&models.ChannelV1Fields{BitcoinKey1Bytes: b1, BitcoinKey2Bytes: b2},
			models.WithChanProof(proof), models.WithChannelPoint(op),
			models.WithCapacity(btcutil.Amount(out.Value)),
			models.WithFundingScript(out.PkScript),
		)
		if err != nil {
			t.Fatalf("sentinel edge: %v", err)
		}
		if err := b.AddEdge(c.ctx, edge); err != nil {
			t.Fatalf("sentinel AddEdge: %v", err)
		}
	}

	chain.mu.Lock()
	hID := lnwire.ShortChannelID{BlockHeight: uint32(chain.tip)}
	chain.mu.Unlock()
	gossiper := New(Config{
		ChanSeries:  newMockChannelGraphTimeSeries(hID),
		ChainIO:     chain,
		ChainParams: &chaincfg.MainNetParams,
		Notifier:    c.notifier,
		Broadcast: func(_ map[route.Vertex]struct{}, msgs ...lnwire.Message) error {
			c.bmu.Lock()
			defer c.bmu.Unlock()
			for _, m := range msgs {
				c.blog = append(c.blog, verifC20Bcast{
					Key:  hex.EncodeToString(verifC20PeerEncode(m)),
					Type: m.MsgType().String(),
				})
			}
			return nil
		},
		NotifyWhenOnline: func(target [33]byte, peerChan chan<- lnpeer.Peer) {},
		NotifyWhenOffline: func(_ [33]byte) <-chan struct{} {
			return make(chan struct{})
		},
		FetchSelfAnnouncement: func() lnwire.NodeAnnouncement1 {
			return lnwire.NodeAnnouncement1{Timestamp: testTimestamp}
		},
		UpdateSelfAnnouncement: func() (lnwire.NodeAnnouncement1, error) {
			return lnwire.NodeAnnouncement1{Timestamp: testTimestamp}, nil
		},
		Graph:                 b,
		TrickleDelay:          2 * time.Millisecond,
		RetransmitTicker:      ticker.NewForce(retransmitDelay),
		RebroadcastInterval:   24 * time.Hour,
		ProofMatureDelta:      proofMatureDelta,
		WaitingProofStore:     verifC20WP,
		MessageStore:          newMockMessageStore(),
		RotateTicker:          ticker.NewForce(DefaultSyncerRotationInterval),
		HistoricalSyncTicker:  ticker.NewForce(DefaultHistoricalSyncInterval),
		NumActiveSyncers:      3,
		AnnSigner:             &mock.SingleSigner{Privkey: selfKeyPriv},
		SubBatchDelay:         time.Millisecond,
		MinimumBatchSize:      100000,
		MaxChannelUpdateBurst: 1 << 30,
		ChannelUpdateInterval: time.Nanosecond,
		IsAlias:               isAlias,
		SignAliasUpdate: func(*lnwire.ChannelUpdate1) (*ecdsa.Signature, error) {
			return nil, nil
		},
		FindBaseByAlias: func(lnwire.ShortChannelID) (lnwire.ShortChannelID, error) {
			return lnwire.ShortChannelID{}, fmt.Errorf("no base scid")
		},
		GetAlias: func(lnwire.ChannelID) (lnwire.ShortChannelID, error) {
			return lnwire.ShortChannelID{}, fmt.Errorf("no peer alias")
		},
		FindChannel:        mockFindChannel,
		ScidCloser:         newMockScidCloser(false),
		BanThreshold:       DefaultBanThreshold,
		AssumeChannelValid: false,
	}, selfKeyDesc)
	if err := gossiper.Start(); err != nil {
		t.Fatalf("gossiper start: %v", err)
	}
	gossiper.syncMgr.markGraphSynced()
	c.gossiper = gossiper
}

// restart plays a node restart: gossiper, builder and graph store are stopped
// and re-created on the SAME database (reopenFile: the database file itself is
// closed and opened again as well). Nothing of the old in-memory state
// survives; premature updates the old gossiper had stashed are gone with it.
func (c *verifC20Ctx) restart(reopenFile bool, o verifC20StoreOpts) {
	c.gossiper.Stop()
	c.builder.Stop()
	c.graph.Stop()
	if reopenFile {
		if err := c.backend.Close(); err != nil {
			c.t.Fatalf("C20 harness: closing the graph database: %v", err)
		}
		c.backend = nil
	}
	c.pending = nil
	c.restarts++
	c.openStack(false, o)
}

func (c *verifC20Ctx) close() {
	c.gossiper.Stop()
	c.builder.Stop()
	c.graph.Stop()
	c.cancel()
	c.backend.Close()
	os.RemoveAll(c.dir)
}

// ---------------------------------------------------------------------------
// Scenario: base key set, chain, message catalogue.
// ---------------------------------------------------------------------------

type verifC20Scn struct {
	c  *verifC20Ctx
	r  *verifRng
	vc *verifCtx

	keys    [4]*btcec.PrivateKey // node1, node2, btc1, btc2 (pub(node1) < pub(node2))
	other   *btcec.PrivateKey
	slots   []*verifC20Slot
	hidden  []*verifC20Slot
	nHidden int // hidden blocks not yet revealed
	main    *verifC20Slot

	mainAnnounced bool
	announced     []*verifC20Slot
	shared        *mockPeer

	snap *verifC20Snap
	log  []map[string]any

	zombies []*verifC20Zombie
	zBy     map[uint64]*verifC20Zombie

	// restart dimension (own PRNG stream, so the message streams of the
	// phases are the ones they had without it).
	rr        *verifRng
	sinceSame map[string]int // wire bytes -> deliveries since the last restart
	sinceScid map[uint64]int // scid -> channel messages since the last restart
	noShared  bool           // every delivery from a peer identity of its own
}

var verifC20Extra = []byte{0x4d, 0x02, 0xaa, 0xbb}

func verifC20Tx(r *verifRng, ctr *uint32, outs []*wire.TxOut) *wire.MsgTx {
	tx := wire.NewMsgTx(2)
	var prev chainhash.Hash
	copy(prev[:], r.Bytes(32))
	tx.AddTxIn(wire.NewTxIn(wire.NewOutPoint(&prev, 0), nil, nil))
	for _, o := range outs {
		tx.AddTxOut(o)
	}
	*ctr++
	tx.LockTime = *ctr
	return tx
}

// verifC20BuildChain generates the model chain of one scenario.
func verifC20BuildChain(r *verifRng, keys, sk [4]*btcec.PrivateKey,
	other *btcec.PrivateKey) (*verifC20Chain, []*verifC20Slot, []*verifC20Slot, *verifC20Slot, int) {

	ch := &verifC20Chain{
		byHash: map[chainhash.Hash]int{},
		txAt:   map[chainhash.Hash][2]int{},
		spent:  map[wire.OutPoint]bool{},
	}
	var ctr uint32
	junk := func() []byte {
		s, _ := txscript.NewScriptBuilder().AddOp(txscript.OP_0).AddData(r.Bytes(20)).Script()
		return s
	}
	filler := func() {
		ch.addBlock([]*wire.MsgTx{verifC20Tx(r, &ctr, []*wire.TxOut{{Value: 5000, PkScript: junk()}})})
	}
	b1, b2 := verifC20Pub(keys[2]), verifC20Pub(keys[3])
	good := verifC20FundingScript(b1[:], b2[:])
	ob := verifC20Pub(other)
	mism := verifC20FundingScript(b1[:], ob[:])
	s1, s2 := verifC20Pub(sk[2]), verifC20Pub(sk[3])
	sent := verifC20FundingScript(s1[:], s2[:])

	h0 := 10 + r.Intn(90)
	for i := 0; i < h0; i++ {
		filler()
	}
	var slots, hidden []*verifC20Slot
	var sentSlot *verifC20Slot
	const nVisible, nHidden, nTx, nOut = 6, 2, 3, 3
	fundingBlock := func(hiddenBlk bool) {
		h := uint32(len(ch.blocks))
		var txs []*wire.MsgTx
		var newSlots []*verifC20Slot
		for ti := 0; ti < nTx; ti++ {
			var outs []*wire.TxOut
			for oi := 0; oi < nOut; oi++ {
				val := int64(100000 + r.Intn(10000000))
				sl := &verifC20Slot{H: h, Tx: uint32(ti), Out: uint16(oi)}
				var script []byte
				x := r.Intn(100)
				switch {
				case sentSlot == nil && !hiddenBlk:
					sl.Kind = verifC20KindSentinel
					script = sent
					sentSlot = sl
				case hiddenBlk || x < 62:
					sl.Kind, script = verifC20KindGood, good
				case x < 74:
					sl.Kind, script = verifC20KindSpent, good
				case x < 87:
					sl.Kind, script = verifC20KindMismatch, mism
				default:
					sl.Kind, script = verifC20KindJunk, junk()
				}
				outs = append(outs, &wire.TxOut{Value: val, PkScript: script})
				newSlots = append(newSlots, sl)
			}
			txs = append(txs, verifC20Tx(r, &ctr, outs))
		}
		ch.addBlock(txs)
		for _, sl := range newSlots {
			if sl.Kind == verifC20KindSpent {
				tx := txs[sl.Tx]
				ch.spent[wire.OutPoint{Hash: tx.TxHash(), Index: uint32(sl.Out)}] = true
			}
			if hiddenBlk {
				hidden = append(hidden, sl)
			} else if sl.Kind != verifC20KindSentinel {
				slots = append(slots, sl)
			}
		}
	}
	for i := 0; i < nVisible; i++ {
		fundingBlock(false)
	}
	for i := 0; i < 3; i++ {
		filler()
	}
	ch.tip = int32(len(ch.blocks) - 1)
	for i := 0; i < nHidden; i++ {
		fundingBlock(true)
	}
	return ch, slots, hidden, sentSlot, nHidden
}

func (s *verifC20Scn) freshSlot(kind int) *verifC20Slot {
	var cands, any []*verifC20Slot
	for _, sl := range s.slots {
		if sl.Kind != kind || sl == s.main {
			continue
		}
		any = append(any, sl)
		if !sl.Used {
			cands = append(cands, sl)
		}
	}
	if len(cands) == 0 {
		cands = any
	}
	if len(cands) == 0 {
		return s.main
	}
	sl := cands[s.r.Intn(len(cands))]
	sl.Used = true
	return sl
}

var verifC20SigNames = [4]string{"node1", "node2", "btc1", "btc2"}

func verifC20CASig(a *lnwire.ChannelAnnouncement1, i int) *lnwire.Sig {
	switch i {
	case 0:
		return &a.NodeSig1
	case 1:
		return &a.NodeSig2
	case 2:
		return &a.BitcoinSig1
	}
	return &a.BitcoinSig2
}

func verifC20CAKey(a *lnwire.ChannelAnnouncement1, i int) *[33]byte {
	switch i {
	case 0:
		return &a.NodeID1
	case 1:
		return &a.NodeID2
	case 2:
		return &a.BitcoinKey1
	}
	return &a.BitcoinKey2
}

func verifC20SignCA(a *lnwire.ChannelAnnouncement1, keys [4]*btcec.PrivateKey) {
	d, _ := verifC20Digest(a)
	for i := 0; i < 4; i++ {
		*verifC20CASig(a, i) = verifC20Sign(keys[i], d)
	}
}

func verifC20BuildCA(scid lnwire.ShortChannelID, keys [4]*btcec.PrivateKey) *lnwire.ChannelAnnouncement1 {
	a := &lnwire.ChannelAnnouncement1{
		Features:       lnwire.NewRawFeatureVector(),
		ChainHash:      *chaincfg.MainNetParams.GenesisHash,
		ShortChannelID: scid,
	}
	for i := 0; i < 4; i++ {
		*verifC20CAKey(a, i) = verifC20Pub(keys[i])
	}
	verifC20SignCA(a, keys)
	return a
}

func (s *verifC20Scn) byteflip(m lnwire.Message, sigRegion bool) (lnwire.Message, int, bool) {
	w := verifC20Wire(m)
	if w == nil {
		return nil, 0, false
	}
	lo, hi := 2+64*verifC20NSigs(m), len(w)
	if sigRegion {
		lo, hi = 2, lo
	}
	off := lo + s.r.Intn(hi-lo)
	w2 := append([]byte(nil), w...)
	if s.r.Bool() {
		w2[off] ^= byte(1 << uint(s.r.Intn(8)))
	} else {
		w2[off] ^= byte(1 + s.r.Intn(255))
	}
	m2, err := lnwire.ReadMessage(bytes.NewReader(w2), 0)
	if err != nil {
		return nil, off, false
	}
	return m2, off - 2, true
}

func verifC20Clone(m lnwire.Message) lnwire.Message {
	w := verifC20Wire(m)
	if w == nil {
		return nil
	}
	m2, err := lnwire.ReadMessage(bytes.NewReader(w), 0)
	if err != nil {
		return nil
	}
	return m2
}

func (s *verifC20Scn) genCA() (string, lnwire.Message) {
	r := s.r
	slot := s.freshSlot(verifC20KindGood)
	if !s.mainAnnounced && r.Chance(1, 6) {
		slot = s.main
	} else if len(s.announced) > 0 && r.Chance(1, 8) {
		// a (possibly different, possibly corrupted) announcement for a
		// channel that was already announced.
		slot = s.announced[r.Intn(len(s.announced))]
	}
	keys := s.keys
	a := verifC20BuildCA(slot.scid(), keys)
	d, _ := verifC20Digest(a)

	if r.Chance(3, 10) {
		sigRegion := r.Chance(1, 4)
		if m2, off, ok := s.byteflip(a, sigRegion); ok {
			s.vc.Sig(fmt.Sprintf("bf|CA|%d", off))
			return "ca.byteflip", m2
		}
		s.vc.Count("undecodable_byteflips", 1)
	}

	pick := r.Intn(30)
	switch {
	case pick < 4:
		if slot == s.main {
			s.mainAnnounced = true
		}
		s.announced = append(s.announced, slot)
		return "ca.valid", a
	case pick < 6:
		i := r.Intn(4)
		*verifC20CASig(a, i) = verifC20Sign(verifC20Key(r), d)
		return "ca.sig." + verifC20SigNames[i] + ".wrongkey", a
	case pick < 7:
		i := r.Intn(4)
		*verifC20CASig(a, i) = verifC20Sign(keys[i], r.Bytes(32))
		return "ca.sig." + verifC20SigNames[i] + ".otherdigest", a
	case pick < 10:
		i := r.Intn(4)
		j := (i + 1 + r.Intn(3)) % 4
		*verifC20CASig(a, i) = *verifC20CASig(a, j)
		return "ca.sig." + verifC20SigNames[i] + ".swap." + verifC20SigNames[j], a
	case pick < 11:
		i := r.Intn(4)
		raw := append([]byte(nil), verifC20CASig(a, i).RawBytes()...)
		raw[r.Intn(64)] ^= byte(1 << uint(r.Intn(8)))
		*verifC20CASig(a, i) = verifC20RawSig(raw)
		return "ca.sig." + verifC20SigNames[i] + ".bitflip", a
	case pick < 12:
		i := r.Intn(4)
		*verifC20CASig(a, i) = verifC20RawSig(make([]byte, 64))
		return "ca.sig." + verifC20SigNames[i] + ".zero", a
	case pick < 13:
		i := r.Intn(4)
		*verifC20CAKey(a, i) = verifC20Pub(verifC20Key(r))
		return "ca.key." + verifC20SigNames[i] + ".fresh.noresign", a
	case pick < 15:
		i := r.Intn(4)
		k2 := keys
		k2[i] = verifC20Key(r)
		return "ca.key." + verifC20SigNames[i] + ".fresh.resign", verifC20BuildCA(slot.scid(), k2)
	case pick < 16:
		if r.Bool() {
			a.NodeID1, a.NodeID2 = a.NodeID2, a.NodeID1
			return "ca.key.nodeswap.noresign", a
		}
		a.BitcoinKey1, a.BitcoinKey2 = a.BitcoinKey2, a.BitcoinKey1
		return "ca.key.btcswap.noresign", a
	case pick < 17:
		k2 := [4]*btcec.PrivateKey{keys[0], keys[1], keys[3], keys[2]}
		s.announced = append(s.announced, slot)
		return "ca.key.btcswap.resign", verifC20BuildCA(slot.scid(), k2)
	case pick < 18:
		k2 := [4]*btcec.PrivateKey{keys[1], keys[0], keys[2], keys[3]}
		return "ca.nodeorder.resign", verifC20BuildCA(slot.scid(), k2)
	case pick < 21:
		scid := slot.scid()
		delta := 1 + r.Intn(2)
		if r.Chance(1, 4) {
			delta = 1 + r.Intn(500)
		}
		if r.Bool() {
			delta = -delta
		}
		var f string
		switch r.Intn(3) {
		case 0:
			f = "block"
			scid.BlockHeight = uint32(int(scid.BlockHeight)+delta) & 0xffffff
		case 1:
			f = "tx"
			scid.TxIndex = uint32(int(scid.TxIndex)+delta) & 0xffffff
		default:
			f = "out"
			scid.TxPosition = uint16(int(scid.TxPosition) + delta)
		}
		if r.Bool() {
			a.ShortChannelID = scid
			return "ca.scid." + f + ".noresign", a
		}
		return "ca.scid." + f + ".resign", verifC20BuildCA(scid, keys)
	case pick < 25:
		kind := []int{verifC20KindSpent, verifC20KindMismatch, verifC20KindJunk}[r.Intn(3)]
		sl2 := s.freshSlot(kind)
		return "ca.funding." + verifC20KindNames[sl2.Kind], verifC20BuildCA(sl2.scid(), keys)
	case pick < 26:
		a.ChainHash[r.Intn(32)] ^= 0x01
		if r.Bool() {
			return "ca.chainhash.noresign", a
		}
		verifC20SignCA(a, keys)
		return "ca.chainhash.resign", a
	case pick < 27:
		bit := lnwire.FeatureBit(r.Intn(24))
		if r.Chance(1, 3) {
			bit = lnwire.SimpleTaprootChannelsOptionalStaging
		}
		a.Features.Set(bit)
		if r.Bool() {
			return "ca.features.noresign", a
		}
		verifC20SignCA(a, keys)
		if bit == lnwire.SimpleTaprootChannelsOptionalStaging {
			return "ca.features.taproot.resign", a
		}
		s.announced = append(s.announced, slot)
		return "ca.features.resign", a
	case pick < 28:
		a.ExtraOpaqueData = append([]byte(nil), verifC20Extra...)
		if r.Bool() {
			return "ca.extra.noresign", a
		}
		verifC20SignCA(a, keys)
		s.announced = append(s.announced, slot)
		return "ca.extra.resign", a
	default:
		if len(s.hidden) > 0 {
			sl2 := s.hidden[r.Intn(len(s.hidden))]
			f := verifC20BuildCA(sl2.scid(), keys)
			if r.Chance(1, 3) {
				i := r.Intn(4)
				*verifC20CASig(f, i) = verifC20Sign(verifC20Key(r), r.Bytes(32))
				return "ca.future.badsig", f
			}
			return "ca.future.valid", f
		}
		return "ca.valid", a
	}
}

func (s *verifC20Scn) capOf(scid lnwire.ShortChannelID) uint64 {
	if ch := s.snap.chans[scid.ToUint64()]; ch != nil && ch.Cap > 0 {
		return uint64(ch.Cap)
	}
	if out, _, ok := s.c.chain.lookup(scid); ok {
		return uint64(out.Value)
	}
	return 1000000
}

func verifC20SignCU(u *lnwire.ChannelUpdate1, k *btcec.PrivateKey) {
	d, _ := verifC20Digest(u)
	u.Signature = verifC20Sign(k, d)
}

func (s *verifC20Scn) signerFor(pub [33]byte) *btcec.PrivateKey {
	for i := 0; i < 2; i++ {
		if verifC20Pub(s.keys[i]) == pub {
			return s.keys[i]
		}
	}
	return nil
}

func (s *verifC20Scn) genCU() (string, lnwire.Message) {
	r := s.r
	scid := s.main.scid()
	x := r.Intn(10)
	switch {
	case x < 8:
	case x < 9 && len(s.announced) > 0:
		scid = s.announced[r.Intn(len(s.announced))].scid()
	default:
		scid = s.freshSlot(verifC20KindGood).scid()
	}
	dir := r.Intn(2)
	ch := s.snap.chans[scid.ToUint64()]
	var st *verifC20Pol
	signer, otherSigner := s.keys[dir], s.keys[1-dir]
	if ch != nil {
		st = ch.Pol[dir]
		own, oth := ch.N1, ch.N2
		if dir == 1 {
			own, oth = ch.N2, ch.N1
		}
		if k := s.signerFor(own); k != nil {
			signer = k
		}
		if k := s.signerFor(oth); k != nil {
			otherSigner = k
		}
	}
	baseTs := uint32(1600000000 + r.Intn(1000))
	if st != nil {
		baseTs = st.Ts
	}
	capMsat := s.capOf(scid) * 1000
	minH := uint64(1 + r.Intn(1000))
	maxH := capMsat / uint64(1+r.Intn(4))
	if maxH < minH {
		maxH = minH
	}
	u := &lnwire.ChannelUpdate1{
		ChainHash:       *chaincfg.MainNetParams.GenesisHash,
		ShortChannelID:  scid,
		Timestamp:       baseTs + 1 + uint32(r.Intn(5000)),
		MessageFlags:    lnwire.ChanUpdateRequiredMaxHtlc,
		ChannelFlags:    lnwire.ChanUpdateChanFlags(dir),
		TimeLockDelta:   uint16(1 + r.Intn(2000)),
		HtlcMinimumMsat: lnwire.MilliSatoshi(minH),
		HtlcMaximumMsat: lnwire.MilliSatoshi(maxH),
		BaseFee:         uint32(r.Intn(100000)),
		FeeRate:         uint32(r.Intn(100000)),
	}
	verifC20SignCU(u, signer)

	if r.Chance(3, 10) {
		sigRegion := r.Chance(1, 4)
		if m2, off, ok := s.byteflip(u, sigRegion); ok {
			s.vc.Sig(fmt.Sprintf("bf|CU|%d", off))
			return "cu.byteflip", m2
		}
		s.vc.Count("undecodable_byteflips", 1)
	}

	keepalive := func(dt uint32) bool {
		if st == nil {
			return false
		}
		u.Timestamp = st.Ts + dt
		u.MessageFlags = lnwire.ChanUpdateMsgFlags(st.MsgFlags)
		u.ChannelFlags = lnwire.ChanUpdateChanFlags(st.ChanFlags)
		u.TimeLockDelta = st.Cltv
		u.HtlcMinimumMsat = lnwire.MilliSatoshi(st.Min)
		u.HtlcMaximumMsat = lnwire.MilliSatoshi(st.Max)
		u.BaseFee = uint32(st.Base)
		u.FeeRate = uint32(st.Rate)
		u.ExtraOpaqueData = append([]byte(nil), st.Extra...)
		return true
	}

	pick := r.Intn(32)
	switch {
	case pick < 5:
		return "cu.valid.newer", u
	case pick < 6:
		if keepalive(1) {
			verifC20SignCU(u, signer)
			return "cu.keepalive.plus1", u
		}
		return "cu.valid.newer", u
	case pick < 7:
		if keepalive(2 * 86400) {
			verifC20SignCU(u, signer)
			return "cu.keepalive.plus2d", u
		}
		return "cu.valid.newer", u
	case pick < 9:
		u.Timestamp = baseTs
		verifC20SignCU(u, signer)
		return "cu.ts.equal", u
	case pick < 11:
		u.Timestamp = baseTs - 1 - uint32(r.Intn(3))
		verifC20SignCU(u, signer)
		return "cu.ts.older", u
	case pick < 12:
		u.Timestamp = baseTs + 1
		verifC20SignCU(u, signer)
		return "cu.ts.plus1", u
	case pick < 13:
		u.Timestamp = 0
		verifC20SignCU(u, signer)
		return "cu.ts.zero", u
	case pick < 14:
		u.Timestamp = 0xffffff00
		verifC20SignCU(u, signer)
		return "cu.ts.farfuture", u
	case pick < 17:
		verifC20SignCU(u, otherSigner)
		return "cu.sig.otherdir", u
	case pick < 18:
		verifC20SignCU(u, verifC20Key(r))
		return "cu.sig.randkey", u
	case pick < 19:
		u.Signature = verifC20Sign(signer, r.Bytes(32))
		return "cu.sig.otherdigest", u
	case pick < 20:
		u.ChannelFlags ^= lnwire.ChanUpdateDirection
		return "cu.dir.flip.noresign", u
	case pick < 21:
		u.HtlcMaximumMsat = u.HtlcMinimumMsat - 1
		if u.HtlcMaximumMsat == 0 {
			u.HtlcMinimumMsat, u.HtlcMaximumMsat = 5, 4
		}
		verifC20SignCU(u, signer)
		return "cu.fields.maxltmin", u
	case pick < 22:
		u.HtlcMaximumMsat = 0
		u.HtlcMinimumMsat = 0
		verifC20SignCU(u, signer)
		return "cu.fields.max0", u
	case pick < 23:
		u.HtlcMaximumMsat = lnwire.MilliSatoshi(capMsat + 1 + uint64(r.Intn(1000)))
		verifC20SignCU(u, signer)
		return "cu.fields.maxgtcap", u
	case pick < 24:
		u.MessageFlags = 0
		verifC20SignCU(u, signer)
		return "cu.fields.nomaxflag", u
	case pick < 25:
		u.ChainHash[r.Intn(32)] ^= 0x80
		if r.Bool() {
			return "cu.chainhash.noresign", u
		}
		verifC20SignCU(u, signer)
		return "cu.chainhash.resign", u
	case pick < 26:
		u.ShortChannelID.TxPosition += uint16(1 + r.Intn(3))
		if r.Bool() {
			return "cu.scid.noresign", u
		}
		verifC20SignCU(u, signer)
		return "cu.scid.resign", u
	case pick < 27:
		u.ExtraOpaqueData = append([]byte(nil), verifC20Extra...)
		if r.Bool() {
			return "cu.extra.noresign", u
		}
		verifC20SignCU(u, signer)
		return "cu.extra.resign", u
	case pick < 28:
		u.ChannelFlags |= lnwire.ChanUpdateDisabled
		verifC20SignCU(u, signer)
		return "cu.flags.disabled", u
	case pick < 29:
		u.MessageFlags |= 0x40
		verifC20SignCU(u, signer)
		return "cu.msgflags.unknownbit.resign", u
	case pick < 30:
		// a correctly signed update of the *other* direction's owner for
		// this direction, newer: wrong-direction signer with flipped bit.
		u.ChannelFlags ^= lnwire.ChanUpdateDirection
		verifC20SignCU(u, signer)
		return "cu.dir.flip.resign", u
	default:
		raw := append([]byte(nil), u.Signature.RawBytes()...)
		raw[r.Intn(64)] ^= byte(1 << uint(r.Intn(8)))
		u.Signature = verifC20RawSig(raw)
		return "cu.sig.bitflip", u
	}
}

func verifC20SignNA(n *lnwire.NodeAnnouncement1, k *btcec.PrivateKey) {
	d, _ := verifC20Digest(n)
	n.Signature = verifC20Sign(k, d)
}

func (s *verifC20Scn) genNA() (string, lnwire.Message) {
	r := s.r
	var key, otherKey *btcec.PrivateKey
	unknown := false
	switch x := r.Intn(10); {
	case x < 4:
		key, otherKey = s.keys[0], s.keys[1]
	case x < 8:
		key, otherKey = s.keys[1], s.keys[0]
	default:
		key, otherKey = verifC20Key(r), s.keys[0]
		unknown = true
	}
	pub := verifC20Pub(key)
	baseTs := uint32(1600000000 + r.Intn(1000))
	if st := s.snap.nodes[pub]; st != nil && st.HasAnn {
		baseTs = uint32(st.Ts)
	}
	alias, _ := lnwire.NewNodeAlias("n" + hex.EncodeToString(r.Bytes(6)))
	n := &lnwire.NodeAnnouncement1{
		Features:  lnwire.NewRawFeatureVector(),
		Timestamp: baseTs + 1 + uint32(r.Intn(5000)),
		NodeID:    pub,
		RGBColor:  color.RGBA{R: uint8(r.Intn(256)), G: uint8(r.Intn(256)), B: uint8(r.Intn(256))},
		Alias:     alias,
		Addresses: []net.Addr{&net.TCPAddr{IP: net.IP{10, 0, byte(r.Intn(256)), byte(1 + r.Intn(250))}, Port: 9735}},
	}
	verifC20SignNA(n, key)
	if unknown {
		if r.Chance(1, 2) {
			return "na.unknownnode.valid", n
		}
	}

	if r.Chance(3, 10) {
		sigRegion := r.Chance(1, 4)
		if m2, off, ok := s.byteflip(n, sigRegion); ok {
			s.vc.Sig(fmt.Sprintf("bf|NA|%d", off))
			return "na.byteflip", m2
		}
		s.vc.Count("undecodable_byteflips", 1)
	}

	pick := r.Intn(22)
	switch {
	case pick < 5:
		return "na.valid.newer", n
	case pick < 7:
		n.Timestamp = baseTs
		verifC20SignNA(n, key)
		return "na.ts.equal", n
	case pick < 9:
		n.Timestamp = baseTs - 1 - uint32(r.Intn(3))
		verifC20SignNA(n, key)
		return "na.ts.older", n
	case pick < 10:
		n.Timestamp = baseTs + 1
		verifC20SignNA(n, key)
		return "na.ts.plus1", n
	case pick < 11:
		n.Timestamp = 0
		verifC20SignNA(n, key)
		return "na.ts.zero", n
	case pick < 13:
		verifC20SignNA(n, otherKey)
		return "na.sig.otherkey", n
	case pick < 14:
		verifC20SignNA(n, verifC20Key(r))
		return "na.sig.randkey", n
	case pick < 15:
		n.Signature = verifC20Sign(key, r.Bytes(32))
		return "na.sig.otherdigest", n
	case pick < 16:
		raw := append([]byte(nil), n.Signature.RawBytes()...)
		raw[r.Intn(64)] ^= byte(1 << uint(r.Intn(8)))
		n.Signature = verifC20RawSig(raw)
		return "na.sig.bitflip", n
	case pick < 17:
		n.NodeID = verifC20Pub(otherKey)
		return "na.nodeid.swap.noresign", n
	case pick < 18:
		n.Features.Set(lnwire.FeatureBit(r.Intn(40)))
		if r.Bool() {
			return "na.features.noresign", n
		}
		verifC20SignNA(n, key)
		return "na.features.resign", n
	case pick < 19:
		n.ExtraOpaqueData = append([]byte(nil), verifC20Extra...)
		if r.Bool() {
			return "na.extra.noresign", n
		}
		verifC20SignNA(n, key)
		return "na.extra.resign", n
	case pick < 20:
		a2, _ := lnwire.NewNodeAlias("x" + hex.EncodeToString(r.Bytes(6)))
		n.Alias = a2
		return "na.alias.noresign", n
	case pick < 21:
		n.Addresses = []net.Addr{&net.TCPAddr{IP: net.IP{192, 168, 1, byte(r.Intn(250))}, Port: 1}}
		return "na.addr.noresign", n
	default:
		n.RGBColor.R ^= 0xff
		return "na.color.noresign", n
	}
}

func (s *verifC20Scn) genReplay() (string, lnwire.Message) {
	if len(s.c.recs) == 0 {
		return s.genNA()
	}
	rec := s.c.recs[s.r.Intn(len(s.c.recs))]
	m := verifC20Clone(rec.Msg)
	if m == nil {
		return s.genNA()
	}
	return "replay." + verifC20LabelClass(rec.Label), m
}

// ---------------------------------------------------------------------------
// The monitor: submit one message / reveal blocks, judge.
// ---------------------------------------------------------------------------

// verifC20ReencodeSeen counts occurrences of the one fingerprint that the
// unchanged tree produces (see checkBroadcasts); only the first few are
// emitted as violation records and they do not count towards the
// "too many violations, stop the scenario" threshold.
var verifC20ReencodeSeen int

type verifC20Allowed struct {
	why   string
	cands []*lnwire.ChannelUpdate1
}

func verifC20LabelClass(l string) string {
	for strings.HasPrefix(l, "replay.") {
		l = strings.TrimPrefix(l, "replay.")
	}
	return l
}

func verifC20MsgKind(m lnwire.Message) string {
	switch m.(type) {
	case *lnwire.ChannelAnnouncement1:
		return "CA"
	case *lnwire.ChannelUpdate1:
		return "CU"
	case *lnwire.NodeAnnouncement1:
		return "NA"
	}
	return "?"
}

func (c *verifC20Ctx) inPrematureCache(m lnwire.Message) bool {
	u, ok := m.(*lnwire.ChannelUpdate1)
	if !ok {
		return false
	}
	cm, err := c.gossiper.prematureChannelUpdates.Get(u.ShortChannelID.ToUint64())
	if err != nil || cm == nil {
		return false
	}
	for _, pm := range cm.msgs {
		if pm != nil && pm.msg != nil && pm.msg.msg == m {
			return true
		}
	}
	return false
}

func (s *verifC20Scn) witness(extra map[string]any) map[string]any {
	w := map[string]any{"steps": s.log}
	for k, v := range extra {
		w[k] = v
	}
	return w
}

// allowCA computes the keys a (reference-valid, new) channel announcement may
// change, including the application of cached updates for that channel.
func (s *verifC20Scn) allowCA(a *lnwire.ChannelAnnouncement1, before *verifC20Snap,
	allowed map[string]*verifC20Allowed, extraCUs []*lnwire.ChannelUpdate1) bool {

	c := s.c
	v := c.refCA(a)
	scid := a.ShortChannelID.ToUint64()
	_, exists := before.chans[scid]
	if !v.Valid || exists {
		return false
	}
	allowed[fmt.Sprintf("chan/%d", scid)] = &verifC20Allowed{why: "valid-new-channel"}
	for _, id := range [][33]byte{a.NodeID1, a.NodeID2} {
		k := "node/" + hex.EncodeToString(id[:])
		if _, ok := before.kv[k]; !ok {
			if _, ok2 := allowed[k]; !ok2 {
				allowed[k] = &verifC20Allowed{why: "shell-node-of-new-channel"}
			}
		}
	}
	c.justified[hex.EncodeToString(verifC20Wire(a))] = true
	out, _, _ := c.chain.lookup(a.ShortChannelID)
	nch := &verifC20Chan{N1: a.NodeID1, N2: a.NodeID2, Cap: out.Value}
	var cus []*lnwire.ChannelUpdate1
	for _, p := range c.pending {
		if u, ok := p.Msg.(*lnwire.ChannelUpdate1); ok && p.Scid == scid {
			cus = append(cus, u)
		}
	}
	cus = append(cus, extraCUs...)
	for _, u := range cus {
		if u.ShortChannelID.ToUint64() != scid {
			continue
		}
		if vv := verifC20RefCU(u, nch); vv.Valid {
			k := fmt.Sprintf("pol/%d/%d", scid, u.ChannelFlags&lnwire.ChanUpdateDirection)
			al := allowed[k]
			if al == nil {
				al = &verifC20Allowed{why: "cached-update-of-new-channel"}
				allowed[k] = al
			}
			al.cands = append(al.cands, u)
			c.justified[hex.EncodeToString(verifC20Wire(u))] = true
		}
	}
	return true
}

func verifC20PolMatches(p *verifC20Pol, u *lnwire.ChannelUpdate1) bool {
	return p != nil && p.Ts == u.Timestamp && p.ChanFlags == uint8(u.ChannelFlags) &&
		p.MsgFlags == uint8(u.MessageFlags) && p.Cltv == u.TimeLockDelta &&
		p.Min == uint64(u.HtlcMinimumMsat) && p.Max == uint64(u.HtlcMaximumMsat) &&
		p.Base == uint64(u.BaseFee) && p.Rate == uint64(u.FeeRate)
}

// judge evaluates the graph oracle for one step.
func (s *verifC20Scn) judge(label, kind string, before, after *verifC20Snap,
	allowed map[string]*verifC20Allowed, ca *lnwire.ChannelAnnouncement1,
	na *lnwire.NodeAnnouncement1, entry map[string]any) []string {

	vc := s.vc
	changed := verifC20Diff(before, after)
	entry["changed"] = changed
	vc.Count("oracle_graph_evals", 1)
	lc := verifC20LabelClass(label)
	for _, k := range changed {
		al := allowed[k]
		kk := strings.SplitN(k, "/", 2)[0]
		if kk == "hz" {
			// the horizon view of a policy may change exactly when the policy
			// itself may.
			al = allowed["pol/"+strings.SplitN(k, "/", 2)[1]]
			if al != nil {
				vc.Count("hz_changes_allowed", 1)
				continue
			}
		}
		if al == nil {
			_, was := before.kv[k]
			_, is := after.kv[k]
			how := "modified"
			if !was {
				how = "added"
			} else if !is {
				how = "removed"
			}
			vc.Violation("graph_unchanged_unless_valid",
				fmt.Sprintf("%s:%s:%s-%s", kind, lc, kk, how),
				fmt.Sprintf("step %q (%s): graph key %s %s although the reference predicate does not allow it (reason=%v)\nbefore=%q\nafter=%q",
					label, kind, k, how, entry["ref"], before.kv[k], after.kv[k]),
				s.witness(map[string]any{"key": k, "before": before.kv[k], "after": after.kv[k]}))
			continue
		}
		// The stored content must be the authenticated content.
		vc.Count("oracle_applied_matches_evals", 1)
		ok := true
		switch kk {
		case "chan":
			if al.why == "valid-duplicate" {
				vc.Diag("known_channel_replaced_by_valid_duplicate", k+" -> "+after.kv[k])
				continue
			}
			if ca != nil {
				ch := after.chans[ca.ShortChannelID.ToUint64()]
				ok = ch != nil && ch.N1 == ca.NodeID1 && ch.N2 == ca.NodeID2 &&
					ch.HasBtc && ch.B1 == ca.BitcoinKey1 && ch.B2 == ca.BitcoinKey2
			}
			vc.Count("applied_ca", 1)
		case "pol":
			var scid uint64
			var d int
			fmt.Sscanf(k, "pol/%d/%d", &scid, &d)
			var p *verifC20Pol
			if ch := after.chans[scid]; ch != nil {
				p = ch.Pol[d]
			}
			ok = false
			for _, u := range al.cands {
				if verifC20PolMatches(p, u) {
					ok = true
				}
			}
			vc.Count("applied_cu", 1)
		case "node":
			if na != nil && al.why == "valid-newer-node-ann" {
				nr := after.nodes[na.NodeID]
				ok = nr != nil && nr.HasAnn && nr.Ts == int64(na.Timestamp)
				vc.Count("applied_na", 1)
			}
		}
		if !ok {
			vc.Violation("applied_matches_message",
				fmt.Sprintf("%s:%s:%s", kind, lc, kk),
				fmt.Sprintf("step %q: graph key %s was changed (allowed: %s) but the stored value does not match the authenticated message: %q",
					label, k, al.why, after.kv[k]),
				s.witness(map[string]any{"key": k, "after": after.kv[k]}))
		}
	}
	for k, al := range allowed {
		found := false
		for _, ck := range changed {
			if ck == k {
				found = true
			}
		}
		if !found && al.why != "shell-node-of-new-channel" && al.why != "valid-duplicate" {
			vc.Count("valid_not_applied", 1)
			extra := ""
			if ca != nil && strings.HasPrefix(k, "chan/") {
				z, _ := s.c.builder.IsZombieEdge(ca.ShortChannelID)
				cl, _ := s.c.gossiper.cfg.ScidCloser.IsClosedScid(s.c.ctx, ca.ShortChannelID)
				extra = fmt.Sprintf(" zombie=%v closed=%v", z, cl)
				if !z && !cl && entry["err"] == "" {
					vc.Count("valid_ca_silently_dropped", 1)
				}
			}
			vc.Diag("valid_not_applied:"+lc, fmt.Sprintf("%s allowed (%s) but unchanged; lnd err=%v%s", k, al.why, entry["err"], extra))
		}
	}
	return changed
}

func (s *verifC20Scn) checkBroadcasts(label string) {
	c := s.c
	c.bmu.Lock()
	news := append([]verifC20Bcast(nil), c.blog[c.bchecked:]...)
	c.bchecked = len(c.blog)
	c.bmu.Unlock()
	for _, b := range news {
		if c.sentKeys[b.Key] {
			continue
		}
		s.vc.Count("oracle_bcast_evals", 1)
		if c.justified[b.Key] {
			s.vc.Count("bcast_justified", 1)
			continue
		}
		src := "never-submitted"
		for _, rec := range c.recs {
			if rec.Hex == b.Key {
				src = verifC20LabelClass(rec.Label)
			}
		}
		if src == "never-submitted" {
			// Is it an accepted channel_update that lnd re-encoded into
			// different bytes (same signature, different signed content)?
			if raw, err := hex.DecodeString(b.Key); err == nil && len(raw) > 66 && raw[0] == 1 && raw[1] == 2 {
				for _, rec := range c.recs {
					u, ok := rec.Msg.(*lnwire.ChannelUpdate1)
					if !ok || !c.justified[rec.Hex] {
						continue
					}
					orig, _ := hex.DecodeString(rec.Hex)
					if len(orig) > 66 && bytes.Equal(orig[2:66], raw[2:66]) {
						d1 := sha256.Sum256(raw[66:])
						d2 := sha256.Sum256(d1[:])
						okSig := false
						if ch := s.snap.chans[u.ShortChannelID.ToUint64()]; ch != nil {
							k := ch.N1[:]
							if u.ChannelFlags&lnwire.ChanUpdateDirection == 1 {
								k = ch.N2[:]
							}
							okSig = verifC20SigOK(raw[2:66], d2[:], k)
						}
						s.vc.Count("relayed_update_bytes_differ", 1)
						verifC20ReencodeSeen++
						if verifC20ReencodeSeen > 3 {
							// same fingerprint; keep the per-process
							// violation budget for other keys.
							src = ""
							break
						}
						s.vc.Violation("not_relayed_unless_valid",
							"ChannelUpdate:accepted-update-relayed-with-different-signed-bytes",
							fmt.Sprintf("after step %q: lnd accepted the channel_update of step %d (%s) and relayed it, but the bytes handed to peers differ from the bytes that were signed and accepted (signature of relayed bytes verifies under the direction's node key: %v)\naccepted=%s\nrelayed =%s",
								label, rec.Idx, rec.Label, okSig, rec.Hex, b.Key),
							s.witness(map[string]any{"accepted": rec.Hex, "relayed": b.Key,
								"relayed_signature_valid": okSig, "origin_step": rec.Idx}))
						src = ""
						break
					}
				}
				if src == "" {
					continue
				}
			}
		}
		s.vc.Violation("not_relayed_unless_valid",
			fmt.Sprintf("%s:%s", b.Type, src),
			fmt.Sprintf("after step %q: %s broadcast to peers, but the reference predicate never judged it valid+fresh (origin %s): %s",
				label, b.Type, src, b.Key),
			s.witness(map[string]any{"broadcast": b.Key, "origin": src}))
	}
}

// awaitCachedFor waits for pending (premature) updates of channels that now
// exist; lnd re-injects them after adding the channel.
func (s *verifC20Scn) awaitCachedFor(after *verifC20Snap) bool {
	c := s.c
	any := false
	var keep []*verifC20Rec
	for _, p := range c.pending {
		if _, ok := after.chans[p.Scid]; ok {
			rec := p
			c.poll("re-processing of a cached channel_update", rec.tryResolve)
			any = true
			continue
		}
		keep = append(keep, p)
	}
	c.pending = keep
	return any
}

func (s *verifC20Scn) submit(idx int, label string, m lnwire.Message) {
	c, vc, r := s.c, s.vc, s.r
	before := s.snap
	kind := verifC20MsgKind(m)
	whex := hex.EncodeToString(verifC20Wire(m))
	entry := map[string]any{"i": idx, "label": label, "type": kind, "wire": whex}
	s.log = append(s.log, entry)
	vc.Count("msgs", 1)
	vc.Count("msgs_"+kind, 1)

	allowed := map[string]*verifC20Allowed{}
	var ca *lnwire.ChannelAnnouncement1
	var na *lnwire.NodeAnnouncement1
	var ref verifC20Verdict
	scid := uint64(0)
	switch mm := m.(type) {
	case *lnwire.ChannelAnnouncement1:
		ca = mm
		scid = mm.ShortChannelID.ToUint64()
		ref = c.refCA(mm)
		if _, exists := before.chans[scid]; ref.Valid && exists {
			// All "only if" conditions of the statement hold, but the
			// channel is already known: replacing the stored channel by
			// another fully valid announcement is not forbidden by the
			// statement, so a change here is only a diagnostic.
			ref = verifC20Verdict{Reason: "valid-but-known"}
			allowed[fmt.Sprintf("chan/%d", scid)] = &verifC20Allowed{why: "valid-duplicate"}
		}
		s.allowCA(mm, before, allowed, nil)
	case *lnwire.ChannelUpdate1:
		scid = mm.ShortChannelID.ToUint64()
		ref = verifC20RefCU(mm, before.chans[scid])
		if ref.Valid {
			k := fmt.Sprintf("pol/%d/%d", scid, mm.ChannelFlags&lnwire.ChanUpdateDirection)
			allowed[k] = &verifC20Allowed{why: "valid-newer-update", cands: []*lnwire.ChannelUpdate1{mm}}
			c.justified[whex] = true
		}
	case *lnwire.NodeAnnouncement1:
		na = mm
		ref = verifC20RefNA(mm, before)
		if ref.Valid {
			allowed["node/"+hex.EncodeToString(mm.NodeID[:])] = &verifC20Allowed{why: "valid-newer-node-ann"}
			c.justified[whex] = true
		}
	}
	entry["ref"] = map[string]any{"valid": ref.Valid, "reason": ref.Reason, "scope": ref.Scope}
	if ref.Valid {
		vc.Count("ref_valid", 1)
	} else {
		vc.Count("ref_invalid", 1)
	}

	peer := &mockPeer{pk: verifC20Key(r).PubKey()}
	if r.Chance(1, 8) && !s.noShared {
		peer = s.shared
		entry["peer"] = "shared"
	}
	s.countPostRestart(m, whex, scid, ref, before)
	rec := &verifC20Rec{Idx: idx, Label: label, Msg: m, Hex: whex, Scid: scid}
	tSubmit := time.Now()
	rec.fut = c.gossiper.ProcessRemoteAnnouncement(c.ctx, m, peer)
	c.recs = append(c.recs, rec)
	flushKey := c.quiesce()
	tDone := time.Now()
	if !rec.tryResolve() {
		c.poll("message result or premature cache entry", func() bool {
			return rec.tryResolve() || c.inPrematureCache(m)
		})
		if !rec.Resolved {
			rec.Pending = "premature"
			c.pending = append(c.pending, rec)
			vc.Count("premature_cached", 1)
		}
	}
	entry["err"] = rec.Err
	entry["pending"] = rec.Pending
	if rec.Err != "" {
		vc.Count("lnd_err", 1)
	}
	after := c.snapshot()
	if ca != nil {
		if s.awaitCachedFor(after) {
			flushKey = c.quiesce()
			after = c.snapshot()
			vc.Count("premature_reprocessed", 1)
		}
	}
	changed := s.judge(label, kind, before, after, allowed, ca, na, entry)
	caScid := uint64(0)
	if al := allowed[fmt.Sprintf("chan/%d", scid)]; ca != nil && al != nil && al.why == "valid-new-channel" {
		caScid = scid
	}
	s.judgeZombies(label, kind, m, caScid, before, after, tSubmit, tDone, entry)
	c.waitBroadcast(flushKey)
	s.checkBroadcasts(label)
	s.snap = after

	lc := verifC20LabelClass(label)
	if strings.HasSuffix(lc, "byteflip") || ref.Valid || len(changed) > 0 || rec.Err != "" || rec.Pending != "" {
		pre := ""
		if strings.HasPrefix(label, "replay.") {
			pre = "r."
		}
		vc.Sig(fmt.Sprintf("%s%s|v%v|c%v|e%v|p%s", pre, lc, ref.Valid, len(changed) > 0, rec.Err != "", rec.Pending))
	}
}

// mine reveals hidden blocks; messages cached for a future height are
// re-injected by lnd and judged here.
func (s *verifC20Scn) mine(idx int) {
	c, vc := s.c, s.vc
	before := s.snap
	entry := map[string]any{"i": idx, "label": "mine", "type": "blocks"}
	s.log = append(s.log, entry)
	vc.Count("mine_steps", 1)

	c.chain.mu.Lock()
	c.chain.tip++
	tip := c.chain.tip
	hash := c.chain.hashes[tip]
	c.chain.mu.Unlock()
	s.nHidden--
	entry["tip"] = tip

	type cached struct {
		msg lnwire.Message
		fut actor.Future[error]
	}
	var cs []cached
	c.gossiper.futureMsgs.Range(func(_ uint64, cm *cachedFutureMsg) bool {
		if cm.height <= uint32(tip) {
			cs = append(cs, cached{cm.msg.msg, cm.msg.errPromise.Future()})
		}
		return true
	})
	allowed := map[string]*verifC20Allowed{}
	var cus []*lnwire.ChannelUpdate1
	for _, x := range cs {
		if u, ok := x.msg.(*lnwire.ChannelUpdate1); ok {
			cus = append(cus, u)
		}
	}
	var labels []string
	for _, x := range cs {
		if a, ok := x.msg.(*lnwire.ChannelAnnouncement1); ok {
			s.allowCA(a, before, allowed, cus)
		}
		for _, rec := range c.recs {
			if rec.Msg == x.msg {
				labels = append(labels, rec.Label)
			}
		}
	}
	entry["cached"] = labels
	vc.Count("future_reinjected", int64(len(cs)))

	c.notifier.notifyBlock(hash, uint32(tip))
	c.poll("gossiper height", func() bool { return c.gossiper.latestHeight() == uint32(tip) })
	for _, x := range cs {
		x := x
		c.poll("re-processing of a future-height message", func() bool {
			_, ctxErr := x.fut.Await(verifC20DoneCtx).Unpack()
			return ctxErr == nil || c.inPrematureCache(x.msg)
		})
	}
	flushKey := c.quiesce()
	after := c.snapshot()
	// Cached future updates that became premature (unknown channel) are now
	// pending like any other premature update.
	for _, x := range cs {
		if u, ok := x.msg.(*lnwire.ChannelUpdate1); ok && c.inPrematureCache(x.msg) {
			if _, known := after.chans[u.ShortChannelID.ToUint64()]; known {
				continue
			}
			r2 := &verifC20Rec{Label: "future-cu", Msg: x.msg, fut: x.fut,
				Scid: u.ShortChannelID.ToUint64(), Pending: "premature",
				Hex: hex.EncodeToString(verifC20Wire(x.msg))}
			c.pending = append(c.pending, r2)
		}
	}
	if s.awaitCachedFor(after) {
		flushKey = c.quiesce()
		after = c.snapshot()
	}
	// A second pass for updates re-injected behind their channel.
	for _, x := range cs {
		x := x
		if _, ok := x.msg.(*lnwire.ChannelUpdate1); ok {
			c.poll("re-processing of a future-height update", func() bool {
				_, ctxErr := x.fut.Await(verifC20DoneCtx).Unpack()
				return ctxErr == nil || c.inPrematureCache(x.msg)
			})
		}
	}
	s.judge("mine", "blocks", before, after, allowed, nil, nil, entry)
	s.judgeZombies("mine", "blocks", nil, 0, before, after, time.Time{}, time.Time{}, entry)
	c.waitBroadcast(flushKey)
	s.checkBroadcasts("mine")
	s.snap = after
	vc.Sig(fmt.Sprintf("mine|n%d|c%v", len(cs), len(entry["changed"].([]string)) > 0))
}

// ---------------------------------------------------------------------------
// Zombie index: generator, reference model and oracle
// (zombie_stays_dead_unless_authentic).
//
// The harness brings channels into the zombie index of the real graph DB in
// every shape the index can hold (both node keys, only node 1's, only node
// 2's, none), through the calls lnd itself uses: ChannelGraph.MarkEdgeZombie /
// Builder.MarkZombieEdge ("direct") and ChannelGraph.DeleteChannelEdges(strict,
// markZombie=true) on a channel that is in the graph, which is exactly what
// Builder.pruneZombieChans issues ("prune" / "prune-strict"). It then delivers
// channel_updates for them (signer node 1 / node 2 / stranger x direction bit
// x timestamp classes) and the channel_announcement that legitimately
// re-adds a resurrected channel.
//
// Reference: an update may remove a zombie entry (resurrect) only if its
// signature verifies under the real key of the node that owns the flagged
// direction (known to the harness from its own key set, never taken from the
// zombie index), that very key is the one stored in the entry's slot for that
// node, and the timestamp is not older than the prune window
// (IsStaleEdgePolicy: "fall back to our usual ChannelPruneExpiry"). An update
// that fails any of the three must leave the entry untouched and must not be
// kept in the premature-update cache for replay; "not applied" and "not
// relayed" are judged by the graph and broadcast oracles as for any message.
// ---------------------------------------------------------------------------

type verifC20Zombie struct {
	Slot   *verifC20Slot
	Scid   uint64
	N      [2][33]byte          // real node keys of the channel (node1 < node2)
	K      [2]*btcec.PrivateKey // their private keys
	Route  string               // direct | prune | prune-strict
	Stored [2][33]byte          // keys recorded in the zombie index entry
	Allow  [2]bool              // Stored[i] == N[i]
	Shape  string               // both | only1 | only2 | none | odd(..)
}

const verifC20Day = 86400

// per-key emission budget of the zombie oracle (the process-wide budget is 50
// violation records) and the number of records it emitted (kept out of the
// "scenario is hopeless, stop" threshold).
var (
	verifC20ZSeen    = map[string]int{}
	verifC20ZEmitted int
)

func (s *verifC20Scn) zViolation(key, detail string, w map[string]any) {
	s.vc.Count("z_violations", 1)
	verifC20ZSeen[key]++
	if verifC20ZSeen[key] > 3 {
		return
	}
	verifC20ZEmitted++
	s.vc.Violation("zombie_stays_dead_unless_authentic", key, detail, s.witness(w))
}

func verifC20SoftViolations(vc *verifCtx) int {
	return vc.Violations() - verifC20Min(verifC20ReencodeSeen, 3) - verifC20ZEmitted
}

func (z *verifC20Zombie) slotName(i int) string {
	var blank [33]byte
	switch z.Stored[i] {
	case blank:
		return "-"
	case z.N[0]:
		return "n1"
	case z.N[1]:
		return "n2"
	}
	return "x"
}

func (z *verifC20Zombie) classify() {
	z.Allow = [2]bool{z.Stored[0] == z.N[0], z.Stored[1] == z.N[1]}
	a, b := z.slotName(0), z.slotName(1)
	switch {
	case a == "n1" && b == "n2":
		z.Shape = "both"
	case a == "n1" && b == "-":
		z.Shape = "only1"
	case a == "-" && b == "n2":
		z.Shape = "only2"
	case a == "-" && b == "-":
		z.Shape = "none"
	default:
		z.Shape = "odd(" + a + "," + b + ")"
	}
}

func (s *verifC20Scn) slotByScid(scid uint64) *verifC20Slot {
	for _, l := range [][]*verifC20Slot{s.slots, s.hidden} {
		for _, sl := range l {
			if sl.scid().ToUint64() == scid {
				return sl
			}
		}
	}
	return nil
}

func (s *verifC20Scn) track(z *verifC20Zombie) {
	if s.zBy == nil {
		s.zBy = map[uint64]*verifC20Zombie{}
	}
	if _, ok := s.zBy[z.Scid]; !ok {
		s.zombies = append(s.zombies, z)
		s.c.zTracked = append(s.c.zTracked, z.Scid)
	} else {
		for i, o := range s.zombies {
			if o.Scid == z.Scid {
				s.zombies[i] = z
			}
		}
	}
	s.zBy[z.Scid] = z
}

// buildCU makes a field-consistent channel_update.
func (s *verifC20Scn) buildCU(scid lnwire.ShortChannelID, dir int, ts uint32,
	k *btcec.PrivateKey) *lnwire.ChannelUpdate1 {

	r := s.r
	capMsat := s.capOf(scid) * 1000
	minH := uint64(1 + r.Intn(1000))
	maxH := capMsat / uint64(1+r.Intn(4))
	if maxH < minH {
		maxH = minH
	}
	u := &lnwire.ChannelUpdate1{
		ChainHash:       *chaincfg.MainNetParams.GenesisHash,
		ShortChannelID:  scid,
		Timestamp:       ts,
		MessageFlags:    lnwire.ChanUpdateRequiredMaxHtlc,
		ChannelFlags:    lnwire.ChanUpdateChanFlags(dir),
		TimeLockDelta:   uint16(1 + r.Intn(2000)),
		HtlcMinimumMsat: lnwire.MilliSatoshi(minH),
		HtlcMaximumMsat: lnwire.MilliSatoshi(maxH),
		BaseFee:         uint32(r.Intn(100000)),
		FeeRate:         uint32(r.Intn(100000)),
	}
	verifC20SignCU(u, k)
	return u
}

// zombify brings one channel into the zombie index (a harness action playing
// the role of lnd's pruning job / failed-validation marking; not a judged
// gossip step). Returns false when nothing could be done.
func (s *verifC20Scn) zombify(nextIdx *int) bool {
	c, r, vc := s.c, s.r, s.vc
	now := uint32(time.Now().Unix())
	n1, n2 := verifC20Pub(s.keys[0]), verifC20Pub(s.keys[1])

	// candidates for the pruning route: graph channels between our two
	// nodes (the sentinel channel has other keys).
	var inGraph []uint64
	for id, ch := range s.snap.chans {
		if ch.N1 == n1 && ch.N2 == n2 {
			inGraph = append(inGraph, id)
		}
	}
	sort.Slice(inGraph, func(i, j int) bool { return inGraph[i] < inGraph[j] })

	via := "direct"
	if r.Chance(1, 2) {
		via = "prune"
	}
	var slot *verifC20Slot
	if via == "direct" {
		for try := 0; try < 4 && slot == nil; try++ {
			sl := s.freshSlot(verifC20KindGood)
			id := sl.scid().ToUint64()
			_, live := s.snap.chans[id]
			if z, tracked := s.zBy[id]; live || (tracked && s.snap.zomb[z.Scid] != "") {
				continue
			}
			slot = sl
		}
		if slot == nil {
			via = "prune"
		}
	}

	entry := map[string]any{"i": *nextIdx, "label": "zombie.make", "type": "env"}
	*nextIdx++

	if via == "direct" {
		z := &verifC20Zombie{Slot: slot, Scid: slot.scid().ToUint64(),
			N: [2][33]byte{n1, n2}, K: [2]*btcec.PrivateKey{s.keys[0], s.keys[1]},
			Route: "direct"}
		var err error
		switch x := r.Intn(10); {
		case x < 3:
			z.Stored = [2][33]byte{n1, n2}
		case x < 6:
			z.Stored = [2][33]byte{n1, {}}
		case x < 9:
			z.Stored = [2][33]byte{{}, n2}
		}
		if z.Stored == ([2][33]byte{}) {
			// the form lnd uses for channels that failed validation.
			err = c.builder.MarkZombieEdge(z.Scid)
		} else {
			err = c.graph.MarkEdgeZombie(c.ctx, lnwire.GossipVersion1, z.Scid,
				z.Stored[0], z.Stored[1])
		}
		if err != nil {
			c.t.Fatalf("C20 harness: MarkEdgeZombie: %v", err)
		}
		z.classify()
		s.track(z)
		entry["route"], entry["shape"], entry["scid"] = z.Route, z.Shape, z.Scid
		s.log = append(s.log, entry)
		s.snap = c.snapshot()
		vc.Count("z_made", 1)
		vc.Count("z_made_direct_"+z.Shape, 1)
		return true
	}

	// pruning route: make sure a channel between our nodes is in the graph,
	// give it 0/1/2 policies with assorted ages, then delete it the way
	// pruneZombieChans does.
	var scid uint64
	if len(inGraph) > 0 && r.Chance(3, 4) {
		scid = inGraph[r.Intn(len(inGraph))]
	} else {
		sl := s.freshSlot(verifC20KindGood)
		id := sl.scid().ToUint64()
		if s.snap.zomb[id] != "" {
			// still a zombie: an announcement would be ignored.
			if len(inGraph) == 0 {
				return false
			}
			scid = inGraph[r.Intn(len(inGraph))]
		} else {
			if _, live := s.snap.chans[id]; !live {
				s.announced = append(s.announced, sl)
				s.submit(*nextIdx, "z.pre.ca.valid", verifC20BuildCA(sl.scid(), s.keys))
				*nextIdx++
			}
			scid = id
		}
	}
	ch := s.snap.chans[scid]
	if ch == nil || ch.N1 != n1 || ch.N2 != n2 {
		vc.Count("z_prune_channel_not_added", 1)
		return false
	}
	lscid := lnwire.NewShortChanIDFromInt(scid)
	for d := 0; d < 2; d++ {
		if r.Chance(7, 20) {
			continue
		}
		age := uint32(verifC20Day + r.Intn(12*verifC20Day))
		if r.Bool() {
			age = uint32(15*verifC20Day + r.Intn(45*verifC20Day))
		}
		ts := now - age
		cur := s.snap.chans[scid]
		if cur == nil {
			break
		}
		if st := cur.Pol[d]; st != nil && st.Ts >= ts {
			continue
		}
		s.submit(*nextIdx, fmt.Sprintf("z.pre.cu.d%d", d), s.buildCU(lscid, d, ts, s.keys[d]))
		*nextIdx++
	}
	ch = s.snap.chans[scid]
	if ch == nil {
		return false
	}
	strict := r.Bool()
	z := &verifC20Zombie{Slot: s.slotByScid(scid), Scid: scid,
		N: [2][33]byte{n1, n2}, K: [2]*btcec.PrivateKey{s.keys[0], s.keys[1]},
		Route: "prune"}
	// what the documentation of the pruning code says will be recorded.
	doc := "both"
	if strict {
		z.Route = "prune-strict"
		p1, p2 := ch.Pol[0], ch.Pol[1]
		switch {
		case p1 == nil && p2 == nil:
		case p1 == nil || (p2 != nil && p1.Ts < p2.Ts):
			doc = "only1"
		default:
			doc = "only2"
		}
	}
	err := c.graph.DeleteChannelEdges(c.ctx, lnwire.GossipVersion1, strict, true, scid)
	if err != nil {
		c.t.Fatalf("C20 harness: DeleteChannelEdges(%d): %v", scid, err)
	}
	// pruneZombieChans then prunes the nodes that lost their last channel
	// (lnd's "node has a known channel" test is "node is in the graph").
	err = c.graph.PruneGraphNodes(c.ctx)
	if err != nil && !errors.Is(err, graphdb.ErrGraphNodesNotFound) {
		c.t.Fatalf("C20 harness: PruneGraphNodes: %v", err)
	}
	isZ, k1, k2, err := c.vgraph.IsZombieEdge(c.ctx, scid)
	if err != nil || !isZ {
		c.t.Fatalf("C20 harness: pruned channel %d not in the zombie index (%v)", scid, err)
	}
	z.Stored = [2][33]byte{k1, k2}
	z.classify()
	s.track(z)
	pols := ""
	for d := 0; d < 2; d++ {
		if ch.Pol[d] == nil {
			pols += "-"
		} else {
			pols += "p"
		}
	}
	entry["route"], entry["shape"], entry["scid"], entry["documented"], entry["policies"] =
		z.Route, z.Shape, z.Scid, doc, pols
	s.log = append(s.log, entry)
	s.snap = c.snapshot()
	vc.Count("z_made", 1)
	vc.Count("z_made_"+z.Route+"_"+z.Shape, 1)
	vc.Count("z_doc_"+z.Route+"_"+doc, 1)
	if z.Shape != doc {
		vc.Count("z_prune_keys_differ_from_documented", 1)
		vc.Diag("zombie_prune_keys_differ_from_documented:"+z.Route+":"+doc+":"+z.Shape,
			fmt.Sprintf("channel %d (policies %s) deleted with strictZombiePruning=%v: documentation of makeZombiePubkeys promises shape %s, zombie index holds %s (%x | %x; node1=%x node2=%x)",
				scid, pols, strict, doc, z.Shape, k1[:], k2[:], n1[:], n2[:]))
	}
	return true
}

var verifC20ZTsNames = []string{"fresh", "fresh", "fresh", "fresh", "fresh",
	"freshedge", "staleedge", "old", "old", "zero", "ancient", "futnear", "futfar"}

func (s *verifC20Scn) zombieTs(class string) uint32 {
	r := s.r
	now := uint32(time.Now().Unix())
	switch class {
	case "fresh":
		return now - uint32(60+r.Intn(13*verifC20Day-60))
	case "freshedge":
		return now - uint32(14*verifC20Day-7200-r.Intn(3600))
	case "staleedge":
		return now - uint32(14*verifC20Day+7200+r.Intn(3600))
	case "old":
		return now - uint32(15*verifC20Day+r.Intn(400*verifC20Day))
	case "zero":
		return 0
	case "ancient":
		return uint32(1600000000 + r.Intn(1000))
	case "futnear":
		return now + uint32(60+r.Intn(13*verifC20Day-60))
	default: // futfar
		return now + uint32(15*verifC20Day+r.Intn(1000*verifC20Day))
	}
}

func (s *verifC20Scn) pickZombie() *verifC20Zombie {
	r := s.r
	var dead []*verifC20Zombie
	for _, z := range s.zombies {
		if s.snap.zomb[z.Scid] != "" {
			dead = append(dead, z)
		}
	}
	if len(dead) > 0 && r.Chance(17, 20) {
		return dead[r.Intn(len(dead))]
	}
	return s.zombies[r.Intn(len(s.zombies))]
}

// genZombieNA: a newer, validly signed node_announcement of node i of the
// zombie channel z.
func (s *verifC20Scn) genZombieNA(r *verifRng, z *verifC20Zombie, i int) (string, lnwire.Message) {
	pub := z.N[i]
	baseTs := uint32(1600000000 + r.Intn(1000))
	if st := s.snap.nodes[pub]; st != nil && st.HasAnn {
		baseTs = uint32(st.Ts)
	}
	alias, _ := lnwire.NewNodeAlias("z" + hex.EncodeToString(r.Bytes(6)))
	n := &lnwire.NodeAnnouncement1{
		Features:  lnwire.NewRawFeatureVector(),
		Timestamp: baseTs + 1 + uint32(r.Intn(5000)),
		NodeID:    pub,
		RGBColor:  color.RGBA{R: uint8(r.Intn(256)), G: uint8(r.Intn(256)), B: uint8(r.Intn(256))},
		Alias:     alias,
		Addresses: []net.Addr{&net.TCPAddr{IP: net.IP{10, 1, byte(r.Intn(256)), byte(1 + r.Intn(250))}, Port: 9735}},
	}
	verifC20SignNA(n, z.K[i])
	s.vc.Count("z_node_announcements", 1)
	if !s.snap.nodeHasChannel(pub) {
		s.vc.Count("z_node_announcements_of_channelless_node", 1)
		return "na.zombie-node.no-channel-left", n
	}
	return "na.zombie-node.has-other-channel", n
}

func (s *verifC20Scn) genZombieCU() (string, lnwire.Message) {
	r := s.r
	z := s.pickZombie()
	dir := r.Intn(2)
	var k *btcec.PrivateKey
	signer := ""
	switch r.Intn(3) {
	case 0:
		k, signer = z.K[0], "node1"
	case 1:
		k, signer = z.K[1], "node2"
	default:
		k, signer = s.other, "stranger"
		if r.Bool() {
			k = verifC20Key(r)
		}
	}
	class := verifC20ZTsNames[r.Intn(len(verifC20ZTsNames))]
	u := s.buildCU(lnwire.NewShortChanIDFromInt(z.Scid), dir, s.zombieTs(class), k)
	label := fmt.Sprintf("z.cu.%s.d%d.%s", signer, dir, class)
	// Channel flags beyond the direction bit (disable bit, unknown bits) on
	// 3 in 8 updates: the owner of a direction is given by the direction BIT
	// only. The choice is derived from fields that were already drawn (and the
	// signature is deterministic), so the phase's PRNG stream - and with it
	// every other choice of the zombie phase - is the same as without it.
	if x := u.BaseFee % 8; x < 3 {
		unk := lnwire.ChanUpdateChanFlags(1+u.FeeRate%63) << 2
		switch x {
		case 0:
			u.ChannelFlags |= lnwire.ChanUpdateDisabled
			label += ".dis"
		case 1:
			u.ChannelFlags |= unk
			label += ".unk"
		default:
			u.ChannelFlags |= lnwire.ChanUpdateDisabled | unk
			label += ".dis+unk"
		}
		verifC20SignCU(u, k)
		s.vc.Count("z_cu_nonplain_flags", 1)
	}
	if r.Chance(1, 12) {
		if m2, _, ok := s.byteflip(u, r.Chance(1, 3)); ok {
			return label + ".byteflip", m2
		}
	}
	return label, u
}

func (s *verifC20Scn) genZombieCA() (string, lnwire.Message) {
	r := s.r
	z := s.pickZombie()
	// prefer channels that an update has resurrected and that now wait for
	// their announcement (the legitimate way back into the graph).
	var limbo []*verifC20Zombie
	for _, o := range s.zombies {
		if s.snap.zomb[o.Scid] == "" && s.snap.chans[o.Scid] == nil && o.Slot != nil {
			limbo = append(limbo, o)
		}
	}
	if len(limbo) > 0 && r.Chance(3, 4) {
		z = limbo[r.Intn(len(limbo))]
	}
	if z.Slot == nil {
		return s.genZombieCU()
	}
	a := verifC20BuildCA(z.Slot.scid(), s.keys)
	if r.Chance(1, 4) {
		d, _ := verifC20Digest(a)
		i := r.Intn(4)
		*verifC20CASig(a, i) = verifC20Sign(verifC20Key(r), d)
		return "z.ca.sig." + verifC20SigNames[i] + ".wrongkey", a
	}
	s.announced = append(s.announced, z.Slot)
	return "z.ca.valid", a
}

// verifC20ZRef is the reference verdict for a channel_update that targets a
// zombie entry; everything is derived from the message bytes, the real node
// keys and the stored keys.
type verifC20ZRef struct {
	Dir       int
	Signer    string // node1 | node2 | other (whose key verifies the signature)
	Authentic bool   // signature verifies under the real key of the direction's owner
	Allowed   bool   // that key is the one stored for the zombie
	Fresh     string // yes | no | ambiguous (wall clock moved across the boundary while lnd ran)
}

func (zr *verifC20ZRef) may() bool { return zr.Authentic && zr.Allowed && zr.Fresh != "no" }
func (zr *verifC20ZRef) mustReject() bool {
	return !zr.Authentic || !zr.Allowed || zr.Fresh == "no"
}
func (zr *verifC20ZRef) reason() string {
	switch {
	case !zr.Authentic:
		return "not-signed-by-direction-owner"
	case !zr.Allowed:
		return "owner-key-not-stored"
	case zr.Fresh == "no":
		return "older-than-prune-window"
	}
	return "may-resurrect"
}

func verifC20RefZombieCU(u *lnwire.ChannelUpdate1, z *verifC20Zombie,
	tSubmit, tDone time.Time) *verifC20ZRef {

	zr := &verifC20ZRef{Dir: int(u.ChannelFlags & lnwire.ChanUpdateDirection), Signer: "other"}
	digest, w := verifC20Digest(u)
	if digest != nil {
		for i := 0; i < 2; i++ {
			if verifC20SigOK(w[2:66], digest, z.N[i][:]) {
				zr.Signer = fmt.Sprintf("node%d", i+1)
				zr.Authentic = i == zr.Dir
			}
		}
	}
	zr.Allowed = z.Allow[zr.Dir]
	ts := time.Unix(int64(u.Timestamp), 0)
	expiry := graph.DefaultChannelPruneExpiry
	switch {
	case tDone.Sub(ts) <= expiry:
		zr.Fresh = "yes"
	case tSubmit.Sub(ts) > expiry:
		zr.Fresh = "no"
	default:
		zr.Fresh = "ambiguous"
	}
	return zr
}

// judgeZombies evaluates zombie_stays_dead_unless_authentic for one step.
// caScid != 0: the step's message is a reference-valid channel_announcement
// for that (not yet known) channel, which may legitimately re-add it.
func (s *verifC20Scn) judgeZombies(label, kind string, m lnwire.Message, caScid uint64,
	before, after *verifC20Snap, tSubmit, tDone time.Time, entry map[string]any) {

	if len(s.zombies) == 0 {
		return
	}
	c, vc := s.c, s.vc
	u, _ := m.(*lnwire.ChannelUpdate1)
	lc := verifC20LabelClass(label)
	// the legitimate way back: resurrected earlier by an authentic update,
	// now re-added by its (valid) channel_announcement, which also replays
	// the stashed update.
	if z := s.zBy[caScid]; caScid != 0 && z != nil && before.zomb[caScid] == "" {
		if ch := after.chans[caScid]; ch != nil && before.chans[caScid] == nil {
			vc.Count("z_readded_after_resurrection", 1)
			if ch.Pol[0] != nil || ch.Pol[1] != nil {
				vc.Count("z_readded_with_stashed_update", 1)
			}
		}
	}
	for _, z := range s.zombies {
		b := before.zomb[z.Scid]
		if b == "" {
			continue
		}
		a, seen := after.zomb[z.Scid]
		if !seen {
			continue
		}
		vc.Count("oracle_zombie_evals", 1)
		if u == nil || u.ShortChannelID.ToUint64() != z.Scid {
			switch {
			case a == b:
			case a == "" && caScid == z.Scid:
				vc.Count("z_removed_by_valid_ca", 1)
			default:
				how := "zombie-removed"
				if a != "" {
					how = "zombie-keys-modified"
				}
				s.zViolation(fmt.Sprintf("%s:%s:%s", kind, lc, how),
					fmt.Sprintf("step %q (%s): zombie index entry of channel %d (%s, %s) changed from %q to %q by a message that is not an authentic fresh channel_update of an allowed node for it",
						label, kind, z.Scid, z.Route, z.Shape, b, a),
					map[string]any{"scid": z.Scid, "before": b, "after": a})
			}
			continue
		}

		zr := verifC20RefZombieCU(u, z, tSubmit, tDone)
		cached := c.inPrematureCache(u)
		entry["zref"] = map[string]any{"route": z.Route, "shape": z.Shape, "dir": zr.Dir,
			"signer": zr.Signer, "authentic": zr.Authentic, "allowed": zr.Allowed,
			"fresh": zr.Fresh, "verdict": zr.reason(), "resurrected": a == "", "cached": cached}
		vc.Count("z_cu", 1)
		if u.ChannelFlags&^lnwire.ChanUpdateDirection != 0 {
			vc.Count(fmt.Sprintf("z_nonplain_flags_%s_d%d", zr.Signer, zr.Dir), 1)
		}
		if strings.HasPrefix(z.Shape, "odd") {
			vc.Count(fmt.Sprintf("z_odd_%s_d%d", zr.Signer, zr.Dir), 1)
		} else {
			vc.Count(fmt.Sprintf("z_%s_%s_d%d", z.Shape, zr.Signer, zr.Dir), 1)
		}
		vc.Count("z_fresh_"+zr.Fresh, 1)
		fp := fmt.Sprintf("%s:%s:%s:d%d:%s", z.Route, z.Shape, zr.Signer, zr.Dir, zr.reason())
		vc.Sig("z|" + fp + fmt.Sprintf("|r%v|c%v", a == "", cached))

		var effects []string
		switch {
		case a == b:
		case a == "":
			effects = append(effects, "resurrected")
		default:
			// keys of the entry rewritten: never justified.
			s.zViolation(fp+":zombie-keys-modified",
				fmt.Sprintf("step %q: zombie index entry of channel %d rewritten from %q to %q", label, z.Scid, b, a),
				map[string]any{"scid": z.Scid, "before": b, "after": a, "zref": entry["zref"]})
		}
		if zr.mustReject() {
			vc.Count("z_must_reject", 1)
			if cached {
				effects = append(effects, "cached")
			}
			if len(effects) == 0 {
				vc.Count("z_rejected_ok", 1)
				continue
			}
			s.zViolation(fp+":"+strings.Join(effects, "+"),
				fmt.Sprintf("step %q: channel_update for zombie channel %d (brought into the zombie index via %s, stored keys %s) has direction bit %d, is signed by %s, freshness=%s => %s; it must leave the zombie index unchanged and must not be kept for replay, but lnd: %s (lnd error=%q). node1=%x node2=%x stored=%x|%x",
					label, z.Scid, z.Route, z.Shape, zr.Dir, zr.Signer, zr.Fresh, zr.reason(),
					strings.Join(effects, " and "), entry["err"], z.N[0][:], z.N[1][:], z.Stored[0][:], z.Stored[1][:]),
				map[string]any{"scid": z.Scid, "before": b, "after": a, "zref": entry["zref"]})
			continue
		}
		// authentic + allowed + not provably stale.
		vc.Count("z_may_resurrect", 1)
		if a == "" {
			vc.Count("z_resurrected_ok", 1)
		} else if zr.Fresh == "yes" {
			vc.Count("z_valid_not_resurrected", 1)
			vc.Diag("zombie_valid_not_resurrected:"+z.Route+":"+z.Shape,
				fmt.Sprintf("%s: authentic fresh update of an allowed node left channel %d a zombie; lnd err=%q", lc, z.Scid, entry["err"]))
		}
	}
}

func verifC20Min(a, b int) int {
	if a < b {
		return a
	}
	return b
}

// ---------------------------------------------------------------------------
// Cross-direction phase ("x phase"): authentic channel_updates over the full
// flag space x timestamp classes relative to EACH direction's stored policy.
//
// The 40 catalogue steps place timestamps relative to the stored policy of the
// update's own direction only and corrupt flags one field at a time on
// otherwise fresh messages. This phase drives the cross product instead: on a
// channel whose two directions hold policies with timestamps far apart (both
// orders), equal, or with one / both directions still without a policy, it
// submits updates that are correctly signed by the owner of the flagged
// direction (a few by the other node) with
//   channel flags = direction bit x disable bit x unknown bits,
//   message flags = with / without max-htlc x unknown bits,
//   timestamp     = older than both stored timestamps / strictly between them
//                   (own direction older, own direction newer) / equal to own /
//                   equal to the other direction's / +-1 around either / newer
//                   than both.
// No new oracle: every message goes through submit(), i.e. the unchanged
// reference predicate verifC20RefCU (signer = owner of the direction bit only,
// strictly newer than the stored policy OF THAT DIRECTION, consistent fields)
// and the unchanged oracles graph_unchanged_unless_valid,
// not_relayed_unless_valid, applied_matches_message. "valid and fresh but not
// applied" stays the diagnostic it is for every other update.
// ---------------------------------------------------------------------------

var verifC20XLayouts = []string{"none", "only0", "only1", "d0-older", "d0-older",
	"d0-newer", "d0-newer", "equal"}

func (s *verifC20Scn) xOurChannel(ch *verifC20Chan) bool {
	return ch != nil && s.signerFor(ch.N1) != nil && s.signerFor(ch.N2) != nil && ch.N1 != ch.N2
}

// xChannel picks the channel of one x round: preferably a channel that is not
// in the graph yet (announced here through a judged, valid
// channel_announcement, so both directions start without a policy), else a
// channel between our two nodes that is already in the graph.
func (s *verifC20Scn) xChannel(nextIdx *int) (uint64, bool) {
	c, r, vc := s.c, s.r, s.vc
	var cands []*verifC20Slot
	for _, sl := range s.slots {
		if sl.Kind != verifC20KindGood {
			continue
		}
		id := sl.scid().ToUint64()
		if _, live := s.snap.chans[id]; live || s.snap.zomb[id] != "" {
			continue
		}
		if z, err := c.builder.IsZombieEdge(sl.scid()); err != nil || z {
			continue
		}
		cands = append(cands, sl)
	}
	if len(cands) > 0 && r.Chance(9, 10) {
		sl := cands[r.Intn(len(cands))]
		sl.Used = true
		s.announced = append(s.announced, sl)
		s.submit(*nextIdx, "x.pre.ca.valid", verifC20BuildCA(sl.scid(), s.keys))
		*nextIdx++
		if s.xOurChannel(s.snap.chans[sl.scid().ToUint64()]) {
			vc.Count("x_chan_fresh", 1)
			return sl.scid().ToUint64(), true
		}
		vc.Count("x_chan_fresh_not_added", 1)
	}
	var live []uint64
	for id, ch := range s.snap.chans {
		if s.xOurChannel(ch) {
			live = append(live, id)
		}
	}
	if len(live) == 0 {
		return 0, false
	}
	sort.Slice(live, func(i, j int) bool { return live[i] < live[j] })
	vc.Count("x_chan_reused", 1)
	return live[r.Intn(len(live))], true
}

func verifC20XLayoutOf(ch *verifC20Chan) string {
	p0, p1 := ch.Pol[0], ch.Pol[1]
	switch {
	case p0 == nil && p1 == nil:
		return "none"
	case p1 == nil:
		return "only0"
	case p0 == nil:
		return "only1"
	case p0.Ts < p1.Ts:
		return "d0-older"
	case p0.Ts > p1.Ts:
		return "d0-newer"
	}
	return "equal"
}

// xSetup brings the stored policies of the channel into the wanted layout
// with plain, valid updates (judged like any other step).
func (s *verifC20Scn) xSetup(id uint64, layout string, nextIdx *int) {
	r, vc := s.r, s.vc
	ch := s.snap.chans[id]
	base := uint64(1600100000 + r.Intn(50000000))
	for d := 0; d < 2; d++ {
		if p := ch.Pol[d]; p != nil && uint64(p.Ts) >= base {
			base = uint64(p.Ts) + 1000 + uint64(r.Intn(100000))
		}
	}
	gap := uint64(10000 + r.Intn(5000000))
	if base+gap > 0xf0000000 {
		// a far-future policy is stored (catalogue step cu.ts.farfuture):
		// take the channel as it is.
		vc.Count("x_setup_skipped_high_ts", 1)
		return
	}
	var want [2]uint64
	switch layout {
	case "only0":
		want[0] = base
	case "only1":
		want[1] = base
	case "d0-older":
		want[0], want[1] = base, base+gap
	case "d0-newer":
		want[0], want[1] = base+gap, base
	case "equal":
		want[0], want[1] = base, base
	}
	lscid := lnwire.NewShortChanIDFromInt(id)
	first := r.Intn(2)
	for i := 0; i < 2; i++ {
		d := (first + i) % 2
		if want[d] == 0 {
			continue
		}
		cur := s.snap.chans[id]
		if !s.xOurChannel(cur) {
			return
		}
		own := cur.N1
		if d == 1 {
			own = cur.N2
		}
		s.submit(*nextIdx, fmt.Sprintf("x.pre.cu.d%d", d),
			s.buildCU(lscid, d, uint32(want[d]), s.signerFor(own)))
		*nextIdx++
	}
}

type verifC20XTs struct {
	name string
	ts   uint64
	w    int
}

// xGenCU generates one update of the cross product for the channel.
func (s *verifC20Scn) xGenCU(id uint64) (string, *lnwire.ChannelUpdate1, int, string) {
	r := s.r
	ch := s.snap.chans[id]
	d := r.Intn(2)
	own, oth := ch.Pol[d], ch.Pol[1-d]

	// channel flags: direction bit x disable bit x unknown bits.
	cf, cfName := uint8(d), "plain"
	switch x := r.Intn(20); {
	case x < 4:
	case x < 11:
		cf, cfName = cf|uint8(lnwire.ChanUpdateDisabled), "dis"
	case x < 15:
		cf, cfName = cf|uint8(1+r.Intn(63))<<2, "unk"
	default:
		cf, cfName = cf|uint8(lnwire.ChanUpdateDisabled)|uint8(1+r.Intn(63))<<2, "dis+unk"
	}
	// message flags: with / without max-htlc x unknown bits.
	mf, mfName := uint8(lnwire.ChanUpdateRequiredMaxHtlc), "max"
	switch x := r.Intn(20); {
	case x < 11:
	case x < 16:
		mf, mfName = mf|uint8(1+r.Intn(127))<<1, "max+unk"
	case x < 18:
		mf, mfName = 0, "nomax"
	default:
		mf, mfName = uint8(1+r.Intn(127))<<1, "nomax+unk"
	}

	// timestamp classes relative to both directions' stored timestamps.
	g := uint64(1 + r.Intn(3))
	if !r.Chance(1, 4) {
		g = uint64(10000 + r.Intn(3000000))
	}
	var cl []verifC20XTs
	add := func(name string, ts uint64, w int) {
		if ts >= 1 && ts <= 0xffffffff {
			cl = append(cl, verifC20XTs{name, ts, w})
		}
	}
	switch {
	case own != nil && oth != nil:
		o, x := uint64(own.Ts), uint64(oth.Ts)
		lo, hi := o, x
		if lo > hi {
			lo, hi = hi, lo
		}
		if lo > g {
			add("lt-both", lo-g, 2)
		}
		add("eq-own", o, 2)
		add("eq-oth", x, 2)
		add("own-1", o-1, 1)
		add("own+1", o+1, 1)
		add("oth-1", x-1, 1)
		add("oth+1", x+1, 1)
		if hi-lo >= 2 {
			n := "between.own-older"
			if o > x {
				n = "between.own-newer"
			}
			add(n, lo+1+r.U64n(hi-lo-1), 5)
		}
		add("gt-both", hi+g, 3)
	case own != nil:
		o := uint64(own.Ts)
		if o > g {
			add("lt-own.oth-none", o-g, 2)
		}
		add("eq-own.oth-none", o, 2)
		add("own-1.oth-none", o-1, 1)
		add("own+1.oth-none", o+1, 1)
		add("gt-own.oth-none", o+g, 2)
	case oth != nil:
		x := uint64(oth.Ts)
		if x > g {
			add("lt-oth.own-none", x-g, 2)
		}
		add("eq-oth.own-none", x, 2)
		add("oth-1.own-none", x-1, 1)
		add("oth+1.own-none", x+1, 1)
		add("gt-oth.own-none", x+g, 2)
	default:
		add("any.both-none", uint64(1600100000+r.Intn(50000000)), 1)
	}
	tot := 0
	for _, c := range cl {
		tot += c.w
	}
	pick := r.Intn(tot)
	tc := cl[0]
	for _, c := range cl {
		if pick < c.w {
			tc = c
			break
		}
		pick -= c.w
	}

	ownKey, othKey := ch.N1, ch.N2
	if d == 1 {
		ownKey, othKey = ch.N2, ch.N1
	}
	signer, sfx := s.signerFor(ownKey), ""
	if r.Chance(1, 8) {
		signer, sfx = s.signerFor(othKey), ".othersig"
	}

	scid := lnwire.NewShortChanIDFromInt(id)
	capMsat := s.capOf(scid) * 1000
	minH := uint64(1 + r.Intn(1000))
	maxH := capMsat / uint64(1+r.Intn(4))
	if maxH < minH {
		maxH = minH
	}
	u := &lnwire.ChannelUpdate1{
		ChainHash:       *chaincfg.MainNetParams.GenesisHash,
		ShortChannelID:  scid,
		Timestamp:       uint32(tc.ts),
		MessageFlags:    lnwire.ChanUpdateMsgFlags(mf),
		ChannelFlags:    lnwire.ChanUpdateChanFlags(cf),
		TimeLockDelta:   uint16(1 + r.Intn(2000)),
		HtlcMinimumMsat: lnwire.MilliSatoshi(minH),
		BaseFee:         uint32(r.Intn(100000)),
		FeeRate:         uint32(r.Intn(100000)),
	}
	if mf&uint8(lnwire.ChanUpdateRequiredMaxHtlc) != 0 {
		// (without the flag the field is not on the wire; a decoded message
		// carries 0)
		u.HtlcMaximumMsat = lnwire.MilliSatoshi(maxH)
	}
	verifC20SignCU(u, signer)
	label := fmt.Sprintf("x.cu.d%d.%s.%s.%s%s", d, cfName, mfName, tc.name, sfx)
	return label, u, d, cfName
}

// xRound runs one round of the x phase: pick / announce a channel, lay out its
// stored policies, then n updates of the cross product.
func (s *verifC20Scn) xRound(nextIdx *int, n int) bool {
	r, vc := s.r, s.vc
	id, ok := s.xChannel(nextIdx)
	if !ok {
		vc.Count("x_no_channel", 1)
		return false
	}
	layout := verifC20XLayouts[r.Intn(len(verifC20XLayouts))]
	s.log = append(s.log, map[string]any{"i": *nextIdx, "label": "x.channel", "type": "env",
		"scid": id, "layout_wanted": layout})
	*nextIdx++
	s.xSetup(id, layout, nextIdx)
	if ch := s.snap.chans[id]; s.xOurChannel(ch) {
		vc.Count("x_layout_"+verifC20XLayoutOf(ch), 1)
	}
	vc.Count("x_rounds", 1)
	for k := 0; k < n; k++ {
		if verifC20SoftViolations(vc) > 20 {
			return false
		}
		s.maybeRestart(*nextIdx, "xdir", 1, 9)
		ch := s.snap.chans[id]
		if !s.xOurChannel(ch) {
			vc.Count("x_channel_lost", 1)
			return true
		}
		label, u, d, cfName := s.xGenCU(id)
		// coverage bookkeeping (reference verdict and the relation of the
		// timestamp to the OTHER direction's stored one); the verdicts are
		// given by submit().
		ref := verifC20RefCU(u, ch)
		own, oth := ch.Pol[d], ch.Pol[1-d]
		vc.Count("x_cu", 1)
		vc.Count("x_cf_"+cfName, 1)
		vc.Count(fmt.Sprintf("x_d%d", d), 1)
		switch {
		case ref.Valid:
			vc.Count("x_ref_valid", 1)
			if oth != nil && u.Timestamp <= oth.Ts {
				// fresh for its own direction although not newer than the
				// other direction's stored policy.
				vc.Count("x_fresh_own_stale_oth", 1)
				vc.Count(fmt.Sprintf("x_fresh_own_stale_oth_d%d_%s", d, cfName), 1)
			}
		case ref.Reason == "not-newer":
			vc.Count("x_ref_notnewer", 1)
			if oth == nil || u.Timestamp > oth.Ts {
				// stale for its own direction although newer than the other
				// direction's stored policy (or the other has none).
				vc.Count("x_stale_own_fresh_oth", 1)
				if u.MessageFlags.HasMaxHtlc() {
					vc.Count(fmt.Sprintf("x_stale_own_fresh_oth_d%d_%s", d, cfName), 1)
				}
			}
			if oth == nil {
				vc.Count("x_stale_own_oth_none", 1)
			}
		case ref.Reason == "bad-sig-for-direction":
			vc.Count("x_ref_badsig", 1)
			vc.Count("x_ref_badsig_"+cfName, 1)
		default:
			vc.Count("x_ref_fields", 1)
		}
		if own == nil {
			vc.Count("x_own_none", 1)
		}
		s.submit(*nextIdx, label, u)
		*nextIdx++
		applied := false
		if after := s.snap.chans[id]; after != nil {
			applied = verifC20PolMatches(after.Pol[d], u)
		}
		switch {
		case applied && ref.Valid:
			vc.Count("x_valid_applied", 1)
			vc.Count("x_valid_applied_"+cfName, 1)
		case ref.Valid:
			vc.Count("x_valid_refused", 1) // diagnostic (see judge: valid_not_applied)
		case !applied:
			vc.Count("x_invalid_refused_ok", 1)
		}
	}
	return true
}

// ---------------------------------------------------------------------------
// Restart dimension.
//
// restartStep tears down gossiper + builder + graph store and re-creates them
// on the same database with cold in-memory caches (PRNG: database file closed
// and re-opened or kept open; reject / channel cache of lnd's default size or
// of 1..3 entries, so that lookups of other channels evict). It is used at PRNG
// points inside the catalogue, zombie and cross-direction phases and once (or
// twice) per round of the after-restart replay phase below. It is an
// environment action, not a judged gossip step; the graph snapshot taken after
// it is compared with the one before for a diagnostic only. No oracle is added
// or changed: every message delivered after a restart goes through submit().
// ---------------------------------------------------------------------------

func (s *verifC20Scn) restartStep(idx int, where string) {
	c, vc, rr := s.c, s.vc, s.rr
	var o verifC20StoreOpts
	switch rr.Intn(5) {
	case 0, 1:
	case 2:
		o.Rej = 1
	case 3:
		o.Rej, o.Chan = 1+rr.Intn(3), 1+rr.Intn(2)
	default:
		o.Chan = 1
	}
	reopen := rr.Bool()
	before := s.snap
	entry := map[string]any{"i": idx, "label": "restart", "type": "env", "where": where,
		"reopen_db_file": reopen, "reject_cache_size": o.Rej, "channel_cache_size": o.Chan}
	s.log = append(s.log, entry)

	c.restart(reopen, o)
	// prime the flush path of the new gossiper; whatever it hands to
	// Broadcast on its own is judged like any other broadcast.
	c.waitBroadcast(c.quiesce())
	s.checkBroadcasts("restart")
	after := c.snapshot()
	vc.Count("restarts", 1)
	vc.Count("restarts_"+where, 1)
	if reopen {
		vc.Count("restarts_db_file_reopened", 1)
	}
	if o.Rej > 0 {
		vc.Count("restarts_tiny_reject_cache", 1)
	}
	if o.Chan > 0 {
		vc.Count("restarts_tiny_channel_cache", 1)
	}
	diff := verifC20Diff(before, after)
	for id, b := range before.zomb {
		if a, ok := after.zomb[id]; ok && a != b {
			diff = append(diff, fmt.Sprintf("zombie/%d", id))
		}
	}
	sort.Strings(diff)
	entry["changed"] = diff
	if len(diff) > 0 {
		vc.Count("restart_changed_graph", 1)
		vc.Diag("restart_changed_graph:"+where, fmt.Sprintf("graph keys differ across a restart: %v", diff))
	}
	s.snap = after
	s.sinceSame = map[string]int{}
	s.sinceScid = map[uint64]int{}
	vc.Sig(fmt.Sprintf("restart|%s|f%v|r%d|c%d|d%v", where, reopen, o.Rej, o.Chan, len(diff) > 0))
}

// maybeRestart restarts the node with probability num/den (restart stream).
func (s *verifC20Scn) maybeRestart(idx int, where string, num, den int) {
	if s.rr.Chance(num, den) {
		s.restartStep(idx, where)
	}
}

// countPostRestart is coverage bookkeeping only (no verdicts): how many
// messages were delivered to a stack that had been restarted, and how many of
// them were authentic-but-not-newer channel_updates delivered again (identical
// bytes) or after an earlier lookup of their channel since that restart.
func (s *verifC20Scn) countPostRestart(m lnwire.Message, whex string, scid uint64,
	ref verifC20Verdict, before *verifC20Snap) {

	vc := s.vc
	tiny := s.c.opts.Rej > 0
	if tiny {
		vc.Count("tiny_reject_cache_deliveries", 1)
	}
	if s.c.opts.Chan > 0 {
		vc.Count("tiny_channel_cache_deliveries", 1)
	}
	if s.c.restarts == 0 {
		return
	}
	vc.Count("post_restart_deliveries", 1)
	prevSame, prevScid := s.sinceSame[whex], s.sinceScid[scid]
	if prevSame > 0 {
		vc.Count("post_restart_repeated_deliveries", 1)
	}
	if u, ok := m.(*lnwire.ChannelUpdate1); ok && ref.Reason == "not-newer" {
		d := int(u.ChannelFlags & lnwire.ChanUpdateDirection)
		gtOth := false
		if ch := before.chans[scid]; ch != nil {
			oth := ch.Pol[1-d]
			gtOth = oth == nil || u.Timestamp > oth.Ts
		}
		vc.Count("post_restart_stale", 1)
		if prevScid == 0 {
			vc.Count("stale_on_first_lookup_after_restart", 1)
		} else {
			vc.Count("stale_after_lookup_after_restart", 1)
			if gtOth {
				vc.Count(fmt.Sprintf("stale_gt_oth_after_lookup_d%d", d), 1)
			}
		}
		if prevSame > 0 {
			vc.Count("repeated_stale_deliveries", 1)
			vc.Count(fmt.Sprintf("repeated_stale_deliveries_d%d", d), 1)
			if gtOth {
				vc.Count(fmt.Sprintf("repeated_stale_gt_oth_d%d", d), 1)
			}
			if tiny {
				vc.Count("repeated_stale_tiny_reject_cache", 1)
			}
		}
	}
	s.sinceSame[whex]++
	if scid != 0 {
		s.sinceScid[scid]++
	}
}

// ---------------------------------------------------------------------------
// After-restart replay phase ("r phase", own PRNG stream, after the x phase).
//
// One round: a channel between our two nodes is announced (or reused), both
// directions get a stored policy at PRNG timestamps (direction 0 older / newer
// by 1e4..5e6 s / equal; sometimes only one direction), THEN THE NODE IS
// RESTARTED, then authentic channel_updates of the cross product (xGenCU:
// either direction, timestamp older than both stored ones / strictly between
// them / equal to own / equal to the other direction's / +-1 / newer than both,
// flag space as in the x phase) are delivered 1-3 times each - identical bytes,
// every delivery from a peer identity of its own - interleaved with duplicate
// channel_announcements of the same channel, node announcements, lookups of
// OTHER channels (duplicate announcement or an update; with a 1..3 entry reject
// cache they evict) and, rarely, a further restart. Same reference, same
// oracles (submit()).
// ---------------------------------------------------------------------------

var verifC20RLayouts = []string{"d0-older", "d0-older", "d0-older", "d0-newer", "d0-newer",
	"equal", "only0", "only1"}

// rInterleave delivers one message that makes lnd look a channel up without
// being the replayed update itself.
func (s *verifC20Scn) rInterleave(id uint64, nextIdx *int) {
	r, vc := s.r, s.vc
	scid := lnwire.NewShortChanIDFromInt(id)
	switch x := r.Intn(10); {
	case x < 3:
		vc.Count("r_dup_ca", 1)
		s.submit(*nextIdx, "r.ca.dup", verifC20BuildCA(scid, s.keys))
		*nextIdx++
	case x < 5:
		l, m := s.genNA()
		vc.Count("r_na", 1)
		s.submit(*nextIdx, "r."+l, m)
		*nextIdx++
	case x < 9:
		// another channel of ours: a lookup that competes for the cache.
		var oth []uint64
		for oid, ch := range s.snap.chans {
			if oid != id && s.xOurChannel(ch) {
				oth = append(oth, oid)
			}
		}
		if len(oth) == 0 {
			return
		}
		sort.Slice(oth, func(i, j int) bool { return oth[i] < oth[j] })
		oid := oth[r.Intn(len(oth))]
		oscid := lnwire.NewShortChanIDFromInt(oid)
		vc.Count("r_other_channel_lookup", 1)
		if r.Bool() {
			s.submit(*nextIdx, "r.other.ca.dup", verifC20BuildCA(oscid, s.keys))
		} else {
			och := s.snap.chans[oid]
			d := r.Intn(2)
			ts := uint32(1600100000 + r.Intn(50000000))
			if p := och.Pol[d]; p != nil && r.Bool() {
				// stale or equal for that channel.
				ts = p.Ts - uint32(r.Intn(3))
			}
			own := och.N1
			if d == 1 {
				own = och.N2
			}
			s.submit(*nextIdx, fmt.Sprintf("r.other.cu.d%d", d), s.buildCU(oscid, d, ts, s.signerFor(own)))
		}
		*nextIdx++
	default:
		s.restartStep(*nextIdx, "replay-mid")
		*nextIdx++
	}
}

func (s *verifC20Scn) rRound(nextIdx *int, items int) bool {
	r, vc := s.r, s.vc
	id, ok := s.xChannel(nextIdx)
	if !ok {
		vc.Count("r_no_channel", 1)
		return false
	}
	layout := verifC20RLayouts[r.Intn(len(verifC20RLayouts))]
	s.log = append(s.log, map[string]any{"i": *nextIdx, "label": "r.channel", "type": "env",
		"scid": id, "layout_wanted": layout})
	*nextIdx++
	s.xSetup(id, layout, nextIdx)
	if ch := s.snap.chans[id]; s.xOurChannel(ch) {
		vc.Count("r_layout_"+verifC20XLayoutOf(ch), 1)
	}
	vc.Count("r_rounds", 1)
	s.restartStep(*nextIdx, "replay")
	*nextIdx++
	s.noShared = true
	defer func() { s.noShared = false }()
	for k := 0; k < items; k++ {
		if verifC20SoftViolations(vc) > 20 {
			return false
		}
		ch := s.snap.chans[id]
		if !s.xOurChannel(ch) {
			vc.Count("r_channel_lost", 1)
			return true
		}
		label, u, d, _ := s.xGenCU(id)
		label = "r" + strings.TrimPrefix(label, "x")
		ref := verifC20RefCU(u, ch)
		class := "other"
		switch {
		case ref.Valid:
			class = "fresh"
		case ref.Reason == "not-newer" && ch.Pol[d] != nil && u.Timestamp == ch.Pol[d].Ts:
			class = "equal"
		case ref.Reason == "not-newer":
			class = "stale"
		}
		reps := 1 + r.Intn(3)
		vc.Count("r_items", 1)
		vc.Count("r_items_"+class, 1)
		vc.Count(fmt.Sprintf("r_items_reps%d", reps), 1)
		for j := 0; j < reps; j++ {
			if r.Chance(2, 5) {
				s.rInterleave(id, nextIdx)
				if !s.xOurChannel(s.snap.chans[id]) {
					vc.Count("r_channel_lost", 1)
					return true
				}
			}
			var m lnwire.Message = u
			l := label
			if j > 0 {
				m = verifC20Clone(u)
				l = fmt.Sprintf("%s.dup%d", label, j+1)
				if m == nil {
					break
				}
			}
			vc.Count("r_cu", 1)
			vc.Count(fmt.Sprintf("r_cu_%s_d%d", class, d), 1)
			s.submit(*nextIdx, l, m)
			*nextIdx++
		}
	}
	return true
}

func verifC20RunScenario(t *testing.T, vc *verifCtx, r *verifRng, caseIdx, steps, zsteps, xrounds, xsteps,
	rrounds, ritems int) {
	var keys, sk [4]*btcec.PrivateKey
	for i := range keys {
		keys[i] = verifC20Key(r)
		sk[i] = verifC20Key(r)
	}
	p0, p1 := verifC20Pub(keys[0]), verifC20Pub(keys[1])
	if bytes.Compare(p0[:], p1[:]) > 0 {
		keys[0], keys[1] = keys[1], keys[0]
	}
	other := verifC20Key(r)
	chain, slots, hidden, sentSlot, nHidden := verifC20BuildChain(r, keys, sk, other)
	// restart decisions and the replay phase have streams of their own,
	// derived from (seed, case) without touching the scenario's stream.
	rr := vc.Rng(1<<27 + caseIdx)
	// 1 scenario in 4 starts with tiny caches already (eviction without any
	// restart).
	var o0 verifC20StoreOpts
	if rr.Chance(1, 4) {
		o0 = verifC20StoreOpts{Rej: 1 + rr.Intn(2), Chan: 1 + rr.Intn(2)}
		vc.Count("scenarios_tiny_caches_from_start", 1)
	}
	c := verifC20NewCtx(t, vc, r, chain, sentSlot, sk, o0)
	defer c.close()

	s := &verifC20Scn{c: c, r: r, vc: vc, keys: keys, other: other, slots: slots,
		hidden: hidden, nHidden: nHidden,
		shared: &mockPeer{pk: verifC20Key(r).PubKey()},
		rr:        rr,
		sinceSame: map[string]int{}, sinceScid: map[uint64]int{}}
	rReplay := s.rr.Fork("replay")
	for _, sl := range slots {
		if sl.Kind == verifC20KindGood {
			s.main = sl
			sl.Used = true
			break
		}
	}
	if s.main == nil {
		vc.Count("scenario_without_good_slot", 1)
		return
	}
	s.log = append(s.log, map[string]any{"i": -1, "label": "open", "type": "env",
		"reject_cache_size": o0.Rej, "channel_cache_size": o0.Chan})
	s.snap = c.snapshot()
	// prime the flush path once (also proves the sentinel works).
	c.waitBroadcast(c.quiesce())
	s.checkBroadcasts("setup")
	s.snap = c.snapshot()

	forceAt := r.Intn(steps / 2)
	if r.Chance(1, 4) {
		forceAt = 0
	}
	for i := 0; i < steps; i++ {
		if verifC20SoftViolations(vc) > 20 {
			return
		}
		if i > 0 {
			s.maybeRestart(i, "catalogue", 1, 20)
		}
		if i == forceAt && !s.mainAnnounced {
			s.mainAnnounced = true
			s.announced = append(s.announced, s.main)
			s.submit(i, "ca.valid", verifC20BuildCA(s.main.scid(), s.keys))
			continue
		}
		x := r.Intn(100)
		switch {
		case x < 4 && s.nHidden > 0:
			s.mine(i)
		case x < 30:
			l, m := s.genCA()
			s.submit(i, l, m)
		case x < 62:
			l, m := s.genCU()
			s.submit(i, l, m)
		case x < 88:
			l, m := s.genNA()
			s.submit(i, l, m)
		default:
			l, m := s.genReplay()
			s.submit(i, l, m)
		}
	}
	// Zombie phase (own PRNG stream, so the 40 steps above are unaffected):
	// channels are brought into the zombie index and then targeted by
	// channel_updates / channel_announcements; see judgeZombies.
	s.r = r.Fork("zombie")
	idx := steps
	for j := 0; j < zsteps; j++ {
		if verifC20SoftViolations(vc) > 20 {
			return
		}
		if j > 0 {
			s.maybeRestart(idx, "zombie", 1, 14)
		}
		dead := 0
		for _, z := range s.zombies {
			if s.snap.zomb[z.Scid] != "" {
				dead++
			}
		}
		x := s.r.Intn(100)
		switch {
		case dead == 0 || (x < 12 && dead < 4):
			nz := len(s.zombies)
			if !s.zombify(&idx) && len(s.zombies) == 0 {
				vc.Count("z_no_zombie_possible", 1)
				j = zsteps
			}
			// A node of the channel that has just become a zombie
			// announces itself with a newer, validly signed
			// node_announcement: it is applied only if the node still
			// has a known channel (judged by the generic node
			// announcement oracle against the snapshot's channel list).
			// Own PRNG stream, so the rest of the phase is unchanged.
			if len(s.zombies) > nz {
				z := s.zombies[len(s.zombies)-1]
				zr := &verifRng{s: verifMix(z.Scid ^ verifHashStr("c20-zombie-na") ^ uint64(idx))}
				for i := 0; i < 2; i++ {
					if !zr.Chance(2, 3) {
						continue
					}
					l, m := s.genZombieNA(zr, z, i)
					s.submit(idx, l, m)
					idx++
				}
			}
			continue
		case x < 82:
			l, m := s.genZombieCU()
			s.submit(idx, l, m)
		case x < 92:
			l, m := s.genZombieCA()
			s.submit(idx, l, m)
		case x < 96:
			l, m := s.genCU()
			s.submit(idx, l, m)
		default:
			l, m := s.genReplay()
			s.submit(idx, l, m)
		}
		idx++
	}

	// Cross-direction phase (own PRNG stream; after the zombie phase so that
	// neither earlier phase is affected): see xRound.
	s.r = r.Fork("xdir")
	for j := 0; j < xrounds; j++ {
		if verifC20SoftViolations(vc) > 20 {
			return
		}
		if !s.xRound(&idx, xsteps) {
			break
		}
	}

	// After-restart replay phase (own PRNG stream): see rRound.
	s.r = rReplay
	for j := 0; j < rrounds; j++ {
		if verifC20SoftViolations(vc) > 20 {
			return
		}
		if !s.rRound(&idx, ritems) {
			break
		}
	}

	// Final flush: one more trickle so that late broadcasts are judged too.
	c.waitBroadcast(c.quiesce())
	c.waitBroadcast(c.quiesce())
	s.checkBroadcasts("end")
	vc.Count("scenarios", 1)
	if verifC20SoftViolations(vc) == 0 && len(s.log) > 0 {
		n := len(s.log)
		if n > 6 {
			n = 6
		}
		vc.Sample(map[string]any{"first_steps": s.log[:n]})
	}
}

// verifC20ProbeV2 records whether the pinned tree accepts gossip v2 messages
// on the remote path.
func verifC20ProbeV2(t *testing.T, vc *verifCtx) {
	r := vc.Rng(1 << 30)
	var keys, sk [4]*btcec.PrivateKey
	for i := range keys {
		keys[i] = verifC20Key(r)
		sk[i] = verifC20Key(r)
	}
	chain, _, _, sentSlot, _ := verifC20BuildChain(r, keys, sk, verifC20Key(r))
	c := verifC20NewCtx(t, vc, r, chain, sentSlot, sk, verifC20StoreOpts{})
	defer c.close()
	before := c.snapshot()
	res := []string{}
	accepted := false
	for _, m := range []lnwire.Message{&lnwire.ChannelAnnouncement2{},
		&lnwire.ChannelUpdate2{}, &lnwire.NodeAnnouncement2{}} {

		m := m
		var err error
		panicked := vc.Guard("v2_probe_no_panic", "v2-probe-panic", nil, func() {
			f := c.gossiper.ProcessRemoteAnnouncement(c.ctx, m,
				&mockPeer{pk: verifC20Key(r).PubKey()})
			tctx, cancel := context.WithTimeout(c.ctx, verifC20Wait)
			defer cancel()
			err = AwaitGossipResult(tctx, f)
		})
		if panicked {
			return
		}
		if err == nil {
			accepted = true
		}
		res = append(res, fmt.Sprintf("%T:%v", m, err))
	}
	// NOTE: no quiesce() here. On the pinned tree InitJobDependencies takes a
	// validation-barrier slot and then fails for message types it does not
	// know without returning the slot, so the barrier never becomes idle
	// again after a v2 message (recorded as a diagnostic; the peer layer does
	// not route v2 gossip to the gossiper, so this is not remotely reachable).
	sem := c.gossiper.vb.validationSemaphore
	if leaked := cap(sem) - len(sem); leaked > 0 {
		vc.Diag("v2_probe_barrier_slots_leaked", fmt.Sprintf("%d validation barrier slots not returned after %d rejected v2 messages", leaked, len(res)))
	}
	after := c.snapshot()
	if d := verifC20Diff(before, after); len(d) > 0 {
		vc.Diag("v2_probe_changed_graph", fmt.Sprint(d))
	}
	if accepted {
		vc.Note("gossip_versions", "v1 exercised; v2 probe NOT rejected on the remote path: "+strings.Join(res, "; "))
	} else {
		vc.Note("gossip_versions", "v1 only: the pinned tree rejects v2 messages on the remote path ("+strings.Join(res, "; ")+")")
	}
}

func TestVerifC20(t *testing.T) {
	vc := verifStart(t, "C20", "gossip")
	defer vc.Finish()

	// Harness self-check: the hand-written channel_update encoder agrees with
	// lnwire on a message without unknown TLVs.
	{
		r := vc.Rng(1 << 29)
		u := &lnwire.ChannelUpdate1{
			ChainHash:      *chaincfg.MainNetParams.GenesisHash,
			ShortChannelID: lnwire.ShortChannelID{BlockHeight: 0x010203, TxIndex: 0x040506, TxPosition: 0x0708},
			Timestamp:      0x11223344, MessageFlags: lnwire.ChanUpdateRequiredMaxHtlc,
			ChannelFlags: 1, TimeLockDelta: 0x99aa, HtlcMinimumMsat: 0x0102030405060708,
			BaseFee: 0x0a0b0c0d, FeeRate: 0x01020304, HtlcMaximumMsat: 0x1112131415161718,
		}
		verifC20SignCU(u, verifC20Key(r))
		cp := *u
		if !bytes.Equal(verifC20WireCU(u), verifC20PeerEncode(&cp)) {
			t.Fatalf("C20 harness: channel_update encoder disagrees with lnwire:\n%x\n%x",
				verifC20WireCU(u), verifC20PeerEncode(&cp))
		}
	}

	const steps, zsteps, xrounds, xsteps, rrounds, ritems = 40, 28, 2, 12, 2, 6
	total := vc.N(256, 14000)
	if vc.Only < 0 && vc.Shard == 0 {
		verifC20ProbeV2(t, vc)
	}
	for i := 0; i < total; i++ {
		if !vc.Mine(i) {
			continue
		}
		r := vc.Rng(i)
		vc.Case(i, map[string]any{"scenario": i, "steps": steps, "zombie_steps": zsteps,
			"x_rounds": xrounds, "x_steps": xsteps, "replay_rounds": rrounds, "replay_items": ritems})
		verifC20RunScenario(t, vc, r, i, steps, zsteps, xrounds, xsteps, rrounds, ritems)
		vc.CaseDone(i)
	}
}
