package htlcswitch

// C08 monitor: a forwarding node never ends up out of pocket. Three real
// switches / links / channels (fixture newThreeHopNetwork) run batches of
// concurrent payments with injected message delays and cluster restarts;
// a wire monitor judges every settle/fail Bob sends upstream, and a
// conservation oracle judges the quiescent state.

import (
	"github.com/lightningnetwork/lnd/input"
	"github.com/btcsuite/btcd/btcec/v2"
	"net"
	"bytes"
	"context"
	"crypto/sha256"
	"fmt"
	"os"
	"path/filepath"
	"strings"
	"sync"
	"sync/atomic"
	"testing"
	"time"

	"github.com/btcsuite/btcd/btcutil/v2"
	"github.com/btcsuite/btclog/v2"
	"github.com/btcsuite/btcd/wire/v2"
	"github.com/btcsuite/btcwallet/walletdb"
	"github.com/lightningnetwork/lnd/channeldb"
	"github.com/lightningnetwork/lnd/clock"
	"github.com/lightningnetwork/lnd/kvdb"
	"github.com/lightningnetwork/lnd/htlcswitch/hop"
	"github.com/lightningnetwork/lnd/invoices"
	"github.com/lightningnetwork/lnd/lntypes"
	"github.com/lightningnetwork/lnd/lnwallet"
	"github.com/lightningnetwork/lnd/lnwire"
	"github.com/lightningnetwork/lnd/ticker"
)

type verifC08Pay struct {
	Idx      int
	Dir      string // "AC", "CA", "AB", "CB"
	Kind     string // valid, hold, unknown, underpaid, lowfee, lowcltv
	// hold invoices: the receiver accepts the HTLC and the harness settles
	// or cancels the invoice later (possibly across a flap or restart)
	HoldSettle bool
	HoldDelay  time.Duration
	reg        *mockInvoiceRegistry
	Amt      lnwire.MilliSatoshi
	HtlcAmt  lnwire.MilliSatoshi
	Fee      lnwire.MilliSatoshi
	Hash     lntypes.Hash
	Preimage lntypes.Preimage
	Pid      uint64
	htlc     *lnwire.UpdateAddHTLC
	firstHop lnwire.ShortChannelID

	// saturation phase (see verifC08Sat): Sat is "filler" or "burst";
	// satRejected: the first attempt failed while the outgoing commitment
	// was saturated; retries: later attempts (new attempt ids) at the same
	// invoice, as a retrying sender makes them
	Sat         string
	satRejected bool
	retries     []*verifC08Pay

	mu       sync.Mutex
	awaitGen int // generation of the network the newest result waiter is attached to
	sent     bool
	outcome string // "", "success", "fail", "notsent"
	errStr  string
}

func (p *verifC08Pay) forwarded() bool { return p.Dir == "AC" || p.Dir == "CA" }

type verifC08Key struct {
	Chan lnwire.ChannelID
	ID   uint64
}

// verifC08Mon is the wire monitor; all methods are called from the mock
// servers' reader goroutines and are serialised by mu.
type verifC08Mon struct {
	vc     *verifCtx
	mu     sync.Mutex
	chanAB lnwire.ChannelID
	chanBC lnwire.ChannelID
	epoch  int

	byHash       map[lntypes.Hash]*verifC08Pay
	incomingAdds map[verifC08Key]lntypes.Hash // adds that arrived at Bob
	downFulfill  map[lntypes.Hash]bool        // downstream fulfill arrived at Bob
	everAtBob    map[lntypes.Hash]bool        // the payment's add reached Bob
	bobOutAdds   map[verifC08Key]lntypes.Hash // adds Bob sent (seen arriving at Alice/Carol)
	downResolved map[lntypes.Hash]string      // a fulfill/fail for Bob's outgoing HTLC arrived at Bob
	upSeen       map[verifC08Key]map[string]int
	upSeenEpoch  map[verifC08Key]map[int]int
	// order of events per payment hash (seq counts monitor events): the last
	// arrival at Bob of an incoming add for the hash, and the last settle or
	// fail Bob sent upstream for an incoming HTLC of the hash (with the
	// connection epoch it was observed in)
	seq        int64
	inAddSeq   map[lntypes.Hash]int64
	upResSeq   map[lntypes.Hash]int64
	upResEpoch map[lntypes.Hash]int

	bobDB      *channeldb.DB
	chanPtAB   func() *channeldb.OpenChannel
	fetchBobBC func() (*channeldb.OpenChannel, error)
	fetchBobAB func() (*channeldb.OpenChannel, error)

	sent    [3]int64 // messages enqueued to alice, bob, carol
	handled [3]int64

	trace []string
}

func (m *verifC08Mon) logf(f string, a ...any) {
	if len(m.trace) < 1000 {
		m.trace = append(m.trace, fmt.Sprintf(f, a...))
	}
}

func (m *verifC08Mon) witness() any {
	return map[string]any{"trace": m.trace}
}

func verifC08HasOutgoing(ch *channeldb.OpenChannel, hash lntypes.Hash) (bool, string) {
	has := func(hs []channeldb.HTLC) bool {
		for _, h := range hs {
			if !h.Incoming && h.RHash == [32]byte(hash) {
				return true
			}
		}
		return false
	}
	if has(ch.LocalCommitment.Htlcs) {
		return true, "local commitment"
	}
	if has(ch.RemoteCommitment.Htlcs) {
		return true, "remote commitment"
	}
	if tip, err := ch.RemoteCommitChainTip(); err == nil && tip != nil {
		if has(tip.Commitment.Htlcs) {
			return true, "pending remote commitment"
		}
	}
	return false, ""
}

// atBob is called for every message arriving at Bob.
func (m *verifC08Mon) atBob(msg lnwire.Message) {
	m.mu.Lock()
	defer m.mu.Unlock()
	switch x := msg.(type) {
	case *lnwire.UpdateAddHTLC:
		m.incomingAdds[verifC08Key{x.ChanID, x.ID}] = lntypes.Hash(x.PaymentHash)
		m.everAtBob[lntypes.Hash(x.PaymentHash)] = true
		m.seq++
		m.inAddSeq[lntypes.Hash(x.PaymentHash)] = m.seq
		m.logf("e%d ->B add chan=%x id=%d hash=%x", m.epoch, x.ChanID[:3], x.ID, x.PaymentHash[:4])
	case *lnwire.UpdateFulfillHTLC:
		h := lntypes.Hash(sha256.Sum256(x.PaymentPreimage[:]))
		p := m.byHash[h]
		if p == nil {
			return
		}
		down := m.chanBC
		if p.Dir == "CA" {
			down = m.chanAB
		}
		if x.ChanID == down {
			m.downFulfill[h] = true
			m.downResolved[h] = "settle"
			m.logf("e%d ->B fulfill(down) hash=%x", m.epoch, h[:4])
		}
	case *lnwire.UpdateFailHTLC:
		m.logf("e%d ->B fail chan=%x id=%d", m.epoch, x.ChanID[:3], x.ID)
		if h, ok := m.bobOutAdds[verifC08Key{x.ChanID, x.ID}]; ok {
			m.downResolved[h] = "fail"
		}
	case *lnwire.UpdateFailMalformedHTLC:
		if h, ok := m.bobOutAdds[verifC08Key{x.ChanID, x.ID}]; ok {
			m.downResolved[h] = "fail"
		}
	}
}

// atEdge is called for every message arriving at Alice (from Bob on A-B) or
// at Carol (from Bob on B-C): these are the messages Bob sent.
func (m *verifC08Mon) atEdge(who string, msg lnwire.Message) {
	m.mu.Lock()
	defer m.mu.Unlock()
	var (
		key  verifC08Key
		kind string
		hash lntypes.Hash
	)
	switch x := msg.(type) {
	case *lnwire.UpdateAddHTLC:
		m.bobOutAdds[verifC08Key{x.ChanID, x.ID}] = lntypes.Hash(x.PaymentHash)
		m.outgoingAdd(who, x)
		return
	case *lnwire.UpdateFulfillHTLC:
		key, kind = verifC08Key{x.ChanID, x.ID}, "settle"
		hash = lntypes.Hash(sha256.Sum256(x.PaymentPreimage[:]))
	case *lnwire.UpdateFailHTLC:
		key, kind = verifC08Key{x.ChanID, x.ID}, "fail"
	case *lnwire.UpdateFailMalformedHTLC:
		key, kind = verifC08Key{x.ChanID, x.ID}, "fail"
	default:
		return
	}
	// Only resolutions of HTLCs that Bob RECEIVED on this channel matter:
	// the id refers to an add that arrived at Bob on the same channel.
	inHash, ok := m.incomingAdds[key]
	if !ok {
		return
	}
	if kind == "fail" {
		hash = inHash
	}
	p := m.byHash[hash]
	m.logf("e%d B->%s %s chan=%x id=%d hash=%x", m.epoch, who, kind, key.Chan[:3], key.ID, hash[:4])
	m.vc.Count("oracle_upstream_resolution", 1)
	m.seq++
	m.upResSeq[inHash], m.upResEpoch[inHash] = m.seq, m.epoch

	// at most one settle-or-fail per incoming HTLC
	if m.upSeen[key] == nil {
		m.upSeen[key] = map[string]int{}
		m.upSeenEpoch[key] = map[int]int{}
	}
	m.upSeen[key][kind]++
	m.upSeenEpoch[key][m.epoch]++
	if len(m.upSeen[key]) > 1 {
		m.vc.Violation("at_most_one_response", "settle-and-fail",
			fmt.Sprintf("incoming HTLC %x/%d received both a settle and a fail from the forwarder", key.Chan[:4], key.ID), m.witness())
	}
	if m.upSeenEpoch[key][m.epoch] > 1 {
		m.vc.Violation("at_most_one_response", "duplicate-in-one-connection",
			fmt.Sprintf("incoming HTLC %x/%d received %d resolutions (%s) within one connection", key.Chan[:4], key.ID,
				m.upSeenEpoch[key][m.epoch], kind), m.witness())
	}
	if p == nil || !p.forwarded() {
		return
	}
	// is this the upstream channel of the payment?
	up := m.chanAB
	if p.Dir == "CA" {
		up = m.chanBC
	}
	if key.Chan != up {
		return
	}
	switch kind {
	case "settle":
		m.vc.Count("oracle_settle_needs_downstream_preimage", 1)
		if inHash != hash {
			m.vc.Violation("settle_with_wrong_preimage", "hash-mismatch",
				fmt.Sprintf("forwarder settled incoming HTLC %d with a preimage for another hash", key.ID), m.witness())
			return
		}
		if !m.downFulfill[hash] {
			m.vc.Violation("settle_only_with_downstream_preimage", p.Dir,
				fmt.Sprintf("forwarder settled incoming HTLC (payment %d %s) upstream before any update_fulfill with that preimage arrived on the outgoing channel",
					p.Idx, p.Dir), m.witness())
		}
	case "fail":
		m.vc.Count("oracle_fail_needs_outgoing_gone", 1)
		fetch := m.fetchBobBC
		if p.Dir == "CA" {
			fetch = m.fetchBobAB
		}
		ch, err := fetch()
		if err != nil {
			m.vc.Diag("fetch_bob_channel_failed", err.Error())
			return
		}
		if has, where := verifC08HasOutgoing(ch, hash); has {
			m.vc.Violation("fail_only_when_outgoing_gone", p.Dir+":"+where,
				fmt.Sprintf("forwarder failed incoming HTLC (payment %d %s kind %s) upstream while the outgoing HTLC is still in its %s",
					p.Idx, p.Dir, p.Kind, where), m.witness())
		}
	}
}

// verifC08IncomingLive: an incoming HTLC with this hash is in at least one of
// the commitments of the on-disk channel state (local, remote, pending
// remote), i.e. it is not irrevocably removed. An HTLC that is locked in and
// not yet resolved is in the local commitment until the very end of its
// removal, and the local and remote commitment are read in one transaction.
func verifC08IncomingLive(ch *channeldb.OpenChannel, hash lntypes.Hash) bool {
	has := func(hs []channeldb.HTLC) bool {
		for _, h := range hs {
			if h.Incoming && h.RHash == [32]byte(hash) {
				return true
			}
		}
		return false
	}
	if has(ch.LocalCommitment.Htlcs) || has(ch.RemoteCommitment.Htlcs) {
		return true
	}
	if tip, err := ch.RemoteCommitChainTip(); err == nil && tip != nil {
		return has(tip.Commitment.Htlcs)
	}
	return false
}

// outgoingAdd judges an update_add Bob sent on the outgoing channel of a
// forwarded payment (called with mu held, when the add arrives at the edge
// node). Converse of "the incoming HTLC is failed back only once the outgoing
// HTLC was irrevocably removed or never committed": once Bob has resolved the
// incoming HTLC upstream and it is gone from all of his upstream commitments,
// he must never offer the outgoing HTLC (again). Legitimate and not flagged:
// the first forward (the incoming HTLC is locked in first), and every replay
// after a restart of an add whose incoming HTLC is still pending (also one for
// which a fail was sent on an earlier connection and never got committed).
//
// The verdict needs all of:
//   - Bob sent a settle/fail upstream for an incoming HTLC of this hash, seen
//     in an EARLIER connection epoch (messages of an older connection are
//     never delivered in a newer one, so the add judged here was sent after
//     that epoch ended);
//   - no incoming add for the hash arrived at Bob after that resolution (a
//     retried payment has a new, live incoming HTLC of its own);
//   - read now from Bob's on-disk upstream channel (fresh FetchChannel): no
//     incoming HTLC with the hash in any commitment. Without a newer incoming
//     add the hash cannot come back, so it was gone when the add was sent,
//     unless a replayed pending HTLC was resolved and removed again between
//     Bob's send and this observation - which needs an answer of the peer
//     that receives the add only after this observation.
func (m *verifC08Mon) outgoingAdd(who string, x *lnwire.UpdateAddHTLC) {
	h := lntypes.Hash(x.PaymentHash)
	p := m.byHash[h]
	if p == nil || !p.forwarded() {
		return
	}
	down, fetch := m.chanBC, m.fetchBobAB
	if p.Dir == "CA" {
		down, fetch = m.chanAB, m.fetchBobBC
	}
	if x.ChanID != down {
		return
	}
	m.logf("e%d B->%s add chan=%x id=%d hash=%x", m.epoch, who, x.ChanID[:3], x.ID, h[:4])
	m.vc.Count("oracle_outgoing_add_has_live_incoming", 1)
	resSeq, resolved := m.upResSeq[h]
	if !resolved || m.upResEpoch[h] >= m.epoch || m.inAddSeq[h] > resSeq {
		return
	}
	// an add for a hash whose incoming HTLC Bob resolved upstream on an
	// earlier connection: a replay; its incoming HTLC must still be pending
	m.vc.Count("outgoing_add_replayed_after_upstream_resolution", 1)
	ch, err := fetch()
	if err != nil {
		m.vc.Diag("fetch_bob_channel_failed", err.Error())
		return
	}
	if verifC08IncomingLive(ch, h) {
		return
	}
	m.vc.Violation("outgoing_add_without_live_incoming", p.Dir,
		fmt.Sprintf("forwarder offered an outgoing HTLC (payment %d %s kind %s) although the incoming HTLC was resolved upstream on an "+
			"earlier connection and is in none of the forwarder's on-disk upstream commitments any more (no newer incoming add for the hash)",
			p.Idx, p.Dir, p.Kind), m.witness())
}

// ---------------------------------------------------------------------------

type verifC08Net struct {
	n        *threeHopNetwork
	channels *clusterChannels
	restore  func() (*clusterChannels, error)
	tcs      [4]*testLightningChannel
	mon      *verifC08Mon
	delaySeed uint64
	delayPct  int

	// gate holds channel_reestablish messages of a channel whose links are
	// being re-created by flap(): the fixture's mock server discards a
	// message whose link is not registered yet, whereas a real peer buffers
	// it until the link is active (msgStream).
	gateMu sync.Mutex
	gate   map[lnwire.ChannelID]chan struct{}

	// down[0]/down[1]: the links of channel A-B / B-C are currently removed
	down [2]bool

	// netMu: the harness' own calls into a switch (SendHTLC,
	// GetAttemptResult) never overlap that switch's Stop. lnd's Switch adds
	// to its WaitGroup in GetAttemptResult while Stop waits on it (see
	// DESIGN 7.3, lifecycle race); under load that misuse panics the
	// process ("WaitGroup is reused before previous Wait has returned"),
	// which would end a shard for a reason outside C08.
	netMu sync.RWMutex
	gen   int // network generation, bumped by every cluster restart (under netMu)

	// Byzantine downstream peer: the first update_fulfill_htlc carrying the
	// preimage of byzHash that arrives at Bob gets one byte flipped.
	byzMu   sync.Mutex
	byzHash *lntypes.Hash
	byzDone bool

	// st: every durable store of the cluster behind the power-loss
	// interposer (see "Power loss" below)
	st *verifC08Stores
	// plEpoch counts power-loss boots. A result waiter (or a send) that was
	// attached before a power loss belongs to the discarded continuation:
	// it must not write a payment's outcome any more. Bumped under netMu.
	plEpoch atomic.Int64
}

// ---------------------------------------------------------------------------
// Power loss: a crash-consistent cut through the whole cluster in the middle
// of activity (DESIGN 3 C08 (d)).
//
// Every durable store of the cluster - the channel database of each node,
// which in this fixture is also the node's switch database (circuit map,
// payment results, forwarding packages, switch packager), and the database of
// each node's invoice registry - sits behind verifC08PLDB, a kvdb.Backend
// interposer. All interposers share ONE RWMutex: a read-write transaction
// (Update, Batch, BeginReadWriteTx..Commit/Rollback) holds the read side from
// before it begins until after it has committed. powerCut takes the write
// side, i.e. it runs at an instant at which no write transaction is open
// anywhere, copies every database file through a read transaction and
// releases. The set of transactions in the copies is therefore closed under
// real-time precedence: if T2 is in the cut and T1 committed before T2 began
// (same goroutine, other goroutine, other node - whatever the causal path,
// e.g. a message that was sent after T1 and whose handling led to T2) then T1
// is in the cut too. That is exactly what a simultaneous power loss of all
// three machines leaves behind: a message that was sent is backed by
// everything its sender had persisted before sending, nothing a receiver
// persisted depends on a message from outside the cut, and all messages that
// were in flight are lost. (In lnd the invoices live in the same bbolt file
// as the channels; here they are a second file of the same node. Two
// transactions that overlapped in time here would have been serialised in
// some order by the single file, and a downward-closed set is a prefix of one
// of those orders, so the cut is a state the single file can be left in.)
// Writes are never frozen and nodes are never cut at different instants.
//
// What the fixture keeps in memory although lnd keeps it on disk:
//   - invoice registries: they are real invoices.InvoiceRegistry objects over
//     a database, so they are NOT carried over: after the power loss new
//     registries are created over the copies (everything the discarded
//     continuation did to the invoices is gone with it);
//   - preimage caches (lnd: witness cache in channel.db): the maps are copied
//     under the write lock, the new cluster gets the copies (the links only
//     ever write to them);
//   - the wire monitor's tables (what Bob received/sent so far): copied under
//     the write lock and rolled back at the boot, because the messages of the
//     discarded continuation never happened. An event is recorded when the
//     receiving mock server takes the message off its queue, i.e. before the
//     link handles it, hence before any durable effect of it: the monitor's
//     copy can only be AHEAD of the databases' (a message recorded as arrived
//     whose effects are not in the cut = a message lost in flight). Being
//     ahead only ever makes the wire oracle more permissive (downFulfill) or
//     is used for identification (which hash an (chan,id) refers to, which is
//     overwritten when the id is re-used after the boot);
//   - which attempt ids were handed to which sender's switch: every payment's
//     outcome is forgotten at the boot and re-queried by attempt id from the
//     new switch (circuit map / result store of the cut). An attempt whose
//     SendHTLC only happened in the discarded continuation is unknown there
//     ("notsent"), as is its add: SendHTLC commits the circuit before the
//     packet reaches the link.
//   - hold-invoice decisions of the harness: the holder goroutines of the
//     discarded continuation are stopped without acting, new ones are started
//     against the new registries; a decision that is in the cut (invoice
//     settled/cancelled on disk) stands, every later one is re-made (same
//     decision, it is a fixed attribute of the payment).
// Everything else the new cluster knows comes from the copies.
// ---------------------------------------------------------------------------

type verifC08Cut struct {
	mu sync.RWMutex
	// open: write transactions currently in progress anywhere in the
	// cluster. A commit that is stuck in an fsync of an overloaded disk
	// for seconds is activity the channel heights do not show: the
	// network is not idle while this is non-zero (waitIdle).
	open atomic.Int64
}

func (c *verifC08Cut) begin() { c.mu.RLock(); c.open.Add(1) }
func (c *verifC08Cut) end()   { c.open.Add(-1); c.mu.RUnlock() }

// verifC08Trigger makes a cut land exactly behind one durable write: the
// goroutine whose committed write transaction brings left to zero announces
// it (fire) and waits - outside of any transaction, holding no lock of the
// harness - until the cut was taken (done), so the handler it runs is frozen
// between that write and whatever it does next. The wait is bounded: if the
// cut cannot be taken (some other transaction needs a lock of lnd that the
// frozen goroutine holds) the goroutine goes on after two seconds and the cut
// happens a little later. Soundness never rests on the freeze - any instant
// without an open write transaction is a consistent cut - only precision.
type verifC08Trigger struct {
	class string // "" = any write transaction, else one that opened this top-level bucket
	left  atomic.Int64
	fire  chan struct{}
	done  chan struct{}
}

type verifC08PLDB struct {
	kvdb.Backend
	cut     *verifC08Cut
	commits atomic.Int64
	trig    atomic.Pointer[verifC08Trigger]
}

// verifC08RecTx notes which top-level buckets a write transaction opens, so
// that a cut can be placed behind a write of a given kind (circuit commit,
// keystone, forwarding package, channel state, payment result).
type verifC08RecTx struct {
	walletdb.ReadWriteTx
	mu      sync.Mutex
	buckets []string
}

func (t *verifC08RecTx) note(key []byte) {
	t.mu.Lock()
	t.buckets = append(t.buckets, string(key))
	t.mu.Unlock()
}

func (t *verifC08RecTx) ReadWriteBucket(key []byte) walletdb.ReadWriteBucket {
	t.note(key)
	return t.ReadWriteTx.ReadWriteBucket(key)
}

func (t *verifC08RecTx) CreateTopLevelBucket(key []byte) (walletdb.ReadWriteBucket, error) {
	t.note(key)
	return t.ReadWriteTx.CreateTopLevelBucket(key)
}

func (t *verifC08RecTx) opened(class string) bool {
	t.mu.Lock()
	defer t.mu.Unlock()
	for _, b := range t.buckets {
		if b == class {
			return true
		}
	}
	return false
}

func (d *verifC08PLDB) committed(rec *verifC08RecTx) {
	d.commits.Add(1)
	t := d.trig.Load()
	if t == nil || (t.class != "" && !rec.opened(t.class)) {
		return
	}
	if t.left.Add(-1) == 0 {
		close(t.fire)
		select {
		case <-t.done:
		case <-time.After(2 * time.Second):
		}
	}
}

func (d *verifC08PLDB) Update(f func(tx walletdb.ReadWriteTx) error, reset func()) error {
	var rec *verifC08RecTx
	d.cut.begin()
	err := d.Backend.Update(func(tx walletdb.ReadWriteTx) error {
		rec = &verifC08RecTx{ReadWriteTx: tx}
		return f(rec)
	}, reset)
	d.cut.end()
	if err == nil && rec != nil {
		d.committed(rec)
	}
	return err
}

// Batch keeps bbolt's batching (the circuit map uses kvdb.Batch).
func (d *verifC08PLDB) Batch(f func(tx walletdb.ReadWriteTx) error) error {
	var rec *verifC08RecTx
	g := func(tx walletdb.ReadWriteTx) error {
		rec = &verifC08RecTx{ReadWriteTx: tx}
		return f(rec)
	}
	d.cut.begin()
	var err error
	if b, ok := d.Backend.(walletdb.BatchDB); ok {
		err = b.Batch(g)
	} else {
		err = d.Backend.Update(g, func() {})
	}
	d.cut.end()
	if err == nil && rec != nil {
		d.committed(rec)
	}
	return err
}

func (d *verifC08PLDB) BeginReadWriteTx() (walletdb.ReadWriteTx, error) {
	d.cut.begin()
	tx, err := d.Backend.BeginReadWriteTx()
	if err != nil {
		d.cut.end()
		return nil, err
	}
	return &verifC08PLTx{verifC08RecTx: verifC08RecTx{ReadWriteTx: tx}, d: d}, nil
}

type verifC08PLTx struct {
	verifC08RecTx
	d    *verifC08PLDB
	once sync.Once
}

func (t *verifC08PLTx) Commit() error {
	err := t.ReadWriteTx.Commit()
	t.once.Do(func() {
		t.d.cut.end()
		if err == nil {
			t.d.committed(&t.verifC08RecTx)
		}
	})
	return err
}

func (t *verifC08PLTx) Rollback() error {
	err := t.ReadWriteTx.Rollback()
	t.once.Do(t.d.cut.end)
	return err
}

// verifC08Stores: the durable stores of the cluster. Index 0/1/2 =
// alice/bob/carol.
type verifC08Stores struct {
	cut      *verifC08Cut
	cdb      [3]*channeldb.DB // channel state + switch (circuits, results, fwd pkgs)
	idb      [3]*channeldb.DB // invoice registry
	cw, iw   [3]*verifC08PLDB
	pts      [4]wire.OutPoint // alice(A-B), bob(A-B), bob(B-C), carol(B-C)
	signers  [3]input.Signer
	pools    [3]*lnwallet.SigPool
	chanOpts []lnwallet.ChannelOpt
	sat      *verifC08Sat // saturation case: small limits on one channel
}

// verifC08Sat describes the saturation phase of a case: the channel that is
// the forwarder's OUTGOING channel for payments in direction Dir gets a small
// limit (number of accepted HTLCs, or value in flight); Fillers hold-invoice
// payments in that direction take the limit up, then Burst further payments
// are forwarded by Bob's switch (policy, expiry and bandwidth are fine) and
// rejected by his outgoing LINK (lnwallet refuses the add); then the held
// payments are settled/cancelled, and the case goes on with its ordinary
// payments and fault plan. After the faults the rejected invoices are paid
// again with new attempt ids.
type verifC08Sat struct {
	Dir        string // "AC": B-C is saturated, "CA": A-B
	Mode       string // "slots" or "amount"
	Slots      uint16
	MaxPending lnwire.MilliSatoshi
	FillSat    int64 // amount of one filler, satoshi
	Fillers    int
	Burst      int
	WaitIdle   bool // wait for quiescence before the ordinary phase begins
}

// applyLimits sets the limits of a saturation case on a channel end's state.
// createTestChannel hard-codes the bounds (50 HTLCs, the capacity); lnwallet
// reads them from the channel state whenever it validates an update, so they
// are set on the state objects the fixture created and on every state that is
// reloaded from disk (all reloads go through loadChan). Both configs of both
// ends get the same value, as after a negotiation.
func (s *verifC08Stores) applyLimits(end int, oc *channeldb.OpenChannel) {
	if s.sat == nil || (s.sat.Dir == "AC") != (end >= 2) {
		return
	}
	for _, cfg := range []*channeldb.ChannelConfig{&oc.LocalChanCfg, &oc.RemoteChanCfg} {
		if s.sat.Mode == "slots" {
			cfg.MaxAcceptedHtlcs = s.sat.Slots
		} else {
			cfg.MaxPendingAmount = s.sat.MaxPending
		}
	}
}

var verifC08NodeOfEnd = [4]int{0, 1, 1, 2}

// loadChan reloads one channel end from its node's (current) database.
func (s *verifC08Stores) loadChan(end int) (*lnwallet.LightningChannel, error) {
	node := verifC08NodeOfEnd[end]
	st, err := s.cdb[node].ChannelStateDB().FetchChannel(s.pts[end])
	if err != nil {
		return nil, fmt.Errorf("fetch channel end %d: %w", end, err)
	}
	s.applyLimits(end, st)
	return lnwallet.NewLightningChannel(s.signers[node], st, s.pools[node], s.chanOpts...)
}

func verifC08OpenBolt(dir string) (kvdb.Backend, error) {
	return kvdb.GetBoltBackend(&kvdb.BoltBackendConfig{
		DBPath:            dir,
		DBFileName:        "channel.db",
		NoFreelistSync:    true,
		AutoCompact:       false,
		AutoCompactMinAge: kvdb.DefaultBoltAutoCompactMinAge,
		DBTimeout:         kvdb.DefaultDBTimeout,
	})
}

// verifC08WrapDB puts an open backend behind the interposer and builds a
// channeldb.DB on it.
func verifC08WrapDB(cut *verifC08Cut, raw kvdb.Backend) (*verifC08PLDB, *channeldb.DB, error) {
	w := &verifC08PLDB{Backend: raw, cut: cut}
	db, err := channeldb.CreateWithBackend(w)
	if err != nil {
		return nil, nil, err
	}
	return w, db, nil
}

// verifC08NewRegistry is the fixture's newMockRegistry over a given database.
func verifC08NewRegistry(t *testing.T, db *channeldb.DB) *mockInvoiceRegistry {
	registry := invoices.NewRegistry(
		db,
		invoices.NewInvoiceExpiryWatcher(clock.NewDefaultClock(), 0, 0, nil, &mockChainNotifier{}),
		&invoices.RegistryConfig{
			FinalCltvRejectDelta: 5,
			HtlcInterceptor:      &invoices.MockHtlcModifier{},
		},
	)
	registry.Start()
	t.Cleanup(func() { _ = registry.Stop() })
	return &mockInvoiceRegistry{registry: registry}
}

// useRegistries replaces the registries/preimage caches the fixture gave the
// servers and links of network n.
func verifC08UseRegistries(n *threeHopNetwork, regs [3]*mockInvoiceRegistry, caches [3]*mockPreimageCache) {
	for k, srv := range []*mockServer{n.aliceServer, n.bobServer, n.carolServer} {
		if srv.registry != nil && srv.registry != regs[k] {
			// the registry newMockServer created is never used
			_ = srv.registry.registry.Stop()
		}
		srv.registry, srv.pCache = regs[k], caches[k]
	}
	n.aliceChannelLink.cfg.Registry, n.aliceChannelLink.cfg.PreimageCache = regs[0], caches[0]
	n.firstBobChannelLink.cfg.Registry, n.firstBobChannelLink.cfg.PreimageCache = regs[1], caches[1]
	n.secondBobChannelLink.cfg.Registry, n.secondBobChannelLink.cfg.PreimageCache = regs[1], caches[1]
	n.carolChannelLink.cfg.Registry, n.carolChannelLink.cfg.PreimageCache = regs[2], caches[2]
	verifC08OwnObfuscators(n.aliceChannelLink, n.firstBobChannelLink, n.secondBobChannelLink, n.carolChannelLink)
}

// verifC08OwnObfuscators: the fixture hands ONE mockObfuscator to all links of
// a network and its EncryptFirstHop stores the failure in it (a field nothing
// reads): two links failing adds at the same time - both of Bob's links
// replaying after a boot - make the race detector report the fixture. Every
// extraction gets an obfuscator of its own.
func verifC08OwnObfuscators(links ...*channelLink) {
	for _, l := range links {
		l.cfg.ExtractErrorEncrypter = func(*btcec.PublicKey) (hop.ErrorEncrypter, lnwire.FailCode) {
			return NewMockObfuscator(), lnwire.CodeNone
		}
	}
}

type verifC08MonState struct {
	incomingAdds map[verifC08Key]lntypes.Hash
	downFulfill  map[lntypes.Hash]bool
	everAtBob    map[lntypes.Hash]bool
	bobOutAdds   map[verifC08Key]lntypes.Hash
	downResolved map[lntypes.Hash]string
	upSeen       map[verifC08Key]map[string]int
	upSeenEpoch  map[verifC08Key]map[int]int
	inAddSeq     map[lntypes.Hash]int64
	upResSeq     map[lntypes.Hash]int64
	upResEpoch   map[lntypes.Hash]int
	traceLen     int
}

func verifC08CloneMap[K comparable, V any](m map[K]V) map[K]V {
	out := make(map[K]V, len(m))
	for k, v := range m {
		out[k] = v
	}
	return out
}

// cloneState must be called with m.mu held.
func (m *verifC08Mon) cloneState() verifC08MonState {
	s := verifC08MonState{
		incomingAdds: verifC08CloneMap(m.incomingAdds),
		downFulfill:  verifC08CloneMap(m.downFulfill),
		everAtBob:    verifC08CloneMap(m.everAtBob),
		bobOutAdds:   verifC08CloneMap(m.bobOutAdds),
		downResolved: verifC08CloneMap(m.downResolved),
		upSeen:       map[verifC08Key]map[string]int{},
		upSeenEpoch:  map[verifC08Key]map[int]int{},
		inAddSeq:     verifC08CloneMap(m.inAddSeq),
		upResSeq:     verifC08CloneMap(m.upResSeq),
		upResEpoch:   verifC08CloneMap(m.upResEpoch),
		traceLen:     len(m.trace),
	}
	for k, v := range m.upSeen {
		s.upSeen[k] = verifC08CloneMap(v)
	}
	for k, v := range m.upSeenEpoch {
		s.upSeenEpoch[k] = verifC08CloneMap(v)
	}
	return s
}

// verifC08PLSnap is what survives a power loss.
type verifC08PLSnap struct {
	dirs     [6]string // copies: channel dbs 0..2, invoice dbs 3..5
	caches   [3]map[lntypes.Hash]lntypes.Preimage
	mon      verifC08MonState
	inflight int      // messages queued at the mock servers at the cut
	commits  [6]int64 // committed write transactions per store up to the cut
}

// powerCutAfterCommit takes the cut right behind the k-th write transaction
// (of the given class, see verifC08Trigger) that store number `store` (0..2
// channel dbs, 3..5 invoice dbs) commits from now on, with the committing goroutine frozen there; when that store does
// not commit that often within the wait the cut is taken anyway. Returns how
// the cut was placed.
func (v *verifC08Net) powerCutAfterCommit(base string, store int, class string, k int, wait time.Duration) (*verifC08PLSnap, string, error) {
	w := v.st.cw[store%3]
	if store >= 3 {
		w = v.st.iw[store%3]
	}
	trig := &verifC08Trigger{class: class, fire: make(chan struct{}), done: make(chan struct{})}
	trig.left.Store(int64(k + 1))
	w.trig.Store(trig)
	how := fmt.Sprintf("behind commit %d (%q) of store %d", k+1, class, store)
	select {
	case <-trig.fire:
	case <-time.After(wait):
		how = fmt.Sprintf("timer (store %d did not commit %d times (%q))", store, k+1, class)
	}
	w.trig.Store(nil)
	snap, err := v.powerCut(base)
	close(trig.done)
	return snap, how, err
}

// powerCut takes the global cut (see above). The cluster keeps running.
func (v *verifC08Net) powerCut(base string) (*verifC08PLSnap, error) {
	snap := &verifC08PLSnap{}
	st := v.st
	servers := []*mockServer{v.n.aliceServer, v.n.bobServer, v.n.carolServer}
	st.cut.mu.Lock()
	defer st.cut.mu.Unlock()
	for k := 0; k < 6; k++ {
		w := st.cw[k%3]
		if k >= 3 {
			w = st.iw[k%3]
		}
		dir := filepath.Join(base, fmt.Sprintf("store%d", k))
		if err := os.MkdirAll(dir, 0o700); err != nil {
			return nil, err
		}
		f, err := os.Create(filepath.Join(dir, "channel.db"))
		if err != nil {
			return nil, err
		}
		err = w.Backend.Copy(f)
		if cerr := f.Close(); err == nil {
			err = cerr
		}
		if err != nil {
			return nil, fmt.Errorf("copy store %d: %w", k, err)
		}
		snap.dirs[k] = dir
		snap.commits[k] = w.commits.Load()
	}
	for k, srv := range servers {
		srv.pCache.Lock()
		snap.caches[k] = verifC08CloneMap(srv.pCache.preimageMap)
		srv.pCache.Unlock()
		snap.inflight += len(srv.messages)
	}
	v.mon.mu.Lock()
	snap.mon = v.mon.cloneState()
	v.mon.logf("=== POWER LOSS CUT taken here (everything below, up to the boot, is the discarded continuation)")
	v.mon.mu.Unlock()
	return snap, nil
}

// bootFromCut replaces the stores, registries, caches and monitor tables by
// those of the cut. Called by reboot with the old cluster stopped.
func (v *verifC08Net) bootFromCut(t *testing.T, snap *verifC08PLSnap) ([3]*mockInvoiceRegistry, [3]*mockPreimageCache, error) {
	var regs [3]*mockInvoiceRegistry
	var caches [3]*mockPreimageCache
	st := v.st
	for k := 0; k < 6; k++ {
		raw, err := verifC08OpenBolt(snap.dirs[k])
		if err != nil {
			return regs, caches, fmt.Errorf("open copy %d: %w", k, err)
		}
		t.Cleanup(func() { _ = raw.Close() })
		w, db, err := verifC08WrapDB(st.cut, raw)
		if err != nil {
			return regs, caches, fmt.Errorf("channeldb on copy %d: %w", k, err)
		}
		if k < 3 {
			st.cw[k], st.cdb[k] = w, db
		} else {
			st.iw[k-3], st.idb[k-3] = w, db
		}
	}
	for k := 0; k < 3; k++ {
		regs[k] = verifC08NewRegistry(t, st.idb[k])
		caches[k] = &mockPreimageCache{preimageMap: snap.caches[k]}
	}
	m := v.mon
	m.mu.Lock()
	m.incomingAdds, m.downFulfill, m.everAtBob = snap.mon.incomingAdds, snap.mon.downFulfill, snap.mon.everAtBob
	m.bobOutAdds, m.downResolved = snap.mon.bobOutAdds, snap.mon.downResolved
	m.upSeen, m.upSeenEpoch = snap.mon.upSeen, snap.mon.upSeenEpoch
	m.inAddSeq, m.upResSeq, m.upResEpoch = snap.mon.inAddSeq, snap.mon.upResSeq, snap.mon.upResEpoch
	m.logf("=== POWER LOSS BOOT: monitor tables rolled back to the cut (trace entry %d)", snap.mon.traceLen)
	m.mu.Unlock()
	return regs, caches, nil
}

// classifyCut describes, from the freshly loaded (not yet started) cluster,
// which handler windows the cut fell into. Diagnostic counters only.
func (v *verifC08Net) classifyCut(vc *verifCtx, snap *verifC08PLSnap, n *threeHopNetwork, pays []*verifC08Pay) (bool, string) {
	chans := []*lnwallet.LightningChannel{v.channels.aliceToBob, v.channels.bobToAlice,
		v.channels.bobToCarol, v.channels.carolToBob}
	var nHtlc, pendingRemote, unsignedAcked, remoteUnsignedLocal, owe, pkgLockedAdds, pkgUnackedSF, pkgUnackedAdds int
	var signedNotDeleted, resultNotTornDown int
	servers := []*mockServer{n.aliceServer, n.bobServer, n.carolServer}
	for end, c := range chans {
		st := c.State()
		nHtlc += len(st.LocalCommitment.Htlcs) + len(st.RemoteCommitment.Htlcs)
		if tip, err := st.RemoteCommitChainTip(); err == nil && tip != nil {
			pendingRemote++
			nHtlc += len(tip.Commitment.Htlcs)
			// a signed commitment whose settle/fails closed circuits
			// that are still in the circuit map
			cm := servers[verifC08NodeOfEnd[end]].htlcSwitch.circuits
			for _, key := range tip.ClosedCircuitKeys {
				if cm.LookupCircuit(key) != nil {
					signedNotDeleted++
				}
			}
		}
		if ups, err := st.UnsignedAckedUpdates(); err == nil && len(ups) > 0 {
			unsignedAcked++
		}
		if ups, err := st.RemoteUnsignedLocalUpdates(); err == nil && len(ups) > 0 {
			remoteUnsignedLocal++
		}
		if c.OweCommitment() {
			owe++
		}
		if pkgs, err := st.LoadFwdPkgs(); err == nil {
			for _, pk := range pkgs {
				if pk.State == channeldb.FwdStateLockedIn && len(pk.Adds) > 0 {
					pkgLockedAdds++
				}
				if pk.State != channeldb.FwdStateLockedIn && len(pk.Adds) > 0 && !pk.AckFilter.IsFull() {
					pkgUnackedAdds++
				}
				if len(pk.SettleFails) > 0 && !pk.SettleFailFilter.IsFull() {
					pkgUnackedSF++
				}
			}
		}
	}
	for _, p := range pays {
		// a sender that stored the result of its payment and still has
		// the payment's circuit
		sw := servers[map[byte]int{'A': 0, 'B': 1, 'C': 2}[p.Dir[0]]].htlcSwitch
		if _, err := sw.networkResults.getResult(p.Pid); err == nil &&
			sw.circuits.LookupCircuit(CircuitKey{ChanID: hop.Source, HtlcID: p.Pid}) != nil {

			resultNotTornDown++
		}
	}
	bobPending := n.bobServer.htlcSwitch.circuits.NumPending()
	bobOpen := n.bobServer.htlcSwitch.circuits.NumOpen()
	flag := func(name string, on bool) {
		if on {
			vc.Count("pl_window_"+name, 1)
		}
	}
	flag("msgs_in_flight", snap.inflight > 0)
	flag("htlcs_on_commitments", nHtlc > 0)
	flag("signed_awaiting_revocation", pendingRemote > 0)           // after AppendRemoteCommitChain, before ReceiveRevocation
	flag("revoked_not_yet_signed", unsignedAcked > 0 || owe > 0)    // after a revocation write, before the next sign
	flag("remote_unsigned_local_updates", remoteUnsignedLocal > 0)
	flag("fwdpkg_lockedin_adds_not_forwarded", pkgLockedAdds > 0)   // after ReceiveRevocation, before the switch took the adds
	flag("fwdpkg_adds_forwarded_not_acked", pkgUnackedAdds > 0)     // FwdFilter written, adds not yet acked by an outgoing commit
	flag("fwdpkg_settlefails_not_acked", pkgUnackedSF > 0)          // responses handed over, SettleFailAcks not yet written
	flag("bob_circuit_committed_not_opened", bobPending > bobOpen)  // after CommitCircuits, before OpenCircuits/sign
	flag("bob_circuits_present", bobPending > 0)
	flag("signed_settlefail_circuit_not_deleted", signedNotDeleted > 0)   // after the sign, before DeleteCircuits
	flag("sender_result_stored_circuit_present", resultNotTornDown > 0)   // after storeResult, before the circuit teardown
	active := nHtlc > 0 || snap.inflight > 0
	desc := fmt.Sprintf("inflight=%d htlcs=%d pendingRemote=%d unsignedAcked=%d remoteUnsignedLocal=%d owe=%d "+
		"pkgLockedAdds=%d pkgUnackedAdds=%d pkgUnackedSF=%d bobCircuits=%d/%d signedNotDeleted=%d resultNotTornDown=%d commits(chan a,b,c; inv a,b,c)=%v",
		snap.inflight, nHtlc, pendingRemote, unsignedAcked, remoteUnsignedLocal, owe,
		pkgLockedAdds, pkgUnackedAdds, pkgUnackedSF, bobPending, bobOpen, signedNotDeleted, resultNotTornDown, snap.commits)
	return active, desc
}

func (v *verifC08Net) maybeCorrupt(m lnwire.Message) {
	x, ok := m.(*lnwire.UpdateFulfillHTLC)
	if !ok {
		return
	}
	v.byzMu.Lock()
	defer v.byzMu.Unlock()
	if v.byzHash == nil || v.byzDone {
		return
	}
	if lntypes.Hash(sha256.Sum256(x.PaymentPreimage[:])) != *v.byzHash {
		return
	}
	x.PaymentPreimage[7] ^= 0x40
	v.byzDone = true
}

func (v *verifC08Net) holdReestablish(m lnwire.Message) {
	x, ok := m.(*lnwire.ChannelReestablish)
	if !ok {
		return
	}
	v.gateMu.Lock()
	g := v.gate[x.ChanID]
	v.gateMu.Unlock()
	if g != nil {
		select {
		case <-g:
		case <-time.After(60 * time.Second):
		}
	}
}

func (v *verifC08Net) install(t *testing.T) {
	n := v.n
	wireDbg := os.Getenv("VERIF_DEBUG") != ""
	mk := func(idx int, name string, f func(lnwire.Message)) messageInterceptor {
		var cnt uint64
		return func(m lnwire.Message) (bool, error) {
			c := atomic.AddUint64(&cnt, 1)
			if wireDbg {
				var extra string
				switch x := m.(type) {
				case *lnwire.UpdateAddHTLC:
					extra = fmt.Sprintf("chan=%x id=%d hash=%x", x.ChanID[:3], x.ID, x.PaymentHash[:4])
				case *lnwire.UpdateFulfillHTLC:
					extra = fmt.Sprintf("chan=%x id=%d", x.ChanID[:3], x.ID)
				case *lnwire.UpdateFailHTLC:
					extra = fmt.Sprintf("chan=%x id=%d", x.ChanID[:3], x.ID)
				case *lnwire.CommitSig:
					extra = fmt.Sprintf("chan=%x nhtlcsigs=%d", x.ChanID[:3], len(x.HtlcSigs))
				case *lnwire.RevokeAndAck:
					extra = fmt.Sprintf("chan=%x", x.ChanID[:3])
				case *lnwire.ChannelReestablish:
					extra = fmt.Sprintf("chan=%x nextLocal=%d remoteTail=%d", x.ChanID[:3], x.NextLocalCommitHeight, x.RemoteCommitTailHeight)
				}
				fmt.Printf("WIRE %s ->%s %T %s\n", time.Now().Format("15:04:05.000"), name, m, extra)
			}
			if v.delayPct > 0 && int(verifMix(v.delaySeed^uint64(idx)<<32^c)%100) < v.delayPct {
				time.Sleep(time.Duration(1+verifMix(c^v.delaySeed)%15) * time.Millisecond)
			}
			v.holdReestablish(m)
			f(m)
			return false, nil
		}
	}
	n.aliceServer.intersect(mk(0, "alice", func(m lnwire.Message) { v.mon.atEdge("A", m) }))
	n.bobServer.intersect(mk(1, "bob", func(m lnwire.Message) { v.maybeCorrupt(m); v.mon.atBob(m) }))
	n.carolServer.intersect(mk(2, "carol", func(m lnwire.Message) { v.mon.atEdge("C", m) }))
}

// verifC08Cluster is createClusterChannels keeping the per-channel restore
// functions, so that a single channel can be reloaded while the links of the
// other one keep running (reloading a channel whose link is live would read
// its commit chain tip and pending updates in separate transactions).
func verifC08Cluster(t *testing.T, capSat btcutil.Amount, sat *verifC08Sat) (*clusterChannels, [4]*testLightningChannel, *verifC08Stores, error) {
	var none [4]*testLightningChannel
	_, _, firstChanID, secondChanID := genIDs()
	a, b1, err := createTestChannel(t, alicePrivKey, bobPrivKey, capSat, capSat, 0, 0, firstChanID)
	if err != nil {
		return nil, none, nil, err
	}
	b2, c, err := createTestChannel(t, bobPrivKey, carolPrivKey, capSat, capSat, 0, 0, secondChanID)
	if err != nil {
		return nil, none, nil, err
	}
	// The fixture gives every channel END its own database and leaves the
	// channels "pending". A node keeps all its channels in one database,
	// which is also the switch's: only then can the switch reach the
	// forwarding packages of both of Bob's channels (reforwardResponses at
	// start-up, batched settle/fail acks), and it skips pending channels.
	// So: move Bob's B-C channel into the database of his A-B channel and
	// mark all four channel ends open.
	bobDB := b1.channel.State().Db
	st2 := b2.channel.State()
	st2.Db = bobDB
	bobAddr := &net.TCPAddr{IP: net.ParseIP("127.0.0.1"), Port: 18556}
	if err := st2.SyncPending(bobAddr, 1); err != nil {
		return nil, none, nil, fmt.Errorf("move bob(B-C) into bob's db: %w", err)
	}
	tcs := [4]*testLightningChannel{a, b1, b2, c}
	for _, tc := range tcs {
		st := tc.channel.State()
		if err := st.MarkAsOpen(st.ShortChanID()); err != nil {
			return nil, none, nil, fmt.Errorf("mark open: %w", err)
		}
	}
	// Every node's database goes behind the power-loss interposer (same
	// open bbolt file, a second channeldb.DB on the wrapped backend); the
	// channels, and through newThreeHopNetwork the switches, use that one.
	// The invoice registries get databases of their own, wrapped as well.
	stores := &verifC08Stores{cut: &verifC08Cut{}, sat: sat}
	for node, tc := range []*testLightningChannel{a, b1, c} {
		csdb, ok := tc.channel.State().Db.(*channeldb.ChannelStateDB)
		if !ok {
			return nil, none, nil, fmt.Errorf("unexpected channel store %T", tc.channel.State().Db)
		}
		w, db, err := verifC08WrapDB(stores.cut, csdb.GetParentDB().Backend)
		if err != nil {
			return nil, none, nil, fmt.Errorf("wrap channel db %d: %w", node, err)
		}
		stores.cw[node], stores.cdb[node] = w, db
		raw, err := verifC08OpenBolt(t.TempDir())
		if err != nil {
			return nil, none, nil, fmt.Errorf("invoice db %d: %w", node, err)
		}
		t.Cleanup(func() { _ = raw.Close() })
		if stores.iw[node], stores.idb[node], err = verifC08WrapDB(stores.cut, raw); err != nil {
			return nil, none, nil, fmt.Errorf("wrap invoice db %d: %w", node, err)
		}
	}
	for end, tc := range tcs {
		tc.channel.State().Db = stores.cdb[verifC08NodeOfEnd[end]].ChannelStateDB()
		stores.pts[end] = tc.channel.ChannelPoint()
		stores.applyLimits(end, tc.channel.State())
	}
	stores.chanOpts = []lnwallet.ChannelOpt{
		lnwallet.WithLeafStore(&lnwallet.MockAuxLeafStore{}),
		lnwallet.WithAuxSigner(lnwallet.NewDefaultAuxSignerMock(t)),
	}
	for node, key := range [][]byte{alicePrivKey, bobPrivKey, carolPrivKey} {
		priv, _ := btcec.PrivKeyFromBytes(key)
		signer := input.NewMockSigner([]*btcec.PrivateKey{priv}, nil)
		pool := lnwallet.NewSigPool(2, signer)
		if err := pool.Start(); err != nil {
			return nil, none, nil, err
		}
		t.Cleanup(func() { _ = pool.Stop() })
		stores.signers[node], stores.pools[node] = signer, pool
	}
	// every reload of a channel end (flap, restart, power loss) reads the
	// node's CURRENT database
	for end := range tcs {
		end := end
		tcs[end].restore = func() (*lnwallet.LightningChannel, error) { return stores.loadChan(end) }
	}
	return &clusterChannels{aliceToBob: a.channel, bobToAlice: b1.channel,
		bobToCarol: b2.channel, carolToBob: c.channel}, tcs, stores, nil
}

func verifC08Start(t *testing.T, vc *verifCtx, r *verifRng, capSat btcutil.Amount, sat *verifC08Sat) (*verifC08Net, error) {
	channels, tcs, stores, err := verifC08Cluster(t, capSat, sat)
	if err != nil {
		return nil, err
	}
	restore := func() (*clusterChannels, error) {
		var out [4]*lnwallet.LightningChannel
		for i, tc := range tcs {
			ch, err := tc.restore()
			if err != nil {
				return nil, err
			}
			out[i] = ch
		}
		return &clusterChannels{aliceToBob: out[0], bobToAlice: out[1], bobToCarol: out[2], carolToBob: out[3]}, nil
	}
	v := &verifC08Net{channels: channels, restore: restore, tcs: tcs, st: stores,
		delaySeed: r.U64(), delayPct: []int{0, 10, 30}[r.Intn(3)]}
	mon := &verifC08Mon{vc: vc,
		chanAB:       lnwire.NewChanIDFromOutPoint(channels.aliceToBob.ChannelPoint()),
		chanBC:       lnwire.NewChanIDFromOutPoint(channels.bobToCarol.ChannelPoint()),
		byHash:       map[lntypes.Hash]*verifC08Pay{},
		incomingAdds: map[verifC08Key]lntypes.Hash{},
		downFulfill:  map[lntypes.Hash]bool{},
		everAtBob:    map[lntypes.Hash]bool{},
		bobOutAdds:   map[verifC08Key]lntypes.Hash{},
		downResolved: map[lntypes.Hash]string{},
		upSeen:       map[verifC08Key]map[string]int{},
		upSeenEpoch:  map[verifC08Key]map[int]int{},
		inAddSeq:     map[lntypes.Hash]int64{},
		upResSeq:     map[lntypes.Hash]int64{},
		upResEpoch:   map[lntypes.Hash]int{},
	}
	// Bob's on-disk channel state, read from his CURRENT database (it is
	// replaced by a power loss while no interceptor runs)
	mon.fetchBobAB = func() (*channeldb.OpenChannel, error) {
		return stores.cdb[1].ChannelStateDB().FetchChannel(stores.pts[1])
	}
	mon.fetchBobBC = func() (*channeldb.OpenChannel, error) {
		return stores.cdb[1].ChannelStateDB().FetchChannel(stores.pts[2])
	}
	v.mon = mon
	v.n = newThreeHopNetwork(t, channels.aliceToBob, channels.bobToAlice,
		channels.bobToCarol, channels.carolToBob, testStartingHeight)
	var regs [3]*mockInvoiceRegistry
	for k := range regs {
		regs[k] = verifC08NewRegistry(t, stores.idb[k])
	}
	verifC08UseRegistries(v.n, regs, [3]*mockPreimageCache{v.n.aliceServer.pCache, v.n.bobServer.pCache, v.n.carolServer.pCache})
	// Bob charges a proportional fee as well.
	for _, l := range []*channelLink{v.n.firstBobChannelLink, v.n.secondBobChannelLink} {
		l.cfg.FwrdingPolicy.FeeRate = 1000
	}
	v.install(t)
	verifC08CountFailAdds(vc, v.n)
	if err := v.startNet(); err != nil {
		return nil, err
	}
	return v, nil
}

// verifC08CountFailAdds counts the adds the forwarder's LINKS reject (counter
// link_level_add_rejects) without touching lnd's code: an add that a link
// cannot put on its commitment (or that expires in the mailbox) is failed by
// the link's mailbox (FailAdd), which asks the switch for the failure message,
// and the switch builds it from the channel update it fetches through its
// Config.FetchLastChannelUpdate callback. Failures decided by the switch or by
// the incoming link take the links' own callback. (The only other caller of the
// switch's callback is the fallback for adds left half-added by a circuit-map
// write error.) Observability counter only, never a verdict.
func verifC08CountFailAdds(vc *verifCtx, n *threeHopNetwork) {
	cfg := n.bobServer.htlcSwitch.cfg
	orig := cfg.FetchLastChannelUpdate
	cfg.FetchLastChannelUpdate = func(scid lnwire.ShortChannelID) (*lnwire.ChannelUpdate1, error) {
		vc.Count("link_level_add_rejects", 1)
		return orig(scid)
	}
}

// restart stops the whole cluster (all in-flight messages are lost) and boots
// a new one from the same databases, as TestChannelRetransmission does.
func (v *verifC08Net) restart(t *testing.T) error { return v.restartWith(t, -1) }

// restartWith restarts the whole cluster; with keepDown 0 (A-B) or 1 (B-C)
// the links of that channel are not brought back (the peer stays
// disconnected after the restart), so that what the forwarder's switch owes
// that channel's counterpart is re-forwarded by the switch itself
// (reforwardResponses) and not by the channel's own link.
func (v *verifC08Net) restartWith(t *testing.T, keepDown int) error {
	return v.reboot(t, keepDown, nil, nil, nil, nil)
}

// reboot stops the whole cluster and boots a new one. With snap == nil the
// new cluster runs on the same databases (graceful restart); with a snapshot
// it runs on the copies taken by powerCut: everything the old cluster did
// after the cut is discarded (power loss at the instant of the cut). locked
// runs with the harness' calls into the switches still excluded, after the
// new cluster was built and before it starts.
func (v *verifC08Net) reboot(t *testing.T, keepDown int, snap *verifC08PLSnap, vc *verifCtx, pays []*verifC08Pay, locked func(active bool, desc string)) error {
	old := v.n
	regs := [3]*mockInvoiceRegistry{old.aliceServer.registry, old.bobServer.registry, old.carolServer.registry}
	caches := [3]*mockPreimageCache{old.aliceServer.pCache, old.bobServer.pCache, old.carolServer.pCache}
	v.netMu.Lock()
	defer v.netMu.Unlock()
	v.gen++
	old.stop()
	if snap != nil {
		v.plEpoch.Add(1)
		for _, r := range regs {
			_ = r.registry.Stop()
		}
		var err error
		if regs, caches, err = v.bootFromCut(t, snap); err != nil {
			return err
		}
	}
	v.mon.mu.Lock()
	v.mon.epoch++
	v.mon.logf("=== cluster restart (power loss: %v) -> epoch %d", snap != nil, v.mon.epoch)
	v.mon.mu.Unlock()
	channels, err := v.restore()
	if err != nil {
		return fmt.Errorf("restore: %w", err)
	}
	v.channels = channels
	n := newThreeHopNetwork(t, channels.aliceToBob, channels.bobToAlice,
		channels.bobToCarol, channels.carolToBob, testStartingHeight)
	verifC08UseRegistries(n, regs, caches)
	for _, l := range []*channelLink{n.firstBobChannelLink, n.secondBobChannelLink} {
		l.cfg.FwrdingPolicy.FeeRate = 1000
	}
	v.n = n
	v.down = [2]bool{}
	v.install(t)
	verifC08CountFailAdds(v.mon.vc, n)
	if keepDown >= 0 {
		chanID := v.mon.chanAB
		other := n.aliceServer
		if keepDown == 1 {
			chanID, other = v.mon.chanBC, n.carolServer
		}
		n.bobServer.htlcSwitch.RemoveLink(chanID)
		other.htlcSwitch.RemoveLink(chanID)
		v.down[keepDown] = true
	}
	if locked != nil {
		active, desc := false, ""
		if snap != nil {
			active, desc = v.classifyCut(vc, snap, n, pays)
		}
		locked(active, desc)
	}
	return v.startNet()
}

// flap emulates a disconnect/reconnect of ONE channel while all three
// switches keep running: both links of the channel are removed from their
// switches (in-flight messages of that channel are lost), the channel is
// reloaded from disk on both sides and fresh links are added (which run
// channel_reestablish for real).
func (v *verifC08Net) flap(t *testing.T, ab bool) error {
	v.linkDown(ab)
	return v.linkUp(t, ab)
}

func verifC08DownIdx(ab bool) int {
	if ab {
		return 0
	}
	return 1
}

// linkDown removes both links of one channel from their switches (a
// disconnect); the channel stays down until linkUp or a cluster restart.
func (v *verifC08Net) linkDown(ab bool) {
	if v.down[verifC08DownIdx(ab)] {
		return
	}
	v.down[verifC08DownIdx(ab)] = true
	n := v.n
	chanID := v.mon.chanBC
	if ab {
		chanID = v.mon.chanAB
	}
	if ab {
		n.bobServer.htlcSwitch.RemoveLink(chanID)
		n.aliceServer.htlcSwitch.RemoveLink(chanID)
	} else {
		n.bobServer.htlcSwitch.RemoveLink(chanID)
		n.carolServer.htlcSwitch.RemoveLink(chanID)
	}
	// Let the servers discard what was still queued for the removed
	// links: a reconnect never delivers messages of the old connection.
	// The monitor's connection epoch only advances once they are gone
	// (they belong to the old connection).
	deadline := time.Now().Add(20 * time.Second)
	for time.Now().Before(deadline) {
		if len(n.aliceServer.messages) == 0 && len(n.bobServer.messages) == 0 &&
			len(n.carolServer.messages) == 0 {

			break
		}
		time.Sleep(5 * time.Millisecond)
	}
	time.Sleep(30 * time.Millisecond)
	v.mon.mu.Lock()
	v.mon.epoch++
	v.mon.logf("=== link down ab=%v -> epoch %d", ab, v.mon.epoch)
	v.mon.mu.Unlock()
}

// linkUp reloads the channel from disk on both sides and adds fresh links
// (which run channel_reestablish for real).
func (v *verifC08Net) linkUp(t *testing.T, ab bool) error {
	if !v.down[verifC08DownIdx(ab)] {
		return nil
	}
	n := v.n
	chanID := v.mon.chanBC
	if ab {
		chanID = v.mon.chanAB
	}
	gate := make(chan struct{})
	v.gateMu.Lock()
	if v.gate == nil {
		v.gate = map[lnwire.ChannelID]chan struct{}{}
	}
	v.gate[chanID] = gate
	v.gateMu.Unlock()
	defer func() {
		v.gateMu.Lock()
		if v.gate[chanID] == gate {
			delete(v.gate, chanID)
			close(gate)
		}
		v.gateMu.Unlock()
	}()
	openGate := func() {
		v.gateMu.Lock()
		if v.gate[chanID] == gate {
			delete(v.gate, chanID)
			close(gate)
		}
		v.gateMu.Unlock()
	}
	restored := &clusterChannels{}
	var err error
	if ab {
		if restored.aliceToBob, err = v.tcs[0].restore(); err != nil {
			return fmt.Errorf("restore alice(A-B): %w", err)
		}
		if restored.bobToAlice, err = v.tcs[1].restore(); err != nil {
			return fmt.Errorf("restore bob(A-B): %w", err)
		}
	} else {
		if restored.bobToCarol, err = v.tcs[2].restore(); err != nil {
			return fmt.Errorf("restore bob(B-C): %w", err)
		}
		if restored.carolToBob, err = v.tcs[3].restore(); err != nil {
			return fmt.Errorf("restore carol(B-C): %w", err)
		}
	}
	mk := func(server, peer *mockServer, ch *lnwallet.LightningChannel, bob bool) (*channelLink, error) {
		l, err := n.createChannelLink(server, peer, ch, newMockIteratorDecoder())
		if err != nil {
			return nil, err
		}
		cl := l.(*channelLink)
		if bob {
			cl.cfg.FwrdingPolicy.FeeRate = 1000
		}
		verifC08OwnObfuscators(cl)
		return cl, nil
	}
	links := map[string]*channelLink{}
	if ab {
		a, err := mk(n.aliceServer, n.bobServer, restored.aliceToBob, false)
		if err != nil {
			return err
		}
		b, err := mk(n.bobServer, n.aliceServer, restored.bobToAlice, true)
		if err != nil {
			return err
		}
		n.aliceChannelLink, n.firstBobChannelLink = a, b
		v.channels.aliceToBob, v.channels.bobToAlice = restored.aliceToBob, restored.bobToAlice
		links["alice"], links["bob first"] = a, b
	} else {
		b, err := mk(n.bobServer, n.carolServer, restored.bobToCarol, true)
		if err != nil {
			return err
		}
		c, err := mk(n.carolServer, n.bobServer, restored.carolToBob, false)
		if err != nil {
			return err
		}
		n.secondBobChannelLink, n.carolChannelLink = b, c
		v.channels.bobToCarol, v.channels.carolToBob = restored.bobToCarol, restored.carolToBob
		links["bob second"], links["carol"] = b, c
	}
	openGate()
	v.down[verifC08DownIdx(ab)] = false
	return verifC08WaitEligible(links)
}

// verifC08WaitEligible is waitLinksEligible with a generous watchdog (the
// fixture's 3 s are too short on a loaded machine).
func verifC08WaitEligible(links map[string]*channelLink) error {
	deadline := time.Now().Add(90 * time.Second)
	for {
		bad := ""
		for name, l := range links {
			if !l.EligibleToForward() {
				bad = name
			}
		}
		if bad == "" {
			return nil
		}
		if time.Now().After(deadline) {
			return fmt.Errorf("%s channel link not eligible after 90s", bad)
		}
		time.Sleep(10 * time.Millisecond)
	}
}

func (v *verifC08Net) startNet() error {
	n := v.n
	// The fixture's switch tickers keep the production interval (15 s),
	// longer than a case lasts, which leaves the switch's batched
	// settle/fail acknowledgement (and the forwarding-event flush) dead.
	for _, srv := range []*mockServer{n.aliceServer, n.bobServer, n.carolServer} {
		srv.htlcSwitch.cfg.AckEventTicker = ticker.New(15 * time.Millisecond)
		srv.htlcSwitch.cfg.FwdEventTicker = ticker.New(40 * time.Millisecond)
	}
	for _, srv := range []*mockServer{n.aliceServer, n.bobServer, n.carolServer} {
		if err := srv.Start(); err != nil {
			return err
		}
	}
	links := map[string]*channelLink{}
	if !v.down[0] {
		links["alice"], links["bob first"] = n.aliceChannelLink, n.firstBobChannelLink
	}
	if !v.down[1] {
		links["bob second"], links["carol"] = n.secondBobChannelLink, n.carolChannelLink
	}
	return verifC08WaitEligible(links)
}

func (v *verifC08Net) server(name byte) *mockServer {
	switch name {
	case 'A':
		return v.n.aliceServer
	case 'B':
		return v.n.bobServer
	}
	return v.n.carolServer
}

func (v *verifC08Net) genPayment(r *verifRng, idx int) (*verifC08Pay, error) {
	p := &verifC08Pay{Idx: idx}
	p.Dir = []string{"AC", "AC", "CA", "CA", "AB", "CB"}[r.Intn(6)]
	p.Kind = []string{"valid", "valid", "valid", "valid", "unknown", "underpaid", "lowfee", "lowcltv", "hold", "hold"}[r.Intn(10)]
	if ov := os.Getenv("VERIF_C08_FORCE"); ov != "" { // debugging aid: "hold-AC"
		f := strings.Split(ov, "-")
		p.Kind, p.Dir = f[0], f[1]
	}
	if p.Kind == "hold" {
		p.HoldSettle = r.Bool()
		p.HoldDelay = time.Duration(r.Intn(400)) * time.Millisecond
	}
	if !p.forwarded() && (p.Kind == "lowfee" || p.Kind == "lowcltv") {
		p.Kind = "valid"
	}
	// amounts around Bob's/Carol's dust (200 / 1300 sat in the fixture)
	// and the 5 sat min_htlc, plus mid-range.
	sat := []int64{5, 6, 199, 200, 201, 1299, 1300, 1301, 5000, 100000, 3000000}[r.Intn(11)]
	p.Amt = lnwire.MilliSatoshi(sat*1000 + int64(r.Intn(2))*int64(r.Intn(1000)))
	return v.buildPayment(r, p)
}

// buildPayment makes the onion, the invoice (added to the receiver's current
// registry) and the attempt id of a payment whose Dir, Kind, Amt (and hold
// attributes) are chosen.
func (v *verifC08Net) buildPayment(r *verifRng, p *verifC08Pay) (*verifC08Pay, error) {
	n := v.n
	var path []*channelLink
	switch p.Dir {
	case "AC":
		path = []*channelLink{n.firstBobChannelLink, n.carolChannelLink}
		p.firstHop = n.firstBobChannelLink.ShortChanID()
	case "CA":
		path = []*channelLink{n.secondBobChannelLink, n.aliceChannelLink}
		p.firstHop = n.secondBobChannelLink.ShortChanID()
	case "AB":
		path = []*channelLink{n.firstBobChannelLink}
		p.firstHop = n.firstBobChannelLink.ShortChanID()
	case "CB":
		path = []*channelLink{n.secondBobChannelLink}
		p.firstHop = n.secondBobChannelLink.ShortChanID()
	}
	htlcAmt, totalTimelock, hops := generateHops(p.Amt, testStartingHeight, path...)
	p.HtlcAmt = htlcAmt
	p.Fee = htlcAmt - p.Amt
	switch p.Kind {
	case "lowfee":
		htlcAmt-- // Bob is offered one msat less than his policy demands
	case "lowcltv":
		totalTimelock-- // expiry gap one block below Bob's delta
	}
	blob, err := generateRoute(hops...)
	if err != nil {
		return nil, err
	}
	copy(p.Preimage[:], r.Bytes(32))
	p.Hash = p.Preimage.Hash()
	invoiceAmt := p.Amt
	if p.Kind == "underpaid" {
		invoiceAmt = p.Amt + 1000
	}
	var payAddr [32]byte
	copy(payAddr[:], r.Bytes(32))
	pre := &p.Preimage
	if p.Kind == "hold" {
		pre = nil // hold invoice: the registry does not know the preimage
	} else {
		cp := p.Preimage
		pre = &cp
	}
	invoice, htlc, _, err := generatePaymentWithPreimage(invoiceAmt, htlcAmt, totalTimelock, blob,
		pre, p.Hash, payAddr)
	if err != nil {
		return nil, err
	}
	p.Pid = r.U64()
	p.htlc = htlc
	if p.Kind != "unknown" {
		recv := v.server(p.Dir[1])
		p.reg = recv.registry
		if err := recv.registry.AddInvoice(context.Background(), *invoice, p.Hash); err != nil {
			return nil, err
		}
	}
	return p, nil
}

// send launches the payment and waits for its result in a goroutine.
func (v *verifC08Net) send(p *verifC08Pay, wg *sync.WaitGroup) {
	wg.Add(1)
	go func() {
		defer wg.Done()
		v.netMu.RLock()
		ep := v.plEpoch.Load()
		p.mu.Lock()
		p.awaitGen = v.gen
		p.mu.Unlock()
		sender := v.server(p.Dir[0])
		err := sender.htlcSwitch.SendHTLC(p.firstHop, p.Pid, p.htlc)
		var resultChan <-chan *PaymentResult
		var rerr error
		if err == nil {
			resultChan, rerr = sender.htlcSwitch.GetAttemptResult(p.Pid, p.Hash, newMockDeobfuscator())
		}
		p.mu.Lock()
		p.sent = true
		p.mu.Unlock()
		v.netMu.RUnlock()
		if err != nil {
			p.mu.Lock()
			if ep == v.plEpoch.Load() {
				p.outcome, p.errStr = "fail", "SendHTLC: "+err.Error()
			}
			p.mu.Unlock()
			return
		}
		v.awaitResult(p, resultChan, rerr, ep)
	}()
}

// retry makes a new attempt (new attempt id) at the invoice of p, as a sender
// does whose first attempt came back with a temporary failure.
func (p *verifC08Pay) retry(pid uint64) *verifC08Pay {
	htlc := *p.htlc // the link that takes the add writes its channel and HTLC id into it
	q := &verifC08Pay{Idx: p.Idx, Dir: p.Dir, Kind: p.Kind, HoldSettle: p.HoldSettle, HoldDelay: p.HoldDelay,
		Amt: p.Amt, HtlcAmt: p.HtlcAmt, Fee: p.Fee, Hash: p.Hash, Preimage: p.Preimage, Pid: pid,
		htlc: &htlc, firstHop: p.firstHop, Sat: "retry"}
	p.retries = append(p.retries, q)
	return q
}

// result is the outcome of the payment over all its attempts: success if one
// succeeded; failed if every attempt has a terminal failure (or was never
// sent); otherwise no result.
func (p *verifC08Pay) result() (string, string) {
	outcome, errStr := "", ""
	missing := false
	for _, q := range append([]*verifC08Pay{p}, p.retries...) {
		q.mu.Lock()
		oc, es := q.outcome, q.errStr
		q.mu.Unlock()
		switch oc {
		case "success", "badpreimage":
			return oc, es
		case "":
			missing = true
			if errStr == "" {
				errStr = es
			}
		default:
			outcome, errStr = oc, es
		}
	}
	if missing {
		return "", errStr
	}
	return outcome, errStr
}

func (v *verifC08Net) await(p *verifC08Pay) {
	v.netMu.RLock()
	ep := v.plEpoch.Load()
	p.mu.Lock()
	p.awaitGen = v.gen
	p.mu.Unlock()
	resultChan, err := v.server(p.Dir[0]).htlcSwitch.GetAttemptResult(p.Pid, p.Hash, newMockDeobfuscator())
	v.netMu.RUnlock()
	v.awaitResult(p, resultChan, err, ep)
}

// awaitResult records the result of one attempt. ep is the power-loss epoch
// the waiter was attached in: what a switch of the continuation that a power
// loss discarded says about a payment never happened (plEpoch is bumped, and
// the outcomes are reset, with all waiters' attach sections excluded; a stale
// waiter that gets p.mu afterwards sees the new epoch).
func (v *verifC08Net) awaitResult(p *verifC08Pay, resultChan <-chan *PaymentResult, err error, ep int64) {
	if err != nil {
		p.mu.Lock()
		if p.outcome == "" && ep == v.plEpoch.Load() {
			if err == ErrPaymentIDNotFound {
				p.outcome, p.errStr = "notsent", err.Error()
			} else {
				p.errStr = "GetAttemptResult: " + err.Error()
			}
		}
		p.mu.Unlock()
		return
	}
	res, ok := <-resultChan
	p.mu.Lock()
	defer p.mu.Unlock()
	if ep != v.plEpoch.Load() {
		return
	}
	if !ok {
		// the switch this waiter was attached to stopped; a waiter on
		// the next network generation takes over
		if p.outcome == "" {
			p.errStr = "switch shutting down"
		}
		return
	}
	if p.outcome == "notsent" {
		p.outcome = ""
	}
	switch {
	case p.outcome != "" && p.outcome != "fail":
		// a terminal success/badpreimage verdict is never replaced
	case res.Error != nil && p.outcome == "fail":
	case res.Error != nil:
		p.outcome, p.errStr = "fail", res.Error.Error()
	default:
		if res.Preimage != [32]byte(p.Preimage) {
			p.outcome, p.errStr = "badpreimage", fmt.Sprintf("%x", res.Preimage[:4])
		} else {
			p.outcome = "success"
		}
	}
}

// holder resolves a hold invoice: once the receiver has accepted the HTLC it
// waits the payment's delay and settles or cancels; when stop closes first
// (all faults injected, network stable) it resolves an accepted invoice the
// same way and cancels one that never saw its HTLC. When abort closes (the
// cluster is about to be thrown away by a power loss) it returns without
// acting; a new holder on the new cluster's registry takes over.
func (v *verifC08Net) holder(p *verifC08Pay, reg *mockInvoiceRegistry, stop, abort <-chan struct{}, wg *sync.WaitGroup, vc *verifCtx) {
	defer wg.Done()
	ctx := context.Background()
	act := func() {
		var err error
		if p.HoldSettle {
			err = reg.SettleHodlInvoice(ctx, p.Preimage)
			vc.Count("hold_settled", 1)
		} else {
			err = reg.CancelInvoice(ctx, p.Hash)
			vc.Count("hold_cancelled", 1)
		}
		if err != nil {
			vc.Count("hold_resolve_error", 1)
		}
	}
	for {
		inv, err := reg.LookupInvoice(ctx, p.Hash)
		if err == nil && inv.State == invoices.ContractAccepted {
			select {
			case <-abort:
				return
			case <-stop:
			case <-time.After(p.HoldDelay):
			}
			act()
			return
		}
		if err == nil && (inv.State == invoices.ContractCanceled || inv.State == invoices.ContractSettled) {
			return
		}
		select {
		case <-abort:
			return
		case <-stop:
			inv, err := reg.LookupInvoice(ctx, p.Hash)
			if err == nil && inv.State == invoices.ContractAccepted {
				act()
			} else {
				_ = reg.CancelInvoice(ctx, p.Hash)
				vc.Count("hold_never_accepted", 1)
			}
			return
		case <-time.After(10 * time.Millisecond):
		}
	}
}

func verifC08HasIncoming(ch *channeldb.OpenChannel, hash lntypes.Hash) bool {
	for _, hs := range [][]channeldb.HTLC{ch.LocalCommitment.Htlcs, ch.RemoteCommitment.Htlcs} {
		found := false
		for _, h := range hs {
			if h.Incoming && h.RHash == [32]byte(hash) {
				found = true
			}
		}
		if !found {
			return false
		}
	}
	return true
}

// checkAway runs at a stable point while exactly one channel is down (its
// peer is away) and the other is up: an incoming HTLC on the live channel
// whose outgoing HTLC on the dead channel was resolved by the peer and is
// irrevocably gone from the forwarder's commitments must have been resolved
// upstream as well; waiting for the absent peer would leave it dangling.
func (v *verifC08Net) checkAway(vc *verifCtx, pays []*verifC08Pay, wit func() any) {
	if v.down[0] == v.down[1] {
		return
	}
	vc.Count("oracle_peer_away_quiescence", 1)
	ab, err1 := v.mon.fetchBobAB()
	bc, err2 := v.mon.fetchBobBC()
	if err1 != nil || err2 != nil {
		vc.Diag("fetch_bob_channel_failed", fmt.Sprint(err1, err2))
		return
	}
	for _, p := range pays {
		if !p.forwarded() {
			continue
		}
		out, in, outDown := bc, ab, v.down[1]
		if p.Dir == "CA" {
			out, in, outDown = ab, bc, v.down[0]
		}
		if !outDown {
			continue
		}
		v.mon.mu.Lock()
		how := v.mon.downResolved[p.Hash]
		v.mon.mu.Unlock()
		if how == "" {
			continue
		}
		if has, _ := verifC08HasOutgoing(out, p.Hash); has {
			continue
		}
		if verifC08HasIncoming(in, p.Hash) {
			// describe what the forwarder holds for this HTLC
			info := ""
			if pkgs, err := out.LoadFwdPkgs(); err == nil {
				for _, pk := range pkgs {
					for k, lu := range pk.SettleFails {
						id := uint64(1 << 62)
						switch m := lu.UpdateMsg.(type) {
						case *lnwire.UpdateFulfillHTLC:
							id = m.ID
						case *lnwire.UpdateFailHTLC:
							id = m.ID
						}
						info += fmt.Sprintf(" [outpkg h=%d state=%d sf#%d id=%d acked=%v]", pk.Height, pk.State, k, id,
							pk.SettleFailFilter.Contains(uint16(k)))
					}
				}
			} else {
				info += " [LoadFwdPkgs: " + err.Error() + "]"
			}
			cm := v.n.bobServer.htlcSwitch.circuits.(*circuitMap)
			cm.mtx.RLock()
			for k, c := range cm.pending {
				if c.PaymentHash == [32]byte(p.Hash) {
					_, closing := cm.closed[k]
					info += fmt.Sprintf(" [circuit in=%v out=%v loaded=%v closing=%v]", k, c.Outgoing, c.LoadedFromDisk, closing)
				}
			}
			cm.mtx.RUnlock()
			for li, l := range []*channelLink{v.n.firstBobChannelLink, v.n.secondBobChannelLink} {
				info += fmt.Sprintf(" [boblink%d eligible=%v failed=%v]", li, l.EligibleToForward(), l.failed)
			}
			vc.Diag("peer_away_detail", info)
			vc.Violation("nothing_dangling", "resolved-downstream-pending-upstream-while-peer-away:"+how,
				fmt.Sprintf("payment %d (%s %s): the outgoing HTLC got a %s from the downstream peer and is gone from the "+
					"forwarder's commitments, the downstream peer is disconnected, the network is stable, yet the incoming "+
					"HTLC is still pending on the live upstream channel", p.Idx, p.Dir, p.Kind, how), wit())
			return
		}
	}
}

type verifC08State struct {
	Heights [4]uint64
	Htlcs   [4]int
	Bal     [4]lnwire.MilliSatoshi
	Pending [3]int
	Opened  [3]int
	Handled int64
}

func (v *verifC08Net) snapshot() verifC08State {
	var s verifC08State
	chans := []*lnwallet.LightningChannel{v.channels.aliceToBob, v.channels.bobToAlice,
		v.channels.bobToCarol, v.channels.carolToBob}
	for i, c := range chans {
		snap := c.StateSnapshot()
		s.Heights[i] = snap.CommitHeight
		s.Htlcs[i] = len(snap.Htlcs)
		s.Bal[i] = snap.LocalBalance
	}
	for i, srv := range []*mockServer{v.n.aliceServer, v.n.bobServer, v.n.carolServer} {
		s.Pending[i] = srv.htlcSwitch.circuits.NumPending()
		s.Opened[i] = srv.htlcSwitch.circuits.NumOpen()
		srv.protocolTraceMtx.Lock()
		s.Handled += int64(len(srv.protocolTrace))
		srv.protocolTraceMtx.Unlock()
		s.Handled += int64(len(srv.messages)) << 32
	}
	return s
}

// clean: no HTLC on any channel end and no circuit left at the forwarder
// (index 1). Circuits of the SENDERS' own payments (hop.Source circuits at
// Alice/Carol) are outside the statement: a payment whose add never left the
// sender before the sender itself restarted keeps its local circuit, which
// only the (absent) router would clean up; they are reported as a diagnostic.
func (s verifC08State) clean() bool {
	for i := 0; i < 4; i++ {
		if s.Htlcs[i] != 0 {
			return false
		}
	}
	return s.Pending[1] == 0 && s.Opened[1] == 0
}

func (s verifC08State) senderCircuits() int {
	return s.Pending[0] + s.Opened[0] + s.Pending[2] + s.Opened[2]
}

// waitIdle polls until the observable state has not changed for `stable`
// consecutive polls; returns the last state and whether idleness was reached
// within the (generous) watchdog.
func (v *verifC08Net) waitIdle(stablePolls int, watchdog time.Duration) (verifC08State, bool) {
	deadline := time.Now().Add(watchdog)
	last := v.snapshot()
	same := 0
	for time.Now().Before(deadline) {
		time.Sleep(100 * time.Millisecond)
		cur := v.snapshot()
		if v.st.cut.open.Load() > 0 {
			// some handler is in the middle of a durable write
			same = 0
			last = cur
			continue
		}
		if cur == last {
			same++
			need := stablePolls
			if cur.clean() {
				need = stablePolls / 4
			}
			if same >= need {
				return cur, true
			}
		} else {
			same = 0
			last = cur
		}
	}
	return last, false
}

// saturate runs the saturation phase (see verifC08Sat) on the freshly started
// cluster and returns its payments (fillers, then burst).
func (v *verifC08Net) saturate(t *testing.T, vc *verifCtx, rs *verifRng, sat *verifC08Sat, caseNo, firstIdx int,
	wg *sync.WaitGroup) ([]*verifC08Pay, error) {

	vc.Count("sat_cases", 1)
	vc.Count("sat_cases_"+sat.Mode, 1)
	ctx := context.Background()
	var out []*verifC08Pay
	mk := func(kind, role string, amtSat int64) (*verifC08Pay, error) {
		p := &verifC08Pay{Idx: firstIdx + len(out), Dir: sat.Dir, Kind: kind, Sat: role,
			Amt: lnwire.MilliSatoshi(amtSat * 1000)}
		if kind == "hold" {
			p.HoldSettle, p.HoldDelay = rs.Bool(), time.Duration(rs.Intn(100))*time.Millisecond
		}
		if _, err := v.buildPayment(rs, p); err != nil {
			return nil, err
		}
		out = append(out, p)
		v.mon.mu.Lock()
		v.mon.byHash[p.Hash] = p
		v.mon.mu.Unlock()
		return p, nil
	}
	outcomeOf := func(p *verifC08Pay) string {
		p.mu.Lock()
		defer p.mu.Unlock()
		return p.outcome
	}
	poll := func(what string, done func() bool) error {
		deadline := time.Now().Add(90 * time.Second)
		for !done() {
			if time.Now().After(deadline) {
				return fmt.Errorf("%s: not within 90 s (inconclusive)", what)
			}
			time.Sleep(10 * time.Millisecond)
		}
		return nil
	}
	reg := v.server(sat.Dir[1]).registry
	accepted := func(p *verifC08Pay) bool {
		inv, err := reg.LookupInvoice(ctx, p.Hash)
		return err == nil && inv.State == invoices.ContractAccepted
	}
	// 1. hold-invoice payments take the limit up
	var fillers, burst []*verifC08Pay
	for k := 0; k < sat.Fillers; k++ {
		p, err := mk("hold", "filler", sat.FillSat)
		if err != nil {
			return nil, err
		}
		fillers = append(fillers, p)
		vc.Count("hold_payments", 1)
		v.send(p, wg)
	}
	err := poll("fillers held or failed", func() bool {
		for _, p := range fillers {
			if !accepted(p) && outcomeOf(p) == "" {
				return false
			}
		}
		return true
	})
	if err != nil {
		return nil, err
	}
	held := 0
	for _, p := range fillers {
		if accepted(p) {
			held++
		}
	}
	vc.Count("sat_fillers_held", int64(held))
	// 2. further payments: fine for Bob's switch, refused by his outgoing link
	for k := 0; k < sat.Burst; k++ {
		p, err := mk("valid", "burst", []int64{5000, 5000, 20000, 100000}[rs.Intn(4)])
		if err != nil {
			return nil, err
		}
		burst = append(burst, p)
		v.send(p, wg)
	}
	vc.Count("sat_burst_payments", int64(len(burst)))
	err = poll("burst payments resolved", func() bool {
		for _, p := range burst {
			if outcomeOf(p) == "" {
				return false
			}
		}
		return true
	})
	if err != nil {
		return nil, err
	}
	// what was rejected: the sender has a failure, the add reached Bob and Bob
	// never offered an add for the hash on the outgoing channel
	v.mon.mu.Lock()
	offered := map[lntypes.Hash]bool{}
	for _, h := range v.mon.bobOutAdds {
		offered[h] = true
	}
	reached := verifC08CloneMap(v.mon.everAtBob)
	v.mon.mu.Unlock()
	for _, p := range out {
		if outcomeOf(p) == "fail" && reached[p.Hash] && !offered[p.Hash] {
			p.satRejected = true
			vc.Count("sat_rejected_first_attempts", 1)
			if p.Sat == "burst" {
				vc.Count("sat_burst_rejected", 1)
			}
		}
	}
	// 3. the receiver settles / cancels what it holds: the limit is free again
	for _, p := range fillers {
		if !accepted(p) {
			continue
		}
		var err error
		if p.HoldSettle {
			err = reg.SettleHodlInvoice(ctx, p.Preimage)
			vc.Count("hold_settled", 1)
		} else {
			err = reg.CancelInvoice(ctx, p.Hash)
			vc.Count("hold_cancelled", 1)
		}
		if err != nil {
			vc.Count("hold_resolve_error", 1)
		}
	}
	if sat.WaitIdle {
		if st, idle := v.waitIdle(20, 120*time.Second); !idle {
			return nil, fmt.Errorf("network never became stable after the saturation phase (inconclusive): %+v", st)
		}
	}
	return out, nil
}

func verifC08Case(t *testing.T, vc *verifCtx, i int) {
	r := vc.Rng(i)
	nPay := 5 + r.Intn(16)
	// fault plan: a PRNG sequence of link flaps (down+up), link downs that
	// stay down across the following faults, link ups and whole-cluster
	// restarts (which also bring every link back).
	nFaults := []int{0, 1, 2, 2, 3, 3, 4, 5}[r.Intn(8)]
	var plan []string
	nRestarts, nFlaps := 0, 0
	for k := 0; k < nFaults; k++ {
		op := []string{"fAB", "fBC", "dAB", "dBC", "dAB", "dBC", "u", "R", "R", "RdAB", "RdBC"}[r.Intn(11)]
		if op[0] == 'R' && (nRestarts >= 2 || os.Getenv("VERIF_C08_NORESTART") != "") {
			op = "fBC"
		}
		if op[0] == 'R' {
			nRestarts++
		} else {
			nFlaps++
		}
		plan = append(plan, op)
	}
	// one case in sixteen has a Byzantine downstream peer instead of a fault
	// plan: the first update_fulfill_htlc of one forwarded payment reaches
	// the forwarder with a corrupted preimage.
	byz := r.Intn(16) == 0
	if byz {
		plan = nil
	}
	// Power loss ("P", in one case out of four, never in a Byzantine case):
	// a crash-consistent cut through all databases in the middle of
	// activity, a PRNG amount of continued activity, then the live cluster
	// is thrown away and a new one boots from the cut - two to five times
	// in a row (the later cuts fall into the recovery from the previous one
	// and into payments launched after it; VERIF_C08_PL_MAX=1 allows only
	// one). The damage a wrong recovery does is durable, so it is still
	// there when the case is judged once, at the end. The choices come
	// from a stream of their own, so the rest of the case is the same with
	// and without it. VERIF_C08_NOPOWERLOSS=1 turns the power loss into a
	// graceful restart at the same place (to compare what only the power
	// loss finds).
	rp := vc.Rng(i).Fork("c08-powerloss")
	if rp.Intn(4) == 0 && !byz {
		at := rp.Intn(verifMin(len(plan), 2) + 1)
		op := "P"
		if os.Getenv("VERIF_C08_NOPOWERLOSS") != "" {
			op = "R"
		}
		plan = append(plan[:at:at], append([]string{op}, plan[at:]...)...)
	}
	plBurst := 2 + rp.Intn(4)
	if os.Getenv("VERIF_C08_PL_MAX") == "1" {
		plBurst = 1
	}
	// Saturation (one case in four, never a Byzantine one; choices from a
	// stream of their own): see verifC08Sat. The fault plan must restart the
	// forwarder's INCOMING link of the saturated direction at least once
	// after the rejections (a flap or held down of that channel, a cluster
	// restart, a power loss); when the plan has no such fault one is added.
	rs := vc.Rng(i).Fork("c08-saturation")
	var sat *verifC08Sat
	satOn := rs.Intn(4) == 0
	if ov := os.Getenv("VERIF_C08_SAT"); ov != "" { // debugging aid: "1" always, "0" never
		satOn = ov == "1"
	}
	if satOn && !byz {
		sat = &verifC08Sat{Dir: []string{"AC", "CA"}[rs.Intn(2)], Mode: []string{"slots", "slots", "amount"}[rs.Intn(3)],
			Burst: 2 + rs.Intn(5), WaitIdle: rs.Intn(4) != 0}
		if sat.Mode == "slots" {
			sat.Slots = uint16(3 + rs.Intn(6))
			sat.Fillers = int(sat.Slots) + rs.Intn(3)
			sat.FillSat = []int64{150, 1000, 20000}[rs.Intn(3)] // also dust: trimmed HTLCs take a slot as well
		} else {
			sat.Fillers = 2 + rs.Intn(4)
			sat.FillSat = []int64{50000, 100000, 200000}[rs.Intn(3)]
			// room for exactly the fillers, and for nothing a burst payment (>= 5000 sat) needs
			sat.MaxPending = lnwire.MilliSatoshi((int64(sat.Fillers)*sat.FillSat + 2000) * 1000)
		}
		in := "AB"
		if sat.Dir == "CA" {
			in = "BC"
		}
		restartsIncoming := false
		for _, op := range plan {
			if op[0] == 'R' || op == "P" || op == "f"+in || op == "d"+in {
				restartsIncoming = true
			}
		}
		if !restartsIncoming {
			op := []string{"R", "f" + in, "f" + in, "d" + in}[rs.Intn(4)]
			if op == "R" {
				nRestarts++
			} else {
				nFlaps++
			}
			at := rs.Intn(len(plan) + 1)
			plan = append(plan[:at:at], append([]string{op}, plan[at:]...)...)
		}
	}
	if ov := os.Getenv("VERIF_C08_PLAN"); ov != "" { // debugging aid
		plan = strings.Split(ov, ",")
		byz = ov == "byz"
		if byz {
			plan, sat = nil, nil
		}
	}
	vc.Case(i, map[string]any{"payments": nPay, "faults": strings.Join(plan, ","), "byzantine": byz, "saturation": sat})
	capSat := btcutil.Amount(btcutil.SatoshiPerBitcoin * 5)
	v, err := verifC08Start(t, vc, r, capSat, sat)
	if err != nil {
		verifC08Fatalf(t, "cluster start: %v", err)
	}
	defer func() {
		v.netMu.Lock()
		v.n.stop()
		v.netMu.Unlock()
	}()
	start := v.snapshot()

	var pays []*verifC08Pay
	var wg sync.WaitGroup
	for k := 0; k < nPay; k++ {
		p, err := v.genPayment(r, k)
		if err != nil {
			verifC08Fatalf(t, "genPayment: %v", err)
		}
		pays = append(pays, p)
		v.mon.mu.Lock()
		v.mon.byHash[p.Hash] = p
		v.mon.mu.Unlock()
	}
	var victim *verifC08Pay
	if byz {
		for _, p := range pays {
			if p.forwarded() && p.Kind == "valid" {
				victim = p
				break
			}
		}
		if victim != nil {
			h := victim.Hash
			v.byzMu.Lock()
			v.byzHash = &h
			v.byzMu.Unlock()
		}
	}
	// launch in 1-3 waves. A case with power losses keeps a third of the
	// payments back and launches them after the boots, so that the later
	// cuts of the burst fall into fresh activity as well.
	nFirst := nPay
	for _, op := range plan {
		if op == "P" {
			nFirst = nPay - nPay/3
		}
	}
	reserve := pays[nFirst:nPay:nPay]
	var satPays []*verifC08Pay
	if sat != nil {
		var err error
		if satPays, err = v.saturate(t, vc, rs, sat, i, nPay, &wg); err != nil {
			verifC08Fatalf(t, "case %d: saturation phase: %v", i, err)
		}
		pays = append(pays, satPays...)
	}
	waves := 1 + r.Intn(3)
	per := (nPay + waves - 1) / waves
	k := 0
	for w := 0; w < waves; w++ {
		for j := 0; j < per && k < nFirst; j++ {
			v.send(pays[k], &wg)
			k++
		}
		if w+1 < waves {
			time.Sleep(time.Duration(r.Intn(40)) * time.Millisecond)
		}
	}
	holdStop := make(chan struct{})
	var holdAbort chan struct{}
	var holdWg sync.WaitGroup
	startHolders := func() {
		holdAbort = make(chan struct{})
		for _, p := range pays {
			if p.Kind == "hold" {
				holdWg.Add(1)
				go v.holder(p, v.server(p.Dir[1]).registry, holdStop, holdAbort, &holdWg, vc)
			}
		}
	}
	startHolders()
	for _, p := range pays {
		if p.Kind == "hold" {
			vc.Count("hold_payments", 1)
		}
	}
	plKind, plDesc := 0, "" // 0 no power loss, 1 cut while idle, 2 cut during activity
	if victim != nil {
		// Let the corrupted settle take effect. A correct forwarder
		// refuses it (its link on the outgoing channel fails, as it
		// would force-close in production) and must not settle the
		// incoming HTLC; the wire monitor (settle_with_wrong_preimage,
		// settle_only_with_downstream_preimage) and the sender's
		// result (wrong-preimage) judge that. Then the outgoing
		// channel reconnects: the honest peer retransmits the real
		// settle and the case must end like any other.
		vc.Count("byzantine_cases", 1)
		if _, idle := v.waitIdle(15, 120*time.Second); !idle {
			verifC08Fatalf(t, "case %d: network never became stable after the corrupted settle (inconclusive)", i)
		}
		v.byzMu.Lock()
		done := v.byzDone
		v.byzMu.Unlock()
		if done {
			vc.Count("byzantine_settles_corrupted", 1)
			l := v.n.secondBobChannelLink
			if victim.Dir == "CA" {
				l = v.n.firstBobChannelLink
			}
			if l.failed {
				vc.Count("byzantine_link_failed", 1)
			} else {
				vc.Diag("byzantine_link_not_failed", fmt.Sprintf("case %d: the forwarder's link did not fail on a settle with a wrong preimage", i))
			}
			victim.mu.Lock()
			oc := victim.outcome
			victim.mu.Unlock()
			if oc == "success" || oc == "badpreimage" {
				vc.Violation("settle_with_wrong_preimage", "sender-result-after-corrupted-settle:"+oc,
					fmt.Sprintf("payment %d (%s): the only settle the forwarder received so far carried a wrong preimage, yet the sender already has the result %q",
						victim.Idx, victim.Dir, oc), nil)
			}
		}
		plan = []string{"fBC"}
		if victim.Dir == "CA" {
			plan = []string{"fAB"}
		}
	}
	requery := func() {
		// old result waiters return when the old switch stops; re-query
		// every payment without a terminal result on the new switch.
		// (waiters that slipped onto the new network are left alone: they
		// may legitimately wait for a long time)
		v.netMu.RLock()
		gen := v.gen
		v.netMu.RUnlock()
		for _, p := range pays {
			// (a payment whose send goroutine has not run yet - it may be
			// waiting for this very restart to finish - has nothing to
			// re-query; its own send attaches the waiter)
			p.mu.Lock()
			need := p.outcome == "" && p.sent && p.awaitGen != gen
			p.mu.Unlock()
			if !need {
				continue
			}
			p := p
			wg.Add(1)
			go func() {
				defer wg.Done()
				v.await(p)
			}()
		}
	}
	// powerLoss: one cut, continued activity, boot from the cut.
	powerLoss := func() error {
		// (the race build is several times slower: give the payments the
		// same chance to get past their sender before the next cut)
		pre := time.Duration(rp.Intn(90)) * time.Millisecond
		if vc.Thorough() {
			pre *= 4
		}
		time.Sleep(pre)
		// five cuts in six are placed right behind the k-th write
		// transaction (of any kind, or of a given kind, which gives the rare
		// kinds - a payment result, a circuit deletion - the weight of the
		// frequent ones) that some store, mostly the forwarder's, commits
		// from now on, with the committing handler frozen there; the others
		// by the clock
		byCommit := rp.Intn(6) != 0
		store := []int{1, 1, 1, 1, 1, 0, 2, 3, 5, 0, 2, 1}[rp.Intn(12)]
		k := rp.Intn(6)
		class := []string{"", "", "", "", "open-chan-bucket", "fwd-packages", "circuit-adds", "circuit-keystones",
			"network-result-store-bucket"}[rp.Intn(9)]
		if class != "" {
			k %= 3
		}
		if store >= 3 {
			class, k = "", k%3 // the invoice databases see few writes
		}
		if ov := os.Getenv("VERIF_C08_PL_TARGET"); ov != "" { // debugging aid: "store,class,k"
			f := strings.Split(ov, ",")
			byCommit, class = true, f[1]
			fmt.Sscan(f[0], &store)
			fmt.Sscan(f[2], &k)
		}
		cont := time.Duration(0)
		if rp.Intn(4) != 0 {
			cont = time.Duration(rp.Intn(120)) * time.Millisecond
		}
		if v.down[0] || v.down[1] {
			vc.Count("powerloss_with_link_down", 1)
		}
		var (
			snap *verifC08PLSnap
			err  error
		)
		how := "timer"
		if byCommit {
			wait := 200 * time.Millisecond
			if vc.Thorough() {
				wait *= 4
			}
			snap, how, err = v.powerCutAfterCommit(t.TempDir(), store, class, k, wait)
			if strings.HasPrefix(how, "behind") {
				vc.Count("powerloss_cut_behind_chosen_commit", 1)
			}
		} else {
			snap, err = v.powerCut(t.TempDir())
		}
		if err != nil {
			return err
		}
		// the cluster, and the harness' hold decisions, go on for a while;
		// none of it will have happened
		time.Sleep(cont)
		close(holdAbort)
		holdWg.Wait()
		kind, desc := 1, ""
		err = v.reboot(t, -1, snap, vc, pays, func(active bool, d string) {
			desc = d
			if active {
				kind = 2
			}
			// every result the discarded continuation produced is
			// forgotten; it is asked for again by attempt id
			for _, p := range pays {
				p.mu.Lock()
				if p.sent {
					p.outcome, p.errStr = "", ""
				}
				p.mu.Unlock()
			}
		})
		vc.Count("powerloss_cuts", 1)
		if kind == 2 {
			vc.Count("powerloss_cut_during_activity", 1)
		}
		desc = "cut placed by " + how + "; " + desc
		vc.Diag("powerloss_cut", fmt.Sprintf("case %d: %s", i, desc))
		plDesc += " | " + desc
		if kind > plKind {
			plKind = kind
		}
		if err == nil {
			startHolders()
			requery()
			// part of the payments kept back
			for n := (len(pays) - nFirst + plBurst - 1) / plBurst; n > 0 && len(reserve) > 0; n-- {
				v.send(reserve[0], &wg)
				reserve = reserve[1:]
			}
		}
		return err
	}
	for _, op := range plan {
		if op != "P" {
			time.Sleep(time.Duration(r.Intn(150)) * time.Millisecond)
		}
		var err error
		switch op {
		case "P":
			vc.Count("powerloss_cases", 1)
			for j := 0; j < plBurst && err == nil; j++ {
				err = powerLoss()
			}
			for ; len(reserve) > 0; reserve = reserve[1:] {
				v.send(reserve[0], &wg)
			}
		case "fAB", "fBC":
			err = v.flap(t, op == "fAB")
			vc.Count("link_flaps", 1)
		case "dAB", "dBC":
			v.linkDown(op == "dAB")
			vc.Count("link_downs_held", 1)
		case "u":
			for _, ab := range []bool{true, false} {
				if v.down[verifC08DownIdx(ab)] && err == nil {
					err = v.linkUp(t, ab)
					vc.Count("link_flaps", 1)
				}
			}
		case "w": // debugging aid (VERIF_C08_PLAN only)
			time.Sleep(700 * time.Millisecond)
		case "R", "RdAB", "RdBC":
			if v.down[0] || v.down[1] {
				vc.Count("restart_with_link_down", 1)
			}
			switch op {
			case "R":
				err = v.restart(t)
			case "RdAB":
				err = v.restartWith(t, 0)
				vc.Count("restart_keeping_link_down", 1)
			case "RdBC":
				err = v.restartWith(t, 1)
				vc.Count("restart_keeping_link_down", 1)
			}
			vc.Count("cluster_restarts", 1)
			if err == nil {
				requery()
			}
		}
		if err != nil {
			verifC08Fatalf(t, "fault %s: %v", op, err)
		}
	}
	if v.down[0] != v.down[1] {
		// one peer is away: judge the stable state before it comes back
		if _, idle := v.waitIdle(20, 120*time.Second); idle {
			v.checkAway(vc, pays, func() any {
				v.mon.mu.Lock()
				defer v.mon.mu.Unlock()
				return map[string]any{"faults": strings.Join(plan, ","), "down": v.down, "trace": v.mon.trace}
			})
		}
	}
	for _, ab := range []bool{true, false} {
		if v.down[verifC08DownIdx(ab)] {
			if err := v.linkUp(t, ab); err != nil {
				verifC08Fatalf(t, "final link up: %v", err)
			}
			vc.Count("link_flaps", 1)
		}
	}
	if sat != nil {
		// The sender pays the invoices whose first attempt was rejected once
		// more (two in three of them), and the saturated direction gets some
		// new payments. All faults are over, so these attempts have nothing
		// to be re-queried after.
		for _, p := range satPays {
			p.mu.Lock()
			failed := p.satRejected && p.outcome == "fail"
			p.mu.Unlock()
			if failed && rs.Intn(3) != 0 {
				v.send(p.retry(rs.U64()), &wg)
				vc.Count("sat_retries", 1)
			}
		}
		for k, more := 0, 1+rs.Intn(4); k < more; k++ {
			p := &verifC08Pay{Idx: len(pays), Dir: sat.Dir, Kind: []string{"valid", "valid", "hold"}[rs.Intn(3)], Sat: "after"}
			p.Amt = lnwire.MilliSatoshi([]int64{201, 1301, 5000, 100000}[rs.Intn(4)] * 1000)
			if p.Kind == "hold" {
				p.HoldSettle, p.HoldDelay = rs.Bool(), time.Duration(rs.Intn(200))*time.Millisecond
			}
			if _, err := v.buildPayment(rs, p); err != nil {
				verifC08Fatalf(t, "genPayment: %v", err)
			}
			pays = append(pays, p)
			v.mon.mu.Lock()
			v.mon.byHash[p.Hash] = p
			v.mon.mu.Unlock()
			if p.Kind == "hold" {
				vc.Count("hold_payments", 1)
				holdWg.Add(1)
				go v.holder(p, v.server(p.Dir[1]).registry, holdStop, holdAbort, &holdWg, vc)
			}
			v.send(p, &wg)
		}
	}
	// every fault is injected: let the network become stable with the
	// remaining hold invoices still held, then resolve those as well.
	if st0, idle := v.waitIdle(20, 120*time.Second); !idle {
		close(holdStop)
		verifC08Fatalf(t, "case %d: network never became stable before the holds were released (inconclusive): %+v", i, st0)
	}
	close(holdStop)
	holdWg.Wait()
	done := make(chan struct{})
	go func() { wg.Wait(); close(done) }()
	// first let the network settle (observable state stable), then give
	// the result waiters a short grace period; payments whose sender
	// restarted before the add was committed never get a result.
	st, idle := v.waitIdle(40, 120*time.Second)
	if !idle {
		verifC08Fatalf(t, "case %d: network never became idle within the watchdog (inconclusive): %+v", i, st)
	}
	select {
	case <-done:
	case <-time.After(3 * time.Second):
	}
	st, idle = v.waitIdle(10, 60*time.Second)
	if !idle {
		verifC08Fatalf(t, "case %d: network not idle after results (inconclusive): %+v", i, st)
	}
	vc.Count("oracle_quiescence", 1)
	wit := func() any {
		var ps []map[string]any
		for _, p := range pays {
			e := map[string]any{"idx": p.Idx, "dir": p.Dir, "kind": p.Kind, "amt": p.Amt,
				"fee": p.Fee, "outcome": p.outcome, "err": p.errStr, "hash": fmt.Sprintf("%x", p.Hash[:4])}
			if p.Sat != "" {
				e["saturation"] = p.Sat
			}
			for _, q := range p.retries {
				e["retry_outcome"], e["retry_err"] = q.outcome, q.errStr
			}
			ps = append(ps, e)
		}
		v.mon.mu.Lock()
		defer v.mon.mu.Unlock()
		return map[string]any{"payments": ps, "state": st, "start": start, "faults": strings.Join(plan, ","),
			"powerloss_cut": plDesc, "trace": v.mon.trace}
	}
	if !st.clean() && os.Getenv("VERIF_DEBUG") != "" {
		v.debugDump()
	}
	if n := st.senderCircuits(); n > 0 {
		vc.Diag("sender_local_circuits_left", fmt.Sprintf("case %d: %d circuits of the senders' own payments", i, n))
	}
	if !st.clean() {
		vc.Violation("nothing_dangling", fmt.Sprintf("htlcs=%v pending=%v open=%v", st.Htlcs, st.Pending, st.Opened),
			fmt.Sprintf("network is idle but HTLCs/circuits remain: %+v", st), wit())
		vc.CaseDone(i)
		return
	}
	// terminal results and invoice states
	var delta [4]int64 // alice(A-B), bob(A-B), bob(B-C), carol(B-C)
	okCount := 0
	for _, p := range pays {
		outcome, errStr := p.result()
		settled := false
		if p.Kind != "unknown" {
			inv, err := v.server(p.Dir[1]).registry.LookupInvoice(context.Background(), p.Hash)
			if err == nil && inv.State == invoices.ContractSettled {
				settled = true
			}
			if err == nil && inv.State == invoices.ContractAccepted {
				vc.Violation("nothing_dangling", "invoice-still-accepted",
					fmt.Sprintf("payment %d (%s %s): network quiescent and clean but the receiver's invoice is still in the accepted state", p.Idx, p.Dir, p.Kind), wit())
			}
			if p.Kind == "hold" && !p.HoldSettle && settled {
				vc.Violation("invalid_payment_settled", "hold-cancelled-but-settled",
					fmt.Sprintf("payment %d: hold invoice was cancelled, never settled by the receiver, yet it is settled", p.Idx), wit())
			}
		}
		vc.Count("oracle_result_consistent", 1)
		switch outcome {
		case "success":
			if !settled {
				vc.Violation("result_matches_invoice", "success-but-unsettled",
					fmt.Sprintf("payment %d (%s %s) reported success but the receiver's invoice is not settled", p.Idx, p.Dir, p.Kind), wit())
			}
		case "fail", "notsent":
			if settled {
				vc.Violation("result_matches_invoice", "failed-but-settled",
					fmt.Sprintf("payment %d (%s %s) reported %s (%s) in all %d attempts but the receiver's invoice is settled", p.Idx, p.Dir, p.Kind, outcome, errStr, 1+len(p.retries)), wit())
			}
		case "badpreimage":
			vc.Violation("result_matches_invoice", "wrong-preimage",
				fmt.Sprintf("payment %d succeeded with a wrong preimage", p.Idx), wit())
		default:
			v.mon.mu.Lock()
			reached := v.mon.everAtBob[p.Hash]
			v.mon.mu.Unlock()
			if !reached {
				// the add never left the sender (sender restarted
				// first): nothing the forwarder could resolve.
				vc.Count("sender_abandoned_payments", 1)
				if settled {
					vc.Violation("result_matches_invoice", "abandoned-but-settled",
						fmt.Sprintf("payment %d never reached the forwarder but its invoice is settled", p.Idx), wit())
				}
			} else {
				// The add was seen on the wire but the sender
				// restarted before it was irrevocably committed
				// (or before its result was stored). The statement
				// says nothing about the sender's bookkeeping:
				// diagnostic; the money side is judged by the
				// conservation oracle below.
				vc.Diag("sender_result_missing", fmt.Sprintf("payment %d (%s %s): %s", p.Idx, p.Dir, p.Kind, errStr))
				if settled {
					vc.Violation("result_matches_invoice", "no-result-but-settled",
						fmt.Sprintf("payment %d has no result at the sender but its invoice is settled", p.Idx), wit())
				}
			}
		}
		if p.Kind != "valid" && p.Kind != "hold" && settled {
			vc.Violation("invalid_payment_settled", p.Kind,
				fmt.Sprintf("payment %d of kind %s must not be settled", p.Idx, p.Kind), wit())
		}
		if settled {
			okCount++
			amt, fee := int64(p.Amt), int64(p.Fee)
			switch p.Dir {
			case "AC":
				delta[0] -= amt + fee
				delta[1] += amt + fee
				delta[2] -= amt
				delta[3] += amt
			case "CA":
				delta[3] -= amt + fee
				delta[2] += amt + fee
				delta[1] -= amt
				delta[0] += amt
			case "AB":
				delta[0] -= amt
				delta[1] += amt
			case "CB":
				delta[3] -= amt
				delta[2] += amt
			}
		}
	}
	vc.Count("oracle_conservation", 1)
	names := []string{"alice(A-B)", "bob(A-B)", "bob(B-C)", "carol(B-C)"}
	for c := 0; c < 4; c++ {
		got := int64(st.Bal[c]) - int64(start.Bal[c])
		if got != delta[c] {
			vc.Violation("conservation_at_quiescence", names[c],
				fmt.Sprintf("%s balance moved by %d msat, settled payments explain %d msat (forwarder total delta %d, expected fees %d)",
					names[c], got, delta[c],
					int64(st.Bal[1])+int64(st.Bal[2])-int64(start.Bal[1])-int64(start.Bal[2]), delta[1]+delta[2]), wit())
			break
		}
	}
	if okCount > 0 {
		vc.Count("nontrivial", 1)
	}
	vc.Count("payments", int64(len(pays)))
	vc.Count("payments_settled", int64(okCount))
	kinds := map[string]bool{}
	for _, p := range pays {
		kinds[p.Dir+p.Kind+p.outcome] = true
	}
	satSig := ""
	if sat != nil {
		satSig = sat.Dir + sat.Mode
		for _, p := range satPays {
			for _, q := range p.retries {
				if oc, _ := q.result(); oc == "success" {
					vc.Count("sat_retries_succeeded", 1)
				}
			}
		}
	}
	vc.Sig(fmt.Sprint(nRestarts, nFlaps, plKind, len(kinds), verifMin(okCount, 6), v.delayPct, satSig))
	if i%10 == 0 {
		vc.Sample(wit())
	}
	vc.CaseDone(i)
	_ = bytes.Equal
	_ = hop.Exit
}

func verifMin(a, b int) int {
	if a < b {
		return a
	}
	return b
}

func TestVerifC08(t *testing.T) {
	vc := verifStart(t, "C08", "threehop")
	defer vc.Finish()
	verifC08Ctx = vc
	if os.Getenv("VERIF_DEBUG") == "2" {
		lg := btclog.NewSLogger(btclog.NewDefaultHandler(os.Stdout))
		lg.SetLevel(btclog.LevelDebug)
		UseLogger(lg)
	}
	total := vc.N(64, 800)
	for i := 0; i < total; i++ {
		if !vc.Mine(i) {
			continue
		}
		i := i
		t.Run(fmt.Sprintf("case%d", i), func(t *testing.T) {
			verifC08Case(t, vc, i)
		})
		// A sub-test that failed only because the race detector reported
		// something ("race detected during execution of test") does not end
		// the shard: the reports are classified by the driver.
		if verifC08HarnessFailed.Load() {
			return
		}
	}
}

var verifC08HarnessFailed atomic.Bool

var verifC08Ctx *verifCtx

func verifC08Fatalf(t *testing.T, format string, args ...any) {
	verifC08HarnessFailed.Store(true)
	if verifC08Ctx != nil {
		verifC08Ctx.emit(map[string]any{"t": "harness_fail", "detail": fmt.Sprintf(format, args...)})
	}
	t.Fatalf(format, args...)
}


func (v *verifC08Net) debugDump() {
	names := []string{"alice(A-B)", "bob(A-B)", "bob(B-C)", "carol(B-C)"}
	chans := []*lnwallet.LightningChannel{v.channels.aliceToBob, v.channels.bobToAlice,
		v.channels.bobToCarol, v.channels.carolToBob}
	for i, c := range chans {
		st := c.State()
		fmt.Printf("DBG %s localH=%d remoteH=%d\n", names[i], st.LocalCommitment.CommitHeight, st.RemoteCommitment.CommitHeight)
		for _, h := range st.LocalCommitment.Htlcs {
			fmt.Printf("DBG   local htlc in=%v id=%d hash=%x amt=%d\n", h.Incoming, h.HtlcIndex, h.RHash[:4], h.Amt)
		}
		for _, h := range st.RemoteCommitment.Htlcs {
			fmt.Printf("DBG   remote htlc in=%v id=%d hash=%x amt=%d\n", h.Incoming, h.HtlcIndex, h.RHash[:4], h.Amt)
		}
		tip, err := st.RemoteCommitChainTip()
		fmt.Printf("DBG   pending remote tip: %v err=%v owe=%v need=%v\n", tip != nil, err, c.OweCommitment(), c.NeedCommitment())
		pkgs, _ := st.LoadFwdPkgs()
		for _, p := range pkgs {
			fmt.Printf("DBG   fwdpkg h=%d state=%v adds=%d sf=%d ackfilter=%v fwdfilter=%v sffilter=%v\n", p.Height, p.State,
				len(p.Adds), len(p.SettleFails), p.AckFilter, p.FwdFilter, p.SettleFailFilter)
		}
	}
	for i, srv := range []*mockServer{v.n.aliceServer, v.n.bobServer, v.n.carolServer} {
		cm := srv.htlcSwitch.circuits.(*circuitMap)
		cm.mtx.RLock()
		for k, c := range cm.pending {
			fmt.Printf("DBG switch%d pending in=%v out=%v hash=%x loaded=%v\n", i, k, c.Outgoing, c.PaymentHash[:4], c.LoadedFromDisk)
		}
		for k := range cm.opened {
			fmt.Printf("DBG switch%d opened out=%v\n", i, k)
		}
		cm.mtx.RUnlock()
	}
	links := []*channelLink{v.n.aliceChannelLink, v.n.firstBobChannelLink, v.n.secondBobChannelLink, v.n.carolChannelLink}
	for i, l := range links {
		fmt.Printf("DBG link%d eligible=%v failed=%v\n", i, l.EligibleToForward(), l.failed)
	}
}
