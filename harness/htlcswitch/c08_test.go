package htlcswitch

// C08 monitor: a forwarding node never ends up out of pocket. Three real
// switches / links / channels (fixture newThreeHopNetwork) run batches of
// concurrent payments with injected message delays and cluster restarts;
// a wire monitor judges every settle/fail Bob sends upstream, and a
// conservation oracle judges the quiescent state.

import (
	"github.com/lightningnetwork/lnd/input"
	"github.com/btcsuite/btcd/btcec/v2"
	"net"
	"bytes"
	"context"
	"crypto/sha256"
	"fmt"
	"os"
	"strings"
	"sync"
	"sync/atomic"
	"testing"
	"time"

	"github.com/btcsuite/btcd/btcutil/v2"
	"github.com/btcsuite/btclog/v2"
	"github.com/lightningnetwork/lnd/channeldb"
	"github.com/lightningnetwork/lnd/htlcswitch/hop"
	"github.com/lightningnetwork/lnd/invoices"
	"github.com/lightningnetwork/lnd/lntypes"
	"github.com/lightningnetwork/lnd/lnwallet"
	"github.com/lightningnetwork/lnd/lnwire"
	"github.com/lightningnetwork/lnd/ticker"
)

type verifC08Pay struct {
	Idx      int
	Dir      string // "AC", "CA", "AB", "CB"
	Kind     string // valid, hold, unknown, underpaid, lowfee, lowcltv
	// hold invoices: the receiver accepts the HTLC and the harness settles
	// or cancels the invoice later (possibly across a flap or restart)
	HoldSettle bool
	HoldDelay  time.Duration
	reg        *mockInvoiceRegistry
	Amt      lnwire.MilliSatoshi
	HtlcAmt  lnwire.MilliSatoshi
	Fee      lnwire.MilliSatoshi
	Hash     lntypes.Hash
	Preimage lntypes.Preimage
	Pid      uint64
	htlc     *lnwire.UpdateAddHTLC
	firstHop lnwire.ShortChannelID

	mu       sync.Mutex
	awaitGen int // generation of the network the newest result waiter is attached to
	sent     bool
	outcome string // "", "success", "fail", "notsent"
	errStr  string
}

func (p *verifC08Pay) forwarded() bool { return p.Dir == "AC" || p.Dir == "CA" }

type verifC08Key struct {
	Chan lnwire.ChannelID
	ID   uint64
}

// verifC08Mon is the wire monitor; all methods are called from the mock
// servers' reader goroutines and are serialised by mu.
type verifC08Mon struct {
	vc     *verifCtx
	mu     sync.Mutex
	chanAB lnwire.ChannelID
	chanBC lnwire.ChannelID
	epoch  int

	byHash       map[lntypes.Hash]*verifC08Pay
	incomingAdds map[verifC08Key]lntypes.Hash // adds that arrived at Bob
	downFulfill  map[lntypes.Hash]bool        // downstream fulfill arrived at Bob
	everAtBob    map[lntypes.Hash]bool        // the payment's add reached Bob
	bobOutAdds   map[verifC08Key]lntypes.Hash // adds Bob sent (seen arriving at Alice/Carol)
	downResolved map[lntypes.Hash]string      // a fulfill/fail for Bob's outgoing HTLC arrived at Bob
	upSeen       map[verifC08Key]map[string]int
	upSeenEpoch  map[verifC08Key]map[int]int

	bobDB      *channeldb.DB
	chanPtAB   func() *channeldb.OpenChannel
	fetchBobBC func() (*channeldb.OpenChannel, error)
	fetchBobAB func() (*channeldb.OpenChannel, error)

	sent    [3]int64 // messages enqueued to alice, bob, carol
	handled [3]int64

	trace []string
}

func (m *verifC08Mon) logf(f string, a ...any) {
	if len(m.trace) < 600 {
		m.trace = append(m.trace, fmt.Sprintf(f, a...))
	}
}

func (m *verifC08Mon) witness() any {
	return map[string]any{"trace": m.trace}
}

func verifC08HasOutgoing(ch *channeldb.OpenChannel, hash lntypes.Hash) (bool, string) {
	has := func(hs []channeldb.HTLC) bool {
		for _, h := range hs {
			if !h.Incoming && h.RHash == [32]byte(hash) {
				return true
			}
		}
		return false
	}
	if has(ch.LocalCommitment.Htlcs) {
		return true, "local commitment"
	}
	if has(ch.RemoteCommitment.Htlcs) {
		return true, "remote commitment"
	}
	if tip, err := ch.RemoteCommitChainTip(); err == nil && tip != nil {
		if has(tip.Commitment.Htlcs) {
			return true, "pending remote commitment"
		}
	}
	return false, ""
}

// atBob is called for every message arriving at Bob.
func (m *verifC08Mon) atBob(msg lnwire.Message) {
	m.mu.Lock()
	defer m.mu.Unlock()
	switch x := msg.(type) {
	case *lnwire.UpdateAddHTLC:
		m.incomingAdds[verifC08Key{x.ChanID, x.ID}] = lntypes.Hash(x.PaymentHash)
		m.everAtBob[lntypes.Hash(x.PaymentHash)] = true
		m.logf("e%d ->B add chan=%x id=%d hash=%x", m.epoch, x.ChanID[:3], x.ID, x.PaymentHash[:4])
	case *lnwire.UpdateFulfillHTLC:
		h := lntypes.Hash(sha256.Sum256(x.PaymentPreimage[:]))
		p := m.byHash[h]
		if p == nil {
			return
		}
		down := m.chanBC
		if p.Dir == "CA" {
			down = m.chanAB
		}
		if x.ChanID == down {
			m.downFulfill[h] = true
			m.downResolved[h] = "settle"
			m.logf("e%d ->B fulfill(down) hash=%x", m.epoch, h[:4])
		}
	case *lnwire.UpdateFailHTLC:
		m.logf("e%d ->B fail chan=%x id=%d", m.epoch, x.ChanID[:3], x.ID)
		if h, ok := m.bobOutAdds[verifC08Key{x.ChanID, x.ID}]; ok {
			m.downResolved[h] = "fail"
		}
	case *lnwire.UpdateFailMalformedHTLC:
		if h, ok := m.bobOutAdds[verifC08Key{x.ChanID, x.ID}]; ok {
			m.downResolved[h] = "fail"
		}
	}
}

// atEdge is called for every message arriving at Alice (from Bob on A-B) or
// at Carol (from Bob on B-C): these are the messages Bob sent.
func (m *verifC08Mon) atEdge(who string, msg lnwire.Message) {
	m.mu.Lock()
	defer m.mu.Unlock()
	var (
		key  verifC08Key
		kind string
		hash lntypes.Hash
	)
	switch x := msg.(type) {
	case *lnwire.UpdateAddHTLC:
		m.bobOutAdds[verifC08Key{x.ChanID, x.ID}] = lntypes.Hash(x.PaymentHash)
		return
	case *lnwire.UpdateFulfillHTLC:
		key, kind = verifC08Key{x.ChanID, x.ID}, "settle"
		hash = lntypes.Hash(sha256.Sum256(x.PaymentPreimage[:]))
	case *lnwire.UpdateFailHTLC:
		key, kind = verifC08Key{x.ChanID, x.ID}, "fail"
	case *lnwire.UpdateFailMalformedHTLC:
		key, kind = verifC08Key{x.ChanID, x.ID}, "fail"
	default:
		return
	}
	// Only resolutions of HTLCs that Bob RECEIVED on this channel matter:
	// the id refers to an add that arrived at Bob on the same channel.
	inHash, ok := m.incomingAdds[key]
	if !ok {
		return
	}
	if kind == "fail" {
		hash = inHash
	}
	p := m.byHash[hash]
	m.logf("e%d B->%s %s chan=%x id=%d hash=%x", m.epoch, who, kind, key.Chan[:3], key.ID, hash[:4])
	m.vc.Count("oracle_upstream_resolution", 1)

	// at most one settle-or-fail per incoming HTLC
	if m.upSeen[key] == nil {
		m.upSeen[key] = map[string]int{}
		m.upSeenEpoch[key] = map[int]int{}
	}
	m.upSeen[key][kind]++
	m.upSeenEpoch[key][m.epoch]++
	if len(m.upSeen[key]) > 1 {
		m.vc.Violation("at_most_one_response", "settle-and-fail",
			fmt.Sprintf("incoming HTLC %x/%d received both a settle and a fail from the forwarder", key.Chan[:4], key.ID), m.witness())
	}
	if m.upSeenEpoch[key][m.epoch] > 1 {
		m.vc.Violation("at_most_one_response", "duplicate-in-one-connection",
			fmt.Sprintf("incoming HTLC %x/%d received %d resolutions (%s) within one connection", key.Chan[:4], key.ID,
				m.upSeenEpoch[key][m.epoch], kind), m.witness())
	}
	if p == nil || !p.forwarded() {
		return
	}
	// is this the upstream channel of the payment?
	up := m.chanAB
	if p.Dir == "CA" {
		up = m.chanBC
	}
	if key.Chan != up {
		return
	}
	switch kind {
	case "settle":
		m.vc.Count("oracle_settle_needs_downstream_preimage", 1)
		if inHash != hash {
			m.vc.Violation("settle_with_wrong_preimage", "hash-mismatch",
				fmt.Sprintf("forwarder settled incoming HTLC %d with a preimage for another hash", key.ID), m.witness())
			return
		}
		if !m.downFulfill[hash] {
			m.vc.Violation("settle_only_with_downstream_preimage", p.Dir,
				fmt.Sprintf("forwarder settled incoming HTLC (payment %d %s) upstream before any update_fulfill with that preimage arrived on the outgoing channel",
					p.Idx, p.Dir), m.witness())
		}
	case "fail":
		m.vc.Count("oracle_fail_needs_outgoing_gone", 1)
		fetch := m.fetchBobBC
		if p.Dir == "CA" {
			fetch = m.fetchBobAB
		}
		ch, err := fetch()
		if err != nil {
			m.vc.Diag("fetch_bob_channel_failed", err.Error())
			return
		}
		if has, where := verifC08HasOutgoing(ch, hash); has {
			m.vc.Violation("fail_only_when_outgoing_gone", p.Dir+":"+where,
				fmt.Sprintf("forwarder failed incoming HTLC (payment %d %s kind %s) upstream while the outgoing HTLC is still in its %s",
					p.Idx, p.Dir, p.Kind, where), m.witness())
		}
	}
}

// ---------------------------------------------------------------------------

type verifC08Net struct {
	n        *threeHopNetwork
	channels *clusterChannels
	restore  func() (*clusterChannels, error)
	tcs      [4]*testLightningChannel
	mon      *verifC08Mon
	delaySeed uint64
	delayPct  int

	// gate holds channel_reestablish messages of a channel whose links are
	// being re-created by flap(): the fixture's mock server discards a
	// message whose link is not registered yet, whereas a real peer buffers
	// it until the link is active (msgStream).
	gateMu sync.Mutex
	gate   map[lnwire.ChannelID]chan struct{}

	// down[0]/down[1]: the links of channel A-B / B-C are currently removed
	down [2]bool

	// netMu: the harness' own calls into a switch (SendHTLC,
	// GetAttemptResult) never overlap that switch's Stop. lnd's Switch adds
	// to its WaitGroup in GetAttemptResult while Stop waits on it (see
	// DESIGN 7.3, lifecycle race); under load that misuse panics the
	// process ("WaitGroup is reused before previous Wait has returned"),
	// which would end a shard for a reason outside C08.
	netMu sync.RWMutex
	gen   int // network generation, bumped by every cluster restart (under netMu)

	// Byzantine downstream peer: the first update_fulfill_htlc carrying the
	// preimage of byzHash that arrives at Bob gets one byte flipped.
	byzMu   sync.Mutex
	byzHash *lntypes.Hash
	byzDone bool
}

func (v *verifC08Net) maybeCorrupt(m lnwire.Message) {
	x, ok := m.(*lnwire.UpdateFulfillHTLC)
	if !ok {
		return
	}
	v.byzMu.Lock()
	defer v.byzMu.Unlock()
	if v.byzHash == nil || v.byzDone {
		return
	}
	if lntypes.Hash(sha256.Sum256(x.PaymentPreimage[:])) != *v.byzHash {
		return
	}
	x.PaymentPreimage[7] ^= 0x40
	v.byzDone = true
}

func (v *verifC08Net) holdReestablish(m lnwire.Message) {
	x, ok := m.(*lnwire.ChannelReestablish)
	if !ok {
		return
	}
	v.gateMu.Lock()
	g := v.gate[x.ChanID]
	v.gateMu.Unlock()
	if g != nil {
		select {
		case <-g:
		case <-time.After(60 * time.Second):
		}
	}
}

func (v *verifC08Net) install(t *testing.T) {
	n := v.n
	wireDbg := os.Getenv("VERIF_DEBUG") != ""
	mk := func(idx int, name string, f func(lnwire.Message)) messageInterceptor {
		var cnt uint64
		return func(m lnwire.Message) (bool, error) {
			c := atomic.AddUint64(&cnt, 1)
			if wireDbg {
				var extra string
				switch x := m.(type) {
				case *lnwire.UpdateAddHTLC:
					extra = fmt.Sprintf("chan=%x id=%d hash=%x", x.ChanID[:3], x.ID, x.PaymentHash[:4])
				case *lnwire.UpdateFulfillHTLC:
					extra = fmt.Sprintf("chan=%x id=%d", x.ChanID[:3], x.ID)
				case *lnwire.UpdateFailHTLC:
					extra = fmt.Sprintf("chan=%x id=%d", x.ChanID[:3], x.ID)
				case *lnwire.CommitSig:
					extra = fmt.Sprintf("chan=%x nhtlcsigs=%d", x.ChanID[:3], len(x.HtlcSigs))
				case *lnwire.RevokeAndAck:
					extra = fmt.Sprintf("chan=%x", x.ChanID[:3])
				case *lnwire.ChannelReestablish:
					extra = fmt.Sprintf("chan=%x nextLocal=%d remoteTail=%d", x.ChanID[:3], x.NextLocalCommitHeight, x.RemoteCommitTailHeight)
				}
				fmt.Printf("WIRE %s ->%s %T %s\n", time.Now().Format("15:04:05.000"), name, m, extra)
			}
			if v.delayPct > 0 && int(verifMix(v.delaySeed^uint64(idx)<<32^c)%100) < v.delayPct {
				time.Sleep(time.Duration(1+verifMix(c^v.delaySeed)%15) * time.Millisecond)
			}
			v.holdReestablish(m)
			f(m)
			return false, nil
		}
	}
	n.aliceServer.intersect(mk(0, "alice", func(m lnwire.Message) { v.mon.atEdge("A", m) }))
	n.bobServer.intersect(mk(1, "bob", func(m lnwire.Message) { v.maybeCorrupt(m); v.mon.atBob(m) }))
	n.carolServer.intersect(mk(2, "carol", func(m lnwire.Message) { v.mon.atEdge("C", m) }))
}

// verifC08Cluster is createClusterChannels keeping the per-channel restore
// functions, so that a single channel can be reloaded while the links of the
// other one keep running (reloading a channel whose link is live would read
// its commit chain tip and pending updates in separate transactions).
func verifC08Cluster(t *testing.T, capSat btcutil.Amount) (*clusterChannels, [4]*testLightningChannel, error) {
	_, _, firstChanID, secondChanID := genIDs()
	a, b1, err := createTestChannel(t, alicePrivKey, bobPrivKey, capSat, capSat, 0, 0, firstChanID)
	if err != nil {
		return nil, [4]*testLightningChannel{}, err
	}
	b2, c, err := createTestChannel(t, bobPrivKey, carolPrivKey, capSat, capSat, 0, 0, secondChanID)
	if err != nil {
		return nil, [4]*testLightningChannel{}, err
	}
	// The fixture gives every channel END its own database and leaves the
	// channels "pending". A node keeps all its channels in one database,
	// which is also the switch's: only then can the switch reach the
	// forwarding packages of both of Bob's channels (reforwardResponses at
	// start-up, batched settle/fail acks), and it skips pending channels.
	// So: move Bob's B-C channel into the database of his A-B channel and
	// mark all four channel ends open.
	bobDB := b1.channel.State().Db
	st2 := b2.channel.State()
	st2.Db = bobDB
	bobAddr := &net.TCPAddr{IP: net.ParseIP("127.0.0.1"), Port: 18556}
	if err := st2.SyncPending(bobAddr, 1); err != nil {
		return nil, [4]*testLightningChannel{}, fmt.Errorf("move bob(B-C) into bob's db: %w", err)
	}
	for _, tc := range []*testLightningChannel{a, b1, b2, c} {
		st := tc.channel.State()
		if err := st.MarkAsOpen(st.ShortChanID()); err != nil {
			return nil, [4]*testLightningChannel{}, fmt.Errorf("mark open: %w", err)
		}
	}
	bobKeyPriv, _ := btcec.PrivKeyFromBytes(bobPrivKey)
	signer := input.NewMockSigner([]*btcec.PrivateKey{bobKeyPriv}, nil)
	pool := lnwallet.NewSigPool(2, signer)
	if err := pool.Start(); err != nil {
		return nil, [4]*testLightningChannel{}, err
	}
	t.Cleanup(func() { _ = pool.Stop() })
	auxSigner := lnwallet.NewDefaultAuxSignerMock(t)
	ptBC := b2.channel.ChannelPoint()
	b2.restore = func() (*lnwallet.LightningChannel, error) {
		st, err := bobDB.FetchChannel(ptBC)
		if err != nil {
			return nil, fmt.Errorf("fetch bob(B-C) from bob's db: %w", err)
		}
		return lnwallet.NewLightningChannel(signer, st, pool,
			lnwallet.WithLeafStore(&lnwallet.MockAuxLeafStore{}),
			lnwallet.WithAuxSigner(auxSigner))
	}
	return &clusterChannels{aliceToBob: a.channel, bobToAlice: b1.channel,
		bobToCarol: b2.channel, carolToBob: c.channel}, [4]*testLightningChannel{a, b1, b2, c}, nil
}

func verifC08Start(t *testing.T, vc *verifCtx, r *verifRng, capSat btcutil.Amount) (*verifC08Net, error) {
	channels, tcs, err := verifC08Cluster(t, capSat)
	if err != nil {
		return nil, err
	}
	restore := func() (*clusterChannels, error) {
		var out [4]*lnwallet.LightningChannel
		for i, tc := range tcs {
			ch, err := tc.restore()
			if err != nil {
				return nil, err
			}
			out[i] = ch
		}
		return &clusterChannels{aliceToBob: out[0], bobToAlice: out[1], bobToCarol: out[2], carolToBob: out[3]}, nil
	}
	v := &verifC08Net{channels: channels, restore: restore, tcs: tcs,
		delaySeed: r.U64(), delayPct: []int{0, 10, 30}[r.Intn(3)]}
	mon := &verifC08Mon{vc: vc,
		chanAB:       lnwire.NewChanIDFromOutPoint(channels.aliceToBob.ChannelPoint()),
		chanBC:       lnwire.NewChanIDFromOutPoint(channels.bobToCarol.ChannelPoint()),
		byHash:       map[lntypes.Hash]*verifC08Pay{},
		incomingAdds: map[verifC08Key]lntypes.Hash{},
		downFulfill:  map[lntypes.Hash]bool{},
		everAtBob:    map[lntypes.Hash]bool{},
		bobOutAdds:   map[verifC08Key]lntypes.Hash{},
		downResolved: map[lntypes.Hash]string{},
		upSeen:       map[verifC08Key]map[string]int{},
		upSeenEpoch:  map[verifC08Key]map[int]int{},
	}
	bobStateDB := channels.bobToAlice.State().Db
	ptAB := channels.bobToAlice.ChannelPoint()
	ptBC := channels.bobToCarol.ChannelPoint()
	mon.fetchBobAB = func() (*channeldb.OpenChannel, error) { return bobStateDB.FetchChannel(ptAB) }
	bobStateDB2 := channels.bobToCarol.State().Db
	mon.fetchBobBC = func() (*channeldb.OpenChannel, error) { return bobStateDB2.FetchChannel(ptBC) }
	v.mon = mon
	v.n = newThreeHopNetwork(t, channels.aliceToBob, channels.bobToAlice,
		channels.bobToCarol, channels.carolToBob, testStartingHeight)
	// Bob charges a proportional fee as well.
	for _, l := range []*channelLink{v.n.firstBobChannelLink, v.n.secondBobChannelLink} {
		l.cfg.FwrdingPolicy.FeeRate = 1000
	}
	v.install(t)
	if err := v.startNet(); err != nil {
		return nil, err
	}
	return v, nil
}

// restart stops the whole cluster (all in-flight messages are lost) and boots
// a new one from the same databases, as TestChannelRetransmission does.
func (v *verifC08Net) restart(t *testing.T) error { return v.restartWith(t, -1) }

// restartWith restarts the whole cluster; with keepDown 0 (A-B) or 1 (B-C)
// the links of that channel are not brought back (the peer stays
// disconnected after the restart), so that what the forwarder's switch owes
// that channel's counterpart is re-forwarded by the switch itself
// (reforwardResponses) and not by the channel's own link.
func (v *verifC08Net) restartWith(t *testing.T, keepDown int) error {
	old := v.n
	regs := [3]*mockInvoiceRegistry{old.aliceServer.registry, old.bobServer.registry, old.carolServer.registry}
	caches := [3]*mockPreimageCache{old.aliceServer.pCache, old.bobServer.pCache, old.carolServer.pCache}
	v.netMu.Lock()
	defer v.netMu.Unlock()
	v.gen++
	old.stop()
	v.mon.mu.Lock()
	v.mon.epoch++
	v.mon.logf("=== cluster restart -> epoch %d", v.mon.epoch)
	v.mon.mu.Unlock()
	channels, err := v.restore()
	if err != nil {
		return fmt.Errorf("restore: %w", err)
	}
	v.channels = channels
	n := newThreeHopNetwork(t, channels.aliceToBob, channels.bobToAlice,
		channels.bobToCarol, channels.carolToBob, testStartingHeight)
	n.aliceServer.registry, n.bobServer.registry, n.carolServer.registry = regs[0], regs[1], regs[2]
	n.aliceServer.pCache, n.bobServer.pCache, n.carolServer.pCache = caches[0], caches[1], caches[2]
	n.aliceChannelLink.cfg.Registry, n.aliceChannelLink.cfg.PreimageCache = regs[0], caches[0]
	n.firstBobChannelLink.cfg.Registry, n.firstBobChannelLink.cfg.PreimageCache = regs[1], caches[1]
	n.secondBobChannelLink.cfg.Registry, n.secondBobChannelLink.cfg.PreimageCache = regs[1], caches[1]
	n.carolChannelLink.cfg.Registry, n.carolChannelLink.cfg.PreimageCache = regs[2], caches[2]
	for _, l := range []*channelLink{n.firstBobChannelLink, n.secondBobChannelLink} {
		l.cfg.FwrdingPolicy.FeeRate = 1000
	}
	v.n = n
	v.down = [2]bool{}
	v.install(t)
	if keepDown >= 0 {
		chanID := v.mon.chanAB
		other := n.aliceServer
		if keepDown == 1 {
			chanID, other = v.mon.chanBC, n.carolServer
		}
		n.bobServer.htlcSwitch.RemoveLink(chanID)
		other.htlcSwitch.RemoveLink(chanID)
		v.down[keepDown] = true
	}
	return v.startNet()
}

// flap emulates a disconnect/reconnect of ONE channel while all three
// switches keep running: both links of the channel are removed from their
// switches (in-flight messages of that channel are lost), the channel is
// reloaded from disk on both sides and fresh links are added (which run
// channel_reestablish for real).
func (v *verifC08Net) flap(t *testing.T, ab bool) error {
	v.linkDown(ab)
	return v.linkUp(t, ab)
}

func verifC08DownIdx(ab bool) int {
	if ab {
		return 0
	}
	return 1
}

// linkDown removes both links of one channel from their switches (a
// disconnect); the channel stays down until linkUp or a cluster restart.
func (v *verifC08Net) linkDown(ab bool) {
	if v.down[verifC08DownIdx(ab)] {
		return
	}
	v.down[verifC08DownIdx(ab)] = true
	n := v.n
	chanID := v.mon.chanBC
	if ab {
		chanID = v.mon.chanAB
	}
	if ab {
		n.bobServer.htlcSwitch.RemoveLink(chanID)
		n.aliceServer.htlcSwitch.RemoveLink(chanID)
	} else {
		n.bobServer.htlcSwitch.RemoveLink(chanID)
		n.carolServer.htlcSwitch.RemoveLink(chanID)
	}
	// Let the servers discard what was still queued for the removed
	// links: a reconnect never delivers messages of the old connection.
	// The monitor's connection epoch only advances once they are gone
	// (they belong to the old connection).
	deadline := time.Now().Add(20 * time.Second)
	for time.Now().Before(deadline) {
		if len(n.aliceServer.messages) == 0 && len(n.bobServer.messages) == 0 &&
			len(n.carolServer.messages) == 0 {

			break
		}
		time.Sleep(5 * time.Millisecond)
	}
	time.Sleep(30 * time.Millisecond)
	v.mon.mu.Lock()
	v.mon.epoch++
	v.mon.logf("=== link down ab=%v -> epoch %d", ab, v.mon.epoch)
	v.mon.mu.Unlock()
}

// linkUp reloads the channel from disk on both sides and adds fresh links
// (which run channel_reestablish for real).
func (v *verifC08Net) linkUp(t *testing.T, ab bool) error {
	if !v.down[verifC08DownIdx(ab)] {
		return nil
	}
	n := v.n
	chanID := v.mon.chanBC
	if ab {
		chanID = v.mon.chanAB
	}
	gate := make(chan struct{})
	v.gateMu.Lock()
	if v.gate == nil {
		v.gate = map[lnwire.ChannelID]chan struct{}{}
	}
	v.gate[chanID] = gate
	v.gateMu.Unlock()
	defer func() {
		v.gateMu.Lock()
		if v.gate[chanID] == gate {
			delete(v.gate, chanID)
			close(gate)
		}
		v.gateMu.Unlock()
	}()
	openGate := func() {
		v.gateMu.Lock()
		if v.gate[chanID] == gate {
			delete(v.gate, chanID)
			close(gate)
		}
		v.gateMu.Unlock()
	}
	restored := &clusterChannels{}
	var err error
	if ab {
		if restored.aliceToBob, err = v.tcs[0].restore(); err != nil {
			return fmt.Errorf("restore alice(A-B): %w", err)
		}
		if restored.bobToAlice, err = v.tcs[1].restore(); err != nil {
			return fmt.Errorf("restore bob(A-B): %w", err)
		}
	} else {
		if restored.bobToCarol, err = v.tcs[2].restore(); err != nil {
			return fmt.Errorf("restore bob(B-C): %w", err)
		}
		if restored.carolToBob, err = v.tcs[3].restore(); err != nil {
			return fmt.Errorf("restore carol(B-C): %w", err)
		}
	}
	mk := func(server, peer *mockServer, ch *lnwallet.LightningChannel, bob bool) (*channelLink, error) {
		l, err := n.createChannelLink(server, peer, ch, newMockIteratorDecoder())
		if err != nil {
			return nil, err
		}
		cl := l.(*channelLink)
		if bob {
			cl.cfg.FwrdingPolicy.FeeRate = 1000
		}
		return cl, nil
	}
	links := map[string]*channelLink{}
	if ab {
		a, err := mk(n.aliceServer, n.bobServer, restored.aliceToBob, false)
		if err != nil {
			return err
		}
		b, err := mk(n.bobServer, n.aliceServer, restored.bobToAlice, true)
		if err != nil {
			return err
		}
		n.aliceChannelLink, n.firstBobChannelLink = a, b
		v.channels.aliceToBob, v.channels.bobToAlice = restored.aliceToBob, restored.bobToAlice
		links["alice"], links["bob first"] = a, b
	} else {
		b, err := mk(n.bobServer, n.carolServer, restored.bobToCarol, true)
		if err != nil {
			return err
		}
		c, err := mk(n.carolServer, n.bobServer, restored.carolToBob, false)
		if err != nil {
			return err
		}
		n.secondBobChannelLink, n.carolChannelLink = b, c
		v.channels.bobToCarol, v.channels.carolToBob = restored.bobToCarol, restored.carolToBob
		links["bob second"], links["carol"] = b, c
	}
	openGate()
	v.down[verifC08DownIdx(ab)] = false
	return verifC08WaitEligible(links)
}

// verifC08WaitEligible is waitLinksEligible with a generous watchdog (the
// fixture's 3 s are too short on a loaded machine).
func verifC08WaitEligible(links map[string]*channelLink) error {
	deadline := time.Now().Add(90 * time.Second)
	for {
		bad := ""
		for name, l := range links {
			if !l.EligibleToForward() {
				bad = name
			}
		}
		if bad == "" {
			return nil
		}
		if time.Now().After(deadline) {
			return fmt.Errorf("%s channel link not eligible after 90s", bad)
		}
		time.Sleep(10 * time.Millisecond)
	}
}

func (v *verifC08Net) startNet() error {
	n := v.n
	// The fixture's switch tickers keep the production interval (15 s),
	// longer than a case lasts, which leaves the switch's batched
	// settle/fail acknowledgement (and the forwarding-event flush) dead.
	for _, srv := range []*mockServer{n.aliceServer, n.bobServer, n.carolServer} {
		srv.htlcSwitch.cfg.AckEventTicker = ticker.New(15 * time.Millisecond)
		srv.htlcSwitch.cfg.FwdEventTicker = ticker.New(40 * time.Millisecond)
	}
	for _, srv := range []*mockServer{n.aliceServer, n.bobServer, n.carolServer} {
		if err := srv.Start(); err != nil {
			return err
		}
	}
	links := map[string]*channelLink{}
	if !v.down[0] {
		links["alice"], links["bob first"] = n.aliceChannelLink, n.firstBobChannelLink
	}
	if !v.down[1] {
		links["bob second"], links["carol"] = n.secondBobChannelLink, n.carolChannelLink
	}
	return verifC08WaitEligible(links)
}

func (v *verifC08Net) server(name byte) *mockServer {
	switch name {
	case 'A':
		return v.n.aliceServer
	case 'B':
		return v.n.bobServer
	}
	return v.n.carolServer
}

func (v *verifC08Net) genPayment(r *verifRng, idx int) (*verifC08Pay, error) {
	n := v.n
	p := &verifC08Pay{Idx: idx}
	p.Dir = []string{"AC", "AC", "CA", "CA", "AB", "CB"}[r.Intn(6)]
	p.Kind = []string{"valid", "valid", "valid", "valid", "unknown", "underpaid", "lowfee", "lowcltv", "hold", "hold"}[r.Intn(10)]
	if ov := os.Getenv("VERIF_C08_FORCE"); ov != "" { // debugging aid: "hold-AC"
		f := strings.Split(ov, "-")
		p.Kind, p.Dir = f[0], f[1]
	}
	if p.Kind == "hold" {
		p.HoldSettle = r.Bool()
		p.HoldDelay = time.Duration(r.Intn(400)) * time.Millisecond
	}
	if !p.forwarded() && (p.Kind == "lowfee" || p.Kind == "lowcltv") {
		p.Kind = "valid"
	}
	// amounts around Bob's/Carol's dust (200 / 1300 sat in the fixture)
	// and the 5 sat min_htlc, plus mid-range.
	sat := []int64{5, 6, 199, 200, 201, 1299, 1300, 1301, 5000, 100000, 3000000}[r.Intn(11)]
	p.Amt = lnwire.MilliSatoshi(sat*1000 + int64(r.Intn(2))*int64(r.Intn(1000)))
	var path []*channelLink
	switch p.Dir {
	case "AC":
		path = []*channelLink{n.firstBobChannelLink, n.carolChannelLink}
		p.firstHop = n.firstBobChannelLink.ShortChanID()
	case "CA":
		path = []*channelLink{n.secondBobChannelLink, n.aliceChannelLink}
		p.firstHop = n.secondBobChannelLink.ShortChanID()
	case "AB":
		path = []*channelLink{n.firstBobChannelLink}
		p.firstHop = n.firstBobChannelLink.ShortChanID()
	case "CB":
		path = []*channelLink{n.secondBobChannelLink}
		p.firstHop = n.secondBobChannelLink.ShortChanID()
	}
	htlcAmt, totalTimelock, hops := generateHops(p.Amt, testStartingHeight, path...)
	p.HtlcAmt = htlcAmt
	p.Fee = htlcAmt - p.Amt
	switch p.Kind {
	case "lowfee":
		htlcAmt-- // Bob is offered one msat less than his policy demands
	case "lowcltv":
		totalTimelock-- // expiry gap one block below Bob's delta
	}
	blob, err := generateRoute(hops...)
	if err != nil {
		return nil, err
	}
	copy(p.Preimage[:], r.Bytes(32))
	p.Hash = p.Preimage.Hash()
	invoiceAmt := p.Amt
	if p.Kind == "underpaid" {
		invoiceAmt = p.Amt + 1000
	}
	var payAddr [32]byte
	copy(payAddr[:], r.Bytes(32))
	pre := &p.Preimage
	if p.Kind == "hold" {
		pre = nil // hold invoice: the registry does not know the preimage
	} else {
		cp := p.Preimage
		pre = &cp
	}
	invoice, htlc, _, err := generatePaymentWithPreimage(invoiceAmt, htlcAmt, totalTimelock, blob,
		pre, p.Hash, payAddr)
	if err != nil {
		return nil, err
	}
	p.Pid = r.U64()
	p.htlc = htlc
	if p.Kind != "unknown" {
		recv := v.server(p.Dir[1])
		p.reg = recv.registry
		if err := recv.registry.AddInvoice(context.Background(), *invoice, p.Hash); err != nil {
			return nil, err
		}
	}
	return p, nil
}

// send launches the payment and waits for its result in a goroutine.
func (v *verifC08Net) send(p *verifC08Pay, wg *sync.WaitGroup) {
	wg.Add(1)
	go func() {
		defer wg.Done()
		v.netMu.RLock()
		p.mu.Lock()
		p.awaitGen = v.gen
		p.mu.Unlock()
		sender := v.server(p.Dir[0])
		err := sender.htlcSwitch.SendHTLC(p.firstHop, p.Pid, p.htlc)
		var resultChan <-chan *PaymentResult
		var rerr error
		if err == nil {
			resultChan, rerr = sender.htlcSwitch.GetAttemptResult(p.Pid, p.Hash, newMockDeobfuscator())
		}
		p.mu.Lock()
		p.sent = true
		p.mu.Unlock()
		v.netMu.RUnlock()
		if err != nil {
			p.mu.Lock()
			p.outcome, p.errStr = "fail", "SendHTLC: "+err.Error()
			p.mu.Unlock()
			return
		}
		v.awaitResult(p, resultChan, rerr)
	}()
}

func (v *verifC08Net) await(p *verifC08Pay, sender *mockServer) {
	v.netMu.RLock()
	p.mu.Lock()
	p.awaitGen = v.gen
	p.mu.Unlock()
	resultChan, err := v.server(p.Dir[0]).htlcSwitch.GetAttemptResult(p.Pid, p.Hash, newMockDeobfuscator())
	v.netMu.RUnlock()
	v.awaitResult(p, resultChan, err)
}

func (v *verifC08Net) awaitResult(p *verifC08Pay, resultChan <-chan *PaymentResult, err error) {
	if err != nil {
		p.mu.Lock()
		if p.outcome == "" {
			if err == ErrPaymentIDNotFound {
				p.outcome, p.errStr = "notsent", err.Error()
			} else {
				p.errStr = "GetAttemptResult: " + err.Error()
			}
		}
		p.mu.Unlock()
		return
	}
	res, ok := <-resultChan
	p.mu.Lock()
	defer p.mu.Unlock()
	if !ok {
		// the switch this waiter was attached to stopped; a waiter on
		// the next network generation takes over
		if p.outcome == "" {
			p.errStr = "switch shutting down"
		}
		return
	}
	if p.outcome == "notsent" {
		p.outcome = ""
	}
	switch {
	case p.outcome != "" && p.outcome != "fail":
		// a terminal success/badpreimage verdict is never replaced
	case res.Error != nil && p.outcome == "fail":
	case res.Error != nil:
		p.outcome, p.errStr = "fail", res.Error.Error()
	default:
		if res.Preimage != [32]byte(p.Preimage) {
			p.outcome, p.errStr = "badpreimage", fmt.Sprintf("%x", res.Preimage[:4])
		} else {
			p.outcome = "success"
		}
	}
}

// holder resolves a hold invoice: once the receiver has accepted the HTLC it
// waits the payment's delay and settles or cancels; when stop closes first
// (all faults injected, network stable) it resolves an accepted invoice the
// same way and cancels one that never saw its HTLC.
func (v *verifC08Net) holder(p *verifC08Pay, stop <-chan struct{}, wg *sync.WaitGroup, vc *verifCtx) {
	defer wg.Done()
	ctx := context.Background()
	act := func() {
		var err error
		if p.HoldSettle {
			err = p.reg.SettleHodlInvoice(ctx, p.Preimage)
			vc.Count("hold_settled", 1)
		} else {
			err = p.reg.CancelInvoice(ctx, p.Hash)
			vc.Count("hold_cancelled", 1)
		}
		if err != nil {
			vc.Count("hold_resolve_error", 1)
		}
	}
	for {
		inv, err := p.reg.LookupInvoice(ctx, p.Hash)
		if err == nil && inv.State == invoices.ContractAccepted {
			select {
			case <-stop:
			case <-time.After(p.HoldDelay):
			}
			act()
			return
		}
		if err == nil && (inv.State == invoices.ContractCanceled || inv.State == invoices.ContractSettled) {
			return
		}
		select {
		case <-stop:
			inv, err := p.reg.LookupInvoice(ctx, p.Hash)
			if err == nil && inv.State == invoices.ContractAccepted {
				act()
			} else {
				_ = p.reg.CancelInvoice(ctx, p.Hash)
				vc.Count("hold_never_accepted", 1)
			}
			return
		case <-time.After(10 * time.Millisecond):
		}
	}
}

func verifC08HasIncoming(ch *channeldb.OpenChannel, hash lntypes.Hash) bool {
	for _, hs := range [][]channeldb.HTLC{ch.LocalCommitment.Htlcs, ch.RemoteCommitment.Htlcs} {
		found := false
		for _, h := range hs {
			if h.Incoming && h.RHash == [32]byte(hash) {
				found = true
			}
		}
		if !found {
			return false
		}
	}
	return true
}

// checkAway runs at a stable point while exactly one channel is down (its
// peer is away) and the other is up: an incoming HTLC on the live channel
// whose outgoing HTLC on the dead channel was resolved by the peer and is
// irrevocably gone from the forwarder's commitments must have been resolved
// upstream as well; waiting for the absent peer would leave it dangling.
func (v *verifC08Net) checkAway(vc *verifCtx, pays []*verifC08Pay, wit func() any) {
	if v.down[0] == v.down[1] {
		return
	}
	vc.Count("oracle_peer_away_quiescence", 1)
	ab, err1 := v.mon.fetchBobAB()
	bc, err2 := v.mon.fetchBobBC()
	if err1 != nil || err2 != nil {
		vc.Diag("fetch_bob_channel_failed", fmt.Sprint(err1, err2))
		return
	}
	for _, p := range pays {
		if !p.forwarded() {
			continue
		}
		out, in, outDown := bc, ab, v.down[1]
		if p.Dir == "CA" {
			out, in, outDown = ab, bc, v.down[0]
		}
		if !outDown {
			continue
		}
		v.mon.mu.Lock()
		how := v.mon.downResolved[p.Hash]
		v.mon.mu.Unlock()
		if how == "" {
			continue
		}
		if has, _ := verifC08HasOutgoing(out, p.Hash); has {
			continue
		}
		if verifC08HasIncoming(in, p.Hash) {
			// describe what the forwarder holds for this HTLC
			info := ""
			if pkgs, err := out.LoadFwdPkgs(); err == nil {
				for _, pk := range pkgs {
					for k, lu := range pk.SettleFails {
						id := uint64(1 << 62)
						switch m := lu.UpdateMsg.(type) {
						case *lnwire.UpdateFulfillHTLC:
							id = m.ID
						case *lnwire.UpdateFailHTLC:
							id = m.ID
						}
						info += fmt.Sprintf(" [outpkg h=%d state=%d sf#%d id=%d acked=%v]", pk.Height, pk.State, k, id,
							pk.SettleFailFilter.Contains(uint16(k)))
					}
				}
			} else {
				info += " [LoadFwdPkgs: " + err.Error() + "]"
			}
			cm := v.n.bobServer.htlcSwitch.circuits.(*circuitMap)
			cm.mtx.RLock()
			for k, c := range cm.pending {
				if c.PaymentHash == [32]byte(p.Hash) {
					_, closing := cm.closed[k]
					info += fmt.Sprintf(" [circuit in=%v out=%v loaded=%v closing=%v]", k, c.Outgoing, c.LoadedFromDisk, closing)
				}
			}
			cm.mtx.RUnlock()
			for li, l := range []*channelLink{v.n.firstBobChannelLink, v.n.secondBobChannelLink} {
				info += fmt.Sprintf(" [boblink%d eligible=%v failed=%v]", li, l.EligibleToForward(), l.failed)
			}
			vc.Diag("peer_away_detail", info)
			vc.Violation("nothing_dangling", "resolved-downstream-pending-upstream-while-peer-away:"+how,
				fmt.Sprintf("payment %d (%s %s): the outgoing HTLC got a %s from the downstream peer and is gone from the "+
					"forwarder's commitments, the downstream peer is disconnected, the network is stable, yet the incoming "+
					"HTLC is still pending on the live upstream channel", p.Idx, p.Dir, p.Kind, how), wit())
			return
		}
	}
}

type verifC08State struct {
	Heights [4]uint64
	Htlcs   [4]int
	Bal     [4]lnwire.MilliSatoshi
	Pending [3]int
	Opened  [3]int
	Handled int64
}

func (v *verifC08Net) snapshot() verifC08State {
	var s verifC08State
	chans := []*lnwallet.LightningChannel{v.channels.aliceToBob, v.channels.bobToAlice,
		v.channels.bobToCarol, v.channels.carolToBob}
	for i, c := range chans {
		snap := c.StateSnapshot()
		s.Heights[i] = snap.CommitHeight
		s.Htlcs[i] = len(snap.Htlcs)
		s.Bal[i] = snap.LocalBalance
	}
	for i, srv := range []*mockServer{v.n.aliceServer, v.n.bobServer, v.n.carolServer} {
		s.Pending[i] = srv.htlcSwitch.circuits.NumPending()
		s.Opened[i] = srv.htlcSwitch.circuits.NumOpen()
		srv.protocolTraceMtx.Lock()
		s.Handled += int64(len(srv.protocolTrace))
		srv.protocolTraceMtx.Unlock()
		s.Handled += int64(len(srv.messages)) << 32
	}
	return s
}

// clean: no HTLC on any channel end and no circuit left at the forwarder
// (index 1). Circuits of the SENDERS' own payments (hop.Source circuits at
// Alice/Carol) are outside the statement: a payment whose add never left the
// sender before the sender itself restarted keeps its local circuit, which
// only the (absent) router would clean up; they are reported as a diagnostic.
func (s verifC08State) clean() bool {
	for i := 0; i < 4; i++ {
		if s.Htlcs[i] != 0 {
			return false
		}
	}
	return s.Pending[1] == 0 && s.Opened[1] == 0
}

func (s verifC08State) senderCircuits() int {
	return s.Pending[0] + s.Opened[0] + s.Pending[2] + s.Opened[2]
}

// waitIdle polls until the observable state has not changed for `stable`
// consecutive polls; returns the last state and whether idleness was reached
// within the (generous) watchdog.
func (v *verifC08Net) waitIdle(stablePolls int, watchdog time.Duration) (verifC08State, bool) {
	deadline := time.Now().Add(watchdog)
	last := v.snapshot()
	same := 0
	for time.Now().Before(deadline) {
		time.Sleep(100 * time.Millisecond)
		cur := v.snapshot()
		if cur == last {
			same++
			need := stablePolls
			if cur.clean() {
				need = stablePolls / 4
			}
			if same >= need {
				return cur, true
			}
		} else {
			same = 0
			last = cur
		}
	}
	return last, false
}

func verifC08Case(t *testing.T, vc *verifCtx, i int) {
	r := vc.Rng(i)
	nPay := 5 + r.Intn(16)
	// fault plan: a PRNG sequence of link flaps (down+up), link downs that
	// stay down across the following faults, link ups and whole-cluster
	// restarts (which also bring every link back).
	nFaults := []int{0, 1, 2, 2, 3, 3, 4, 5}[r.Intn(8)]
	var plan []string
	nRestarts, nFlaps := 0, 0
	for k := 0; k < nFaults; k++ {
		op := []string{"fAB", "fBC", "dAB", "dBC", "dAB", "dBC", "u", "R", "R", "RdAB", "RdBC"}[r.Intn(11)]
		if op[0] == 'R' && (nRestarts >= 2 || os.Getenv("VERIF_C08_NORESTART") != "") {
			op = "fBC"
		}
		if op[0] == 'R' {
			nRestarts++
		} else {
			nFlaps++
		}
		plan = append(plan, op)
	}
	// one case in sixteen has a Byzantine downstream peer instead of a fault
	// plan: the first update_fulfill_htlc of one forwarded payment reaches
	// the forwarder with a corrupted preimage.
	byz := r.Intn(16) == 0
	if byz {
		plan = nil
	}
	if ov := os.Getenv("VERIF_C08_PLAN"); ov != "" { // debugging aid
		plan = strings.Split(ov, ",")
		byz = ov == "byz"
		if byz {
			plan = nil
		}
	}
	vc.Case(i, map[string]any{"payments": nPay, "faults": strings.Join(plan, ","), "byzantine": byz})
	capSat := btcutil.Amount(btcutil.SatoshiPerBitcoin * 5)
	v, err := verifC08Start(t, vc, r, capSat)
	if err != nil {
		verifC08Fatalf(t, "cluster start: %v", err)
	}
	defer func() {
		v.netMu.Lock()
		v.n.stop()
		v.netMu.Unlock()
	}()
	start := v.snapshot()

	var pays []*verifC08Pay
	var wg sync.WaitGroup
	for k := 0; k < nPay; k++ {
		p, err := v.genPayment(r, k)
		if err != nil {
			verifC08Fatalf(t, "genPayment: %v", err)
		}
		pays = append(pays, p)
		v.mon.mu.Lock()
		v.mon.byHash[p.Hash] = p
		v.mon.mu.Unlock()
	}
	var victim *verifC08Pay
	if byz {
		for _, p := range pays {
			if p.forwarded() && p.Kind == "valid" {
				victim = p
				break
			}
		}
		if victim != nil {
			h := victim.Hash
			v.byzMu.Lock()
			v.byzHash = &h
			v.byzMu.Unlock()
		}
	}
	// launch in 1-3 waves
	waves := 1 + r.Intn(3)
	per := (nPay + waves - 1) / waves
	k := 0
	for w := 0; w < waves; w++ {
		for j := 0; j < per && k < nPay; j++ {
			v.send(pays[k], &wg)
			k++
		}
		if w+1 < waves {
			time.Sleep(time.Duration(r.Intn(40)) * time.Millisecond)
		}
	}
	holdStop := make(chan struct{})
	var holdWg sync.WaitGroup
	for _, p := range pays {
		if p.Kind == "hold" {
			holdWg.Add(1)
			go v.holder(p, holdStop, &holdWg, vc)
			vc.Count("hold_payments", 1)
		}
	}
	if victim != nil {
		// Let the corrupted settle take effect. A correct forwarder
		// refuses it (its link on the outgoing channel fails, as it
		// would force-close in production) and must not settle the
		// incoming HTLC; the wire monitor (settle_with_wrong_preimage,
		// settle_only_with_downstream_preimage) and the sender's
		// result (wrong-preimage) judge that. Then the outgoing
		// channel reconnects: the honest peer retransmits the real
		// settle and the case must end like any other.
		vc.Count("byzantine_cases", 1)
		if _, idle := v.waitIdle(15, 120*time.Second); !idle {
			verifC08Fatalf(t, "case %d: network never became stable after the corrupted settle (inconclusive)", i)
		}
		v.byzMu.Lock()
		done := v.byzDone
		v.byzMu.Unlock()
		if done {
			vc.Count("byzantine_settles_corrupted", 1)
			l := v.n.secondBobChannelLink
			if victim.Dir == "CA" {
				l = v.n.firstBobChannelLink
			}
			if l.failed {
				vc.Count("byzantine_link_failed", 1)
			} else {
				vc.Diag("byzantine_link_not_failed", fmt.Sprintf("case %d: the forwarder's link did not fail on a settle with a wrong preimage", i))
			}
			victim.mu.Lock()
			oc := victim.outcome
			victim.mu.Unlock()
			if oc == "success" || oc == "badpreimage" {
				vc.Violation("settle_with_wrong_preimage", "sender-result-after-corrupted-settle:"+oc,
					fmt.Sprintf("payment %d (%s): the only settle the forwarder received so far carried a wrong preimage, yet the sender already has the result %q",
						victim.Idx, victim.Dir, oc), nil)
			}
		}
		plan = []string{"fBC"}
		if victim.Dir == "CA" {
			plan = []string{"fAB"}
		}
	}
	requery := func() {
		// old result waiters return when the old switch stops; re-query
		// every payment without a terminal result on the new switch.
		// (waiters that slipped onto the new network are left alone: they
		// may legitimately wait for a long time)
		v.netMu.RLock()
		gen := v.gen
		v.netMu.RUnlock()
		for _, p := range pays {
			// (a payment whose send goroutine has not run yet - it may be
			// waiting for this very restart to finish - has nothing to
			// re-query; its own send attaches the waiter)
			p.mu.Lock()
			need := p.outcome == "" && p.sent && p.awaitGen != gen
			p.mu.Unlock()
			if !need {
				continue
			}
			p := p
			wg.Add(1)
			go func() {
				defer wg.Done()
				v.await(p, v.server(p.Dir[0]))
			}()
		}
	}
	for _, op := range plan {
		time.Sleep(time.Duration(r.Intn(150)) * time.Millisecond)
		var err error
		switch op {
		case "fAB", "fBC":
			err = v.flap(t, op == "fAB")
			vc.Count("link_flaps", 1)
		case "dAB", "dBC":
			v.linkDown(op == "dAB")
			vc.Count("link_downs_held", 1)
		case "u":
			for _, ab := range []bool{true, false} {
				if v.down[verifC08DownIdx(ab)] && err == nil {
					err = v.linkUp(t, ab)
					vc.Count("link_flaps", 1)
				}
			}
		case "w": // debugging aid (VERIF_C08_PLAN only)
			time.Sleep(700 * time.Millisecond)
		case "R", "RdAB", "RdBC":
			if v.down[0] || v.down[1] {
				vc.Count("restart_with_link_down", 1)
			}
			switch op {
			case "R":
				err = v.restart(t)
			case "RdAB":
				err = v.restartWith(t, 0)
				vc.Count("restart_keeping_link_down", 1)
			case "RdBC":
				err = v.restartWith(t, 1)
				vc.Count("restart_keeping_link_down", 1)
			}
			vc.Count("cluster_restarts", 1)
			if err == nil {
				requery()
			}
		}
		if err != nil {
			verifC08Fatalf(t, "fault %s: %v", op, err)
		}
	}
	if v.down[0] != v.down[1] {
		// one peer is away: judge the stable state before it comes back
		if _, idle := v.waitIdle(20, 120*time.Second); idle {
			v.checkAway(vc, pays, func() any {
				v.mon.mu.Lock()
				defer v.mon.mu.Unlock()
				return map[string]any{"faults": strings.Join(plan, ","), "down": v.down, "trace": v.mon.trace}
			})
		}
	}
	for _, ab := range []bool{true, false} {
		if v.down[verifC08DownIdx(ab)] {
			if err := v.linkUp(t, ab); err != nil {
				verifC08Fatalf(t, "final link up: %v", err)
			}
			vc.Count("link_flaps", 1)
		}
	}
	// every fault is injected: let the network become stable with the
	// remaining hold invoices still held, then resolve those as well.
	if st0, idle := v.waitIdle(20, 120*time.Second); !idle {
		close(holdStop)
		verifC08Fatalf(t, "case %d: network never became stable before the holds were released (inconclusive): %+v", i, st0)
	}
	close(holdStop)
	holdWg.Wait()
	done := make(chan struct{})
	go func() { wg.Wait(); close(done) }()
	// first let the network settle (observable state stable), then give
	// the result waiters a short grace period; payments whose sender
	// restarted before the add was committed never get a result.
	st, idle := v.waitIdle(40, 120*time.Second)
	if !idle {
		verifC08Fatalf(t, "case %d: network never became idle within the watchdog (inconclusive): %+v", i, st)
	}
	select {
	case <-done:
	case <-time.After(3 * time.Second):
	}
	st, idle = v.waitIdle(10, 60*time.Second)
	if !idle {
		verifC08Fatalf(t, "case %d: network not idle after results (inconclusive): %+v", i, st)
	}
	vc.Count("oracle_quiescence", 1)
	wit := func() any {
		var ps []map[string]any
		for _, p := range pays {
			ps = append(ps, map[string]any{"idx": p.Idx, "dir": p.Dir, "kind": p.Kind, "amt": p.Amt,
				"fee": p.Fee, "outcome": p.outcome, "err": p.errStr})
		}
		v.mon.mu.Lock()
		defer v.mon.mu.Unlock()
		return map[string]any{"payments": ps, "state": st, "start": start, "trace": v.mon.trace}
	}
	if !st.clean() && os.Getenv("VERIF_DEBUG") != "" {
		v.debugDump()
	}
	if n := st.senderCircuits(); n > 0 {
		vc.Diag("sender_local_circuits_left", fmt.Sprintf("case %d: %d circuits of the senders' own payments", i, n))
	}
	if !st.clean() {
		vc.Violation("nothing_dangling", fmt.Sprintf("htlcs=%v pending=%v open=%v", st.Htlcs, st.Pending, st.Opened),
			fmt.Sprintf("network is idle but HTLCs/circuits remain: %+v", st), wit())
		vc.CaseDone(i)
		return
	}
	// terminal results and invoice states
	var delta [4]int64 // alice(A-B), bob(A-B), bob(B-C), carol(B-C)
	okCount := 0
	for _, p := range pays {
		p.mu.Lock()
		outcome := p.outcome
		p.mu.Unlock()
		settled := false
		if p.Kind != "unknown" {
			inv, err := v.server(p.Dir[1]).registry.LookupInvoice(context.Background(), p.Hash)
			if err == nil && inv.State == invoices.ContractSettled {
				settled = true
			}
			if err == nil && inv.State == invoices.ContractAccepted {
				vc.Violation("nothing_dangling", "invoice-still-accepted",
					fmt.Sprintf("payment %d (%s %s): network quiescent and clean but the receiver's invoice is still in the accepted state", p.Idx, p.Dir, p.Kind), wit())
			}
			if p.Kind == "hold" && !p.HoldSettle && settled {
				vc.Violation("invalid_payment_settled", "hold-cancelled-but-settled",
					fmt.Sprintf("payment %d: hold invoice was cancelled, never settled by the receiver, yet it is settled", p.Idx), wit())
			}
		}
		vc.Count("oracle_result_consistent", 1)
		switch outcome {
		case "success":
			if !settled {
				vc.Violation("result_matches_invoice", "success-but-unsettled",
					fmt.Sprintf("payment %d (%s %s) reported success but the receiver's invoice is not settled", p.Idx, p.Dir, p.Kind), wit())
			}
		case "fail", "notsent":
			if settled {
				vc.Violation("result_matches_invoice", "failed-but-settled",
					fmt.Sprintf("payment %d (%s %s) reported %s (%s) but the receiver's invoice is settled", p.Idx, p.Dir, p.Kind, outcome, p.errStr), wit())
			}
		case "badpreimage":
			vc.Violation("result_matches_invoice", "wrong-preimage",
				fmt.Sprintf("payment %d succeeded with a wrong preimage", p.Idx), wit())
		default:
			v.mon.mu.Lock()
			reached := v.mon.everAtBob[p.Hash]
			v.mon.mu.Unlock()
			if !reached {
				// the add never left the sender (sender restarted
				// first): nothing the forwarder could resolve.
				vc.Count("sender_abandoned_payments", 1)
				if settled {
					vc.Violation("result_matches_invoice", "abandoned-but-settled",
						fmt.Sprintf("payment %d never reached the forwarder but its invoice is settled", p.Idx), wit())
				}
			} else {
				// The add was seen on the wire but the sender
				// restarted before it was irrevocably committed
				// (or before its result was stored). The statement
				// says nothing about the sender's bookkeeping:
				// diagnostic; the money side is judged by the
				// conservation oracle below.
				vc.Diag("sender_result_missing", fmt.Sprintf("payment %d (%s %s): %s", p.Idx, p.Dir, p.Kind, p.errStr))
				if settled {
					vc.Violation("result_matches_invoice", "no-result-but-settled",
						fmt.Sprintf("payment %d has no result at the sender but its invoice is settled", p.Idx), wit())
				}
			}
		}
		if p.Kind != "valid" && p.Kind != "hold" && settled {
			vc.Violation("invalid_payment_settled", p.Kind,
				fmt.Sprintf("payment %d of kind %s must not be settled", p.Idx, p.Kind), wit())
		}
		if settled {
			okCount++
			amt, fee := int64(p.Amt), int64(p.Fee)
			switch p.Dir {
			case "AC":
				delta[0] -= amt + fee
				delta[1] += amt + fee
				delta[2] -= amt
				delta[3] += amt
			case "CA":
				delta[3] -= amt + fee
				delta[2] += amt + fee
				delta[1] -= amt
				delta[0] += amt
			case "AB":
				delta[0] -= amt
				delta[1] += amt
			case "CB":
				delta[3] -= amt
				delta[2] += amt
			}
		}
	}
	vc.Count("oracle_conservation", 1)
	names := []string{"alice(A-B)", "bob(A-B)", "bob(B-C)", "carol(B-C)"}
	for c := 0; c < 4; c++ {
		got := int64(st.Bal[c]) - int64(start.Bal[c])
		if got != delta[c] {
			vc.Violation("conservation_at_quiescence", names[c],
				fmt.Sprintf("%s balance moved by %d msat, settled payments explain %d msat (forwarder total delta %d, expected fees %d)",
					names[c], got, delta[c],
					int64(st.Bal[1])+int64(st.Bal[2])-int64(start.Bal[1])-int64(start.Bal[2]), delta[1]+delta[2]), wit())
			break
		}
	}
	if okCount > 0 {
		vc.Count("nontrivial", 1)
	}
	vc.Count("payments", int64(len(pays)))
	vc.Count("payments_settled", int64(okCount))
	kinds := map[string]bool{}
	for _, p := range pays {
		kinds[p.Dir+p.Kind+p.outcome] = true
	}
	vc.Sig(fmt.Sprint(nRestarts, nFlaps, len(kinds), verifMin(okCount, 6), v.delayPct))
	if i%10 == 0 {
		vc.Sample(wit())
	}
	vc.CaseDone(i)
	_ = bytes.Equal
	_ = hop.Exit
}

func verifMin(a, b int) int {
	if a < b {
		return a
	}
	return b
}

func TestVerifC08(t *testing.T) {
	vc := verifStart(t, "C08", "threehop")
	defer vc.Finish()
	verifC08Ctx = vc
	if os.Getenv("VERIF_DEBUG") == "2" {
		lg := btclog.NewSLogger(btclog.NewDefaultHandler(os.Stdout))
		lg.SetLevel(btclog.LevelDebug)
		UseLogger(lg)
	}
	total := vc.N(64, 800)
	for i := 0; i < total; i++ {
		if !vc.Mine(i) {
			continue
		}
		i := i
		t.Run(fmt.Sprintf("case%d", i), func(t *testing.T) {
			verifC08Case(t, vc, i)
		})
		// A sub-test that failed only because the race detector reported
		// something ("race detected during execution of test") does not end
		// the shard: the reports are classified by the driver.
		if verifC08HarnessFailed.Load() {
			return
		}
	}
}

var verifC08HarnessFailed atomic.Bool

var verifC08Ctx *verifCtx

func verifC08Fatalf(t *testing.T, format string, args ...any) {
	verifC08HarnessFailed.Store(true)
	if verifC08Ctx != nil {
		verifC08Ctx.emit(map[string]any{"t": "harness_fail", "detail": fmt.Sprintf(format, args...)})
	}
	t.Fatalf(format, args...)
}


func (v *verifC08Net) debugDump() {
	names := []string{"alice(A-B)", "bob(A-B)", "bob(B-C)", "carol(B-C)"}
	chans := []*lnwallet.LightningChannel{v.channels.aliceToBob, v.channels.bobToAlice,
		v.channels.bobToCarol, v.channels.carolToBob}
	for i, c := range chans {
		st := c.State()
		fmt.Printf("DBG %s localH=%d remoteH=%d\n", names[i], st.LocalCommitment.CommitHeight, st.RemoteCommitment.CommitHeight)
		for _, h := range st.LocalCommitment.Htlcs {
			fmt.Printf("DBG   local htlc in=%v id=%d hash=%x amt=%d\n", h.Incoming, h.HtlcIndex, h.RHash[:4], h.Amt)
		}
		for _, h := range st.RemoteCommitment.Htlcs {
			fmt.Printf("DBG   remote htlc in=%v id=%d hash=%x amt=%d\n", h.Incoming, h.HtlcIndex, h.RHash[:4], h.Amt)
		}
		tip, err := st.RemoteCommitChainTip()
		fmt.Printf("DBG   pending remote tip: %v err=%v owe=%v need=%v\n", tip != nil, err, c.OweCommitment(), c.NeedCommitment())
		pkgs, _ := st.LoadFwdPkgs()
		for _, p := range pkgs {
			fmt.Printf("DBG   fwdpkg h=%d state=%v adds=%d sf=%d ackfilter=%v fwdfilter=%v sffilter=%v\n", p.Height, p.State,
				len(p.Adds), len(p.SettleFails), p.AckFilter, p.FwdFilter, p.SettleFailFilter)
		}
	}
	for i, srv := range []*mockServer{v.n.aliceServer, v.n.bobServer, v.n.carolServer} {
		cm := srv.htlcSwitch.circuits.(*circuitMap)
		cm.mtx.RLock()
		for k, c := range cm.pending {
			fmt.Printf("DBG switch%d pending in=%v out=%v hash=%x loaded=%v\n", i, k, c.Outgoing, c.PaymentHash[:4], c.LoadedFromDisk)
		}
		for k := range cm.opened {
			fmt.Printf("DBG switch%d opened out=%v\n", i, k)
		}
		cm.mtx.RUnlock()
	}
	links := []*channelLink{v.n.aliceChannelLink, v.n.firstBobChannelLink, v.n.secondBobChannelLink, v.n.carolChannelLink}
	for i, l := range links {
		fmt.Printf("DBG link%d eligible=%v failed=%v\n", i, l.EligibleToForward(), l.failed)
	}
}
