package htlcswitch

// C07 monitor (sequential part): the real circuitMap on a real bbolt backend
// is driven by PRNG operation sequences and compared, after every operation,
// with a small sequential reference model written from the property statement
// and the documented behaviour of the CircuitMap interface. After every
// operation that touched the disk (or the channel state a restart would
// read), the bbolt file is copied and a fresh circuit map is started on the
// copy ("restart after any durable write"); it must equal the model's restart
// image. Write failures are injected through a kvdb.Backend wrapper.
//
// The concurrent (porcupine) part lives in c07conc_test.go.

import (
	"context"
	"crypto/sha256"
	"errors"
	"fmt"
	"io"
	"os"
	"path/filepath"
	"runtime"
	"sort"
	"strings"
	"sync"
	"sync/atomic"
	"testing"

	"github.com/btcsuite/btcd/btcec/v2"
	"github.com/btcsuite/btcwallet/walletdb"
	"github.com/lightningnetwork/lnd/channeldb"
	"github.com/lightningnetwork/lnd/chanstate"
	"github.com/lightningnetwork/lnd/htlcswitch/hop"
	"github.com/lightningnetwork/lnd/kvdb"
	"github.com/lightningnetwork/lnd/lnwallet"
	"github.com/lightningnetwork/lnd/lnwire"
)

// ---------------------------------------------------------------------------
// E2: kvdb interposer.
// ---------------------------------------------------------------------------

var verifC07ErrInjected = errors.New("verifC07: injected write failure")

// verifC07DB wraps the real bbolt backend. It counts read-write transactions
// and can fail the next one (mode 1: before the body runs; mode 2: the body
// runs inside the real transaction which is then rolled back). It does not
// implement walletdb.BatchDB, so kvdb.Batch falls back to Update (bbolt's
// Batch waits up to 10ms for company, which a sequential run never gets).
type verifC07DB struct {
	mu       sync.Mutex
	inner    kvdb.Backend
	commits  int64 // committed read-write transactions
	attempts int64 // attempted read-write transactions
	failMode int   // one-shot
	fired    bool  // the armed failure was consumed by a transaction
	yields   int32 // >0: runtime.Gosched() around transactions
}

func (d *verifC07DB) get() kvdb.Backend {
	d.mu.Lock()
	defer d.mu.Unlock()
	return d.inner
}

func (d *verifC07DB) takeFail() int {
	d.mu.Lock()
	defer d.mu.Unlock()
	d.attempts++
	m := d.failMode
	if m != 0 {
		d.failMode = 0
		d.fired = true
	}
	return m
}

func (d *verifC07DB) arm(mode int) {
	d.mu.Lock()
	d.failMode = mode
	d.fired = false
	d.mu.Unlock()
}

// disarm returns whether the armed failure fired.
func (d *verifC07DB) disarm() bool {
	d.mu.Lock()
	defer d.mu.Unlock()
	d.failMode = 0
	f := d.fired
	d.fired = false
	return f
}

func (d *verifC07DB) nCommits() int64 {
	d.mu.Lock()
	defer d.mu.Unlock()
	return d.commits
}

func (d *verifC07DB) nAttempts() int64 {
	d.mu.Lock()
	defer d.mu.Unlock()
	return d.attempts
}

func (d *verifC07DB) yield() {
	n := atomic.LoadInt32(&d.yields)
	for i := int32(0); i < n; i++ {
		runtime.Gosched()
	}
}

func (d *verifC07DB) BeginReadTx() (walletdb.ReadTx, error) {
	return d.get().BeginReadTx()
}

func (d *verifC07DB) BeginReadWriteTx() (walletdb.ReadWriteTx, error) {
	if d.takeFail() != 0 {
		return nil, verifC07ErrInjected
	}
	return d.get().BeginReadWriteTx()
}

func (d *verifC07DB) Copy(w io.Writer) error { return d.get().Copy(w) }
func (d *verifC07DB) Close() error           { return d.get().Close() }
func (d *verifC07DB) PrintStats() string     { return d.get().PrintStats() }

func (d *verifC07DB) View(f func(tx walletdb.ReadTx) error, reset func()) error {
	return d.get().View(f, reset)
}

func (d *verifC07DB) Update(f func(tx walletdb.ReadWriteTx) error,
	reset func()) error {

	mode := d.takeFail()
	if mode == 1 {
		reset()
		return verifC07ErrInjected
	}
	d.yield()
	err := d.get().Update(func(tx walletdb.ReadWriteTx) error {
		if err := f(tx); err != nil {
			return err
		}
		if mode == 2 {
			return verifC07ErrInjected
		}
		return nil
	}, reset)
	if err == nil {
		d.mu.Lock()
		d.commits++
		d.mu.Unlock()
	}
	d.yield()
	return err
}

// verifC07BatchDB additionally exposes bbolt's Batch, so that the circuit
// map's kvdb.Batch calls really are batched.
type verifC07BatchDB struct{ *verifC07DB }

func (d verifC07BatchDB) Batch(f func(tx walletdb.ReadWriteTx) error) error {
	mode := d.takeFail()
	if mode == 1 {
		return verifC07ErrInjected
	}
	b, ok := d.get().(walletdb.BatchDB)
	if !ok {
		return d.verifC07DB.Update(f, func() {})
	}
	d.yield()
	err := b.Batch(func(tx walletdb.ReadWriteTx) error {
		if err := f(tx); err != nil {
			return err
		}
		if mode == 2 {
			return verifC07ErrInjected
		}
		return nil
	})
	if err == nil {
		d.mu.Lock()
		d.commits++
		d.mu.Unlock()
	}
	d.yield()
	return err
}

func verifC07OpenBolt(dir, name string) (kvdb.Backend, error) {
	return kvdb.GetBoltBackend(&kvdb.BoltBackendConfig{
		DBPath:         dir,
		DBFileName:     name,
		NoFreelistSync: true,
		DBTimeout:      kvdb.DefaultDBTimeout,
	})
}

// verifC07Scratch picks a scratch directory; tmpfs when there is one (every
// circuit map write is an fsync'ed bbolt transaction).
func verifC07Scratch(t testing.TB) string {
	for _, base := range []string{"/dev/shm", os.Getenv("VERIF_SCRATCH"), ""} {
		if base == "" && os.Getenv("VERIF_SCRATCH") != "" {
			continue
		}
		if base != "" {
			if st, err := os.Stat(base); err != nil || !st.IsDir() {
				continue
			}
		}
		d, err := os.MkdirTemp(base, "verifC07-")
		if err != nil {
			continue
		}
		t.Cleanup(func() { os.RemoveAll(d) })
		return d
	}
	return t.TempDir()
}

func verifC07Extracter(*btcec.PublicKey) (hop.ErrorEncrypter, lnwire.FailCode) {
	return NewMockObfuscator(), lnwire.CodeNone
}

// ---------------------------------------------------------------------------
// Fixture: three real channels on real channeldb instances. The index a
// restart reads (OpenChannel.NextLocalHtlcIndex) is moved the honest way:
// AddHTLC + SignNextCommitment makes outgoing HTLCs reach a commitment, an
// AddHTLC without signature does not. The harness keeps its own ledger of
// what it did (added / signed); the model uses the ledger, never the lnd
// function.
// ---------------------------------------------------------------------------

type verifC07Chan struct {
	scid    lnwire.ShortChannelID
	alice   *lnwallet.LightningChannel
	bob     *lnwallet.LightningChannel
	cdb     *channeldb.ChannelStateDB
	added   uint64 // HTLCs handed to alice.AddHTLC so far
	signed  uint64 // value of `added` when alice last signed a commitment
	tip     bool   // signed commitment not yet revoked by bob
	live    []uint64
	// wire holds alice's messages to bob in order (update_add_htlc,
	// commitment_signed); bob processes them lazily but never out of order.
	wire []any
}

type verifC07Fixture struct {
	chans [3]*verifC07Chan
}

func verifC07NewFixture(t *testing.T) *verifC07Fixture {
	fx := &verifC07Fixture{}
	for i := 0; i < 3; i++ {
		scid := lnwire.NewShortChanIDFromInt(uint64(100+i)<<40 | uint64(i+1)<<16)
		a, b, err := createTestChannel(
			t, alicePrivKey, bobPrivKey, 5*100000000, 5*100000000,
			0, 0, scid,
		)
		if err != nil {
			t.Fatalf("verifC07: createTestChannel: %v", err)
		}
		fx.chans[i] = &verifC07Chan{
			scid: scid, alice: a.channel, bob: b.channel,
			cdb: testChannelStateDB(t, a.channel),
		}
	}
	return fx
}

func (c *verifC07Chan) add() error {
	h := sha256.Sum256([]byte(fmt.Sprintf("verifC07-%d-%d", c.scid.ToUint64(), c.added)))
	htlc := &lnwire.UpdateAddHTLC{
		PaymentHash: h,
		Amount:      lnwire.MilliSatoshi(50000), // dust: no second-level sigs
		Expiry:      600,
	}
	idx, err := c.alice.AddHTLC(htlc, nil)
	if err != nil {
		return fmt.Errorf("AddHTLC: %w", err)
	}
	if idx != c.added {
		return fmt.Errorf("AddHTLC returned index %d, ledger says %d", idx, c.added)
	}
	htlc.ID = idx
	c.wire = append(c.wire, htlc)
	c.added++
	c.live = append(c.live, idx)
	return nil
}

func (c *verifC07Chan) revoke() error {
	if !c.tip {
		return nil
	}
	// deliver alice's messages up to and including the signature.
	for len(c.wire) > 0 {
		msg := c.wire[0]
		c.wire = c.wire[1:]
		switch m := msg.(type) {
		case *lnwire.UpdateAddHTLC:
			if _, err := c.bob.ReceiveHTLC(m); err != nil {
				return fmt.Errorf("ReceiveHTLC: %w", err)
			}
		case *lnwallet.CommitSigs:
			if err := c.bob.ReceiveNewCommitment(m); err != nil {
				return fmt.Errorf("ReceiveNewCommitment: %w", err)
			}
			rev, _, _, err := c.bob.RevokeCurrentCommitment()
			if err != nil {
				return fmt.Errorf("RevokeCurrentCommitment: %w", err)
			}
			if _, _, err := c.alice.ReceiveRevocation(rev); err != nil {
				return fmt.Errorf("ReceiveRevocation: %w", err)
			}
			c.tip = false
			return nil
		}
	}
	return fmt.Errorf("tip pending but no signature on the wire")
}

func (c *verifC07Chan) sign() error {
	if err := c.revoke(); err != nil {
		return err
	}
	st, err := c.alice.SignNextCommitment(context.Background())
	if err != nil {
		return fmt.Errorf("SignNextCommitment: %w", err)
	}
	c.wire = append(c.wire, st.CommitSigs)
	c.tip = true
	c.signed = c.added
	return nil
}

// settle brings the channel to signed==added, no pending tip, and clears the
// in-flight HTLCs when there are many (bob fails them back).
func (c *verifC07Chan) settle() error {
	if c.added > c.signed {
		if err := c.sign(); err != nil {
			return err
		}
	}
	if err := c.revoke(); err != nil {
		return err
	}
	if len(c.live) < 24 {
		return nil
	}
	// Bob owes a signature; lock everything in on both sides.
	if err := lnwallet.ForceStateTransition(c.bob, c.alice); err != nil {
		return fmt.Errorf("lock-in transition: %w", err)
	}
	for _, idx := range c.live {
		if err := c.bob.FailHTLC(idx, []byte("verif"), nil, nil, nil); err != nil {
			return fmt.Errorf("FailHTLC(%d): %w", idx, err)
		}
		if err := c.alice.ReceiveFailHTLC(idx, []byte("verif")); err != nil {
			return fmt.Errorf("ReceiveFailHTLC(%d): %w", idx, err)
		}
	}
	if err := lnwallet.ForceStateTransition(c.bob, c.alice); err != nil {
		return fmt.Errorf("fail transition: %w", err)
	}
	c.live = nil
	return nil
}

// ---------------------------------------------------------------------------
// E4: sequential reference model.
// ---------------------------------------------------------------------------

type verifC07Spec struct {
	In     CircuitKey
	Hash   int // index into the case's hash table
	InAmt  uint64
	OutAmt uint64
	RefH   uint64
	RefI   uint16
	Enc    int // 0: none (locally sourced), 1: mock encrypter
}

type verifC07MC struct {
	verifC07Spec
	Out *CircuitKey
	LFD bool
}

type verifC07KS struct{ In, Out CircuitKey }

// verifC07Env is what a restart reads besides the circuit buckets.
type verifC07Env struct {
	Status [3]int    // 0 open, 1 close pending, 2 fully closed
	Next   [3]uint64 // ledger value of the next uncommitted local HTLC index
	Res    map[CircuitKey]bool
	scids  [3]lnwire.ShortChannelID
}

type verifC07Model struct {
	pending map[CircuitKey]*verifC07MC // by incoming key (durable)
	opened  map[CircuitKey]*verifC07MC // by outgoing key (durable keystones)
	closed  map[CircuitKey]bool        // volatile: response already accepted
}

func verifC07NewModel() *verifC07Model {
	return &verifC07Model{
		pending: map[CircuitKey]*verifC07MC{},
		opened:  map[CircuitKey]*verifC07MC{},
		closed:  map[CircuitKey]bool{},
	}
}

func (m *verifC07Model) clone() *verifC07Model {
	n := verifC07NewModel()
	for k, c := range m.pending {
		cc := *c
		if c.Out != nil {
			o := *c.Out
			cc.Out = &o
		}
		n.pending[k] = &cc
		if cc.Out != nil {
			n.opened[*cc.Out] = &cc
		}
	}
	for k := range m.closed {
		n.closed[k] = true
	}
	return n
}

const (
	verifC07Add = iota
	verifC07Drop
	verifC07FailBack
)

// commit returns the decision per batch position. A circuit is forwarded
// (Add) iff its incoming key is not known; a known circuit that has a
// keystone, or that was not loaded from disk (its packet is still in a
// mailbox), is dropped; a known half-open circuit loaded from disk is failed
// back.
func (m *verifC07Model) commit(batch []verifC07Spec) []int {
	dec := make([]int, len(batch))
	for i, s := range batch {
		if c, ok := m.pending[s.In]; ok {
			switch {
			case c.Out != nil:
				dec[i] = verifC07Drop
			case !c.LFD:
				dec[i] = verifC07Drop
			default:
				dec[i] = verifC07FailBack
			}
			continue
		}
		m.pending[s.In] = &verifC07MC{verifC07Spec: s}
		dec[i] = verifC07Add
	}
	return dec
}

func (m *verifC07Model) uncommit(batch []verifC07Spec, dec []int) {
	for i, s := range batch {
		if dec[i] == verifC07Add {
			delete(m.pending, s.In)
		}
	}
}

func (m *verifC07Model) open(ks []verifC07KS) error {
	for _, k := range ks {
		if _, ok := m.opened[k.Out]; ok {
			return ErrDuplicateKeystone
		}
		if _, ok := m.pending[k.In]; !ok {
			return ErrUnknownCircuit
		}
	}
	for _, k := range ks {
		c := m.pending[k.In]
		o := k.Out
		c.Out = &o
		m.opened[o] = c
	}
	return nil
}

// trim rolls every keystone of the channel with id >= start back to
// half-open.
func (m *verifC07Model) trim(scid lnwire.ShortChannelID, start uint64) int {
	n := 0
	for o, c := range m.opened {
		if o.ChanID == scid && o.HtlcID >= start {
			c.Out = nil
			delete(m.opened, o)
			n++
		}
	}
	return n
}

// contiguous reports whether the keystones of the channel with id >= start
// form one run start, start+1, ... (the precondition the code documents:
// outgoing ids are assigned in order).
func (m *verifC07Model) contiguous(scid lnwire.ShortChannelID, start uint64) bool {
	var ids []uint64
	for o := range m.opened {
		if o.ChanID == scid && o.HtlcID >= start {
			ids = append(ids, o.HtlcID)
		}
	}
	sort.Slice(ids, func(i, j int) bool { return ids[i] < ids[j] })
	for i, id := range ids {
		if id != start+uint64(i) {
			return false
		}
	}
	return true
}

func (m *verifC07Model) closeCircuit(out CircuitKey) (*verifC07MC, error) {
	c, ok := m.opened[out]
	if !ok {
		return nil, ErrUnknownCircuit
	}
	if m.closed[c.In] {
		return nil, ErrCircuitClosing
	}
	m.closed[c.In] = true
	return c, nil
}

func (m *verifC07Model) failCircuit(in CircuitKey) (*verifC07MC, error) {
	c, ok := m.pending[in]
	if !ok {
		return nil, ErrUnknownCircuit
	}
	if m.closed[in] {
		return nil, ErrCircuitClosing
	}
	m.closed[in] = true
	return c, nil
}

func (m *verifC07Model) deleteCircuits(keys []CircuitKey) int {
	n := 0
	for _, k := range keys {
		c, ok := m.pending[k]
		if !ok {
			continue
		}
		delete(m.pending, k)
		delete(m.closed, k)
		if c.Out != nil {
			delete(m.opened, *c.Out)
		}
		n++
	}
	return n
}

// restart turns the model into its restart image: every durable circuit is
// present and marked loaded-from-disk, circuits of fully closed channels are
// purged unless an on-chain resolution is still to be delivered for their
// outgoing key, keystones whose outgoing HTLC did not reach a commitment are
// rolled back to half-open, the volatile closed set is empty.
func (m *verifC07Model) restart(env *verifC07Env) (purged, trimmed, keptByRes int) {
	purged, keptByRes = m.purge(env)
	trimmed = m.reload(env)
	return
}

// purge removes the circuits of fully closed channels.
func (m *verifC07Model) purge(env *verifC07Env) (purged, keptByRes int) {
	isClosed := func(id lnwire.ShortChannelID) bool {
		if id.ToUint64() == 0 {
			return false
		}
		for i := 0; i < 3; i++ {
			if env.scids[i] == id && env.Status[i] == 2 {
				return true
			}
		}
		return false
	}
	for in, c := range m.pending {
		switch {
		case isClosed(in.ChanID):
		case c.Out != nil && isClosed(c.Out.ChanID):
			if env.Res[*c.Out] {
				keptByRes++
				continue
			}
		default:
			continue
		}
		delete(m.pending, in)
		if c.Out != nil {
			delete(m.opened, *c.Out)
		}
		purged++
	}
	return
}

// reload marks everything loaded from disk, forgets accepted responses and
// trims the keystones of open channels that did not reach a commitment.
func (m *verifC07Model) reload(env *verifC07Env) (trimmed int) {
	for _, c := range m.pending {
		c.LFD = true
	}
	m.closed = map[CircuitKey]bool{}
	for i := 0; i < 3; i++ {
		if env.Status[i] != 0 {
			continue
		}
		trimmed += m.trim(env.scids[i], env.Next[i])
	}
	return
}

// contiguousAll: the uncommitted keystones of every open channel form one run
// starting at the channel's next uncommitted index.
func (m *verifC07Model) contiguousAll(env *verifC07Env) bool {
	for i := 0; i < 3; i++ {
		if env.Status[i] == 0 && !m.contiguous(env.scids[i], env.Next[i]) {
			return false
		}
	}
	return true
}

// ---------------------------------------------------------------------------
// Runner.
// ---------------------------------------------------------------------------

type verifC07Run struct {
	vc  *verifCtx
	t   *testing.T
	r   *verifRng
	fx  *verifC07Fixture
	dir string

	db      *verifC07DB
	backend kvdb.Backend
	dbName  string
	cm      CircuitMap
	m       *verifC07Model

	status  [3]int
	base    [3]uint64
	inKeys  []CircuitKey
	hashes  [3][32]byte
	trace   []string
	nfork   int
	bad     bool
	aborted bool

	// statement-level invariants tracked on the real map only.
	realLive map[CircuitKey]bool // in-key was returned in Adds and not deleted since
	realResp map[CircuitKey]bool // a CloseCircuit/FailCircuit succeeded this process lifetime

	lastCommits  int64
	lastAttempts int64
	envDirty     bool
	feat         map[string]bool
	forkEvery    int
	kfEmitted    int
}

func (x *verifC07Run) scids() [3]lnwire.ShortChannelID {
	var s [3]lnwire.ShortChannelID
	for i, c := range x.fx.chans {
		s[i] = c.scid
	}
	return s
}

func (x *verifC07Run) outKeys() []CircuitKey {
	var ks []CircuitKey
	for i, c := range x.fx.chans {
		for j := uint64(0); j < 4; j++ {
			ks = append(ks, CircuitKey{ChanID: c.scid, HtlcID: x.base[i] + j})
		}
	}
	return ks
}

func verifC07KeyStr(k CircuitKey) string {
	return fmt.Sprintf("%d:%d", k.ChanID.ToUint64()>>40, k.HtlcID)
}

func (x *verifC07Run) log(format string, a ...any) {
	x.trace = append(x.trace, fmt.Sprintf(format, a...))
}

func (x *verifC07Run) witness() any {
	tr := x.trace
	if len(tr) > 400 {
		tr = tr[len(tr)-400:]
	}
	return map[string]any{"ops": tr, "base": x.base, "status": x.status}
}

func (x *verifC07Run) violate(oracle, key, detail string) {
	x.bad = true
	x.vc.Violation(oracle, key, detail+"\nlast op: "+x.lastOp(), x.witness())
}

func (x *verifC07Run) lastOp() string {
	if len(x.trace) == 0 {
		return ""
	}
	return x.trace[len(x.trace)-1]
}

func (x *verifC07Run) env(res map[CircuitKey]bool) *verifC07Env {
	e := &verifC07Env{Status: x.status, Res: res, scids: x.scids()}
	for i, c := range x.fx.chans {
		e.Next[i] = c.signed
	}
	return e
}

func (x *verifC07Run) cfg(db kvdb.Backend, env *verifC07Env,
	withOpenChans bool) *CircuitMapConfig {

	return &CircuitMapConfig{
		DB: db,
		FetchAllOpenChannels: func() ([]*chanstate.OpenChannel, error) {
			if !withOpenChans {
				return nil, nil
			}
			var out []*chanstate.OpenChannel
			for i, ch := range x.fx.chans {
				if env.Status[i] != 0 {
					continue
				}
				cs, err := ch.cdb.FetchAllOpenChannels()
				if err != nil {
					return nil, err
				}
				out = append(out, cs...)
			}
			return out, nil
		},
		FetchClosedChannels: func(pendingOnly bool) (
			[]*chanstate.ChannelCloseSummary, error) {

			var out []*chanstate.ChannelCloseSummary
			for i, ch := range x.fx.chans {
				switch env.Status[i] {
				case 1:
					out = append(out, &chanstate.ChannelCloseSummary{
						ShortChanID: ch.scid, IsPending: true,
					})
				case 2:
					if pendingOnly {
						continue
					}
					out = append(out, &chanstate.ChannelCloseSummary{
						ShortChanID: ch.scid, IsPending: false,
					})
				}
			}
			return out, nil
		},
		ExtractErrorEncrypter: verifC07Extracter,
		CheckResolutionMsg: func(out *CircuitKey) error {
			if env.Res[*out] {
				return nil
			}
			return errors.New("verifC07: no resolution message")
		},
	}
}

func (x *verifC07Run) realCircuit(s verifC07Spec) *PaymentCircuit {
	c := &PaymentCircuit{
		AddRef:         channeldb.AddRef{Height: s.RefH, Index: s.RefI},
		Incoming:       s.In,
		PaymentHash:    x.hashes[s.Hash],
		IncomingAmount: lnwire.MilliSatoshi(s.InAmt),
		OutgoingAmount: lnwire.MilliSatoshi(s.OutAmt),
	}
	if s.Enc == 1 {
		c.ErrorEncrypter = NewMockObfuscator()
	}
	return c
}

// diffCircuit describes how a real circuit differs from the model's ("" if
// it does not).
func (x *verifC07Run) diffCircuit(got *PaymentCircuit, want *verifC07MC) string {
	switch {
	case got == nil && want == nil:
		return ""
	case got == nil:
		return "absent, model has " + verifC07KeyStr(want.In)
	case want == nil:
		return "present (" + verifC07KeyStr(got.Incoming) + "), model has none"
	}
	var d []string
	if got.Incoming != want.In {
		d = append(d, fmt.Sprintf("incoming %v!=%v", got.Incoming, want.In))
	}
	switch {
	case got.Outgoing == nil && want.Out != nil:
		d = append(d, "half-open, model open at "+verifC07KeyStr(*want.Out))
	case got.Outgoing != nil && want.Out == nil:
		d = append(d, "open at "+verifC07KeyStr(*got.Outgoing)+", model half-open")
	case got.Outgoing != nil && *got.Outgoing != *want.Out:
		d = append(d, fmt.Sprintf("outgoing %v!=%v", *got.Outgoing, *want.Out))
	}
	if got.PaymentHash != x.hashes[want.Hash] {
		d = append(d, "payment hash")
	}
	if uint64(got.IncomingAmount) != want.InAmt || uint64(got.OutgoingAmount) != want.OutAmt {
		d = append(d, "amounts")
	}
	if got.AddRef.Height != want.RefH || got.AddRef.Index != want.RefI {
		d = append(d, "addref")
	}
	if got.LoadedFromDisk != want.LFD {
		d = append(d, fmt.Sprintf("LoadedFromDisk %v!=%v", got.LoadedFromDisk, want.LFD))
	}
	enc := 0
	if got.ErrorEncrypter != nil {
		enc = 1
		if got.ErrorEncrypter.Type() != hop.EncrypterTypeMock {
			enc = 2
		}
	}
	if enc != want.Enc {
		d = append(d, "encrypter")
	}
	return strings.Join(d, "; ")
}

// compare sweeps every lookup over the key universe on `cm` and compares it
// with model `m`; it also checks the open-circuit <-> keystone bijection on
// the real map alone. oracle is the verdict name used for mismatches.
func (x *verifC07Run) compare(cm CircuitMap, m *verifC07Model, oracle, ctx string) bool {
	vc := x.vc
	ok := true
	nPend, nOpen := 0, 0
	for _, k := range x.inKeys {
		got := cm.LookupCircuit(k)
		vc.Count("lookup_evals", 1)
		if got != nil {
			nPend++
			// bijection, real side only.
			if got.Outgoing != nil {
				if back := cm.LookupOpenCircuit(*got.Outgoing); back != got {
					x.violate("keystone_bijection", ctx+":pending-open-not-indexed",
						fmt.Sprintf("[%s] circuit %s has keystone %s but LookupOpenCircuit returns %v",
							ctx, verifC07KeyStr(k), verifC07KeyStr(*got.Outgoing), back))
					ok = false
				}
			}
		}
		if d := x.diffCircuit(got, m.pending[k]); d != "" {
			x.violate(oracle, ctx+":LookupCircuit:"+verifC07Norm(d),
				fmt.Sprintf("[%s] LookupCircuit(%s): %s", ctx, verifC07KeyStr(k), d))
			ok = false
		}
	}
	for _, o := range x.outKeys() {
		got := cm.LookupOpenCircuit(o)
		vc.Count("lookup_evals", 1)
		if got != nil {
			nOpen++
			if got.Outgoing == nil || *got.Outgoing != o ||
				cm.LookupCircuit(got.Incoming) != got {

				x.violate("keystone_bijection", ctx+":open-not-pending",
					fmt.Sprintf("[%s] LookupOpenCircuit(%s) returns a circuit (in %s, out %v) "+
						"that is not the pending circuit with that keystone",
						ctx, verifC07KeyStr(o), verifC07KeyStr(got.Incoming), got.Outgoing))
				ok = false
			}
		}
		if d := x.diffCircuit(got, m.opened[o]); d != "" {
			x.violate(oracle, ctx+":LookupOpenCircuit:"+verifC07Norm(d),
				fmt.Sprintf("[%s] LookupOpenCircuit(%s): %s", ctx, verifC07KeyStr(o), d))
			ok = false
		}
	}
	vc.Count("bijection_evals", 1)
	if n := cm.NumPending(); n != len(m.pending) || n != nPend {
		x.violate(oracle, ctx+":NumPending",
			fmt.Sprintf("[%s] NumPending=%d, model %d, lookups found %d", ctx, n, len(m.pending), nPend))
		ok = false
	}
	if n := cm.NumOpen(); n != len(m.opened) || n != nOpen {
		x.violate(oracle, ctx+":NumOpen",
			fmt.Sprintf("[%s] NumOpen=%d, model %d, lookups found %d", ctx, n, len(m.opened), nOpen))
		ok = false
	}
	// LookupByPaymentHash: every open circuit with the hash must be
	// returned (verdict); a returned open circuit with a *different* hash
	// is outside the property statement (diagnostic).
	for hi := range x.hashes {
		got := cm.LookupByPaymentHash(x.hashes[hi])
		vc.Count("lookup_evals", 1)
		want := map[CircuitKey]bool{}
		for o, c := range m.opened {
			if c.Hash == hi {
				want[o] = true
			}
		}
		seen := map[CircuitKey]bool{}
		for _, c := range got {
			if c.Outgoing == nil {
				x.violate(oracle, ctx+":LookupByPaymentHash:half-open",
					fmt.Sprintf("[%s] LookupByPaymentHash(h%d) returned half-open circuit %s",
						ctx, hi, verifC07KeyStr(c.Incoming)))
				ok = false
				continue
			}
			if c.PaymentHash != x.hashes[hi] {
				vc.Diag("hash_index_returns_other_hash", fmt.Sprintf(
					"[%s] LookupByPaymentHash(h%d) returned circuit in=%s out=%s whose "+
						"payment hash differs (stale hash index entry); ops=%v",
					ctx, hi, verifC07KeyStr(c.Incoming), verifC07KeyStr(*c.Outgoing),
					x.traceTail(12)))
				continue
			}
			seen[*c.Outgoing] = true
		}
		for o := range want {
			if !seen[o] {
				x.violate(oracle, ctx+":LookupByPaymentHash:missing",
					fmt.Sprintf("[%s] LookupByPaymentHash(h%d) misses open circuit %s",
						ctx, hi, verifC07KeyStr(o)))
				ok = false
			}
		}
		for o := range seen {
			if !want[o] {
				x.violate(oracle, ctx+":LookupByPaymentHash:extra",
					fmt.Sprintf("[%s] LookupByPaymentHash(h%d) returns %s, not open in model",
						ctx, hi, verifC07KeyStr(o)))
				ok = false
			}
		}
	}
	vc.Count("model_compare_evals", 1)
	return ok
}

func (x *verifC07Run) traceTail(n int) []string {
	if len(x.trace) <= n {
		return x.trace
	}
	return x.trace[len(x.trace)-n:]
}

// verifC07Norm strips digits so that keys fingerprint the class of mismatch.
func verifC07Norm(s string) string {
	var b strings.Builder
	for _, r := range s {
		if r >= '0' && r <= '9' {
			continue
		}
		b.WriteRune(r)
		if b.Len() > 60 {
			break
		}
	}
	return b.String()
}

func verifC07ErrName(err error) string {
	switch {
	case err == nil:
		return "nil"
	case errors.Is(err, verifC07ErrInjected):
		return "injected"
	case errors.Is(err, ErrUnknownCircuit):
		return "ErrUnknownCircuit"
	case errors.Is(err, ErrCircuitClosing):
		return "ErrCircuitClosing"
	case errors.Is(err, ErrDuplicateKeystone):
		return "ErrDuplicateKeystone"
	case errors.Is(err, ErrDuplicateCircuit):
		return "ErrDuplicateCircuit"
	case errors.Is(err, ErrUnknownKeystone):
		return "ErrUnknownKeystone"
	case errors.Is(err, ErrCorruptedCircuitMap):
		return "ErrCorruptedCircuitMap"
	}
	return "other:" + err.Error()
}

// ---------------------------------------------------------------------------
// Restart forks.
// ---------------------------------------------------------------------------

// blockedByPurgedKeystone: o is a keystone of an open channel with id >= the
// channel's next uncommitted index, and (before the purge) a lower keystone of
// the same channel, also >= that index, belonged to a circuit whose incoming
// channel is fully closed.
func (x *verifC07Run) blockedByPurgedKeystone(o CircuitKey, env *verifC07Env) bool {
	ci := -1
	for i := range env.scids {
		if env.scids[i] == o.ChanID {
			ci = i
		}
	}
	if ci < 0 || env.Status[ci] != 0 || o.HtlcID < env.Next[ci] {
		return false
	}
	if x.m.opened[o] == nil {
		return false
	}
	closed := func(id lnwire.ShortChannelID) bool {
		for i := range env.scids {
			if env.scids[i] == id && env.Status[i] == 2 && id.ToUint64() != 0 {
				return true
			}
		}
		return false
	}
	for p, c := range x.m.opened {
		if p.ChanID == o.ChanID && p.HtlcID >= env.Next[ci] && p.HtlcID < o.HtlcID &&
			closed(c.In.ChanID) {

			return true
		}
	}
	return false
}

func (x *verifC07Run) pickRes(r *verifRng) map[CircuitKey]bool {
	res := map[CircuitKey]bool{}
	outs := make([]CircuitKey, 0, len(x.m.opened))
	for o := range x.m.opened {
		outs = append(outs, o)
	}
	sort.Slice(outs, func(i, j int) bool {
		if outs[i].ChanID != outs[j].ChanID {
			return outs[i].ChanID.ToUint64() < outs[j].ChanID.ToUint64()
		}
		return outs[i].HtlcID < outs[j].HtlcID
	})
	closed := func(id lnwire.ShortChannelID) bool {
		for i, c := range x.fx.chans {
			if c.scid == id && x.status[i] == 2 {
				return true
			}
		}
		return false
	}
	for _, o := range outs {
		c := x.m.opened[o]
		// A pending resolution for a circuit whose *incoming* channel is
		// fully closed too is not generated: the statement does not say
		// which clause wins.
		if closed(o.ChanID) && !closed(c.In.ChanID) && r.Bool() {
			res[o] = true
		}
	}
	return res
}

// restartable: 0 = the keystone runs are contiguous before and after the
// purge of closed channels (restart is judged), 1 = not contiguous to begin
// with (outside the caller contract, not judged), 2 = contiguous, but the
// purge of a closed *incoming* channel's circuits leaves a gap in another
// channel's run of uncommitted keystones.
func (x *verifC07Run) restartable() int {
	env := x.env(nil)
	if !x.m.contiguousAll(env) {
		return 1
	}
	img := x.m.clone()
	img.purge(env)
	if !img.contiguousAll(env) {
		return 2
	}
	return 0
}

// ledgerCheck compares the ledger with what lnd reads from disk; a mismatch
// is only a diagnostic here (the restart-image oracle is what judges).
func (x *verifC07Run) ledgerCheck() {
	for i, ch := range x.fx.chans {
		cs, err := ch.cdb.FetchAllOpenChannels()
		if err != nil || len(cs) != 1 {
			x.t.Fatalf("verifC07: fixture channel %d not fetchable: %v (%d)", i, err, len(cs))
		}
		n, err := cs[0].NextLocalHtlcIndex()
		if err != nil {
			x.t.Fatalf("verifC07: NextLocalHtlcIndex: %v", err)
		}
		if n != ch.signed {
			x.vc.Diag("next_local_htlc_index_vs_ledger", fmt.Sprintf(
				"chan %d: NextLocalHtlcIndex=%d, ledger (HTLCs added when last signed)=%d tip=%v",
				i, n, ch.signed, ch.tip))
		}
	}
}

func (x *verifC07Run) fork(why string) {
	vc := x.vc
	gapByPurge := false
	switch x.restartable() {
	case 1:
		vc.Count("fork_skipped_noncontiguous", 1)
		return
	case 2:
		gapByPurge = true
	}
	fr := x.r.Fork("fork")
	env := x.env(x.pickRes(fr))
	x.nfork++
	name := fmt.Sprintf("fork-%d.db", x.nfork)
	path := filepath.Join(x.dir, name)
	f, err := os.Create(path)
	if err != nil {
		x.t.Fatalf("verifC07: create fork: %v", err)
	}
	if err := x.db.Copy(f); err != nil {
		x.t.Fatalf("verifC07: copy: %v", err)
	}
	f.Close()
	defer os.Remove(path)
	rawBk, err := verifC07OpenBolt(x.dir, name)
	if err != nil {
		x.t.Fatalf("verifC07: open fork: %v", err)
	}
	defer rawBk.Close()
	// not a BatchDB: bbolt's Batch would wait 10ms per call.
	var bk kvdb.Backend = &verifC07DB{inner: rawBk}

	ctx := "fork(" + why + ")"
	oracle := "restart_image"
	img := x.m.clone()
	purged, trimmed, kept := img.restart(env)
	cm2, err := NewCircuitMap(x.cfg(bk, env, true))
	vc.Count("fork_restarts", 1)
	if err != nil {
		x.violate(oracle, "NewCircuitMap-error",
			fmt.Sprintf("[%s] NewCircuitMap on the copied DB failed: %v", ctx, err))
		return
	}
	x.log("  %s env status=%v next=%v res=%d -> image purged=%d trimmed=%d keptByRes=%d",
		ctx, env.Status, env.Next, len(env.Res), purged, trimmed, kept)
	if purged > 0 {
		x.feat["purge"] = true
		vc.Count("fork_purged_circuits", int64(purged))
	}
	if trimmed > 0 {
		x.feat["trim@restart"] = true
		vc.Count("fork_trimmed_keystones", int64(trimmed))
	}
	if kept > 0 {
		x.feat["keptByRes"] = true
		vc.Count("fork_kept_by_resolution", int64(kept))
	}
	if len(img.opened) > 0 {
		vc.Count("fork_surviving_keystones", int64(len(img.opened)))
	}
	if gapByPurge {
		// The keystones were assigned in order, but purging the circuits
		// of a fully closed incoming channel removed some of them. The
		// statement still requires the remaining uncommitted keystones
		// to be rolled back. This one class is judged under its own
		// fingerprint (known finding KF-C07-1); anything else falls
		// through to the ordinary comparison.
		vc.Count("fork_gap_by_purge_evals", 1)
		for _, o := range x.outKeys() {
			got := cm2.LookupOpenCircuit(o)
			if got == nil || img.opened[o] != nil {
				continue
			}
			if x.blockedByPurgedKeystone(o, env) {
				// The fork is thrown away, so the sequence goes on. The
				// class is reported a few times per process only (the
				// runtime keeps at most 50 violations per process and
				// this one must not crowd out others); every occurrence
				// is counted.
				vc.Count("known_class_trim_hole_seen", 1)
				if x.kfEmitted >= 3 {
					return
				}
				x.kfEmitted++
				vc.Violation("restart_image", "uncommitted-keystone-behind-purged-one-not-trimmed",
					fmt.Sprintf("[%s] keystone %s (in %s) is still open after the restart although its "+
						"outgoing HTLC id is >= the channel's NextLocalHtlcIndex; a lower keystone of "+
						"the same outgoing channel belonged to a circuit of a fully closed incoming "+
						"channel and was purged, after which the trim scan stops at the gap",
						ctx, verifC07KeyStr(o), verifC07KeyStr(got.Incoming)), x.witness())
				return
			}
		}
	}
	if !x.compare(cm2, img, oracle, ctx) {
		return
	}
	// Second generation: what the restart changed (purge, trim) must be
	// durable. No open channels are offered, so nothing is trimmed again:
	// a keystone trimmed only in memory would come back.
	if purged+trimmed > 0 || fr.Chance(1, 4) {
		cm3, err := NewCircuitMap(x.cfg(bk, env, false))
		vc.Count("fork_second_restarts", 1)
		if err != nil {
			x.violate(oracle, "NewCircuitMap-error-2",
				fmt.Sprintf("[%s] second NewCircuitMap failed: %v", ctx, err))
			return
		}
		if !x.compare(cm3, img, oracle, ctx+"+2nd") {
			return
		}
		cm2 = cm3
	}
	// Re-forward everything after the restart: circuits that stayed open
	// are dropped, half-open ones are failed back (not lost, not doubled),
	// unknown ones forwarded.
	batch := make([]*PaymentCircuit, len(x.inKeys))
	want := make([]int, len(x.inKeys))
	for i, k := range x.inKeys {
		batch[i] = x.realCircuit(verifC07Spec{In: k, Hash: 0, InAmt: 2, OutAmt: 1})
		switch c := img.pending[k]; {
		case c == nil:
			want[i] = verifC07Add
		case c.Out != nil:
			want[i] = verifC07Drop
		default:
			want[i] = verifC07FailBack
		}
	}
	acts, err := cm2.CommitCircuits(batch...)
	vc.Count("fork_reforward_evals", 1)
	if err != nil || acts == nil {
		x.violate(oracle, "reforward-error",
			fmt.Sprintf("[%s] CommitCircuits after restart: %v", ctx, err))
		return
	}
	if d := verifC07PartitionDiff(batch, acts, want); d != "" {
		x.violate(oracle, "reforward-partition:"+verifC07Norm(d),
			fmt.Sprintf("[%s] re-forward of all keys after restart: %s", ctx, d))
		return
	}
	// Volatile closed set is empty: every surviving circuit accepts one
	// response.
	for _, k := range x.inKeys {
		if img.pending[k] == nil {
			continue
		}
		_, err := cm2.FailCircuit(k)
		vc.Count("fork_closed_empty_evals", 1)
		if err != nil {
			x.violate(oracle, "closed-set-not-empty:"+verifC07ErrName(err),
				fmt.Sprintf("[%s] FailCircuit(%s) right after restart: %v",
					ctx, verifC07KeyStr(k), err))
			return
		}
	}
}

// verifC07PartitionDiff compares the real CircuitFwdActions with the expected
// decision per batch position. Each sub-sequence must be in batch order.
func verifC07PartitionDiff(batch []*PaymentCircuit, acts *CircuitFwdActions,
	want []int) string {

	pos := map[*PaymentCircuit]int{}
	for i, c := range batch {
		pos[c] = i
	}
	got := make([]int, len(batch))
	for i := range got {
		got[i] = -1
	}
	names := []string{"Adds", "Drops", "Fails"}
	for kind, lst := range [][]*PaymentCircuit{acts.Adds, acts.Drops, acts.Fails} {
		last := -1
		for _, c := range lst {
			p, ok := pos[c]
			if !ok {
				return names[kind] + " contains a circuit that was not passed in"
			}
			if got[p] != -1 {
				return fmt.Sprintf("batch position %d returned twice", p)
			}
			if p < last {
				return names[kind] + " is not a sub-sequence of the batch"
			}
			last = p
			got[p] = kind
		}
	}
	for i := range want {
		if got[i] != want[i] {
			g := "none"
			if got[i] >= 0 {
				g = names[got[i]]
			}
			return fmt.Sprintf("position %d (in %s): got %s, model %s",
				i, verifC07KeyStr(batch[i].Incoming), g, names[want[i]])
		}
	}
	return ""
}

// ---------------------------------------------------------------------------
// Operations.
// ---------------------------------------------------------------------------

func (x *verifC07Run) sortedPending(filter func(*verifC07MC) bool) []CircuitKey {
	var ks []CircuitKey
	for _, k := range x.inKeys {
		if c := x.m.pending[k]; c != nil && (filter == nil || filter(c)) {
			ks = append(ks, k)
		}
	}
	return ks
}

func (x *verifC07Run) sortedOpened() []CircuitKey {
	var ks []CircuitKey
	for _, o := range x.outKeys() {
		if x.m.opened[o] != nil {
			ks = append(ks, o)
		}
	}
	return ks
}

func (x *verifC07Run) pickIn() CircuitKey {
	r := x.r
	if p := x.sortedPending(nil); len(p) > 0 && r.Chance(3, 5) {
		return p[r.Intn(len(p))]
	}
	// locally sourced keys (last four) a bit less often.
	if r.Chance(1, 6) {
		return x.inKeys[12+r.Intn(4)]
	}
	return x.inKeys[r.Intn(12)]
}

func (x *verifC07Run) maybeArm() int {
	if x.r.Chance(1, 9) {
		mode := 1 + x.r.Intn(2)
		x.db.arm(mode)
		return mode
	}
	return 0
}

func (x *verifC07Run) opCommit() {
	r := x.r
	n := 1 + r.Intn(4)
	var batch []verifC07Spec
	for i := 0; i < n; i++ {
		var k CircuitKey
		if len(batch) > 0 && r.Chance(1, 4) {
			k = batch[r.Intn(len(batch))].In // duplicate inside the batch
		} else {
			k = x.pickIn()
		}
		s := verifC07Spec{
			In: k, Hash: r.Intn(3),
			OutAmt: 1000 + r.U64n(100000), RefH: r.U64n(50), RefI: uint16(r.Intn(8)),
		}
		s.InAmt = s.OutAmt + r.U64n(2000)
		if k.ChanID != hop.Source && r.Chance(3, 4) {
			s.Enc = 1
		}
		batch = append(batch, s)
	}
	mode := x.maybeArm()
	real := make([]*PaymentCircuit, len(batch))
	keys := make([]string, len(batch))
	for i, s := range batch {
		real[i] = x.realCircuit(s)
		keys[i] = verifC07KeyStr(s.In)
	}
	acts, err := x.cm.CommitCircuits(real...)
	fired := x.db.disarm()
	dec := x.m.commit(batch)
	want := dec
	if fired {
		// write failed: nothing is forwarded, every non-dropped circuit
		// is failed back, memory as before.
		x.m.uncommit(batch, dec)
		want = make([]int, len(dec))
		for i, d := range dec {
			want[i] = d
			if d == verifC07Add {
				want[i] = verifC07FailBack
			}
		}
		x.feat["wfail-commit"] = true
	}
	x.log("commit[%s] arm=%d fired=%v -> adds=%d drops=%d fails=%d err=%s",
		strings.Join(keys, ","), mode, fired, verifC07Len(acts, 0), verifC07Len(acts, 1),
		verifC07Len(acts, 2), verifC07ErrName(err))
	x.vc.Count("op_commit", 1)
	x.vc.Count("return_value_evals", 1)
	oracle := "model_equality"
	if fired {
		oracle = "write_failure_rollback"
		x.vc.Count("write_failures_injected", 1)
		if err == nil {
			x.violate(oracle, "commit:write-failure-swallowed",
				"CommitCircuits returned nil although its transaction failed")
			return
		}
	} else if err != nil {
		x.violate(oracle, "commit:error:"+verifC07ErrName(err),
			fmt.Sprintf("CommitCircuits failed without an injected fault: %v", err))
		return
	}
	if acts == nil {
		x.violate(oracle, "commit:nil-actions", "CommitCircuits returned nil actions")
		return
	}
	// Statement-level invariant, real side only: an incoming key is handed
	// out for forwarding at most once per circuit lifetime.
	for _, c := range acts.Adds {
		x.vc.Count("at_most_one_forward_evals", 1)
		if x.realLive[c.Incoming] {
			x.violate("at_most_one_forward", "in-key-in-Adds-twice",
				fmt.Sprintf("incoming key %s returned in Adds although it was already "+
					"forwarded and never deleted", verifC07KeyStr(c.Incoming)))
			return
		}
		x.realLive[c.Incoming] = true
	}
	if d := verifC07PartitionDiff(real, acts, want); d != "" {
		x.violate(oracle, "commit-partition:"+verifC07Norm(d), "CommitCircuits: "+d)
		return
	}
	for i, d := range dec {
		c := x.m.pending[batch[i].In]
		switch {
		case d == verifC07Drop && c != nil && c.Out != nil:
			x.feat["drop-keystone"] = true
			x.vc.Count("dup_dropped_has_keystone", 1)
		case d == verifC07Drop:
			x.feat["drop-inmem"] = true
			x.vc.Count("dup_dropped_in_memory", 1)
		case d == verifC07FailBack:
			x.feat["failback-lfd"] = true
			x.vc.Count("dup_failed_back_after_restart", 1)
		case d == verifC07Add && !fired:
			x.vc.Count("adds", 1)
		}
	}
}

func verifC07Len(a *CircuitFwdActions, k int) int {
	if a == nil {
		return -1
	}
	return len([][]*PaymentCircuit{a.Adds, a.Drops, a.Fails}[k])
}

// nextOut returns the next outgoing id of channel ci that extends the run of
// uncommitted keystones contiguously (how a link assigns ids), or false.
func (x *verifC07Run) nextOut(ci int, used map[CircuitKey]bool) (CircuitKey, bool) {
	ch := x.fx.chans[ci]
	start := ch.signed
	if start < x.base[ci] {
		start = x.base[ci]
	}
	for id := start; id < x.base[ci]+4; id++ {
		k := CircuitKey{ChanID: ch.scid, HtlcID: id}
		if x.m.opened[k] == nil && !used[k] {
			return k, true
		}
	}
	return CircuitKey{}, false
}

func (x *verifC07Run) opOpen() {
	r := x.r
	n := 1 + r.Intn(3)
	usedIn := map[CircuitKey]bool{}
	usedOut := map[CircuitKey]bool{}
	var ks []verifC07KS
	badDone := false
	halfOpen := func() []CircuitKey {
		var out []CircuitKey
		for _, k := range x.sortedPending(func(c *verifC07MC) bool { return c.Out == nil }) {
			if !usedIn[k] {
				out = append(out, k)
			}
		}
		return out
	}
	freeOut := func() (CircuitKey, bool) {
		ci := r.Intn(3)
		if r.Chance(1, 10) {
			// arbitrary free id in the window (may leave a gap).
			k := CircuitKey{ChanID: x.fx.chans[ci].scid, HtlcID: x.base[ci] + uint64(r.Intn(4))}
			if x.m.opened[k] == nil && !usedOut[k] {
				return k, true
			}
		}
		for j := 0; j < 3; j++ {
			if k, ok := x.nextOut((ci+j)%3, usedOut); ok {
				return k, true
			}
		}
		return CircuitKey{}, false
	}
	for i := 0; i < n; i++ {
		kind := r.Intn(100)
		switch {
		case kind < 14 && !badDone:
			// unknown incoming key.
			var cand []CircuitKey
			for _, k := range x.inKeys {
				if x.m.pending[k] == nil && !usedIn[k] {
					cand = append(cand, k)
				}
			}
			o, ok := freeOut()
			if len(cand) == 0 || !ok {
				continue
			}
			k := cand[r.Intn(len(cand))]
			ks = append(ks, verifC07KS{In: k, Out: o})
			usedIn[k], usedOut[o] = true, true
			badDone = true
		case kind < 28 && !badDone:
			// outgoing key already taken.
			ho := halfOpen()
			op := x.sortedOpened()
			if len(ho) == 0 || len(op) == 0 {
				continue
			}
			k := ho[r.Intn(len(ho))]
			o := op[r.Intn(len(op))]
			if usedOut[o] {
				continue
			}
			ks = append(ks, verifC07KS{In: k, Out: o})
			usedIn[k], usedOut[o] = true, true
			badDone = true
		default:
			ho := halfOpen()
			o, ok := freeOut()
			if len(ho) == 0 || !ok {
				continue
			}
			k := ho[r.Intn(len(ho))]
			ks = append(ks, verifC07KS{In: k, Out: o})
			usedIn[k], usedOut[o] = true, true
		}
	}
	if len(ks) == 0 {
		return
	}
	mode := x.maybeArm()
	real := make([]Keystone, len(ks))
	strs := make([]string, len(ks))
	for i, k := range ks {
		real[i] = Keystone{InKey: k.In, OutKey: k.Out}
		strs[i] = verifC07KeyStr(k.In) + ">" + verifC07KeyStr(k.Out)
	}
	err := x.cm.OpenCircuits(real...)
	fired := x.db.disarm()
	x.log("open[%s] arm=%d fired=%v -> %s", strings.Join(strs, ","), mode, fired, verifC07ErrName(err))
	x.vc.Count("op_open", 1)
	x.vc.Count("return_value_evals", 1)
	if fired {
		x.vc.Count("write_failures_injected", 1)
		x.feat["wfail-open"] = true
		if err == nil {
			x.violate("write_failure_rollback", "open:write-failure-swallowed",
				"OpenCircuits returned nil although its transaction failed")
		}
		return // model unchanged
	}
	want := x.m.open(ks)
	if verifC07ErrName(err) != verifC07ErrName(want) {
		x.violate("model_equality", "open:err:"+verifC07ErrName(err)+"-vs-"+verifC07ErrName(want),
			fmt.Sprintf("OpenCircuits returned %v, model %v", err, want))
		return
	}
	switch {
	case want == nil:
		x.vc.Count("opens", int64(len(ks)))
	case errors.Is(want, ErrDuplicateKeystone):
		x.feat["dup-keystone"] = true
		x.vc.Count("open_rejected_duplicate_keystone", 1)
	default:
		x.feat["open-unknown"] = true
		x.vc.Count("open_rejected_unknown_circuit", 1)
	}
}

func (x *verifC07Run) opTrim() {
	r := x.r
	for try := 0; try < 4; try++ {
		ci := r.Intn(3)
		ch := x.fx.chans[ci]
		start := ch.signed
		if r.Chance(1, 2) {
			start = x.base[ci] + uint64(r.Intn(5))
		}
		if !x.m.contiguous(ch.scid, start) {
			continue
		}
		mode := x.maybeArm()
		err := x.cm.TrimOpenCircuits(ch.scid, start)
		fired := x.db.disarm()
		x.log("trim(ch%d,%d) arm=%d fired=%v -> %s", ci, start, mode, fired, verifC07ErrName(err))
		x.vc.Count("op_trim", 1)
		x.vc.Count("return_value_evals", 1)
		if fired {
			x.vc.Count("write_failures_injected", 1)
			x.feat["wfail-trim"] = true
			if err == nil {
				x.violate("write_failure_rollback", "trim:write-failure-swallowed",
					"TrimOpenCircuits returned nil although its transaction failed")
				return
			}
			// The statement promises nothing about memory after a
			// failed trim; lnd keeps the keystones trimmed in memory
			// while they stay on disk. Recorded as a diagnostic, then
			// both sides are re-aligned by a restart.
			for _, o := range x.outKeys() {
				if (x.cm.LookupOpenCircuit(o) != nil) != (x.m.opened[o] != nil) {
					x.vc.Diag("failed_trim_changes_memory", fmt.Sprintf(
						"TrimOpenCircuits(ch%d,%d) failed but %s is no longer open in memory",
						ci, start, verifC07KeyStr(o)))
					break
				}
			}
			if x.restartable() != 0 {
				x.aborted = true
				x.vc.Count("cases_cut_after_failed_trim", 1)
				return
			}
			x.restartMain("after-failed-trim")
			return
		}
		if err != nil {
			x.violate("model_equality", "trim:err:"+verifC07ErrName(err),
				fmt.Sprintf("TrimOpenCircuits: %v", err))
			return
		}
		if n := x.m.trim(ch.scid, start); n > 0 {
			x.feat["trim"] = true
			x.vc.Count("trimmed_keystones", int64(n))
		}
		return
	}
}

func (x *verifC07Run) respond(in CircuitKey, what string) {
	x.vc.Count("at_most_one_response_evals", 1)
	if x.realResp[in] {
		x.violate("at_most_one_response", "second-response-accepted:"+what,
			fmt.Sprintf("%s succeeded for circuit %s although a CloseCircuit/FailCircuit "+
				"already succeeded for it in this process lifetime", what, verifC07KeyStr(in)))
		return
	}
	x.realResp[in] = true
}

func (x *verifC07Run) opClose() {
	r := x.r
	var o CircuitKey
	if op := x.sortedOpened(); len(op) > 0 && r.Chance(4, 5) {
		o = op[r.Intn(len(op))]
	} else {
		all := x.outKeys()
		o = all[r.Intn(len(all))]
	}
	got, err := x.cm.CloseCircuit(o)
	want, werr := x.m.closeCircuit(o)
	x.log("close(%s) -> %s", verifC07KeyStr(o), verifC07ErrName(err))
	x.vc.Count("op_close", 1)
	x.vc.Count("return_value_evals", 1)
	if err == nil && got != nil {
		x.respond(got.Incoming, "CloseCircuit")
	}
	if verifC07ErrName(err) != verifC07ErrName(werr) {
		x.violate("model_equality", "close:err:"+verifC07ErrName(err)+"-vs-"+verifC07ErrName(werr),
			fmt.Sprintf("CloseCircuit(%s) returned %v, model %v", verifC07KeyStr(o), err, werr))
		return
	}
	if d := x.diffCircuit(got, want); d != "" {
		x.violate("model_equality", "close:circuit:"+verifC07Norm(d),
			fmt.Sprintf("CloseCircuit(%s) circuit: %s", verifC07KeyStr(o), d))
		return
	}
	if errors.Is(werr, ErrCircuitClosing) {
		x.feat["second-response-rejected"] = true
		x.vc.Count("second_response_rejected", 1)
	}
	if werr == nil {
		x.vc.Count("responses_accepted", 1)
	}
}

func (x *verifC07Run) opFail() {
	k := x.pickIn()
	got, err := x.cm.FailCircuit(k)
	want, werr := x.m.failCircuit(k)
	x.log("fail(%s) -> %s", verifC07KeyStr(k), verifC07ErrName(err))
	x.vc.Count("op_fail", 1)
	x.vc.Count("return_value_evals", 1)
	if err == nil && got != nil {
		x.respond(got.Incoming, "FailCircuit")
	}
	if verifC07ErrName(err) != verifC07ErrName(werr) {
		x.violate("model_equality", "fail:err:"+verifC07ErrName(err)+"-vs-"+verifC07ErrName(werr),
			fmt.Sprintf("FailCircuit(%s) returned %v, model %v", verifC07KeyStr(k), err, werr))
		return
	}
	if d := x.diffCircuit(got, want); d != "" {
		x.violate("model_equality", "fail:circuit:"+verifC07Norm(d),
			fmt.Sprintf("FailCircuit(%s) circuit: %s", verifC07KeyStr(k), d))
		return
	}
	if errors.Is(werr, ErrCircuitClosing) {
		x.feat["second-response-rejected"] = true
		x.vc.Count("second_response_rejected", 1)
	}
	if werr == nil {
		x.vc.Count("responses_accepted", 1)
	}
}

func (x *verifC07Run) opDelete() {
	r := x.r
	n := 1 + r.Intn(3)
	var keys []CircuitKey
	for i := 0; i < n; i++ {
		if len(keys) > 0 && r.Chance(1, 6) {
			keys = append(keys, keys[r.Intn(len(keys))])
			continue
		}
		// prefer circuits that already have an accepted response.
		var resp []CircuitKey
		for _, k := range x.inKeys {
			if x.m.closed[k] && x.m.pending[k] != nil {
				resp = append(resp, k)
			}
		}
		if len(resp) > 0 && r.Chance(1, 2) {
			keys = append(keys, resp[r.Intn(len(resp))])
			continue
		}
		keys = append(keys, x.pickIn())
	}
	mode := x.maybeArm()
	err := x.cm.DeleteCircuits(keys...)
	fired := x.db.disarm()
	strs := make([]string, len(keys))
	unknown := false
	for i, k := range keys {
		strs[i] = verifC07KeyStr(k)
		if x.m.pending[k] == nil {
			unknown = true
		}
	}
	x.log("delete[%s] arm=%d fired=%v -> %s", strings.Join(strs, ","), mode, fired, verifC07ErrName(err))
	x.vc.Count("op_delete", 1)
	x.vc.Count("return_value_evals", 1)
	if fired {
		x.vc.Count("write_failures_injected", 1)
		x.feat["wfail-delete"] = true
		if err == nil {
			x.violate("write_failure_rollback", "delete:write-failure-swallowed",
				"DeleteCircuits returned nil although its transaction failed")
		}
		return // model unchanged
	}
	if err != nil {
		if unknown && errors.Is(err, ErrUnknownCircuit) {
			// The interface comment allows this, the method comment
			// says unknown keys are ignored.
			x.vc.Diag("delete_unknown_returns_error", "DeleteCircuits returned ErrUnknownCircuit")
			x.aborted = true
			return
		}
		x.violate("model_equality", "delete:err:"+verifC07ErrName(err),
			fmt.Sprintf("DeleteCircuits: %v", err))
		return
	}
	for _, k := range keys {
		delete(x.realLive, k)
		delete(x.realResp, k)
	}
	if n := x.m.deleteCircuits(keys); n > 0 {
		x.vc.Count("deleted_circuits", int64(n))
	}
}

func (x *verifC07Run) opChanAdvance() {
	r := x.r
	ci := r.Intn(3)
	ch := x.fx.chans[ci]
	room := int(x.base[ci] + 4 - ch.added)
	var err error
	what := ""
	switch k := r.Intn(10); {
	case k < 5 && room > 0:
		n := 1 + r.Intn(2)
		if n > room {
			n = room
		}
		for i := 0; i < n && err == nil; i++ {
			err = ch.add()
		}
		if err == nil {
			err = ch.sign()
		}
		what = fmt.Sprintf("add%d+sign", n)
		x.feat["chan-sign"] = true
	case k < 7 && room > 0:
		err = ch.add()
		what = "add-unsigned"
		x.feat["chan-unsigned"] = true
	case k < 8 && ch.added > ch.signed:
		err = ch.sign()
		what = "sign"
	case ch.tip:
		err = ch.revoke()
		what = "revoke"
		x.feat["chan-revoke"] = true
	default:
		return
	}
	if err != nil {
		x.t.Fatalf("verifC07: fixture channel %d %s: %v", ci, what, err)
	}
	x.log("chan(ch%d) %s -> added=%d signed=%d tip=%v", ci, what, ch.added, ch.signed, ch.tip)
	x.vc.Count("op_chan", 1)
	x.envDirty = true
}

func (x *verifC07Run) opChanClose() {
	r := x.r
	ci := r.Intn(3)
	switch x.status[ci] {
	case 0:
		x.status[ci] = 1 + r.Intn(2)
	case 1:
		x.status[ci] = 2
	default:
		return
	}
	x.log("closechan(ch%d) -> status %d", ci, x.status[ci])
	x.vc.Count("op_chanclose", 1)
	x.envDirty = true
}

func (x *verifC07Run) restartMain(why string) {
	env := x.env(x.pickRes(x.r.Fork("restart")))
	if err := x.db.Close(); err != nil {
		x.t.Fatalf("verifC07: close main db: %v", err)
	}
	bk, err := verifC07OpenBolt(x.dir, x.dbName)
	if err != nil {
		x.t.Fatalf("verifC07: reopen main db: %v", err)
	}
	x.db.mu.Lock()
	x.db.inner = bk
	x.db.mu.Unlock()
	cm, err := NewCircuitMap(x.cfg(x.backend, env, true))
	purged, trimmed, kept := x.m.restart(env)
	x.log("restart(%s) env status=%v next=%v res=%d -> purged=%d trimmed=%d keptByRes=%d err=%s",
		why, env.Status, env.Next, len(env.Res), purged, trimmed, kept, verifC07ErrName(err))
	x.vc.Count("op_restart", 1)
	if err != nil {
		x.violate("restart_image", "NewCircuitMap-error",
			fmt.Sprintf("NewCircuitMap on restart failed: %v", err))
		return
	}
	x.cm = cm
	x.feat["restart"] = true
	if trimmed > 0 {
		x.feat["trim@restart"] = true
	}
	if purged > 0 {
		x.feat["purge"] = true
	}
	// new process lifetime.
	x.realResp = map[CircuitKey]bool{}
	live := map[CircuitKey]bool{}
	for _, k := range x.inKeys {
		if x.realLive[k] && cm.LookupCircuit(k) != nil {
			live[k] = true
		}
	}
	x.realLive = live
}

func (x *verifC07Run) opRestart() {
	if x.restartable() != 0 {
		x.vc.Count("restart_skipped_noncontiguous", 1)
		return
	}
	x.restartMain("op")
}

func (x *verifC07Run) afterOp(forceFork bool) {
	if x.bad || x.aborted {
		return
	}
	oracle := "model_equality"
	attempts := x.db.nAttempts()
	commits := x.db.nCommits()
	failedWrite := attempts-x.lastAttempts > commits-x.lastCommits
	if failedWrite {
		oracle = "write_failure_rollback"
	}
	if !x.compare(x.cm, x.m, oracle, "live") {
		return
	}
	changed := commits != x.lastCommits || failedWrite || x.envDirty || forceFork
	x.lastAttempts, x.lastCommits = attempts, commits
	if !changed {
		return
	}
	x.envDirty = false
	if x.forkEvery > 1 && !failedWrite && x.r.Intn(x.forkEvery) != 0 {
		x.vc.Count("fork_sampled_out", 1)
		return
	}
	why := "durable-write"
	if failedWrite {
		why = "failed-write"
	}
	x.fork(why)
}

func (x *verifC07Run) step() {
	w := x.r.Intn(100)
	switch {
	case w < 22:
		x.opCommit()
	case w < 40:
		x.opOpen()
	case w < 46:
		x.opTrim()
	case w < 55:
		x.opClose()
	case w < 63:
		x.opFail()
	case w < 75:
		x.opDelete()
	case w < 86:
		x.opChanAdvance()
	case w < 89:
		x.opChanClose()
	case w < 95:
		x.opRestart()
	default:
		x.log("lookups")
	}
	x.afterOp(false)
}

// probeReopen is the last thing done to a case's map (diagnostic only, the
// state is discarded afterwards): OpenCircuits is documented to "check that
// all keystones correspond to committed-but-unopened circuits". A second
// keystone for a circuit that already has one is outside the caller contract
// (CommitCircuits hands a circuit out once), so accepting it is not judged.
func (x *verifC07Run) probeReopen() {
	op := x.sortedOpened()
	if len(op) == 0 {
		return
	}
	c := x.m.opened[op[x.r.Intn(len(op))]]
	var free []CircuitKey
	for _, o := range x.outKeys() {
		if x.m.opened[o] == nil {
			free = append(free, o)
		}
	}
	if len(free) == 0 {
		return
	}
	o2 := free[x.r.Intn(len(free))]
	err := x.cm.OpenCircuits(Keystone{InKey: c.In, OutKey: o2})
	x.vc.Count("probe_reopen", 1)
	if err != nil {
		return
	}
	both := x.cm.LookupOpenCircuit(*c.Out) != nil && x.cm.LookupOpenCircuit(o2) != nil
	x.vc.Diag("second_keystone_for_open_circuit_accepted", fmt.Sprintf(
		"OpenCircuits(%s -> %s) returned nil although the circuit already has keystone %s; "+
			"both outgoing keys now resolve to it: %v",
		verifC07KeyStr(c.In), verifC07KeyStr(o2), verifC07KeyStr(*c.Out), both))
}

func (x *verifC07Run) runCase(i int) {
	vc := x.vc
	r := x.r
	for ci, ch := range x.fx.chans {
		if err := ch.settle(); err != nil {
			x.t.Fatalf("verifC07: settle fixture channel %d: %v", ci, err)
		}
		x.base[ci] = ch.added
		x.status[ci] = 0
	}
	x.ledgerCheck()
	x.inKeys = x.inKeys[:0]
	for _, ch := range x.fx.chans {
		for j := uint64(0); j < 4; j++ {
			x.inKeys = append(x.inKeys, CircuitKey{ChanID: ch.scid, HtlcID: j})
		}
	}
	for j := uint64(0); j < 4; j++ {
		x.inKeys = append(x.inKeys, CircuitKey{ChanID: hop.Source, HtlcID: j})
	}
	for h := range x.hashes {
		copy(x.hashes[h][:], r.Bytes(32))
	}
	nOps := 12 + r.Intn(40)
	useBatch := r.Chance(1, 16)
	vc.Case(i, map[string]any{"ops": nOps, "batchdb": useBatch, "base": x.base})

	x.dbName = fmt.Sprintf("case-%d.db", i)
	bk, err := verifC07OpenBolt(x.dir, x.dbName)
	if err != nil {
		x.t.Fatalf("verifC07: open case db: %v", err)
	}
	x.db = &verifC07DB{inner: bk}
	x.backend = x.db
	if useBatch {
		x.backend = verifC07BatchDB{x.db}
	}
	defer func() {
		x.db.Close()
		os.Remove(filepath.Join(x.dir, x.dbName))
	}()
	x.m = verifC07NewModel()
	x.trace = x.trace[:0]
	x.realLive = map[CircuitKey]bool{}
	x.realResp = map[CircuitKey]bool{}
	x.feat = map[string]bool{}
	x.bad, x.aborted, x.envDirty = false, false, false
	x.lastCommits, x.lastAttempts = 0, 0

	cm, err := NewCircuitMap(x.cfg(x.backend, x.env(nil), true))
	if err != nil {
		x.violate("restart_image", "NewCircuitMap-error-fresh",
			fmt.Sprintf("NewCircuitMap on a fresh DB failed: %v", err))
		return
	}
	x.cm = cm
	x.afterOp(true)
	for s := 0; s < nOps && !x.bad && !x.aborted; s++ {
		x.step()
		vc.Count("ops", 1)
	}
	if x.bad {
		return
	}
	if !x.aborted && r.Chance(1, 4) {
		x.probeReopen()
	}
	// signature of a non-trivial case: which behaviours it exhibited.
	if x.feat["restart"] || x.nfork > 0 {
		var fs []string
		for f := range x.feat {
			fs = append(fs, f)
		}
		sort.Strings(fs)
		vc.Sig(strings.Join(fs, ","))
	}
	if i%97 == 0 {
		vc.Sample(map[string]any{"case": i, "ops": x.traceTail(60)})
	}
}

func TestVerifC07(t *testing.T) {
	vc := verifStart(t, "C07", "seq")
	defer vc.Finish()

	dir := verifC07Scratch(t)
	if strings.HasPrefix(dir, "/dev/shm/") {
		// the fixture channels' channeldb files (t.TempDir) go to tmpfs
		// too: every commitment update is an fsync'ed transaction.
		t.Setenv("TMPDIR", dir)
	}
	fx := verifC07NewFixture(t)
	x := &verifC07Run{vc: vc, t: t, fx: fx, dir: dir, forkEvery: 1}
	vc.Note("scratch", x.dir)

	total := vc.N(2000, 200000)
	for i := 0; i < total; i++ {
		if !vc.Mine(i) {
			continue
		}
		x.r = vc.Rng(i)
		x.nfork = 0
		x.runCase(i)
		vc.CaseDone(i)
	}
}
