package htlcswitch

// C07 monitor (switch-level part, crash points inside a switch operation).
//
// The switch unit (c07sw_test.go) runs every operation under a capture of the
// kvdb.Backend wrapper the Switch, its circuit map and its resolution-message
// store write through: right after EVERY committed read-write transaction the
// bbolt file is copied (the wrapper serialises write transactions while it
// captures, so the copy is exactly the durable state after that commit), and
// the outputs the switch had produced by the time the NEXT write transaction
// begins (adds handed to outgoing links, resolution messages acknowledged to
// the contract court) are recorded with the image. Image 0 is the durable
// state before the operation; it is a crash point of its own only if the
// operation produced an output before its first commit.
//
// After the operation a fresh Switch is booted from every image - a node
// restart after a crash at that instant - and judged with the reference
// model's durable state before (P) and after (Q) the operation:
//
//   restart_state        - "After a restart the switch knows exactly the
//                          circuits that were durably recorded: those whose
//                          outgoing HTLC reached a commitment stay open, those
//                          that did not are rolled back to half-open, ...
//                          circuits of fully closed channels are purged except
//                          those still awaiting delivery of an on-chain
//                          resolution": per circuit, what the booted switch
//                          knows (LookupCircuit: existence, keystone) has to
//                          be the restart image of P or of Q (every write of
//                          the circuit map is one transaction, an operation
//                          moves a circuit from its P state to its Q state);
//                          the last image has to be the restart image of Q;
//                          NumPending has to be the number of known circuits
//                          of the case; after the outgoing links started
//                          (TrimOpenCircuits at the durable channel state, as
//                          channelLink.Start) no keystone of an HTLC that never
//                          reached a commitment may be left.
//   at_most_one_forward  - "an incoming HTLC is handed to an outgoing channel
//                          at most once": adds handed before the crash instant
//                          plus adds handed by the booted switch when the
//                          incoming links replay their un-acked adds.
//   at_most_one_response - "at most one settle-or-fail per HTLC is delivered
//                          back to the incoming channel": in the booted switch
//                          at most one response per HTLC reaches the incoming
//                          link, none for an HTLC whose response was locked in
//                          before the operation, none that was never handed to
//                          the switch. (Re-delivery of a response that was not
//                          locked in is expected, as in the main unit.)
//   failed_back          - "rolled back to half-open so the HTLC is failed back
//                          rather than lost or doubled": a replayed add is
//                          handed to an outgoing link, or answered with a
//                          response, or its circuit is open - never nothing.
//   awaiting_resolution  - "still awaiting delivery of an on-chain resolution":
//                          a resolution message that was durably handed to the
//                          switch before the operation (or acknowledged to the
//                          contract court before the crash instant) and is not
//                          locked in reaches the incoming link of the booted
//                          switch.
// Monotonicity of the images (P state, then Q state) is a diagnostic.

import (
	"fmt"
	"os"
	"path/filepath"
	"runtime"
	"sync"

	"github.com/btcsuite/btcwallet/walletdb"
	"github.com/lightningnetwork/lnd/lnwire"
)

// ---------------------------------------------------------------------------
// DB wrapper with capture.
// ---------------------------------------------------------------------------

type verifC07swDB struct {
	*verifC07DB
	x *verifC07swRun

	// capMu serialises the read-write transactions going through the
	// wrapper and guards cp.
	capMu sync.Mutex
	cp    *verifC07swCapture
}

func (d *verifC07swDB) Update(f func(tx walletdb.ReadWriteTx) error,
	reset func()) error {

	d.capMu.Lock()
	defer d.capMu.Unlock()
	if d.cp != nil {
		d.cp.beforeTx()
	}
	err := d.verifC07DB.Update(f, reset)
	if err == nil && d.cp != nil {
		d.cp.afterCommit()
	}
	return err
}

func (d *verifC07swDB) BeginReadWriteTx() (walletdb.ReadWriteTx, error) {
	d.capMu.Lock()
	if d.cp != nil {
		d.cp.unhooked++
	}
	d.capMu.Unlock()
	return d.verifC07DB.BeginReadWriteTx()
}

type verifC07swSnap struct {
	exists bool
	hasOut bool
	out    uint64
	stored bool // a resolution message for the circuit's keystone is stored
	inDone bool // link side: the response is committed on the incoming channel
}

type verifC07swImage struct {
	k      int // committed transactions of the operation before the instant
	path   string
	handed []int
	acked  []bool
}

type verifC07swCapture struct {
	x        *verifC07swRun
	op       string
	pre      []verifC07swSnap
	post     []verifC07swSnap
	alt      []verifC07swSnap // a transient durable state the operation announces
	handed0  []int
	acked0   []bool
	images   []*verifC07swImage
	unhooked int
}

func (x *verifC07swRun) snap() []verifC07swSnap {
	out := make([]verifC07swSnap, len(x.circs))
	for i, c := range x.circs {
		s := verifC07swSnap{exists: c.exists, inDone: c.inDone}
		if c.exists && c.out != nil {
			s.hasOut, s.out = true, *c.out
			s.stored = x.store[x.outKey(c)] == c
		}
		out[i] = s
	}
	return out
}

func (x *verifC07swRun) outputs() ([]int, []bool) {
	x.mu.Lock()
	defer x.mu.Unlock()
	h := make([]int, len(x.circs))
	a := make([]bool, len(x.circs))
	for i, c := range x.circs {
		h[i], a[i] = c.handedReal, c.resAcked
	}
	return h, a
}

func (x *verifC07swRun) takeImage(k int) *verifC07swImage {
	x.nImg++
	im := &verifC07swImage{
		k:    k,
		path: filepath.Join(x.dir, fmt.Sprintf("sw-img-%d.db", x.nImg)),
	}
	f, err := os.Create(im.path)
	if err != nil {
		x.t.Fatalf("verifC07sw: create image: %v", err)
	}
	if err := x.db.verifC07DB.Copy(f); err != nil {
		x.t.Fatalf("verifC07sw: copy image: %v", err)
	}
	f.Close()
	return im
}

// beforeTx runs (under capMu) when a write transaction is about to begin: the
// crash instant "just before this transaction" belongs to the previous image.
func (cp *verifC07swCapture) beforeTx() {
	// let outputs that are already under way land (a goroutine woken by a
	// channel send runs next on this P).
	for i := 0; i < 40; i++ {
		runtime.Gosched()
	}
	last := cp.images[len(cp.images)-1]
	last.handed, last.acked = cp.x.outputs()
}

// afterCommit runs (under capMu) right after a committed write transaction.
func (cp *verifC07swCapture) afterCommit() {
	cp.images = append(cp.images, cp.x.takeImage(len(cp.images)))
}

func (x *verifC07swRun) capBegin(op string) *verifC07swCapture {
	if x.crashMode == 0 {
		return nil
	}
	cp := &verifC07swCapture{x: x, op: op, pre: x.snap()}
	cp.handed0, cp.acked0 = x.outputs()
	cp.images = []*verifC07swImage{x.takeImage(0)}
	x.db.capMu.Lock()
	x.db.cp = cp
	x.db.capMu.Unlock()
	x.cur = cp
	return cp
}

func (x *verifC07swRun) capEnd(cp *verifC07swCapture) {
	if cp == nil {
		return
	}
	x.db.capMu.Lock()
	x.db.cp = nil
	x.db.capMu.Unlock()
	x.cur = nil
	last := cp.images[len(cp.images)-1]
	last.handed, last.acked = x.outputs()
	cp.post = x.snap()
	if cp.unhooked > 0 {
		x.vc.Count("swc_unhooked_rw_tx", int64(cp.unhooked))
	}
}

func (x *verifC07swRun) capDrop(cp *verifC07swCapture) {
	if cp == nil {
		return
	}
	for _, im := range cp.images {
		os.Remove(im.path)
	}
	cp.images = nil
}

func verifC07swSnapsEqual(a, b []verifC07swSnap) bool {
	for i := range a {
		if a[i] != b[i] {
			return false
		}
	}
	return true
}

// ---------------------------------------------------------------------------
// Judging the images.
// ---------------------------------------------------------------------------

// restartImg: what a switch booted from durable circuit state s knows of
// circuit c ("circuits of fully closed channels are purged except those still
// awaiting delivery of an on-chain resolution"). ambig: fully closed incoming
// channel together with a stored resolution (not judged, see assumptions).
func (x *verifC07swRun) restartImg(c *verifC07swCirc, s verifC07swSnap,
	stored bool) (exists bool, hasOut bool, out uint64, ambig bool) {

	stored = stored || s.stored
	if !s.exists {
		return false, false, 0, false
	}
	if x.ins[c.inCh].status == 2 {
		return false, false, 0, s.hasOut && stored
	}
	if s.hasOut && x.outs[c.ch].status == 2 && !stored {
		return false, false, 0, false
	}
	return true, s.hasOut, s.out, false
}

func (x *verifC07swRun) capJudge(cp *verifC07swCapture) {
	if cp == nil {
		return
	}
	defer x.capDrop(cp)
	vc := x.vc
	n := len(cp.images) - 1
	vc.Count("swc_captured_ops", 1)
	vc.Count("swc_commits_captured", int64(n))
	if n > 1 {
		vc.Count("swc_multi_commit_ops", 1)
	}
	changed := !verifC07swSnapsEqual(cp.pre, cp.post)
	stage := make([]int, len(x.circs))
	judged := 0
	for _, im := range cp.images {
		if x.bad || x.aborted {
			return
		}
		if im.k == 0 {
			// An output before the first commit?
			vc.Count("swc_image0_evals", 1)
			quiet := true
			for i := range im.handed {
				if im.handed[i] != cp.handed0[i] || im.acked[i] != cp.acked0[i] {
					quiet = false
				}
			}
			if quiet {
				continue
			}
			vc.Count("swc_output_before_first_commit", 1)
		} else if cp.op == "restart" && (!changed || im.k == 1) && !x.fr.Chance(1, 8) {
			// a restart that changes nothing durable, or the image after
			// the first transaction of a start (the circuit map creating
			// its buckets, which exist): sampled.
			vc.Count("swc_images_sampled_out", 1)
			continue
		}
		x.judgeImage(cp, im, n, stage)
		judged++
	}
	if judged > 0 {
		vc.Count("swc_ops_with_forks", 1)
		vc.Count("swc_forks_"+cp.op, int64(judged))
		x.feat["crash-fork"] = true
		if n > 1 {
			x.feat["crash-fork-mid-op"] = true
		}
	}
}

// later runs a teardown in the background (at most a few at a time); runCase
// joins them.
func (x *verifC07swRun) later(f func()) {
	if x.laterSem == nil {
		x.laterSem = make(chan struct{}, 6)
	}
	x.laterSem <- struct{}{}
	x.laterWG.Add(1)
	go func() {
		defer x.laterWG.Done()
		defer func() { <-x.laterSem }()
		f()
	}()
}

// verifC07swFork is a switch booted from an image.
type verifC07swFork struct {
	x      *verifC07swRun
	mu     sync.Mutex
	handed []int
}

func (f *verifC07swFork) onHanded(pkt *htlcPacket) {
	if _, ok := pkt.htlc.(*lnwire.UpdateAddHTLC); !ok {
		return
	}
	c := f.x.byIn(pkt.inKey())
	if c == nil {
		return
	}
	f.mu.Lock()
	f.handed[c.n]++
	f.mu.Unlock()
}

func (x *verifC07swRun) judgeImage(cp *verifC07swCapture, im *verifC07swImage,
	n int, stage []int) {

	vc := x.vc
	ctx := fmt.Sprintf("crash inside %s after its commit %d of %d", cp.op, im.k, n)
	bad := func(oracle, key, detail string) {
		x.log("  crash-fork: %s; booted switch from the image", ctx)
		x.violate(oracle, key+"@crash", ctx+": "+detail)
	}

	bk, err := verifC07OpenBolt(x.dir, filepath.Base(im.path))
	if err != nil {
		x.t.Fatalf("verifC07sw: open image: %v", err)
	}
	fdb := &verifC07DB{inner: bk}
	var s *Switch
	// Teardown off the critical path: stopping a switch means stopping its
	// mailboxes one after the other, each waiting on millisecond timers.
	defer func() {
		fs := s
		x.later(func() {
			if fs != nil {
				_ = fs.Stop()
			}
			fdb.Close()
		})
	}()

	vc.Count("swc_forks", 1)
	if im.k > 0 && im.k < n {
		vc.Count("swc_forks_mid_op", 1)
	}
	s, err = x.newSwitchOn(fdb)
	if err != nil {
		s = nil
		bad("restart_state", "switch-restart-failed", fmt.Sprintf("New: %v", err))
		return
	}
	if err := s.Start(); err != nil {
		bad("restart_state", "switch-restart-failed", fmt.Sprintf("Start: %v", err))
		return
	}
	x.barrierOn(s)
	f := &verifC07swFork{x: x, handed: make([]int, len(x.circs))}

	// --- what the booted switch knows ----------------------------------------
	type exp struct {
		e, ho bool
		o     uint64
	}
	known := 0
	mustRes := make([]bool, len(x.circs))
	for i, c := range x.circs {
		newAck := im.acked[i] && !cp.acked0[i] && c.res != nil && c.exists &&
			c.out != nil && x.outKey(c) == c.resKey
		var p, q exp
		var ap, aq bool
		p.e, p.ho, p.o, ap = x.restartImg(c, cp.pre[i], newAck)
		q.e, q.ho, q.o, aq = x.restartImg(c, cp.post[i], newAck)
		got := s.circuits.LookupCircuit(c.in)
		if got != nil {
			known++
		}
		if ap || aq {
			vc.Count("swc_ambiguous_skipped", 1)
			continue
		}
		match := func(w exp) bool {
			if w.e != (got != nil) {
				return false
			}
			if !w.e {
				return true
			}
			if w.ho != got.HasKeystone() {
				return false
			}
			return !w.ho || got.OutKey() == CircuitKey{
				ChanID: x.outs[c.ch].scid, HtlcID: w.o}
		}
		mp, mq := match(p), match(q)
		if im.k == n && im.k > 0 {
			mp = false // the operation's last commit: the Q state
		} else if cp.alt != nil && !mp && !mq {
			var a exp
			var aa bool
			a.e, a.ho, a.o, aa = x.restartImg(c, cp.alt[i], newAck)
			if !aa && match(a) {
				mp = true
				vc.Count("swc_transient_state_seen", 1)
			}
		}
		vc.Count("swc_restart_state_evals", 1)
		if !mp && !mq {
			w := q
			if im.k == 0 {
				w = p
			}
			comm := func(w exp) bool {
				return w.e && w.ho && w.o < x.outs[c.ch].signed
			}
			key := "circuit-state-neither-before-nor-after"
			switch {
			case got == nil && (p.e && q.e || im.k == n && q.e):
				key = "durable-circuit-missing"
				if x.outs[c.ch].status == 2 && (cp.pre[i].stored || cp.post[i].stored || newAck) {
					key = "circuit-awaiting-resolution-purged"
				}
			case got != nil && !got.HasKeystone() && (comm(p) || comm(q)):
				key = "committed-circuit-not-open"
			case got != nil && !w.e && !cp.pre[i].exists && !cp.post[i].exists:
				key = "unknown-circuit-present"
			case got != nil && !w.e:
				key = "circuit-not-removed"
				if x.ins[c.inCh].status == 2 {
					key = "closed-incoming-channel-circuit-not-purged"
				} else if x.outs[c.ch].status == 2 {
					key = "closed-channel-circuit-not-purged"
				}
			case got != nil && got.HasKeystone() && !p.ho && !q.ho:
				key = "uncommitted-circuit-open"
			case got != nil:
				key = "keystone-differs"
			}
			gs := "unknown"
			if got != nil {
				gs = "half-open"
				if got.HasKeystone() {
					gs = "open " + verifC07KeyStr(got.OutKey())
				}
			}
			bad("restart_state", key, fmt.Sprintf("circuit %d (%s): the booted switch has "+
				"it %s; a switch restarted from the model's durable state of before the "+
				"operation: exists=%v keystone=%v/%d, of after it: exists=%v "+
				"keystone=%v/%d (signed=%d, outgoing channel "+
				"status %d, incoming channel status %d, resolution stored before=%v "+
				"after=%v)", c.n, verifC07KeyStr(c.in), gs, p.e, p.ho, p.o, q.e, q.ho, q.o,
				x.outs[c.ch].signed, x.outs[c.ch].status, x.ins[c.inCh].status,
				cp.pre[i].stored, cp.post[i].stored))
			return
		}
		if got != nil && !got.LoadedFromDisk {
			bad("restart_state", "loaded-from-disk-differs",
				fmt.Sprintf("circuit %d not marked as loaded from disk", c.n))
			return
		}
		// Diagnostic: images move from the P state to the Q state.
		if p != q {
			st := 0
			if mq {
				st = 1
			}
			if st < stage[i] {
				x.diag("swc_nonmonotone_images", fmt.Sprintf("%s: circuit %d back in "+
					"its state of before the operation", ctx, c.n))
			}
			stage[i] = st
		}
		// A resolution durably handed to the switch has to come out.
		mustRes[i] = (cp.pre[i].stored && cp.post[i].stored || newAck) && p.e && q.e &&
			!c.inDone && x.ins[c.inCh].status == 0 && c.res != nil
	}
	if np := s.circuits.NumPending(); np != known {
		bad("restart_state", "num-pending-differs", fmt.Sprintf("NumPending=%d, but the "+
			"booted switch knows %d circuits of the case", np, known))
		return
	}

	// --- links start; the links replay what they have not got acked ----------
	// (only the links of channels that carry a forwarded HTLC of the case.)
	var inUse, outUse [2]bool
	for _, c := range x.circs {
		if c.forwarded {
			inUse[c.inCh], outUse[c.ch] = true, true
		}
	}
	up := [2]bool{}
	for ch, o := range x.outs {
		if o.status != 0 || !outUse[ch] || !x.fr.Chance(7, 8) {
			continue
		}
		if err := s.AddLink(x.newLinkOn(s, f, ch)); err != nil {
			x.t.Fatalf("verifC07sw: fork AddLink(out %d): %v", ch, err)
		}
		up[ch] = true
	}
	for i, c := range x.circs {
		got := s.circuits.LookupCircuit(c.in)
		vc.Count("swc_trim_evals", 1)
		if got != nil && got.HasKeystone() && up[c.ch] &&
			got.OutKey().ChanID == x.outs[c.ch].scid &&
			got.OutKey().HtlcID >= x.outs[c.ch].signed {

			bad("restart_state", "uncommitted-circuit-open-after-link-start",
				fmt.Sprintf("circuit %d (%s) keeps keystone %s although the outgoing "+
					"link started with %d HTLCs on its commitment", i,
					verifC07KeyStr(c.in), verifC07KeyStr(got.OutKey()),
					x.outs[c.ch].signed))
			return
		}
	}
	var inLinks [2]*verifC07swLink
	for i, in := range x.ins {
		if in.status != 0 || !inUse[i] {
			continue
		}
		inLinks[i] = x.newLinkOn(s, f, -1-i)
		if err := s.AddLink(inLinks[i]); err != nil {
			x.t.Fatalf("verifC07sw: fork AddLink(in %d): %v", i, err)
		}
	}
	// the outgoing links re-forward the responses of their forwarding
	// packages the incoming side has not acked (channelLink.resolveFwdPkgs).
	for _, c := range x.circs {
		if !up[c.ch] || c.off == nil || c.inDone || c.out == nil {
			continue
		}
		_ = s.ForwardPackets(nil, x.respPkt(c, c.off))
		x.barrierOn(s)
	}
	// the incoming links replay the adds whose response is not committed.
	replayed := make([]bool, len(x.circs))
	openAtReplay := make([]bool, len(x.circs))
	for i := range x.ins {
		if inLinks[i] == nil {
			continue
		}
		var pkts []*htlcPacket
		for _, c := range x.circs {
			if c.inCh != i || !c.forwarded || c.inDone {
				continue
			}
			got := s.circuits.LookupCircuit(c.in)
			openAtReplay[c.n] = got != nil && got.HasKeystone()
			replayed[c.n] = true
			pkts = append(pkts, x.addPkt(c))
		}
		if len(pkts) == 0 {
			continue
		}
		vc.Count("swc_replayed_adds", int64(len(pkts)))
		if x.fr.Bool() {
			_ = s.ForwardPackets(nil, pkts...)
		} else {
			for _, p := range pkts {
				_ = s.ForwardPackets(nil, p)
			}
		}
		x.barrierOn(s)
	}

	// --- at most one forward over the combined history -------------------------
	f.mu.Lock()
	handed := append([]int(nil), f.handed...)
	f.mu.Unlock()
	for i, c := range x.circs {
		vc.Count("swc_forward_evals", 1)
		if im.handed[i]+handed[i] > 1 {
			bad("at_most_one_forward", "add-handed-to-outgoing-link-twice",
				fmt.Sprintf("the add of incoming HTLC %s was handed to an outgoing link "+
					"%d times before the crash instant and %d times by the switch "+
					"booted from the image when the incoming link replayed it",
					verifC07KeyStr(c.in), im.handed[i], handed[i]))
			return
		}
		if handed[i] > 0 {
			vc.Count("swc_handed_after_crash", 1)
		}
	}

	// --- what reaches the incoming links ---------------------------------------
	gotResp := make([]int, len(x.circs))
	for i := range x.ins {
		if inLinks[i] == nil {
			continue
		}
		for _, p := range x.drain(inLinks[i]) {
			vc.Count("swc_response_evals", 1)
			var settle bool
			var pre [32]byte
			switch m := p.htlc.(type) {
			case *lnwire.UpdateFulfillHTLC:
				settle, pre = true, m.PaymentPreimage
			case *lnwire.UpdateFailHTLC:
			default:
				continue
			}
			kind := "fail"
			if settle {
				kind = "settle"
			}
			c := x.byIn(p.inKey())
			if c == nil || !c.forwarded {
				bad("at_most_one_response", "response-for-unknown-htlc",
					fmt.Sprintf("the incoming link received a %s for %s, which was "+
						"never forwarded", kind, verifC07KeyStr(p.inKey())))
				return
			}
			gotResp[c.n]++
			switch {
			case cp.pre[c.n].inDone:
				bad("at_most_one_response", "response-after-lock-in",
					fmt.Sprintf("HTLC %s: a %s reached the incoming link of the booted "+
						"switch although the link had locked a response in before the "+
						"operation", verifC07KeyStr(c.in), kind))
				return
			case gotResp[c.n] > 1:
				bad("at_most_one_response", "second-response-in-one-link-epoch",
					fmt.Sprintf("HTLC %s: a second response (%s) reached the incoming "+
						"link of the booted switch", verifC07KeyStr(c.in), kind))
				return
			}
			legit := false
			if settle {
				legit = pre == c.pre && ((c.off != nil && c.off.Settle) ||
					(c.res != nil && c.res.Settle))
			} else {
				legit = c.localFail || !c.everComm ||
					(replayed[c.n] && !openAtReplay[c.n]) ||
					(c.off != nil && !c.off.Settle) ||
					(c.res != nil && !c.res.Settle)
			}
			if !legit {
				bad("at_most_one_response", "response-not-handed-to-switch",
					fmt.Sprintf("HTLC %s: the incoming link received a %s (preimage "+
						"ok=%v) but the responses handed to the switch were off-chain=%s "+
						"on-chain=%s local-fail=%v", verifC07KeyStr(c.in), kind,
						pre == c.pre, c.off, c.res, c.localFail))
				return
			}
		}
	}
	for i, c := range x.circs {
		if replayed[i] {
			vc.Count("swc_failed_back_evals", 1)
			switch {
			case handed[i] > 0:
			case gotResp[i] > 0:
				if !openAtReplay[i] {
					vc.Count("swc_failed_back_after_crash", 1)
				}
			case openAtReplay[i]:
				vc.Count("swc_dup_dropped_after_crash", 1)
			default:
				bad("failed_back", "replayed-add-lost",
					fmt.Sprintf("HTLC %s: the add replayed by the incoming link was "+
						"neither handed to an outgoing link nor answered with a "+
						"response, and the booted switch has no open circuit for it",
						verifC07KeyStr(c.in)))
				return
			}
		}
		if mustRes[i] {
			vc.Count("swc_awaiting_resolution_evals", 1)
			if gotResp[i] == 0 {
				bad("awaiting_resolution", "resolution-not-redelivered-after-restart",
					fmt.Sprintf("HTLC %s: the on-chain resolution (%s) of outgoing HTLC "+
						"%s was durably handed to the switch before the operation (or "+
						"acknowledged to the contract court before the crash instant: "+
						"%v) and is not locked in on the incoming channel, but it did not "+
						"reach the incoming link of the booted switch",
						verifC07KeyStr(c.in), c.res, verifC07KeyStr(c.resKey),
						im.acked[i] && !cp.acked0[i]))
				return
			}
			vc.Count("swc_resolution_redelivered_after_crash", 1)
		}
	}
}
