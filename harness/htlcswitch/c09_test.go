package htlcswitch

// C09 monitor: the forwarding-policy decision (CheckHtlcForward /
// CheckHtlcTransit) is compared with an exact math/big evaluation of the
// rules in the property statement.

import (
	"fmt"
	"math/big"
	"testing"

	"github.com/lightningnetwork/lnd/graph/db/models"
	"github.com/lightningnetwork/lnd/htlcswitch/hop"
	"github.com/lightningnetwork/lnd/lnwire"
)

type verifC09Case struct {
	In, Out          uint64
	InExp, OutExp    uint32
	Height           uint32
	Base, Rate       uint64
	InBase, InRate   int32
	Delta            uint32
	MaxCltv          uint32
	RejectDelta      uint32
	MinHTLC, MaxHTLC uint64
	Transit          bool
}

func verifBig(u uint64) *big.Int { return new(big.Int).SetUint64(u) }

// verifC09Violated returns the set of rule names violated under exact
// arithmetic.
func verifC09Violated(c verifC09Case, bandwidth uint64) map[string]bool {
	v := map[string]bool{}
	out := verifBig(c.Out)
	in := verifBig(c.In)
	million := big.NewInt(1000000)
	if !c.Transit {
		if in.Cmp(out) < 0 {
			v["amount"] = true
		}
		// outbound fee = base + floor(out*rate/1e6)
		outFee := new(big.Int).Mul(out, verifBig(c.Rate))
		outFee.Quo(outFee, million)
		outFee.Add(outFee, verifBig(c.Base))
		// inbound fee on (out + outFee): rate capped at +-1e7 ppm,
		// positive rounded down, negative rounded up (towards zero).
		rate := int64(c.InRate)
		if rate > 10000000 {
			rate = 10000000
		}
		if rate < -10000000 {
			rate = -10000000
		}
		basis := new(big.Int).Add(out, outFee)
		prop := new(big.Int).Mul(basis, big.NewInt(rate))
		prop.Quo(prop, million) // big.Quo truncates toward zero
		inFee := new(big.Int).Add(prop, big.NewInt(int64(c.InBase)))
		expected := new(big.Int).Add(inFee, outFee)
		actual := new(big.Int).Sub(in, out)
		if actual.Cmp(expected) < 0 {
			v["fee"] = true
		}
		// expiry gap
		if c.InExp < c.OutExp ||
			uint64(c.InExp)-uint64(c.OutExp) < uint64(c.Delta) {

			v["cltv_delta"] = true
		}
		if c.InExp >= c.OutExp &&
			uint64(c.InExp)-uint64(c.OutExp) > uint64(c.MaxCltv) {

			v["delta_too_far"] = true
		}
	}
	if c.Out < c.MinHTLC {
		v["below_min"] = true
	}
	if c.MaxHTLC != 0 && c.Out > c.MaxHTLC {
		v["above_max"] = true
	}
	if uint64(c.OutExp) <= uint64(c.Height)+uint64(c.RejectDelta) {
		v["too_soon"] = true
	}
	if uint64(c.OutExp) > uint64(c.Height)+uint64(c.MaxCltv) {
		v["too_far"] = true
	}
	if c.Out > bandwidth {
		v["bandwidth"] = true
	}
	return v
}

// verifC09RuleOf maps a returned wire failure to the rule names it may
// legitimately name.
func verifC09RuleOf(le *LinkError) []string {
	switch le.WireMessage().(type) {
	case *lnwire.FailFeeInsufficient:
		// lnd reports in<out as fee insufficient as well.
		return []string{"fee", "amount"}
	case *lnwire.FailIncorrectCltvExpiry:
		return []string{"cltv_delta"}
	case *lnwire.FailExpiryTooFar:
		return []string{"too_far", "delta_too_far"}
	case *lnwire.FailExpiryTooSoon:
		return []string{"too_soon"}
	case *lnwire.FailAmountBelowMinimum:
		return []string{"below_min"}
	case *lnwire.FailTemporaryChannelFailure:
		return []string{"above_max", "bandwidth"}
	}
	return nil
}

func verifC09Pick(r *verifRng, around []uint64) uint64 {
	special := []uint64{0, 1, 2, 999, 1000, 1001, 1 << 31, 1<<32 - 1, 1 << 32,
		1<<63 - 1, 1 << 63, 1<<64 - 1}
	switch r.Intn(10) {
	case 0:
		return special[r.Intn(len(special))]
	case 1:
		return r.U64()
	case 2:
		return r.U64n(1000000000000)
	default:
		if len(around) == 0 {
			return r.U64n(1000000000)
		}
		b := around[r.Intn(len(around))]
		d := uint64(r.Intn(5))
		if r.Bool() {
			return b + d
		}
		return b - d
	}
}

func verifC09Gen(r *verifRng, bandwidth uint64) verifC09Case {
	var c verifC09Case
	c.Transit = r.Chance(1, 8)
	// honest configuration
	switch r.Intn(4) {
	case 0:
		c.Base = 0
	case 1:
		c.Base = 1000
	case 2:
		c.Base = r.U64n(1 << 32)
	default:
		c.Base = r.U64n(5000)
	}
	switch r.Intn(4) {
	case 0:
		c.Rate = 0
	case 1:
		c.Rate = 1000000
	case 2:
		c.Rate = r.U64n(1000001)
	default:
		c.Rate = r.U64n(5000)
	}
	switch r.Intn(5) {
	case 0:
	case 1:
		c.InBase = int32(r.U64())
		c.InRate = int32(r.U64())
	case 2:
		c.InBase = -int32(r.Intn(3000))
		c.InRate = -int32(r.Intn(200000))
	case 3:
		c.InBase = int32(r.Intn(3000))
		c.InRate = int32(r.Intn(200000))
	default:
		c.InBase = int32(r.Intn(2001)) - 1000
		c.InRate = int32(r.Intn(20001)) - 10000
	}
	c.Delta = uint32(r.Intn(1 << 16))
	if r.Chance(2, 3) {
		c.Delta = uint32(r.Intn(200))
	}
	c.MaxCltv = uint32(r.Intn(1 << 16))
	if r.Chance(1, 2) {
		c.MaxCltv = 2016
	}
	c.RejectDelta = uint32(r.Intn(60))
	c.Height = uint32(r.U64n(1 << 31))
	if r.Chance(1, 2) {
		c.Height = uint32(r.Intn(1000000))
	}
	switch r.Intn(3) {
	case 0:
		c.MinHTLC = 0
	case 1:
		c.MinHTLC = 1000
	default:
		c.MinHTLC = r.U64n(1000000)
	}
	switch r.Intn(4) {
	case 0:
		c.MaxHTLC = 0
	case 1:
		c.MaxHTLC = bandwidth
	case 2:
		c.MaxHTLC = c.MinHTLC + r.U64n(10000000)
	default:
		c.MaxHTLC = r.U64n(1000000000000)
	}

	// attacker-controlled fields biased to every comparison's threshold.
	outAround := []uint64{c.MinHTLC, c.MaxHTLC, bandwidth, 1000000}
	c.Out = verifC09Pick(r, outAround)
	if r.Chance(1, 3) {
		c.Out = c.MinHTLC + r.U64n(100000)
	}
	// exact expected fee for this out (only meaningful without overflow)
	exp := new(big.Int).Mul(verifBig(c.Out), verifBig(c.Rate))
	exp.Quo(exp, big.NewInt(1000000))
	exp.Add(exp, verifBig(c.Base))
	rate := int64(c.InRate)
	if rate > 10000000 {
		rate = 10000000
	}
	if rate < -10000000 {
		rate = -10000000
	}
	basis := new(big.Int).Add(verifBig(c.Out), exp)
	prop := new(big.Int).Mul(basis, big.NewInt(rate))
	prop.Quo(prop, big.NewInt(1000000))
	tot := new(big.Int).Add(exp, prop)
	tot.Add(tot, big.NewInt(int64(c.InBase)))
	tot.Add(tot, verifBig(c.Out))
	inAround := []uint64{c.Out}
	if tot.Sign() >= 0 && tot.IsUint64() {
		inAround = append(inAround, tot.Uint64(), tot.Uint64(), tot.Uint64())
	}
	c.In = verifC09Pick(r, inAround)
	// incoming amount is bounded by the maximum channel size
	if c.In > 1000000000000 {
		c.In %= 1000000000001
	}
	expAround := []uint64{uint64(c.Height) + uint64(c.RejectDelta),
		uint64(c.Height) + uint64(c.MaxCltv)}
	c.OutExp = uint32(verifC09Pick(r, expAround))
	inExpAround := []uint64{uint64(c.OutExp), uint64(c.OutExp) + uint64(c.Delta),
		uint64(c.OutExp) + uint64(c.MaxCltv)}
	c.InExp = uint32(verifC09Pick(r, inExpAround))
	return c
}

// verifC09InDomain implements the statement's "realistic domain": beyond it
// the int64 product inside the inbound fee computation overflows; such cases
// are reported as out-of-domain observations, not judged.
func verifC09InDomain(c verifC09Case) bool {
	if c.Transit {
		return true
	}
	if c.In < c.Out {
		// must be rejected whatever the fee arithmetic does.
		return true
	}
	out := verifBig(c.Out)
	outFee := new(big.Int).Mul(out, verifBig(c.Rate))
	limit := new(big.Int).Lsh(big.NewInt(1), 64)
	if outFee.Cmp(limit) >= 0 {
		// uint64 product wraps: only reachable with out > 2^44, far
		// above the incoming amount bound, which always rejects. We
		// still judge the accept/reject decision in that case below
		// (must reject because in < out).
		return c.In < c.Out
	}
	outFee.Quo(outFee, big.NewInt(1000000))
	outFee.Add(outFee, verifBig(c.Base))
	basis := new(big.Int).Add(out, outFee)
	if basis.Cmp(limit) >= 0 {
		return c.In < c.Out
	}
	rate := int64(c.InRate)
	if rate > 10000000 {
		rate = 10000000
	}
	if rate < -10000000 {
		rate = -10000000
	}
	prod := new(big.Int).Mul(basis, big.NewInt(rate))
	prod.Abs(prod)
	lim63 := new(big.Int).Lsh(big.NewInt(1), 62)
	if prod.Cmp(lim63) >= 0 || basis.Cmp(lim63) >= 0 {
		return false
	}
	return true
}

func TestVerifC09(t *testing.T) {
	vc := verifStart(t, "C09", "decision")
	defer vc.Finish()

	chanAmt := 5 * 100000000
	h, err := newSingleLinkTestHarness(t, 5*100000000, 0)
	if err != nil {
		t.Fatalf("harness: %v", err)
	}
	_ = chanAmt
	link := h.aliceLink.(*channelLink)
	link.cfg.FailAliasUpdate = func(lnwire.ShortChannelID,
		bool) *lnwire.ChannelUpdate1 {

		return nil
	}
	bandwidth := uint64(link.Bandwidth())
	vc.Note("bandwidth_msat", fmt.Sprint(bandwidth))

	total := vc.N(200000, 20000000)
	var payHash [32]byte
	for i := 0; i < total; i++ {
		if !vc.Mine(i) {
			continue
		}
		r := vc.Rng(i)
		c := verifC09Gen(r, bandwidth)
		if vc.Only >= 0 {
			vc.Case(i, c)
		}
		vc.Count("cases", 1)

		link.cfg.FwrdingPolicy = models.ForwardingPolicy{
			MinHTLCOut:    lnwire.MilliSatoshi(c.MinHTLC),
			MaxHTLC:       lnwire.MilliSatoshi(c.MaxHTLC),
			BaseFee:       lnwire.MilliSatoshi(c.Base),
			FeeRate:       lnwire.MilliSatoshi(c.Rate),
			TimeLockDelta: c.Delta,
		}
		link.cfg.MaxOutgoingCltvExpiry = c.MaxCltv
		link.cfg.OutgoingCltvRejectDelta = c.RejectDelta

		var le *LinkError
		if c.Transit {
			le = link.CheckHtlcTransit(payHash,
				lnwire.MilliSatoshi(c.Out), c.OutExp, c.Height, nil)
		} else {
			le = link.CheckHtlcForward(payHash,
				lnwire.MilliSatoshi(c.In), lnwire.MilliSatoshi(c.Out),
				c.InExp, c.OutExp,
				models.InboundFee{Base: c.InBase, Rate: c.InRate},
				c.Height, hop.Source, nil)
		}
		if !verifC09InDomain(c) {
			vc.Count("out_of_domain", 1)
			continue
		}
		viol := verifC09Violated(c, bandwidth)
		vc.Count("decisions", 1)
		if le == nil {
			vc.Count("accepted", 1)
			if len(viol) > 0 {
				names := ""
				for k := range viol {
					names += k + ","
				}
				vc.Violation("accept_iff_rules", "accepted-with-violated:"+names,
					fmt.Sprintf("accepted although rules %s are violated: %+v", names, c), c)
			}
			vc.Sig(fmt.Sprintf("acc|t%v|ib%d|ir%d", c.Transit, verifSign(int64(c.InBase)), verifSign(int64(c.InRate))))
			continue
		}
		vc.Count("rejected", 1)
		if len(viol) == 0 {
			vc.Violation("accept_iff_rules", "rejected-with-none-violated",
				fmt.Sprintf("rejected with %T although every rule holds: %+v", le.WireMessage(), c), c)
			continue
		}
		rules := verifC09RuleOf(le)
		ok := false
		for _, rn := range rules {
			if viol[rn] {
				ok = true
			}
		}
		if !ok {
			names := ""
			for k := range viol {
				names += k + ","
			}
			vc.Violation("failure_names_violated_rule",
				fmt.Sprintf("%T-but-violated:%s", le.WireMessage(), names),
				fmt.Sprintf("failure %T names none of the violated rules %s: %+v", le.WireMessage(), names, c), c)
		}
		vc.Sig(fmt.Sprintf("rej|%T|n%d|t%v", le.WireMessage(), len(viol), c.Transit))
		if i%50000 == 0 {
			vc.Sample(map[string]any{"case": c, "verdict": fmt.Sprintf("%T", le.WireMessage())})
		}
	}
}

func verifSign(x int64) int {
	if x < 0 {
		return -1
	}
	if x > 0 {
		return 1
	}
	return 0
}
