package htlcswitch

// C09, unit `concurrent_policy`: the forwarding decision while the node's own
// policy is being updated (UpdateForwardingPolicy from the RPC goroutine
// while link goroutines decide). The statement's "configured policy" is then
// one of the two policies the operator configured: a decision must be the
// exact-arithmetic decision under the old OR under the new policy - never a
// blend of fields of both. Oracle: exact math/big rule evaluation (same as
// the sequential unit) under each of the two policies.

import (
	"fmt"
	"sync"
	"sync/atomic"
	"testing"

	"github.com/lightningnetwork/lnd/graph/db/models"
	"github.com/lightningnetwork/lnd/htlcswitch/hop"
	"github.com/lightningnetwork/lnd/lnwire"
)

type verifC09ConcCase struct {
	P1, P2 verifC09Case // same HTLC, different policy fields
	Kind   string
}

func verifC09Policy(c verifC09Case) models.ForwardingPolicy {
	return models.ForwardingPolicy{
		MinHTLCOut:    lnwire.MilliSatoshi(c.MinHTLC),
		MaxHTLC:       lnwire.MilliSatoshi(c.MaxHTLC),
		BaseFee:       lnwire.MilliSatoshi(c.Base),
		FeeRate:       lnwire.MilliSatoshi(c.Rate),
		TimeLockDelta: c.Delta,
	}
}

// verifC09ConcGen builds two honest policies and one HTLC that each policy
// rejects for a *different* rule, such that a decision mixing fields of both
// policies would accept (classes), plus unbiased pairs.
func verifC09ConcGen(r *verifRng, bandwidth uint64) verifC09ConcCase {
	var a verifC09Case
	a.Height = uint32(100000 + r.Intn(500000))
	a.MaxCltv = 2016
	a.RejectDelta = uint32(r.Intn(20))
	a.Delta = uint32(10 + r.Intn(100))
	a.Base = uint64(r.Intn(3000))
	a.Rate = uint64(r.Intn(5000))
	a.MinHTLC = uint64(1000 + r.Intn(100000))
	a.MaxHTLC = a.MinHTLC + 1000000 + r.U64n(100000000)
	if a.MaxHTLC > bandwidth {
		a.MaxHTLC = bandwidth
	}
	a.Transit = false
	b := a
	fee := func(c verifC09Case, out uint64) uint64 {
		return c.Base + out*c.Rate/1000000
	}
	kind := r.Intn(7)
	var name string
	switch kind {
	case 0:
		// old: amount above max, cheap fee; new: larger max, dearer fee.
		name = "max-vs-fee"
		b.MaxHTLC = a.MaxHTLC + 1 + r.U64n(1000000)
		if b.MaxHTLC > bandwidth {
			b.MaxHTLC = bandwidth
			a.MaxHTLC = bandwidth - 1 - r.U64n(100000)
		}
		b.Base = a.Base + 1 + uint64(r.Intn(5000))
		b.Rate = a.Rate + uint64(r.Intn(3000))
		a.Out = a.MaxHTLC + 1 + r.U64n(b.MaxHTLC-a.MaxHTLC)
		a.In = a.Out + fee(a, a.Out) // enough for old, too little for new
	case 1:
		// old: below min, cheap fee; new: lower min, dearer fee.
		name = "min-vs-fee"
		b.MinHTLC = a.MinHTLC - 1 - r.U64n(a.MinHTLC-1)
		b.Base = a.Base + 1 + uint64(r.Intn(5000))
		a.Out = b.MinHTLC + r.U64n(a.MinHTLC-b.MinHTLC)
		a.In = a.Out + fee(a, a.Out)
	case 2:
		// old: small delta + tight max; new: larger delta + larger max.
		name = "max-vs-delta"
		b.MaxHTLC = a.MaxHTLC + 1 + r.U64n(1000000)
		if b.MaxHTLC > bandwidth {
			b.MaxHTLC = bandwidth
			a.MaxHTLC = bandwidth - 1 - r.U64n(100000)
		}
		b.Delta = a.Delta + 1 + uint32(r.Intn(40))
		a.Out = a.MaxHTLC + 1 + r.U64n(b.MaxHTLC-a.MaxHTLC)
		a.In = a.Out + fee(a, a.Out) + uint64(r.Intn(3))
		a.OutExp = a.Height + a.RejectDelta + 1 + uint32(r.Intn(100))
		a.InExp = a.OutExp + a.Delta // enough for old delta only
	case 3:
		// fee schedule split: old has high base / low rate, new has low
		// base / high rate; the HTLC pays min(base)+min(rate) only.
		name = "base-vs-rate"
		a.Base = 2000 + uint64(r.Intn(3000))
		a.Rate = uint64(r.Intn(100))
		b.Base = uint64(r.Intn(1000))
		b.Rate = 2000 + uint64(r.Intn(5000))
		a.Out = a.MinHTLC + 1000000 + r.U64n(1000000)
		if a.Out > a.MaxHTLC {
			a.Out = a.MaxHTLC
		}
		a.In = a.Out + b.Base + a.Out*a.Rate/1000000
	case 4:
		// both policies accept: must be accepted whatever is observed.
		name = "both-accept"
		b.Base = a.Base + uint64(r.Intn(100))
		a.Out = a.MinHTLC + r.U64n(a.MaxHTLC-a.MinHTLC+1)
		a.In = a.Out + fee(b, a.Out) + fee(a, a.Out)
	case 5:
		// exactly one accepts.
		name = "one-accepts"
		b.Base = a.Base + 1 + uint64(r.Intn(5000))
		a.Out = a.MinHTLC + r.U64n(a.MaxHTLC-a.MinHTLC+1)
		a.In = a.Out + fee(a, a.Out)
	default:
		name = "delta-vs-fee"
		b.Delta = a.Delta + 1 + uint32(r.Intn(40))
		a.Base = a.Base + 1 + uint64(r.Intn(5000)) // old dearer, smaller delta
		a.Out = a.MinHTLC + r.U64n(a.MaxHTLC-a.MinHTLC+1)
		a.In = a.Out + fee(b, a.Out) // enough for new fee only
		a.OutExp = a.Height + a.RejectDelta + 1 + uint32(r.Intn(100))
		a.InExp = a.OutExp + a.Delta // enough for old delta only
	}
	if a.OutExp == 0 {
		a.OutExp = a.Height + a.RejectDelta + 1 + uint32(r.Intn(100))
		a.InExp = a.OutExp + b.Delta + a.Delta
	}
	// same HTLC under both policies
	b.In, b.Out, b.InExp, b.OutExp = a.In, a.Out, a.InExp, a.OutExp
	return verifC09ConcCase{P1: a, P2: b, Kind: name}
}

func TestVerifC09Conc(t *testing.T) {
	vc := verifStart(t, "C09", "concurrent_policy")
	defer vc.Finish()

	h, err := newSingleLinkTestHarness(t, 5*100000000, 0)
	if err != nil {
		t.Fatalf("harness: %v", err)
	}
	link := h.aliceLink.(*channelLink)
	link.cfg.FailAliasUpdate = func(lnwire.ShortChannelID,
		bool) *lnwire.ChannelUpdate1 {

		return nil
	}
	bandwidth := uint64(link.Bandwidth())

	total := vc.N(600, 20000)
	toggles := 3000
	if vc.Thorough() {
		toggles = 6000
	}
	var payHash [32]byte
	for i := 0; i < total; i++ {
		if !vc.Mine(i) {
			continue
		}
		r := vc.Rng(i)
		cc := verifC09ConcGen(r, bandwidth)
		vc.Case(i, cc)
		v1 := verifC09Violated(cc.P1, bandwidth)
		v2 := verifC09Violated(cc.P2, bandwidth)
		pol1, pol2 := verifC09Policy(cc.P1), verifC09Policy(cc.P2)
		link.UpdateForwardingPolicy(pol1)
		link.cfg.MaxOutgoingCltvExpiry = cc.P1.MaxCltv
		link.cfg.OutgoingCltvRejectDelta = cc.P1.RejectDelta

		var done atomic.Bool
		var wg sync.WaitGroup
		type obs struct {
			accepts, rejects, badAccept, badReject, mustAccept int64
			detail                                             string
		}
		res := make([]obs, 2)
		for g := 0; g < 2; g++ {
			wg.Add(1)
			go func(g int) {
				defer wg.Done()
				o := &res[g]
				for !done.Load() {
					le := link.CheckHtlcForward(payHash,
						lnwire.MilliSatoshi(cc.P1.In), lnwire.MilliSatoshi(cc.P1.Out),
						cc.P1.InExp, cc.P1.OutExp, models.InboundFee{},
						cc.P1.Height, hop.Source, nil)
					if le == nil {
						o.accepts++
						if len(v1) > 0 && len(v2) > 0 {
							o.badAccept++
						}
						continue
					}
					o.rejects++
					if len(v1) == 0 && len(v2) == 0 {
						o.mustAccept++
						continue
					}
					ok := false
					for _, rn := range verifC09RuleOf(le) {
						if v1[rn] || v2[rn] {
							ok = true
						}
					}
					if !ok {
						o.badReject++
						o.detail = fmt.Sprintf("%T", le.WireMessage())
					}
				}
			}(g)
		}
		for k := 0; k < toggles; k++ {
			if k%2 == 0 {
				link.UpdateForwardingPolicy(pol2)
			} else {
				link.UpdateForwardingPolicy(pol1)
			}
		}
		done.Store(true)
		wg.Wait()

		var tot obs
		for _, o := range res {
			tot.accepts += o.accepts
			tot.rejects += o.rejects
			tot.badAccept += o.badAccept
			tot.badReject += o.badReject
			tot.mustAccept += o.mustAccept
			if o.detail != "" {
				tot.detail = o.detail
			}
		}
		vc.Count("conc_decisions", tot.accepts+tot.rejects)
		vc.Count("conc_accepts", tot.accepts)
		vc.Count("conc_policy_toggles", int64(toggles))
		vc.Count("conc_kind_"+cc.Kind, 1)
		names := func(v map[string]bool) string {
			s := ""
			for _, k := range []string{"amount", "fee", "cltv_delta", "delta_too_far",
				"below_min", "above_max", "too_soon", "too_far", "bandwidth"} {
				if v[k] {
					s += k + ","
				}
			}
			return s
		}
		if tot.badAccept > 0 {
			vc.Violation("accept_iff_rules", "concurrent-update:accepted-under-neither-policy:"+cc.Kind,
				fmt.Sprintf("%d of %d decisions made while the policy was switched between two configured "+
					"policies accepted an HTLC that the old policy rejects (%s) and the new policy rejects (%s): %+v",
					tot.badAccept, tot.accepts+tot.rejects, names(v1), names(v2), cc), cc)
		}
		if tot.mustAccept > 0 {
			vc.Violation("accept_iff_rules", "concurrent-update:rejected-under-both-accepting:"+cc.Kind,
				fmt.Sprintf("%d decisions rejected an HTLC that both configured policies accept: %+v",
					tot.mustAccept, cc), cc)
		}
		if tot.badReject > 0 {
			vc.Violation("failure_names_violated_rule", "concurrent-update:"+tot.detail+":"+cc.Kind,
				fmt.Sprintf("%d rejections name (%s) a rule violated under neither configured policy "+
					"(old: %s new: %s): %+v", tot.badReject, tot.detail, names(v1), names(v2), cc), cc)
		}
		if len(v1) > 0 && len(v2) > 0 {
			vc.Count("conc_neither_accepts_cases", 1)
		}
		vc.Sig(fmt.Sprintf("conc|%s|a%v|r%v", cc.Kind, tot.accepts > 0, tot.rejects > 0))
		if i%100 == 0 {
			vc.Sample(map[string]any{"case": cc, "accepts": tot.accepts, "rejects": tot.rejects})
		}
		vc.CaseDone(i)
	}
}
