package htlcswitch

// C07 monitor (switch-level part): a real Switch on a persistent bbolt DB with
// mock links is driven by PRNG operation sequences over 1-3 forwarded HTLCs:
// forwards and duplicate re-forwards by the incoming link, the outgoing links
// receiving / opening (OpenCircuits) / committing adds, local fails by the
// outgoing link (mailbox.FailAdd), off-chain responses, outgoing channels
// going on chain and the contract court handing the switch ResolutionMsgs
// (ProcessContractResolution, with duplicates), the outgoing channel becoming
// fully closed (FetchClosedChannels), the incoming link receiving responses,
// locking them in (DeleteCircuits + AckPacket, the call sequence of
// channelLink.ackDownStreamPackets) or only half of it, links flapping, and the
// switch being stopped and started again on the same DB at arbitrary points.
// There are two incoming channels; either can go on chain and become fully
// closed while the switch runs (RemoveLink is all the running switch sees;
// the circuits are purged by the next start). The incoming links forward
// single adds and batches (one CommitCircuits transaction), and a batch can be
// interrupted: the link's quit channel closes while ForwardPackets hands the
// batch - fresh adds and replays - over to a busy switch (the forwarder
// goroutine is parked deterministically), the link replays in its next epoch.
// Every operation runs under a capture of the DB wrapper: a consistent image
// of the DB is taken right after every committed write transaction, and a
// fresh switch is booted from every image (c07swcrash_test.go).
//
// Everything goes through the switch's own API (ForwardPackets,
// ProcessContractResolution, AddLink/RemoveLink, CircuitModifier, the mailbox
// the switch attaches to the link); the circuit map and the resolution store
// are the switch's own. A small reference model of (circuit, keystone,
// committed?, response accepted in this lifetime, response waiting in the
// incoming mailbox, resolution stored?, locked in?, outgoing channel status)
// says what the incoming link has to receive and what a restarted switch has
// to know.
//
// Verdict-bearing oracles (each tied to a sentence of the statement):
//   at_most_one_forward   - "an incoming HTLC is handed to an outgoing channel
//                           at most once": handleSwitchPacket(add) calls per
//                           incoming key over the whole case (model-free; also
//                           after a mid-life mismatch of the circuit map, when
//                           all links flap and replay once more).
//   at_most_one_response  - "at most one settle-or-fail per HTLC is delivered
//                           back to the incoming channel": a response reaching
//                           the incoming link after the link locked one in; two
//                           responses for one HTLC within one link epoch; a
//                           response for an HTLC that was never forwarded; a
//                           response that is none of those handed to the switch
//                           for this HTLC (a second, different settle-or-fail).
//                           A re-delivery of a not yet locked-in response after
//                           a link or switch restart is expected, not a verdict.
//   restart_state         - "After a restart the switch knows exactly the
//                           circuits that were durably recorded: those whose
//                           outgoing HTLC reached a commitment stay open, ...,
//                           circuits of fully closed channels are purged except
//                           those still awaiting delivery of an on-chain
//                           resolution": LookupCircuit / LookupOpenCircuit /
//                           NumPending / NumOpen of the restarted switch against
//                           the model's restart image.
//   awaiting_resolution   - same sentence ("still awaiting delivery of an
//                           on-chain resolution"): a resolution message durably
//                           handed to the switch for a circuit whose response is
//                           not locked in has to reach the incoming link again
//                           after every restart.
//   failed_back           - "rolled back to half-open so the HTLC is failed back
//                           rather than lost or doubled": the duplicate
//                           re-forward of a half-open circuit after a restart
//                           has to produce a fail at the incoming link.
// Anything else the model predicts (mid-lifetime state, mailbox contents) is
// compared as a diagnostic only.

import (
	"crypto/sha256"
	"errors"
	"fmt"
	"os"
	"path/filepath"
	"runtime"
	"sort"
	"strings"
	"sync"
	"testing"
	"time"

	"github.com/btcsuite/btcd/btcec/v2/ecdsa"
	"github.com/lightningnetwork/lnd/chainntnfs"
	"github.com/lightningnetwork/lnd/channeldb"
	"github.com/lightningnetwork/lnd/chanstate"
	"github.com/lightningnetwork/lnd/clock"
	"github.com/lightningnetwork/lnd/contractcourt"
	"github.com/lightningnetwork/lnd/htlcswitch/hop"
	"github.com/lightningnetwork/lnd/kvdb"
	"github.com/lightningnetwork/lnd/lntest/mock"
	"github.com/lightningnetwork/lnd/lnwire"
	"github.com/lightningnetwork/lnd/ticker"
)

// ---------------------------------------------------------------------------
// Model.
// ---------------------------------------------------------------------------

// verifC07swResp is a settle-or-fail for one HTLC.
type verifC07swResp struct {
	Settle bool
	Src    string // "off" (off-chain), "res" (on chain), "local", "local-dup"
}

func (r *verifC07swResp) String() string {
	if r == nil {
		return "-"
	}
	if r.Settle {
		return "settle/" + r.Src
	}
	return "fail/" + r.Src
}

type verifC07swCirc struct {
	n    int
	in   CircuitKey
	inCh int // incoming channel index
	ch   int // outgoing channel index
	pre  [32]byte
	hash [32]byte

	// durable circuit map state.
	exists bool
	lfd    bool    // loaded from disk (committed in an earlier lifetime)
	out    *uint64 // keystone: outgoing htlc id

	// volatile, per switch lifetime.
	closing   *verifC07swResp // response accepted by the switch in this lifetime
	mbox      *verifC07swResp // response waiting (unacked) for the incoming link
	got       bool            // ... and received by the link in this epoch
	redeliver bool            // stored resolution re-forwarded at this start
	inOutMbox bool            // add waits (unacked) in the outgoing mailbox
	outGot    bool            // ... and was received by the outgoing link

	// link side.
	forwarded bool
	fwdLife   int
	fwdEpoch  int
	inDone    bool // the incoming link deleted the circuit (response committed)
	ackedDone bool // ... and acked the response packet: lock-in complete

	// inputs handed to the switch for this HTLC.
	off       *verifC07swResp
	res       *verifC07swResp
	resKey    CircuitKey // outgoing key the resolution message names
	resDups   int
	resAcked  bool // ProcessContractResolution returned nil (guarded by x.mu)
	localFail bool
	everComm  bool // the outgoing HTLC reached a commitment at some point

	// observations.
	handedReal  int
	addPkt      *htlcPacket
	realGotLife int
	realGotEp   int
	realGot     bool
	nDeliv      int
}

type verifC07swOut struct {
	scid   lnwire.ShortChannelID
	cid    lnwire.ChannelID
	pub    [33]byte
	status int // 0 open, 1 on chain (close pending), 2 fully closed
	online bool
	link   *verifC07swLink
	next   uint64 // next outgoing htlc id (link memory)
	signed uint64 // ids below reached a commitment (durable channel state)
	held   []*verifC07swCirc
	opened []*verifC07swCirc // keystone written, commitment not yet signed
}

// verifC07swIn is one incoming channel.
type verifC07swIn struct {
	scid   lnwire.ShortChannelID
	cid    lnwire.ChannelID
	pub    [33]byte
	status int // 0 open, 1 on chain (close pending), 2 fully closed
	on     bool
	link   *verifC07swLink
	epoch  int
}

// verifC07swLink is lnd's mockChannelLink plus observation of the adds the
// switch hands over, a per-channel peer identity (so that non-strict
// forwarding has exactly one candidate) and the TrimOpenCircuits call a real
// link makes when it starts (link.go, channelLink.Start).
type verifC07swLink struct {
	*mockChannelLink
	x      *verifC07swRun
	fork   *verifC07swFork // nil: the link belongs to the case's main switch
	ch     int             // -1-i: incoming channel i
	pub    [33]byte
	trimAt *uint64
}

func (l *verifC07swLink) handleSwitchPacket(pkt *htlcPacket) error {
	if l.fork != nil {
		l.fork.onHanded(pkt)
		return l.mockChannelLink.handleSwitchPacket(pkt)
	}
	l.x.onHanded(l.ch, pkt)
	err := l.mockChannelLink.handleSwitchPacket(pkt)
	// the forwarder goroutine can be parked right after a hand-over.
	l.x.gate.pass(pkt.inKey())
	return err
}

// verifC07swGate parks the switch's forwarder goroutine (a busy switch):
// either right after the add of a chosen incoming key was handed to its
// outgoing link, or inside a dummy add that never touches the circuit map.
type verifC07swGate struct {
	mu      sync.Mutex
	armed   bool
	key     CircuitKey
	entered chan struct{}
	release chan struct{}
}

func (g *verifC07swGate) arm(k CircuitKey) {
	g.mu.Lock()
	g.armed, g.key = true, k
	g.entered, g.release = make(chan struct{}), make(chan struct{})
	g.mu.Unlock()
}

func (g *verifC07swGate) pass(k CircuitKey) {
	g.mu.Lock()
	if !g.armed || g.key != k {
		g.mu.Unlock()
		return
	}
	g.armed = false
	entered, release := g.entered, g.release
	g.mu.Unlock()
	close(entered)
	<-release
}

// verifC07swParkObf is the obfuscator of the dummy add: the switch fails the
// dummy (unknown outgoing channel) and asks for the failure to be encrypted.
type verifC07swParkObf struct {
	hop.ErrorEncrypter
	g *verifC07swGate
	k CircuitKey
}

func (o *verifC07swParkObf) EncryptFirstHop(lnwire.FailureMessage) (
	lnwire.OpaqueReason, error) {

	o.g.pass(o.k)
	return nil, fmt.Errorf("verifC07sw: dummy add")
}

func (l *verifC07swLink) PeerPubKey() [33]byte { return l.pub }

func (l *verifC07swLink) Start() error {
	if l.trimAt != nil {
		err := l.htlcSwitch.CircuitModifier().TrimOpenCircuits(
			l.shortChanID, *l.trimAt,
		)
		if err != nil {
			return err
		}
	}
	return l.mockChannelLink.Start()
}

var _ ChannelLink = (*verifC07swLink)(nil)

// ---------------------------------------------------------------------------
// Runner.
// ---------------------------------------------------------------------------

type verifC07swRun struct {
	vc  *verifCtx
	t   *testing.T
	r   *verifRng
	dir string

	dbName string
	db     *verifC07swDB
	s      *Switch

	life int
	ins  [2]*verifC07swIn

	outs  [2]*verifC07swOut
	circs []*verifC07swCirc
	store map[CircuitKey]*verifC07swCirc // resolution store model, by out key

	mu      sync.Mutex
	trace   []string
	feat    map[string]bool
	bad     bool
	aborted bool

	noLock      bool
	restartW    int
	inCloseW    int
	midMismatch bool

	gate verifC07swGate

	// crash-point forks (c07swcrash_test.go).
	cur       *verifC07swCapture
	laterSem  chan struct{}
	laterWG   sync.WaitGroup
	fr        *verifRng
	crashMode int
	nImg      int
}

func (x *verifC07swRun) log(format string, a ...any) {
	x.trace = append(x.trace, fmt.Sprintf(format, a...))
}

func (x *verifC07swRun) witness() any {
	t := x.trace
	if len(t) > 80 {
		t = t[len(t)-80:]
	}
	return map[string]any{"ops": append([]string(nil), t...)}
}

func (x *verifC07swRun) violate(oracle, key, detail string) {
	x.bad = true
	x.log("VIOLATION %s/%s: %s", oracle, key, detail)
	x.vc.Violation(oracle, key, detail, x.witness())
}

func (x *verifC07swRun) diag(name, detail string) {
	x.log("DIAG %s: %s", name, detail)
	x.vc.Diag(name, detail+" | "+strings.Join(x.tail(12), " ; "))
}

// abort ends a case whose harness-side bookkeeping can no longer be trusted.
func (x *verifC07swRun) abort(name, detail string) {
	x.aborted = true
	x.diag(name, detail)
	x.vc.Count("sw_cases_aborted", 1)
}

func (x *verifC07swRun) tail(n int) []string {
	t := x.trace
	if len(t) > n {
		t = t[len(t)-n:]
	}
	return t
}

func (x *verifC07swRun) outKey(c *verifC07swCirc) CircuitKey {
	return CircuitKey{ChanID: x.outs[c.ch].scid, HtlcID: *c.out}
}

func (x *verifC07swRun) byOut(k CircuitKey) *verifC07swCirc {
	for _, c := range x.circs {
		if c.exists && c.out != nil && x.outKey(c) == k {
			return c
		}
	}
	return nil
}

func (x *verifC07swRun) byIn(k CircuitKey) *verifC07swCirc {
	for _, c := range x.circs {
		if c.in == k {
			return c
		}
	}
	return nil
}

func (x *verifC07swRun) committed(c *verifC07swCirc) bool {
	return c.out != nil && *c.out < x.outs[c.ch].signed
}

// --- switch construction ----------------------------------------------------

func (x *verifC07swRun) newSwitch() (*Switch, error) {
	return x.newSwitchOn(x.db)
}

func (x *verifC07swRun) newSwitchOn(db kvdb.Backend) (*Switch, error) {
	noChans := func() ([]*chanstate.OpenChannel, error) { return nil, nil }
	cfg := Config{
		DB:                   db,
		FetchAllOpenChannels: noChans,
		FetchAllChannels:     noChans,
		FetchClosedChannels: func(pendingOnly bool) (
			[]*chanstate.ChannelCloseSummary, error) {

			var res []*chanstate.ChannelCloseSummary
			for _, in := range x.ins {
				if in.status == 0 || (pendingOnly && in.status != 1) {
					continue
				}
				res = append(res, &chanstate.ChannelCloseSummary{
					ShortChanID: in.scid,
					CloseType:   chanstate.RemoteForceClose,
					IsPending:   in.status == 1,
				})
			}
			for _, o := range x.outs {
				if o.status == 0 || (pendingOnly && o.status != 1) {
					continue
				}
				res = append(res, &chanstate.ChannelCloseSummary{
					ShortChanID: o.scid,
					CloseType:   chanstate.RemoteForceClose,
					IsPending:   o.status == 1,
				})
			}
			return res, nil
		},
		SwitchPackager:        channeldb.NewSwitchPackager(),
		ExtractErrorEncrypter: verifC07Extracter,
		FwdingLog: &mockForwardingLog{
			events: make(map[time.Time]channeldb.ForwardingEvent),
		},
		FetchLastChannelUpdate: func(scid lnwire.ShortChannelID) (
			*lnwire.ChannelUpdate1, error) {

			return &lnwire.ChannelUpdate1{ShortChannelID: scid}, nil
		},
		Notifier: &mock.ChainNotifier{
			SpendChan: make(chan *chainntnfs.SpendDetail),
			EpochChan: make(chan *chainntnfs.BlockEpoch),
			ConfChan:  make(chan *chainntnfs.TxConfirmation),
		},
		FwdEventTicker:         ticker.NewForce(DefaultFwdEventInterval),
		LogEventTicker:         ticker.NewForce(DefaultLogInterval),
		AckEventTicker:         ticker.NewForce(DefaultAckInterval),
		HtlcNotifier:           &mockHTLCNotifier{},
		Clock:                  clock.NewDefaultClock(),
		MailboxDeliveryTimeout: time.Hour,
		MaxFeeExposure:         DefaultMaxFeeExposure,
		SignAliasUpdate: func(*lnwire.ChannelUpdate1) (*ecdsa.Signature,
			error) {

			return testSig, nil
		},
		IsAlias: isAlias,
	}
	return New(cfg, testStartingHeight)
}

func (x *verifC07swRun) newLink(ch int) *verifC07swLink {
	return x.newLinkOn(x.s, nil, ch)
}

func (x *verifC07swRun) newLinkOn(s *Switch, f *verifC07swFork,
	ch int) *verifC07swLink {

	l := &verifC07swLink{x: x, fork: f, ch: ch}
	if ch < 0 {
		in := x.ins[-1-ch]
		l.pub = in.pub
		l.mockChannelLink = newMockChannelLink(
			s, in.cid, in.scid, lnwire.ShortChannelID{}, nil,
			true, false, false, false,
		)
		return l
	}
	o := x.outs[ch]
	l.pub = o.pub
	at := o.signed
	l.trimAt = &at
	l.mockChannelLink = newMockChannelLink(
		s, o.cid, o.scid, lnwire.ShortChannelID{}, nil,
		true, false, false, false,
	)
	return l
}

// barrier waits until the switch's forwarder goroutine has completely
// processed everything it received before.
func (x *verifC07swRun) barrier() { x.barrierOn(x.s) }

func (x *verifC07swRun) barrierOn(s *Switch) {
	errCh := make(chan error, 1)
	if err := s.routeAsync(&htlcPacket{}, errCh, nil); err != nil {
		x.t.Fatalf("verifC07sw: barrier: %v", err)
	}
	select {
	case <-errCh:
	case <-time.After(60 * time.Second):
		x.t.Fatalf("verifC07sw: barrier timed out")
	}
}

// drain reads everything the mailbox has to deliver to the link right now.
func (x *verifC07swRun) drain(l *verifC07swLink) []*htlcPacket {
	mb, ok := l.mailBox.(*memoryMailBox)
	if !ok {
		x.t.Fatalf("verifC07sw: unexpected mailbox type %T", l.mailBox)
	}
	var out []*htlcPacket
	deadline := time.Now().Add(60 * time.Second)
	for {
		select {
		case p := <-l.packets:
			out = append(out, p)
			continue
		default:
		}
		mb.pktCond.L.Lock()
		idle := mb.repHead == nil && mb.addHead == nil
		mb.pktCond.L.Unlock()
		if idle {
			select {
			case p := <-l.packets:
				out = append(out, p)
				continue
			default:
			}
			return out
		}
		if time.Now().After(deadline) {
			x.t.Fatalf("verifC07sw: mailbox did not drain")
		}
		runtime.Gosched()
		time.Sleep(20 * time.Microsecond)
	}
}

// onHanded is called (from the switch's goroutine) for every add the switch
// hands to an outgoing link.
func (x *verifC07swRun) onHanded(ch int, pkt *htlcPacket) {
	x.mu.Lock()
	defer x.mu.Unlock()
	if _, ok := pkt.htlc.(*lnwire.UpdateAddHTLC); !ok {
		return
	}
	c := x.byIn(pkt.inKey())
	if c == nil {
		return
	}
	c.handedReal++
	c.addPkt = pkt
}

// --- model helpers ----------------------------------------------------------

func (x *verifC07swRun) mboxPut(c *verifC07swCirc, r *verifC07swResp) {
	if c.mbox != nil {
		return // the mailbox keeps one response per incoming key
	}
	c.mbox = r
	c.got = false
}

// respond models a settle/fail entering the switch by outgoing key.
func (x *verifC07swRun) respond(k CircuitKey, r *verifC07swResp) string {
	c := x.byOut(k)
	if c == nil {
		return "unknown-circuit"
	}
	if c.closing != nil {
		x.feat["second-response-dropped"] = true
		x.vc.Count("sw_second_response_dropped", 1)
		return "dropped(closing)"
	}
	c.closing = r
	x.mboxPut(c, r)
	return "accepted"
}

// --- state comparison ---------------------------------------------------------

// compare checks the switch's circuit map against the model. verdict=true
// right after a restart.
func (x *verifC07swRun) compare(ctx string, verdict bool) {
	report := func(key, detail string) {
		if verdict {
			x.violate("restart_state", key, ctx+": "+detail)
		} else if !x.midMismatch {
			// Not a verdict by itself: the statement speaks about what
			// the switch knows after a restart. The case is cut short
			// with a restart, whose image is judged.
			x.midMismatch = true
			x.diag("sw_midlife_state_mismatch", ctx+": "+key+": "+detail)
		}
	}
	nPend, nOpen := 0, 0
	for _, c := range x.circs {
		got := x.s.circuits.LookupCircuit(c.in)
		if c.exists {
			nPend++
		}
		switch {
		case c.exists && got == nil:
			key := "durable-circuit-missing"
			if x.ins[c.inCh].status == 1 {
				key = "pending-close-incoming-channel-circuit-purged"
			}
			if c.out != nil && x.outs[c.ch].status == 2 {
				key = "closed-channel-circuit-purged-unexpectedly"
				if x.store[x.outKey(c)] == c {
					key = "circuit-awaiting-resolution-purged"
				}
			}
			report(key, fmt.Sprintf("circuit %d (%s) is not known to the switch; "+
				"model: keystone=%v committed=%v resolution-stored=%v locked-in=%v",
				c.n, verifC07KeyStr(c.in), c.out != nil, x.committed(c),
				c.res != nil, c.inDone))
			continue
		case !c.exists && got != nil:
			key := "unknown-circuit-present"
			if c.inDone {
				key = "deleted-circuit-present"
			} else if x.ins[c.inCh].status == 2 {
				key = "closed-incoming-channel-circuit-not-purged"
			} else if c.forwarded {
				key = "closed-channel-circuit-not-purged"
			}
			report(key, fmt.Sprintf("circuit %d (%s) is known to the switch, "+
				"model has none", c.n, verifC07KeyStr(c.in)))
			continue
		case !c.exists:
			continue
		}
		if c.out != nil {
			nOpen++
		}
		switch {
		case c.out != nil && !got.HasKeystone():
			report("committed-circuit-not-open", fmt.Sprintf("circuit %d (%s): "+
				"model has keystone %s (committed=%v), the switch has it half-open",
				c.n, verifC07KeyStr(c.in), verifC07KeyStr(x.outKey(c)), x.committed(c)))
		case c.out == nil && got.HasKeystone():
			report("uncommitted-circuit-open", fmt.Sprintf("circuit %d (%s): "+
				"model half-open, the switch has keystone %s",
				c.n, verifC07KeyStr(c.in), verifC07KeyStr(got.OutKey())))
		case c.out != nil && got.OutKey() != x.outKey(c):
			report("keystone-differs", fmt.Sprintf("circuit %d: %s vs model %s",
				c.n, verifC07KeyStr(got.OutKey()), verifC07KeyStr(x.outKey(c))))
		case c.out != nil:
			o := x.s.circuits.LookupOpenCircuit(x.outKey(c))
			if o == nil || o.Incoming != c.in {
				report("open-lookup-differs", fmt.Sprintf("circuit %d: "+
					"LookupOpenCircuit(%s) = %v", c.n, verifC07KeyStr(x.outKey(c)), o))
			}
		}
		if verdict && got.LoadedFromDisk != c.lfd {
			report("loaded-from-disk-differs", fmt.Sprintf("circuit %d: %v vs model %v",
				c.n, got.LoadedFromDisk, c.lfd))
		}
	}
	if n := x.s.circuits.NumPending(); n != nPend {
		report("num-pending-differs", fmt.Sprintf("NumPending=%d, model %d", n, nPend))
	}
	if n := x.s.circuits.NumOpen(); n != nOpen {
		report("num-open-differs", fmt.Sprintf("NumOpen=%d, model %d", n, nOpen))
	}
	if verdict {
		x.vc.Count("sw_restart_state_evals", 1)
	} else {
		x.vc.Count("sw_midlife_state_evals", 1)
	}
}

// --- operations ---------------------------------------------------------------

// addPkt builds the add the incoming link forwards for circuit c.
func (x *verifC07swRun) addPkt(c *verifC07swCirc) *htlcPacket {
	return &htlcPacket{
		incomingChanID:  c.in.ChanID,
		incomingHTLCID:  c.in.HtlcID,
		outgoingChanID:  x.outs[c.ch].scid,
		obfuscator:      NewMockObfuscator(),
		incomingAmount:  1100000,
		amount:          1000000,
		incomingTimeout: testStartingHeight + 200,
		outgoingTimeout: testStartingHeight + 100,
		sourceRef:       &channeldb.AddRef{Height: 1, Index: uint16(c.n)},
		htlc: &lnwire.UpdateAddHTLC{
			PaymentHash: c.hash,
			Amount:      1000000,
			Expiry:      testStartingHeight + 100,
		},
	}
}

// modelFwd is the model's reaction to the add of circuit c entering the
// switch.
func (x *verifC07swRun) modelFwd(c *verifC07swCirc) string {
	o := x.outs[c.ch]
	switch {
	case !c.exists:
		c.exists, c.lfd = true, false
		if o.online {
			c.inOutMbox, c.outGot = true, false
			return "handed"
		}
		c.localFail = true
		x.mboxPut(c, &verifC07swResp{Src: "local"})
		return "failed(no-link)"
	case c.out != nil:
		x.feat["dup-dropped-open"] = true
		x.vc.Count("sw_dup_dropped", 1)
		return "dropped(keystone)"
	case !c.lfd:
		x.feat["dup-dropped-mem"] = true
		x.vc.Count("sw_dup_dropped", 1)
		return "dropped(in-memory)"
	default:
		c.localFail = true
		x.mboxPut(c, &verifC07swResp{Src: "local-dup"})
		x.feat["dup-failed-back"] = true
		return "failed-back(half-open after restart)"
	}
}

func (x *verifC07swRun) opFwd(c *verifC07swCirc) {
	pkt := x.addPkt(c)
	dup := c.forwarded
	c.forwarded, c.fwdLife, c.fwdEpoch = true, x.life, x.ins[c.inCh].epoch
	err := x.s.ForwardPackets(nil, pkt)
	x.barrier()
	what := x.modelFwd(c)
	x.log("fwd(c%d %s->ch%d dup=%v) err=%v -> model %s", c.n,
		verifC07KeyStr(c.in), c.ch, dup, err, what)
	x.vc.Count("sw_forwards", 1)
	x.checkHanded()
}

// fwdable: the incoming link may forward (or re-forward) the add of c now.
func (x *verifC07swRun) fwdable(c *verifC07swCirc) bool {
	return !c.inDone && !(c.forwarded && c.fwdLife == x.life &&
		c.fwdEpoch == x.ins[c.inCh].epoch)
}

// opFwdBatch: the incoming link forwards all the adds it may forward in one
// ForwardPackets call (one CommitCircuits transaction), as a link does for
// the adds of one forwarding package.
func (x *verifC07swRun) opFwdBatch(i int) {
	var pkts []*htlcPacket
	var cs []*verifC07swCirc
	for _, c := range x.circs {
		if c.inCh != i || !x.fwdable(c) {
			continue
		}
		pkts = append(pkts, x.addPkt(c))
		cs = append(cs, c)
		c.forwarded, c.fwdLife, c.fwdEpoch = true, x.life, x.ins[i].epoch
	}
	err := x.s.ForwardPackets(nil, pkts...)
	x.barrier()
	var what []string
	for _, c := range cs {
		what = append(what, fmt.Sprintf("c%d>ch%d:%s", c.n, c.ch, x.modelFwd(c)))
	}
	x.log("fwdBatch(in%d) err=%v -> model %v", i, err, what)
	x.vc.Count("sw_forwards", int64(len(cs)))
	x.vc.Count("sw_batch_forwards", 1)
	x.feat["batch-forward"] = true
	x.checkHanded()
}

// opFwdBatchQuit: the incoming link is stopped (its quit channel closes) while
// ForwardPackets hands a batch of adds - fresh ones and replays - over to a
// busy switch: the first j fresh adds are taken by the switch, the others are
// not (ForwardPackets returns ErrLinkShuttingDown). The link replays the whole
// batch in its next epoch.
func (x *verifC07swRun) opFwdBatchQuit(i int) {
	in := x.ins[i]
	var pkts []*htlcPacket
	var cs, adds []*verifC07swCirc
	for _, c := range x.circs {
		if c.inCh != i || !x.fwdable(c) {
			continue
		}
		pkts = append(pkts, x.addPkt(c))
		cs = append(cs, c)
		if !c.exists {
			adds = append(adds, c)
		}
	}
	// j: the number of fresh adds the switch takes. The forwarder is parked
	// right after the hand-over of add j-1 (its outgoing link has to be
	// there for that), or before anything with a dummy add.
	cand := []int{0}
	for p := 0; p+1 < len(adds); p++ {
		if x.outs[adds[p].ch].online {
			cand = append(cand, p+1)
		}
	}
	j := cand[x.r.Intn(len(cand))]
	parkKey := CircuitKey{ChanID: lnwire.NewShortChanIDFromInt(uint64(180) << 40), HtlcID: 7}
	if j > 0 {
		parkKey = adds[j-1].in
	}
	x.gate.arm(parkKey)
	entered, release := x.gate.entered, x.gate.release
	waitFor := func(what string, ch <-chan struct{}) {
		select {
		case <-ch:
		case <-time.After(60 * time.Second):
			x.t.Fatalf("verifC07sw: fwdBatchQuit: timed out waiting for %s", what)
		}
	}
	dummyErr := make(chan error, 1)
	if j == 0 {
		dummy := &htlcPacket{
			incomingChanID: parkKey.ChanID,
			incomingHTLCID: parkKey.HtlcID,
			outgoingChanID: lnwire.NewShortChanIDFromInt(uint64(181) << 40),
			obfuscator: &verifC07swParkObf{
				ErrorEncrypter: NewMockObfuscator(), g: &x.gate, k: parkKey,
			},
			htlc: &lnwire.UpdateAddHTLC{},
		}
		if err := x.s.routeAsync(dummy, dummyErr, nil); err != nil {
			x.t.Fatalf("verifC07sw: fwdBatchQuit: dummy: %v", err)
		}
		waitFor("the forwarder to park", entered)
	}
	for _, c := range cs {
		c.forwarded, c.fwdLife, c.fwdEpoch = true, x.life, in.epoch
	}
	quit := make(chan struct{})
	fwdErr := make(chan error, 1)
	go func() { fwdErr <- x.s.ForwardPackets(quit, pkts...) }()
	if j == 0 {
		// Poll on observable state: the circuit of the first fresh add is
		// in the circuit map, ForwardPackets is at (or on its way to) the
		// hand-over, which cannot proceed while the forwarder is parked.
		deadline := time.Now().Add(60 * time.Second)
		for x.s.circuits.LookupCircuit(adds[0].in) == nil {
			if time.Now().After(deadline) {
				x.t.Fatalf("verifC07sw: fwdBatchQuit: circuit never committed")
			}
			runtime.Gosched()
			time.Sleep(20 * time.Microsecond)
		}
	} else {
		waitFor("the forwarder to park", entered)
	}
	close(quit)
	var err error
	select {
	case err = <-fwdErr:
	case <-time.After(60 * time.Second):
		x.t.Fatalf("verifC07sw: fwdBatchQuit: ForwardPackets did not return")
	}
	close(release)
	if j == 0 {
		<-dummyErr
	}
	x.barrier()

	// Model: adds[:j] entered the switch; the circuits of adds[j:] were
	// committed and removed again (a switch booted in between knows them
	// half-open); replays of known circuits are dropped, a half-open one
	// loaded from disk is not failed back by this interrupted call.
	if x.cur != nil {
		alt := append([]verifC07swSnap(nil), x.cur.pre...)
		for _, c := range adds[j:] {
			alt[c.n].exists = true
		}
		x.cur.alt = alt
	}
	var what []string
	nDup := 0
	for _, c := range cs {
		isAdd, pos := false, 0
		for p, a := range adds {
			if a == c {
				isAdd, pos = true, p
			}
		}
		switch {
		case isAdd && pos < j:
			what = append(what, fmt.Sprintf("c%d>ch%d:%s", c.n, c.ch, x.modelFwd(c)))
		case isAdd:
			what = append(what, fmt.Sprintf("c%d>ch%d:not-taken", c.n, c.ch))
		case c.out == nil && c.lfd:
			nDup++
			what = append(what, fmt.Sprintf("c%d:fail-back-skipped", c.n))
		default:
			nDup++
			what = append(what, fmt.Sprintf("c%d:%s", c.n, x.modelFwd(c)))
		}
	}
	x.log("fwdBatchQuit(in%d taken=%d of %d fresh, %d replays) err=%v -> model %v",
		i, j, len(adds), nDup, err, what)
	if !errors.Is(err, ErrLinkShuttingDown) {
		x.abort("sw_interrupted_batch_not_interrupted", fmt.Sprintf("err=%v", err))
		return
	}
	x.vc.Count("sw_forwards", int64(len(cs)))
	x.vc.Count("sw_interrupted_batches", 1)
	x.vc.Count("sw_interrupted_batch_adds_not_taken", int64(len(adds)-j))
	if nDup > 0 {
		x.vc.Count("sw_interrupted_batches_with_replays", 1)
		x.feat["interrupted-batch-with-replays"] = true
	}
	if j > 0 {
		x.feat["interrupted-batch-partly-taken"] = true
	}
	x.feat["interrupted-batch"] = true
	x.checkHanded()
	// the link is gone.
	x.opInDown(i)
}

// probeReplay runs after the switch's circuit map was seen to differ from the
// model in mid-life (the model cannot be trusted from here on): all links
// flap and the incoming links replay their un-acked adds once more. Only the
// model-free count of hand-overs per incoming HTLC is judged.
func (x *verifC07swRun) probeReplay() {
	x.log("probe: links flap, the incoming links replay their un-acked adds")
	for ch, o := range x.outs {
		if o.status != 0 || o.online {
			continue
		}
		l := x.newLink(ch)
		if err := x.s.AddLink(l); err != nil {
			x.t.Fatalf("verifC07sw: probe AddLink(out %d): %v", ch, err)
		}
		o.online, o.link = true, l
	}
	for i, in := range x.ins {
		if in.status != 0 {
			continue
		}
		if in.on {
			x.s.RemoveLink(in.cid)
			x.barrier()
		}
		l := x.newLink(-1 - i)
		if err := x.s.AddLink(l); err != nil {
			x.t.Fatalf("verifC07sw: probe AddLink(in %d): %v", i, err)
		}
		in.on, in.link = true, l
		in.epoch++
		var pkts []*htlcPacket
		for _, c := range x.circs {
			if c.inCh == i && c.forwarded && !c.inDone {
				pkts = append(pkts, x.addPkt(c))
			}
		}
		if len(pkts) > 0 {
			_ = x.s.ForwardPackets(nil, pkts...)
			x.barrier()
		}
	}
	x.vc.Count("sw_probe_replays", 1)
	x.checkHanded()
}

// checkHanded is the at_most_one_forward oracle.
func (x *verifC07swRun) checkHanded() {
	x.mu.Lock()
	defer x.mu.Unlock()
	for _, c := range x.circs {
		x.vc.Count("sw_forward_evals", 1)
		if c.handedReal > 1 {
			x.violate("at_most_one_forward", "add-handed-to-outgoing-link-twice",
				fmt.Sprintf("the add of incoming HTLC %s was handed to an outgoing "+
					"link %d times", verifC07KeyStr(c.in), c.handedReal))
			c.handedReal = 1
		}
	}
}

func (x *verifC07swRun) opOutRecv(ch int) {
	o := x.outs[ch]
	pkts := x.drain(o.link)
	want := map[CircuitKey]*verifC07swCirc{}
	for _, c := range x.circs {
		if c.ch == ch && c.inOutMbox && !c.outGot {
			want[c.in] = c
		}
	}
	var names []string
	for _, p := range pkts {
		c := want[p.inKey()]
		if _, isAdd := p.htlc.(*lnwire.UpdateAddHTLC); !isAdd || c == nil {
			x.abort("sw_outgoing_mailbox_mismatch", fmt.Sprintf(
				"outgoing link ch%d received unexpected %T for %s", ch, p.htlc,
				verifC07KeyStr(p.inKey())))
			return
		}
		delete(want, p.inKey())
		c.outGot = true
		c.addPkt = p
		o.held = append(o.held, c)
		names = append(names, fmt.Sprintf("c%d", c.n))
	}
	if len(want) != 0 {
		x.abort("sw_outgoing_mailbox_mismatch", fmt.Sprintf(
			"outgoing link ch%d did not receive %d expected adds", ch, len(want)))
		return
	}
	x.log("outRecv(ch%d) -> %v", ch, names)
}

func (x *verifC07swRun) opOutOpen(ch int) {
	o := x.outs[ch]
	var ks []Keystone
	var names []string
	for _, c := range o.held {
		id := o.next
		o.next++
		c.addPkt.outgoingChanID = o.scid
		c.addPkt.outgoingHTLCID = id
		ks = append(ks, Keystone{InKey: c.in, OutKey: CircuitKey{ChanID: o.scid, HtlcID: id}})
		c.out = &id
		o.opened = append(o.opened, c)
		names = append(names, fmt.Sprintf("c%d>%d", c.n, id))
	}
	o.held = nil
	err := x.s.CircuitModifier().OpenCircuits(ks...)
	x.log("outOpen(ch%d) %v -> %v", ch, names, err)
	if err != nil {
		x.abort("sw_open_circuits_error", fmt.Sprintf("OpenCircuits: %v", err))
	}
}

func (x *verifC07swRun) opOutSign(ch int) {
	o := x.outs[ch]
	o.signed = o.next
	for _, c := range o.opened {
		// channelLink.ackDownStreamPackets: the adds of the signed
		// commitment leave the mailbox.
		o.link.mailBox.AckPacket(c.in)
		c.inOutMbox = false
		c.everComm = true
	}
	o.opened = nil
	x.log("outSign(ch%d) -> signed=%d", ch, o.signed)
}

func (x *verifC07swRun) opOutFailAdd(ch int) {
	o := x.outs[ch]
	i := x.r.Intn(len(o.held))
	c := o.held[i]
	o.held = append(o.held[:i:i], o.held[i+1:]...)
	// channelLink.handleDownstreamUpdateAdd: AddHTLC failed.
	o.link.mailBox.FailAdd(c.addPkt)
	x.barrier()
	c.inOutMbox = false
	c.localFail = true
	what := "unknown-circuit"
	if c.exists {
		if c.closing != nil {
			what = "dropped(closing)"
		} else {
			c.closing = &verifC07swResp{Src: "local"}
			x.mboxPut(c, c.closing)
			what = "accepted"
		}
	}
	x.feat["link-local-fail"] = true
	x.log("outFailAdd(ch%d c%d) -> model %s", ch, c.n, what)
}

func (x *verifC07swRun) opOutDown(ch int) {
	o := x.outs[ch]
	x.s.RemoveLink(o.cid)
	x.barrier()
	o.online, o.link = false, nil
	o.held, o.opened = nil, nil
	o.next = o.signed
	x.log("outDown(ch%d)", ch)
}

func (x *verifC07swRun) respPkt(c *verifC07swCirc, r *verifC07swResp) *htlcPacket {
	p := &htlcPacket{
		outgoingChanID: x.outs[c.ch].scid,
		outgoingHTLCID: *c.out,
	}
	if r.Settle {
		p.htlc = &lnwire.UpdateFulfillHTLC{PaymentPreimage: c.pre}
	} else {
		p.htlc = &lnwire.UpdateFailHTLC{Reason: []byte("verifC07sw-remote-fail")}
	}
	return p
}

func (x *verifC07swRun) opOutUp(ch int) {
	o := x.outs[ch]
	l := x.newLink(ch)
	if err := x.s.AddLink(l); err != nil {
		x.t.Fatalf("verifC07sw: AddLink(out %d): %v", ch, err)
	}
	o.online, o.link = true, l
	o.next = o.signed
	trimmed := 0
	for _, c := range x.circs {
		if c.ch != ch {
			continue
		}
		c.outGot = false
		if c.exists && c.out != nil && *c.out >= o.signed {
			c.out = nil
			trimmed++
		}
	}
	if trimmed > 0 {
		x.feat["keystone-trimmed"] = true
		x.vc.Count("sw_trimmed_keystones", int64(trimmed))
	}
	x.log("outUp(ch%d) trim>=%d -> model trimmed %d", ch, o.signed, trimmed)
	// A starting link re-forwards the responses of its forwarding
	// packages that the incoming side has not acknowledged yet
	// (channelLink.resolveFwdPkgs).
	for _, c := range x.circs {
		if c.ch != ch || c.off == nil || c.inDone || c.out == nil {
			continue
		}
		err := x.s.ForwardPackets(nil, x.respPkt(c, c.off))
		x.barrier()
		what := x.respond(x.outKey(c), c.off)
		x.log("  re-forward off-chain %s for c%d err=%v -> model %s", c.off, c.n, err, what)
	}
}

func (x *verifC07swRun) opOffResp(c *verifC07swCirc) {
	if c.off == nil {
		c.off = &verifC07swResp{Settle: x.r.Bool(), Src: "off"}
	}
	err := x.s.ForwardPackets(nil, x.respPkt(c, c.off))
	x.barrier()
	what := x.respond(x.outKey(c), c.off)
	x.log("offResp(c%d %s) err=%v -> model %s", c.n, c.off, err, what)
	x.vc.Count("sw_offchain_responses", 1)
}

func (x *verifC07swRun) opOnChain(ch int) {
	o := x.outs[ch]
	if o.online {
		x.s.RemoveLink(o.cid)
		x.barrier()
	}
	o.online, o.link = false, nil
	o.held, o.opened = nil, nil
	o.next = o.signed
	o.status = 1
	x.log("onChain(ch%d) -> close pending", ch)
}

func (x *verifC07swRun) opRes(c *verifC07swCirc) {
	dup := c.res != nil
	if c.res == nil {
		settle := x.r.Bool()
		if c.off != nil && x.r.Chance(2, 3) {
			settle = c.off.Settle
		}
		c.res = &verifC07swResp{Settle: settle, Src: "res"}
	}
	if !dup {
		c.resKey = x.outKey(c)
	}
	k := c.resKey
	msg := contractcourt.ResolutionMsg{SourceChan: k.ChanID, HtlcIndex: k.HtlcID}
	if c.res.Settle {
		pre := c.pre
		msg.PreImage = &pre
	} else {
		msg.Failure = &lnwire.FailPermanentChannelFailure{}
	}
	err := x.s.ProcessContractResolution(msg)
	if err == nil {
		// the contract court has its acknowledgement from here on.
		x.mu.Lock()
		c.resAcked = true
		x.mu.Unlock()
	}
	x.barrier()
	if err != nil {
		x.log("res(c%d) -> error %v", c.n, err)
		x.abort("sw_process_resolution_error", err.Error())
		return
	}
	x.store[k] = c
	what := x.respond(k, c.res)
	x.log("res(c%d out=%s %s dup=%v) -> stored, model %s", c.n, verifC07KeyStr(k),
		c.res, dup, what)
	x.vc.Count("sw_resolutions", 1)
	if dup {
		c.resDups++
		x.feat["dup-resolution"] = true
		x.vc.Count("sw_dup_resolutions", 1)
	}
	if c.off != nil {
		x.feat["competing-offchain"] = true
	}
}

func (x *verifC07swRun) opFullyClose(ch int) {
	x.outs[ch].status = 2
	x.log("fullyClose(ch%d)", ch)
}

func (x *verifC07swRun) opInDown(i int) {
	in := x.ins[i]
	x.s.RemoveLink(in.cid)
	x.barrier()
	in.on, in.link = false, nil
	x.log("inDown(in%d)", i)
}

func (x *verifC07swRun) opInUp(i int) {
	in := x.ins[i]
	l := x.newLink(-1 - i)
	if err := x.s.AddLink(l); err != nil {
		x.t.Fatalf("verifC07sw: AddLink(in %d): %v", i, err)
	}
	in.on, in.link = true, l
	in.epoch++
	for _, c := range x.circs {
		if c.inCh == i {
			c.got = false
		}
	}
	x.log("inUp(in%d) -> epoch %d", i, in.epoch)
}

// opInOnChain: the incoming channel goes on chain. All a running switch sees
// of that is the link being removed for good; the channel is listed as
// pending close from now on.
func (x *verifC07swRun) opInOnChain(i int) {
	in := x.ins[i]
	if in.on {
		x.s.RemoveLink(in.cid)
		x.barrier()
	}
	in.on, in.link = false, nil
	in.status = 1
	x.feat["incoming-on-chain"] = true
	x.log("inOnChain(in%d) -> close pending", i)
}

// opInFullyClose: the incoming channel is fully closed (FetchClosedChannels
// reports it without the pending flag from now on).
func (x *verifC07swRun) opInFullyClose(i int) {
	x.ins[i].status = 2
	x.feat["incoming-fully-closed"] = true
	x.vc.Count("sw_incoming_fully_closed", 1)
	x.log("inFullyClose(in%d)", i)
}

// opInRecv is the observation point of what reaches an incoming channel.
func (x *verifC07swRun) opInRecv(i int) {
	in := x.ins[i]
	pkts := x.drain(in.link)
	seen := map[*verifC07swCirc]bool{}
	var names []string
	for _, p := range pkts {
		x.vc.Count("sw_response_evals", 1)
		var settle bool
		var pre [32]byte
		switch m := p.htlc.(type) {
		case *lnwire.UpdateFulfillHTLC:
			settle, pre = true, m.PaymentPreimage
		case *lnwire.UpdateFailHTLC:
		default:
			x.diag("sw_incoming_got_non_response", fmt.Sprintf("%T", p.htlc))
			continue
		}
		kind := "fail"
		if settle {
			kind = "settle"
		}
		c := x.byIn(p.inKey())
		if c == nil || !c.forwarded {
			x.violate("at_most_one_response", "response-for-unknown-htlc",
				fmt.Sprintf("the incoming link received a %s for %s, which was never "+
					"forwarded", kind, verifC07KeyStr(p.inKey())))
			continue
		}
		names = append(names, fmt.Sprintf("c%d:%s", c.n, kind))
		seen[c] = true
		c.nDeliv++
		x.vc.Count("sw_responses_delivered", 1)
		sameEpoch := c.realGot && c.realGotLife == x.life && c.realGotEp == in.epoch
		c.realGot, c.realGotLife, c.realGotEp = true, x.life, in.epoch
		switch {
		case c.ackedDone:
			x.violate("at_most_one_response", "response-after-lock-in",
				fmt.Sprintf("HTLC %s: a %s reached the incoming link after the link "+
					"had locked a response in (circuit deleted, packet acked)",
					verifC07KeyStr(c.in), kind))
			continue
		case sameEpoch:
			x.violate("at_most_one_response", "second-response-in-one-link-epoch",
				fmt.Sprintf("HTLC %s: a second response (%s) reached the incoming link "+
					"without a link or switch restart in between",
					verifC07KeyStr(c.in), kind))
			continue
		}
		// Is it one of the responses handed to the switch for this HTLC?
		legit := false
		if settle {
			legit = pre == c.pre && ((c.off != nil && c.off.Settle) ||
				(c.res != nil && c.res.Settle))
		} else {
			// A fail for an HTLC whose outgoing HTLC never reached a
			// commitment is a local failure of the switch or of the
			// outgoing link, whatever its reason.
			legit = c.localFail || !c.everComm ||
				(c.off != nil && !c.off.Settle) ||
				(c.res != nil && !c.res.Settle)
		}
		if !legit {
			x.violate("at_most_one_response", "response-not-handed-to-switch",
				fmt.Sprintf("HTLC %s: the incoming link received a %s (preimage ok=%v) "+
					"but the responses handed to the switch were off-chain=%s "+
					"on-chain=%s local-fail=%v", verifC07KeyStr(c.in), kind,
					pre == c.pre, c.off, c.res, c.localFail))
			continue
		}
		// Diagnostics against the mailbox model.
		switch {
		case c.mbox == nil || c.got:
			x.diag("sw_unexpected_delivery", fmt.Sprintf("c%d %s: model mbox=%s got=%v",
				c.n, kind, c.mbox, c.got))
		case c.mbox.Settle != settle:
			x.diag("sw_delivery_kind_differs", fmt.Sprintf("c%d %s: model %s",
				c.n, kind, c.mbox))
		}
		if c.redeliver && c.mbox != nil && c.mbox.Src == "res" {
			x.feat["resolution-redelivered"] = true
			x.vc.Count("sw_resolution_redelivered_after_restart", 1)
			if x.outs[c.ch].status == 2 {
				x.feat["redelivered-after-full-close"] = true
				x.vc.Count("sw_resolution_redelivered_after_full_close", 1)
			}
		}
		if c.mbox != nil && c.mbox.Src == "local-dup" && !c.got {
			x.vc.Count("sw_failed_back_after_restart", 1)
		}
		if c.mbox != nil {
			c.got = true
		}
		if c.inDone {
			// The link's channel already has a response committed:
			// channelLink.cleanupSpuriousResponse, then the ack.
			_ = x.s.CircuitModifier().DeleteCircuits(c.in)
			in.link.mailBox.AckPacket(c.in)
			c.mbox, c.ackedDone = nil, true
			x.feat["spurious-redelivery-cleaned"] = true
		}
	}
	// Lower bounds.
	for _, c := range x.circs {
		if c.inCh != i || c.mbox == nil || c.got || seen[c] {
			continue
		}
		switch {
		case c.redeliver && c.mbox.Src == "res":
			x.vc.Count("sw_awaiting_resolution_evals", 1)
			x.violate("awaiting_resolution", "resolution-not-redelivered-after-restart",
				fmt.Sprintf("HTLC %s: the on-chain resolution (%s) of outgoing HTLC %s "+
					"was durably handed to the switch and not yet locked in on the "+
					"incoming channel, but after the restart (lifetime %d) it did not "+
					"reach the incoming link", verifC07KeyStr(c.in), c.res,
					verifC07KeyStr(c.resKey), x.life))
		case c.mbox.Src == "local-dup":
			x.violate("failed_back", "halfopen-dup-not-failed-back",
				fmt.Sprintf("HTLC %s: half-open circuit after a restart, the duplicate "+
					"add was neither forwarded nor failed back", verifC07KeyStr(c.in)))
		default:
			x.diag("sw_expected_delivery_missing", fmt.Sprintf("c%d: model mbox=%s",
				c.n, c.mbox))
		}
		c.got = true
	}
	for c := range seen {
		if c.redeliver {
			x.vc.Count("sw_awaiting_resolution_evals", 1)
		}
	}
	x.log("inRecv(in%d) -> %v", i, names)
}

// opInLock: the incoming link committed the response it received in this
// epoch: channelLink.ackDownStreamPackets = DeleteCircuits, then AckPacket.
func (x *verifC07swRun) opInLock(c *verifC07swCirc, partial bool) {
	err := x.s.CircuitModifier().DeleteCircuits(c.in)
	if err != nil {
		x.abort("sw_delete_circuits_error", err.Error())
		return
	}
	// A resolution message of this circuit may stay behind in the store
	// until the next start.
	c.exists, c.out, c.closing, c.lfd = false, nil, nil, false
	c.inDone = true
	if partial {
		x.feat["partial-lock-in"] = true
		x.log("inLock(c%d) circuit deleted, link stops before the ack", c.n)
		x.opInDown(c.inCh)
		return
	}
	x.ins[c.inCh].link.mailBox.AckPacket(c.in)
	c.mbox, c.ackedDone = nil, true
	x.vc.Count("sw_lock_ins", 1)
	x.log("inLock(c%d) circuit deleted, packet acked", c.n)
}

func (x *verifC07swRun) opRestart(why string) {
	if err := x.s.Stop(); err != nil {
		x.t.Fatalf("verifC07sw: Stop: %v", err)
	}
	s, err := x.newSwitch()
	if err != nil {
		x.violate("restart_state", "switch-restart-failed",
			fmt.Sprintf("New on the same DB failed: %v", err))
		x.s = nil
		return
	}
	x.s = s
	if err := s.Start(); err != nil {
		x.violate("restart_state", "switch-restart-failed",
			fmt.Sprintf("Start on the same DB failed: %v", err))
		x.s = nil
		return
	}
	x.barrier()

	// Model restart image.
	x.life++
	for _, in := range x.ins {
		in.on, in.link = false, nil
		in.epoch++
	}
	for _, o := range x.outs {
		o.online, o.link = false, nil
		o.held, o.opened = nil, nil
		o.next = o.signed
	}
	purged, kept, purgedIn, keptPending := 0, 0, 0, 0
	for _, c := range x.circs {
		if c.exists && x.ins[c.inCh].status == 1 {
			keptPending++
		}
		if c.exists && x.ins[c.inCh].status == 2 {
			// "circuits of fully closed channels are purged". The
			// exception ("still awaiting delivery of an on-chain
			// resolution") cannot be read onto a circuit whose incoming
			// channel is gone: there is nowhere to deliver to. The
			// combination is not judged (assumptions).
			if c.out != nil && x.store[x.outKey(c)] == c &&
				x.s.circuits.LookupCircuit(c.in) != nil {

				x.abort("sw_closed_incoming_circuit_kept_for_resolution",
					fmt.Sprintf("circuit %d", c.n))
				return
			}
			c.exists, c.out = false, nil
			purgedIn++
			continue
		}
		if c.exists && c.out != nil && x.outs[c.ch].status == 2 {
			if x.store[x.outKey(c)] == c {
				kept++
				continue
			}
			c.exists, c.out = false, nil
			purged++
		}
	}
	for _, c := range x.circs {
		if c.exists {
			c.lfd = true
		}
		c.closing, c.mbox, c.got, c.redeliver = nil, nil, false, false
		c.inOutMbox, c.outGot = false, false
		if c.inDone {
			// the mailbox with the unacked copy is gone: the response
			// the link committed is the only one there is.
			c.ackedDone = true
		}
	}
	// reforwardResolutions: stale messages are dropped, the others are
	// handed to the incoming side again.
	var keys []CircuitKey
	for k := range x.store {
		keys = append(keys, k)
	}
	sort.Slice(keys, func(i, j int) bool {
		if keys[i].ChanID != keys[j].ChanID {
			return keys[i].ChanID.ToUint64() < keys[j].ChanID.ToUint64()
		}
		return keys[i].HtlcID < keys[j].HtlcID
	})
	refwd := 0
	for _, k := range keys {
		c := x.byOut(k)
		if c == nil || c != x.store[k] {
			delete(x.store, k)
			continue
		}
		x.respond(k, c.res)
		c.redeliver = true
		refwd++
	}
	if purged > 0 {
		x.feat["purged-closed"] = true
		x.vc.Count("sw_purged_closed_circuits", int64(purged))
	}
	if kept > 0 {
		x.feat["kept-by-resolution"] = true
		x.vc.Count("sw_kept_by_resolution", int64(kept))
	}
	if purgedIn > 0 {
		x.feat["purged-incoming-closed"] = true
		x.vc.Count("sw_purged_incoming_closed_circuits", int64(purgedIn))
	}
	if keptPending > 0 {
		x.feat["kept-incoming-close-pending"] = true
		x.vc.Count("sw_kept_incoming_close_pending", int64(keptPending))
	}
	if refwd > 0 {
		x.vc.Count("sw_resolutions_due_after_restart", int64(refwd))
	}
	x.vc.Count("sw_restarts", 1)
	x.log("restart(%s) -> lifetime %d: model purged=%d purged(incoming closed)=%d "+
		"kept-by-resolution=%d resolutions re-forwarded=%d", why, x.life, purged,
		purgedIn, kept, refwd)
	x.compare("after restart "+why, true)
}

// --- generator -----------------------------------------------------------------

type verifC07swOp struct {
	w    int
	name string
	run  func()
}

func (x *verifC07swRun) enabled() []verifC07swOp {
	var ops []verifC07swOp
	add := func(w int, name string, f func()) {
		if w > 0 {
			ops = append(ops, verifC07swOp{w, name, f})
		}
	}
	for i, in := range x.ins {
		i, in := i, in
		nEx := 0
		for _, c := range x.circs {
			if c.inCh == i && c.exists {
				nEx++
			}
		}
		switch {
		case in.status == 0 && in.on:
			nFwd := 0
			for _, c := range x.circs {
				c := c
				if c.inCh != i || !x.fwdable(c) {
					continue
				}
				nFwd++
				w := 12
				if c.forwarded {
					w = 6
				}
				add(w, "fwd", func() { x.opFwd(c) })
			}
			if nFwd >= 2 {
				add(8, "fwdBatch", func() { x.opFwdBatch(i) })
			}
			nFresh := 0
			for _, c := range x.circs {
				if c.inCh == i && x.fwdable(c) && !c.exists {
					nFresh++
				}
			}
			if nFresh >= 1 {
				w := 3
				if nFwd > nFresh {
					w = 8 // replays of known circuits in the batch
				}
				add(w, "fwdBatchQuit", func() { x.opFwdBatchQuit(i) })
			}
			pend := 0
			for _, c := range x.circs {
				if c.inCh == i && c.mbox != nil && !c.got {
					pend++
				}
			}
			add(2+10*pend, "inRecv", func() { x.opInRecv(i) })
			for _, c := range x.circs {
				c := c
				if c.inCh != i || c.mbox == nil || !c.got || c.inDone {
					continue
				}
				if !x.noLock {
					add(6, "inLock", func() { x.opInLock(c, false) })
				}
				add(1, "inLockPartial", func() { x.opInLock(c, true) })
			}
			add(2, "inDown", func() { x.opInDown(i) })
			if nEx > 0 {
				add(x.inCloseW, "inOnChain", func() { x.opInOnChain(i) })
			}
		case in.status == 0:
			add(10, "inUp", func() { x.opInUp(i) })
			if nEx > 0 {
				add(x.inCloseW, "inOnChain", func() { x.opInOnChain(i) })
			}
		case in.status == 1:
			add(3, "inFullyClose", func() { x.opInFullyClose(i) })
		}
	}
	for ch, o := range x.outs {
		ch, o := ch, o
		switch {
		case o.status == 0 && o.online:
			nw := 0
			ncomm := 0
			for _, c := range x.circs {
				if c.ch != ch {
					continue
				}
				if c.inOutMbox && !c.outGot {
					nw++
				}
				if c.exists && x.committed(c) {
					ncomm++
				}
			}
			add(10*nw, "outRecv", func() { x.opOutRecv(ch) })
			if len(o.held) > 0 {
				add(10, "outOpen", func() { x.opOutOpen(ch) })
				add(1, "outFailAdd", func() { x.opOutFailAdd(ch) })
			}
			if o.next > o.signed {
				add(10, "outSign", func() { x.opOutSign(ch) })
			}
			add(1, "outDown", func() { x.opOutDown(ch) })
			add(3*ncomm, "onChain", func() { x.opOnChain(ch) })
			for _, c := range x.circs {
				c := c
				if c.ch != ch || !c.exists || !x.committed(c) {
					continue
				}
				w := 5
				if c.off != nil {
					w = 1
				}
				add(w, "offResp", func() { x.opOffResp(c) })
			}
		case o.status == 0:
			add(8, "outUp", func() { x.opOutUp(ch) })
			for _, c := range x.circs {
				if c.ch == ch && c.exists && x.committed(c) {
					add(1, "onChain", func() { x.opOnChain(ch) })
					break
				}
			}
		case o.status == 1:
			add(3, "fullyClose", func() { x.opFullyClose(ch) })
		}
		if o.status >= 1 {
			for _, c := range x.circs {
				c := c
				if c.ch != ch {
					continue
				}
				switch {
				case c.res != nil && c.resDups < 3:
					// duplicates, also after the teardown.
					add(1, "res", func() { x.opRes(c) })
				case c.res == nil && c.exists && x.committed(c):
					add(6, "res", func() { x.opRes(c) })
				}
			}
		}
	}
	add(x.restartW, "restart", func() { x.opRestart("op") })
	return ops
}

// step runs one PRNG-chosen operation under a capture of the DB wrapper and
// returns the capture (already stopped).
func (x *verifC07swRun) step() *verifC07swCapture {
	ops := x.enabled()
	tot := 0
	for _, o := range ops {
		tot += o.w
	}
	n := x.r.Intn(tot)
	for _, o := range ops {
		if n < o.w {
			cp := x.capBegin(o.name)
			o.run()
			x.capEnd(cp)
			x.vc.Count("sw_op_"+o.name, 1)
			return cp
		}
		n -= o.w
	}
	return nil
}

func (x *verifC07swRun) runCase(i int) {
	vc, r := x.vc, x.r
	nCirc := 1 + r.Intn(3)
	nOps := 30 + r.Intn(60)
	x.noLock = r.Chance(1, 4)
	x.restartW = []int{1, 2, 4}[r.Intn(3)]
	x.inCloseW = []int{0, 0, 1, 1}[r.Intn(4)]
	x.crashMode = r.Intn(2)
	x.fr = r.Fork("crash")
	vc.Case(i, map[string]any{"circuits": nCirc, "ops": nOps, "nolock": x.noLock,
		"restartw": x.restartW, "inclosew": x.inCloseW, "crash": x.crashMode})

	x.dbName = fmt.Sprintf("sw-case-%d.db", i)
	bk, err := verifC07OpenBolt(x.dir, x.dbName)
	if err != nil {
		x.t.Fatalf("verifC07sw: open case db: %v", err)
	}
	x.db = &verifC07swDB{verifC07DB: &verifC07DB{inner: bk}, x: x}
	defer func() {
		// join the forks of this case, then stop the case's switch while
		// the next case starts.
		x.laterWG.Wait()
		s, db, name := x.s, x.db, x.dbName
		x.s = nil
		x.later(func() {
			if s != nil {
				_ = s.Stop()
			}
			db.Close()
			os.Remove(filepath.Join(x.dir, name))
		})
	}()

	x.trace = x.trace[:0]
	x.feat = map[string]bool{}
	x.bad, x.aborted, x.midMismatch = false, false, false
	x.cur = nil
	x.life = 1
	x.store = map[CircuitKey]*verifC07swCirc{}
	for i := range x.ins {
		x.ins[i] = &verifC07swIn{
			scid: lnwire.NewShortChanIDFromInt(uint64(190+i)<<40 | uint64(i+8)<<16),
			cid:  lnwire.ChannelID{0xa1 + byte(i)},
			pub:  [33]byte{2, 0xa1 + byte(i)},
		}
	}
	for ch := range x.outs {
		x.outs[ch] = &verifC07swOut{
			scid: lnwire.NewShortChanIDFromInt(uint64(201+ch)<<40 | uint64(ch+2)<<16),
			cid:  lnwire.ChannelID{0xb0 + byte(ch)},
			pub:  [33]byte{2, 0xb0 + byte(ch)},
		}
	}
	x.circs = nil
	for n := 0; n < nCirc; n++ {
		c := &verifC07swCirc{n: n, ch: r.Intn(2), inCh: r.Intn(2)}
		c.in = CircuitKey{ChanID: x.ins[c.inCh].scid, HtlcID: uint64(n)}
		copy(c.pre[:], r.Bytes(32))
		c.hash = sha256.Sum256(c.pre[:])
		x.circs = append(x.circs, c)
	}

	s, err := x.newSwitch()
	if err != nil {
		x.t.Fatalf("verifC07sw: New on a fresh DB: %v", err)
	}
	x.s = s
	if err := s.Start(); err != nil {
		x.t.Fatalf("verifC07sw: Start on a fresh DB: %v", err)
	}
	for i := range x.ins {
		x.opInUp(i)
	}
	for ch := range x.outs {
		if r.Chance(7, 8) {
			x.opOutUp(ch)
		}
	}

	for k := 0; k < nOps && !x.bad && !x.aborted && x.s != nil; k++ {
		cp := x.step()
		vc.Count("sw_ops", 1)
		if x.bad || x.aborted || x.s == nil {
			x.capDrop(cp)
			break
		}
		x.compare("after "+x.trace[len(x.trace)-1], false)
		if x.midMismatch {
			x.capDrop(cp)
			x.opRestart("midlife-mismatch")
			if x.s != nil && !x.aborted {
				x.probeReplay()
			}
			if !x.bad {
				x.abort("sw_midlife_mismatch_not_durable", "restart image agrees")
			}
			break
		}
		// Crash points of the operation: a fresh switch on every image.
		x.capJudge(cp)
	}
	// Final sweep: whatever is still awaiting delivery has to come out
	// once the incoming link is there, also after one more restart.
	for pass := 0; pass < 2 && !x.bad && !x.aborted && x.s != nil; pass++ {
		if pass == 1 {
			if !r.Chance(1, 2) {
				break
			}
			cp := x.capBegin("restart")
			x.opRestart("final")
			x.capEnd(cp)
			if x.bad || x.aborted || x.s == nil {
				x.capDrop(cp)
				break
			}
			x.capJudge(cp)
			if x.bad {
				break
			}
		}
		for i, in := range x.ins {
			if in.status != 0 {
				continue
			}
			if !in.on {
				x.opInUp(i)
			}
			x.opInRecv(i)
		}
	}
	if x.s != nil {
		x.checkHanded()
	}
	if x.bad || x.aborted {
		return
	}
	if x.life > 1 {
		var fs []string
		for f := range x.feat {
			fs = append(fs, f)
		}
		sort.Strings(fs)
		vc.Sig(strings.Join(fs, ","))
	}
	if i%53 == 0 {
		vc.Sample(map[string]any{"case": i, "ops": x.tail(70)})
	}
}

var _ kvdb.Backend = (*verifC07DB)(nil)
var _ kvdb.Backend = (*verifC07swDB)(nil)

func TestVerifC07Switch(t *testing.T) {
	vc := verifStart(t, "C07", "switch")
	defer vc.Finish()

	x := &verifC07swRun{vc: vc, t: t, dir: verifC07Scratch(t)}
	vc.Note("scratch", x.dir)

	total := vc.N(2400, 100000)
	for i := 0; i < total; i++ {
		if !vc.Mine(i) {
			continue
		}
		x.r = vc.Rng(i)
		x.runCase(i)
		vc.CaseDone(i)
	}
	x.laterWG.Wait()
}
