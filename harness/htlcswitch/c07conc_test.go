package htlcswitch

// C07 monitor (concurrent part, built with -race): 2-3 goroutines issue
// competing CloseCircuit(out) / FailCircuit(in) / DeleteCircuits(in) and
// lookups on one "hot" circuit, while each also commits/opens/closes/deletes
// circuits of its own, on the real circuitMap over the real bbolt backend
// (kvdb.Batch really batched, runtime.Gosched() around every transaction).
// The history is recorded at the client boundary and checked for
// linearizability with porcupine against a sequential per-circuit model.
//
// Caller contract respected by the workload: CommitCircuits and
// DeleteCircuits of an incoming key are issued by one goroutine only (the
// incoming link owns its keys); a keystone is written for a circuit only
// while no other goroutine works on that circuit.

import (
	"errors"
	"fmt"
	"os"
	"path/filepath"
	"sort"
	"strings"
	"sync"
	"sync/atomic"
	"testing"
	"time"

	"github.com/anishathalye/porcupine"
	"github.com/lightningnetwork/lnd/chanstate"
	"github.com/lightningnetwork/lnd/kvdb"
	"github.com/lightningnetwork/lnd/lnwire"
)

const (
	verifC07kInit = iota
	verifC07kCommit
	verifC07kOpen
	verifC07kClose
	verifC07kFail
	verifC07kDelete
	verifC07kLookupIn
	verifC07kLookupOut
)

var verifC07KindNames = []string{"init", "commit", "open", "close", "fail",
	"delete", "lookupIn", "lookupOut"}

// verifC07CState is the sequential state of one circuit.
type verifC07CState struct {
	Exists bool
	Ks     bool // has its keystone (the pairing in<->out is fixed per history)
	Closed bool // a response was accepted (volatile)
	LFD    bool
}

type verifC07CIn struct {
	Kind int
	Circ int
	Init verifC07CState
}

type verifC07COut struct {
	Err   string
	Dec   int // commit: add/drop/fail
	Found bool
	Ks    bool
	LFD   bool
}

// verifC07CStep is the sequential specification (written from the statement
// and the CircuitMap interface documentation).
func verifC07CStep(st verifC07CState, in verifC07CIn, out verifC07COut) (bool, verifC07CState) {
	switch in.Kind {
	case verifC07kInit:
		return true, in.Init
	case verifC07kCommit:
		if out.Err != "nil" {
			return false, st
		}
		switch {
		case !st.Exists:
			return out.Dec == verifC07Add, verifC07CState{Exists: true}
		case st.Ks || !st.LFD:
			return out.Dec == verifC07Drop, st
		default:
			return out.Dec == verifC07FailBack, st
		}
	case verifC07kOpen:
		switch {
		case st.Exists && st.Ks:
			return out.Err == "ErrDuplicateKeystone", st
		case !st.Exists:
			return out.Err == "ErrUnknownCircuit", st
		}
		st.Ks = true
		return out.Err == "nil", st
	case verifC07kClose:
		switch {
		case !st.Exists || !st.Ks:
			return out.Err == "ErrUnknownCircuit", st
		case st.Closed:
			return out.Err == "ErrCircuitClosing", st
		}
		st.Closed = true
		return out.Err == "nil", st
	case verifC07kFail:
		switch {
		case !st.Exists:
			return out.Err == "ErrUnknownCircuit", st
		case st.Closed:
			return out.Err == "ErrCircuitClosing", st
		}
		st.Closed = true
		return out.Err == "nil", st
	case verifC07kDelete:
		return out.Err == "nil", verifC07CState{}
	case verifC07kLookupIn:
		if out.Found != st.Exists {
			return false, st
		}
		if out.Found && (out.Ks != st.Ks || out.LFD != st.LFD) {
			return false, st
		}
		return true, st
	case verifC07kLookupOut:
		return out.Found == (st.Exists && st.Ks), st
	}
	return false, st
}

func verifC07PorcupineModel() porcupine.Model {
	return porcupine.Model{
		Partition: func(h []porcupine.Operation) [][]porcupine.Operation {
			by := map[int][]porcupine.Operation{}
			var keys []int
			for _, op := range h {
				c := op.Input.(verifC07CIn).Circ
				if _, ok := by[c]; !ok {
					keys = append(keys, c)
				}
				by[c] = append(by[c], op)
			}
			sort.Ints(keys)
			out := make([][]porcupine.Operation, 0, len(keys))
			for _, k := range keys {
				out = append(out, by[k])
			}
			return out
		},
		Init: func() interface{} { return verifC07CState{} },
		Step: func(state, input, output interface{}) (bool, interface{}) {
			ok, ns := verifC07CStep(state.(verifC07CState),
				input.(verifC07CIn), output.(verifC07COut))
			return ok, ns
		},
		DescribeOperation: func(input, output interface{}) string {
			in := input.(verifC07CIn)
			out := output.(verifC07COut)
			return fmt.Sprintf("%s(c%d)->%+v", verifC07KindNames[in.Kind], in.Circ, out)
		},
	}
}

type verifC07Hist struct {
	mu  sync.Mutex
	ctr int64
	ops []porcupine.Operation
}

func (h *verifC07Hist) record(client int, in verifC07CIn, f func() verifC07COut) verifC07COut {
	call := atomic.AddInt64(&h.ctr, 1)
	out := f()
	ret := atomic.AddInt64(&h.ctr, 1)
	h.mu.Lock()
	h.ops = append(h.ops, porcupine.Operation{
		ClientId: client, Input: in, Call: call, Output: out, Return: ret,
	})
	h.mu.Unlock()
	return out
}

type verifC07ConcCase struct {
	Hot      verifC07CState `json:"hot_init"`
	NG       int            `json:"goroutines"`
	Yields   int            `json:"yields"`
	Programs [][]string     `json:"programs"`
	progs    [][]verifC07CIn
}

// circuit indices inside one history: 0 = hot circuit, 1+g = private circuit
// of goroutine g.
func verifC07GenConc(r *verifRng) verifC07ConcCase {
	c := verifC07ConcCase{NG: 2 + r.Intn(2), Yields: r.Intn(4)}
	c.Hot = verifC07CState{Exists: true, Ks: r.Chance(2, 3), LFD: r.Chance(1, 3)}
	for g := 0; g < c.NG; g++ {
		n := 3 + r.Intn(6)
		var prog []verifC07CIn
		priv := 1 + g
		privStage := 0 // 0 none, 1 committed, 2 opened
		for i := 0; i < n; i++ {
			if r.Chance(2, 5) {
				// work on the goroutine's own circuit, in a sensible
				// order most of the time.
				var k int
				switch {
				case privStage == 0:
					k = verifC07kCommit
					privStage = 1
				case privStage == 1 && r.Chance(2, 3):
					k = verifC07kOpen
					privStage = 2
				case privStage == 2 && r.Chance(1, 2):
					k = verifC07kClose
				case r.Chance(1, 3):
					k = verifC07kDelete
					privStage = 0
				case r.Chance(1, 2):
					k = verifC07kCommit // duplicate forward
				default:
					k = []int{verifC07kLookupIn, verifC07kLookupOut, verifC07kFail}[r.Intn(3)]
				}
				prog = append(prog, verifC07CIn{Kind: k, Circ: priv})
				continue
			}
			var kinds []int
			switch g {
			case 0:
				// the incoming link of the hot circuit: the only one
				// that commits / deletes it.
				kinds = []int{verifC07kDelete, verifC07kDelete, verifC07kCommit,
					verifC07kCommit, verifC07kLookupIn, verifC07kFail}
			case 1:
				kinds = []int{verifC07kClose, verifC07kClose, verifC07kClose,
					verifC07kLookupOut, verifC07kFail, verifC07kLookupIn}
			default:
				kinds = []int{verifC07kFail, verifC07kFail, verifC07kClose,
					verifC07kLookupIn, verifC07kLookupOut}
			}
			prog = append(prog, verifC07CIn{Kind: kinds[r.Intn(len(kinds))], Circ: 0})
		}
		c.progs = append(c.progs, prog)
		var names []string
		for _, op := range prog {
			names = append(names, fmt.Sprintf("%s(c%d)", verifC07KindNames[op.Kind], op.Circ))
		}
		c.Programs = append(c.Programs, names)
	}
	return c
}

type verifC07ConcRun struct {
	vc   *verifCtx
	t    *testing.T
	dir  string
	db   *verifC07DB
	back kvdb.Backend
	seq  uint64
}

func (x *verifC07ConcRun) cfg() *CircuitMapConfig {
	return &CircuitMapConfig{
		DB: x.back,
		FetchAllOpenChannels: func() ([]*chanstate.OpenChannel, error) {
			return nil, nil
		},
		FetchClosedChannels: func(bool) ([]*chanstate.ChannelCloseSummary, error) {
			return nil, nil
		},
		ExtractErrorEncrypter: verifC07Extracter,
		CheckResolutionMsg: func(*CircuitKey) error {
			return errors.New("verifC07: no resolution message")
		},
	}
}

func verifC07ConcExec(cm CircuitMap, in verifC07CIn, ik, ok CircuitKey) verifC07COut {
	switch in.Kind {
	case verifC07kCommit:
		c := &PaymentCircuit{
			Incoming: ik, PaymentHash: [32]byte{byte(in.Circ + 1)},
			IncomingAmount: 2000, OutgoingAmount: 1000,
			ErrorEncrypter: NewMockObfuscator(),
		}
		acts, err := cm.CommitCircuits(c)
		out := verifC07COut{Err: verifC07ErrName(err), Dec: -1}
		if acts != nil {
			switch {
			case len(acts.Adds) == 1 && len(acts.Drops)+len(acts.Fails) == 0:
				out.Dec = verifC07Add
			case len(acts.Drops) == 1 && len(acts.Adds)+len(acts.Fails) == 0:
				out.Dec = verifC07Drop
			case len(acts.Fails) == 1 && len(acts.Adds)+len(acts.Drops) == 0:
				out.Dec = verifC07FailBack
			}
		}
		return out
	case verifC07kOpen:
		err := cm.OpenCircuits(Keystone{InKey: ik, OutKey: ok})
		return verifC07COut{Err: verifC07ErrName(err)}
	case verifC07kClose:
		_, err := cm.CloseCircuit(ok)
		return verifC07COut{Err: verifC07ErrName(err)}
	case verifC07kFail:
		_, err := cm.FailCircuit(ik)
		return verifC07COut{Err: verifC07ErrName(err)}
	case verifC07kDelete:
		err := cm.DeleteCircuits(ik)
		return verifC07COut{Err: verifC07ErrName(err)}
	case verifC07kLookupIn:
		c := cm.LookupCircuit(ik)
		if c == nil {
			return verifC07COut{}
		}
		return verifC07COut{Found: true, Ks: c.HasKeystone(), LFD: c.LoadedFromDisk}
	case verifC07kLookupOut:
		return verifC07COut{Found: cm.LookupOpenCircuit(ok) != nil}
	}
	return verifC07COut{Err: "bad-kind"}
}

func verifC07HistStrings(ops []porcupine.Operation) []string {
	sorted := append([]porcupine.Operation(nil), ops...)
	sort.Slice(sorted, func(i, j int) bool { return sorted[i].Call < sorted[j].Call })
	out := make([]string, len(sorted))
	for i, op := range sorted {
		in := op.Input.(verifC07CIn)
		o := op.Output.(verifC07COut)
		s := fmt.Sprintf("[%d,%d] g%d %s(c%d)", op.Call, op.Return, op.ClientId,
			verifC07KindNames[in.Kind], in.Circ)
		switch in.Kind {
		case verifC07kInit:
			s += fmt.Sprintf(" state=%+v", in.Init)
		case verifC07kCommit:
			s += fmt.Sprintf(" -> %s dec=%d", o.Err, o.Dec)
		case verifC07kLookupIn:
			s += fmt.Sprintf(" -> found=%v ks=%v lfd=%v", o.Found, o.Ks, o.LFD)
		case verifC07kLookupOut:
			s += fmt.Sprintf(" -> found=%v", o.Found)
		default:
			s += " -> " + o.Err
		}
		out[i] = s
	}
	return out
}

// runHistory executes one concurrent history and judges it. It returns false
// when a violation was recorded.
func (x *verifC07ConcRun) runHistory(cc verifC07ConcCase) bool {
	vc := x.vc
	x.seq++
	scidIn := lnwire.NewShortChanIDFromInt(uint64(200)<<40 | 1<<16)
	scidOut := lnwire.NewShortChanIDFromInt(uint64(201)<<40 | 2<<16)
	nCirc := 1 + cc.NG
	ik := make([]CircuitKey, nCirc)
	ok := make([]CircuitKey, nCirc)
	for i := 0; i < nCirc; i++ {
		ik[i] = CircuitKey{ChanID: scidIn, HtlcID: x.seq*8 + uint64(i)}
		ok[i] = CircuitKey{ChanID: scidOut, HtlcID: x.seq*8 + uint64(i)}
	}
	atomic.StoreInt32(&x.db.yields, 0)
	cm, err := NewCircuitMap(x.cfg())
	if err != nil {
		x.t.Fatalf("verifC07conc: NewCircuitMap: %v", err)
	}
	// sequential set-up of the hot circuit (not part of the history; the
	// history starts with a synthetic init op carrying the claimed state,
	// which the lookups then confirm or refute).
	setup := verifC07ConcExec(cm, verifC07CIn{Kind: verifC07kCommit}, ik[0], ok[0])
	if setup.Err != "nil" || setup.Dec != verifC07Add {
		x.t.Fatalf("verifC07conc: set-up commit: %+v", setup)
	}
	if cc.Hot.Ks {
		if o := verifC07ConcExec(cm, verifC07CIn{Kind: verifC07kOpen}, ik[0], ok[0]); o.Err != "nil" {
			x.t.Fatalf("verifC07conc: set-up open: %+v", o)
		}
	}
	if cc.Hot.LFD {
		if cm, err = NewCircuitMap(x.cfg()); err != nil {
			x.t.Fatalf("verifC07conc: NewCircuitMap (set-up restart): %v", err)
		}
	}
	h := &verifC07Hist{}
	for i := 0; i < nCirc; i++ {
		st := verifC07CState{}
		if i == 0 {
			st = cc.Hot
		}
		h.record(0, verifC07CIn{Kind: verifC07kInit, Circ: i, Init: st},
			func() verifC07COut { return verifC07COut{} })
	}
	atomic.StoreInt32(&x.db.yields, int32(cc.Yields))
	var wg sync.WaitGroup
	start := make(chan struct{})
	for g := 0; g < cc.NG; g++ {
		wg.Add(1)
		go func(g int) {
			defer wg.Done()
			<-start
			for _, op := range cc.progs[g] {
				op := op
				h.record(g, op, func() verifC07COut {
					return verifC07ConcExec(cm, op, ik[op.Circ], ok[op.Circ])
				})
				// global counters are not partitionable; called for
				// the race detector only.
				_ = cm.NumPending()
				_ = cm.NumOpen()
			}
		}(g)
	}
	close(start)
	done := make(chan struct{})
	go func() { wg.Wait(); close(done) }()
	select {
	case <-done:
	case <-time.After(5 * time.Minute):
		x.t.Fatalf("verifC07conc: goroutines did not finish (watchdog)")
	}
	atomic.StoreInt32(&x.db.yields, 0)
	// quiescent observation, part of the history.
	final := make([]verifC07COut, nCirc)
	finalOut := make([]verifC07COut, nCirc)
	for i := 0; i < nCirc; i++ {
		final[i] = h.record(0, verifC07CIn{Kind: verifC07kLookupIn, Circ: i}, func() verifC07COut {
			return verifC07ConcExec(cm, verifC07CIn{Kind: verifC07kLookupIn}, ik[i], ok[i])
		})
		finalOut[i] = h.record(0, verifC07CIn{Kind: verifC07kLookupOut, Circ: i}, func() verifC07COut {
			return verifC07ConcExec(cm, verifC07CIn{Kind: verifC07kLookupOut}, ik[i], ok[i])
		})
	}
	vc.Count("conc_ops", int64(len(h.ops)))

	good := true
	res, _ := porcupine.CheckOperationsVerbose(verifC07PorcupineModel(), h.ops, 20*time.Second)
	vc.Count("linearizability_evals", 1)
	switch res {
	case porcupine.Ok:
		vc.Count("histories_linearizable", 1)
	case porcupine.Unknown:
		vc.Count("histories_unknown", 1)
		vc.Diag("porcupine_unknown", "checker timed out on one history (counted inconclusive)")
	default:
		good = false
		vc.Violation("linearizability", "history-not-linearizable",
			"recorded history of the circuit map has no linearization against the "+
				"sequential per-circuit model:\n"+strings.Join(verifC07HistStrings(h.ops), "\n"),
			map[string]any{"case": cc, "history": verifC07HistStrings(h.ops)})
	}

	// After the goroutines are done, what a restart would load must be
	// what the map says now (no channels are open or closed here, so
	// nothing is trimmed or purged).
	cm2, err := NewCircuitMap(x.cfg())
	vc.Count("quiescent_restart_evals", 1)
	if err != nil {
		vc.Violation("restart_image", "conc:NewCircuitMap-error",
			fmt.Sprintf("NewCircuitMap after a concurrent history failed: %v", err),
			map[string]any{"case": cc, "history": verifC07HistStrings(h.ops)})
		return false
	}
	for i := 0; i < nCirc; i++ {
		a := verifC07ConcExec(cm2, verifC07CIn{Kind: verifC07kLookupIn}, ik[i], ok[i])
		b := verifC07ConcExec(cm2, verifC07CIn{Kind: verifC07kLookupOut}, ik[i], ok[i])
		if a.Found != final[i].Found || (a.Found && a.Ks != final[i].Ks) || b.Found != finalOut[i].Found {
			good = false
			vc.Violation("restart_image", "conc:quiescent-memory-differs-from-disk",
				fmt.Sprintf("circuit c%d: memory after the history says exists=%v keystone=%v open=%v, "+
					"a restart on the same DB loads exists=%v keystone=%v open=%v\n%s",
					i, final[i].Found, final[i].Ks, finalOut[i].Found, a.Found, a.Ks, b.Found,
					strings.Join(verifC07HistStrings(h.ops), "\n")),
				map[string]any{"case": cc, "history": verifC07HistStrings(h.ops)})
			break
		}
	}
	// clean up for the next history.
	if err := cm2.DeleteCircuits(ik...); err != nil {
		x.t.Fatalf("verifC07conc: cleanup: %v", err)
	}
	if good && res == porcupine.Ok {
		var kinds []string
		for _, op := range h.ops {
			in := op.Input.(verifC07CIn)
			if in.Circ == 0 && in.Kind != verifC07kInit {
				kinds = append(kinds, verifC07KindNames[in.Kind])
			}
		}
		sort.Strings(kinds)
		vc.Sig(fmt.Sprintf("conc|%v|%d|%s", cc.Hot, cc.NG, strings.Join(kinds, ",")))
	}
	return good
}

func TestVerifC07Conc(t *testing.T) {
	vc := verifStart(t, "C07", "conc")
	defer vc.Finish()

	dir := verifC07Scratch(t)
	raw, err := verifC07OpenBolt(dir, "conc.db")
	if err != nil {
		t.Fatalf("verifC07conc: open db: %v", err)
	}
	db := &verifC07DB{inner: raw}
	defer func() {
		db.Close()
		os.Remove(filepath.Join(dir, "conc.db"))
	}()
	x := &verifC07ConcRun{vc: vc, t: t, dir: dir, db: db, back: verifC07BatchDB{db}}

	total := vc.N(1600, 40000)
	for i := 0; i < total; i++ {
		if !vc.Mine(i) {
			continue
		}
		r := vc.Rng(i)
		cc := verifC07GenConc(r)
		vc.Case(i, cc)
		reps := 1
		if vc.Only >= 0 {
			// replay: the schedule is the runtime's, so the same
			// programs are re-run many times.
			reps = 300
		}
		for k := 0; k < reps; k++ {
			if !x.runHistory(cc) {
				break
			}
		}
		if i%101 == 0 {
			vc.Sample(map[string]any{"case": i, "conc": cc})
		}
		vc.CaseDone(i)
	}
}
