package invoices_test

// C15 monitor: a preimage is released only for a fully and correctly paid
// invoice; invoice/HTLC states only move forward; a settled non-AMP invoice
// records exactly the sum of its settled HTLCs; a replayed HTLC gets the same
// verdict; no HTLC is both settled and canceled. Runs a REAL InvoiceRegistry
// (+ InvoiceExpiryWatcher, clock.TestClock) on the bbolt (channeldb) store and
// on the SQLite store, drives generated event sequences, and judges every
// HtlcSettleResolution from the harness' OWN log of what each HTLC carried.

import (
	"context"
	"crypto/sha256"
	"database/sql"
	"encoding/binary"
	"encoding/hex"
	"errors"
	"fmt"
	"io"
	"os"
	"path/filepath"
	"sort"
	"strings"
	"sync"
	"sync/atomic"
	"testing"
	"time"

	"github.com/btcsuite/btcd/chainhash/v2"
	"github.com/lightningnetwork/lnd/chainntnfs"
	"github.com/lightningnetwork/lnd/channeldb"
	"github.com/lightningnetwork/lnd/clock"
	invpkg "github.com/lightningnetwork/lnd/invoices"
	"github.com/lightningnetwork/lnd/lntypes"
	"github.com/lightningnetwork/lnd/lnwire"
	"github.com/lightningnetwork/lnd/record"
	"github.com/lightningnetwork/lnd/sqldb"
)

// ---------------------------------------------------------------------------
// Case description (all of it is drawn from the case PRNG).
// ---------------------------------------------------------------------------

type verifC15H [32]byte

func (h verifC15H) MarshalText() ([]byte, error) {
	return []byte(hex.EncodeToString(h[:])), nil
}

func (h verifC15H) short() string { return hex.EncodeToString(h[:4]) }

type verifC15Cfg struct {
	RejectDelta   int32
	HoldMs        int64
	AcceptKeySend bool
	AcceptAMP     bool
	KeysendHoldMs int64
	BlockDelta    uint32
	StartHeight   int32
}

// verifC15Inv is one invoice of the universe. Kind: regular | hold | amp |
// ks (spontaneous keysend, never added by the harness) | ampspont
// (spontaneous AMP, never added by the harness).
type verifC15Inv struct {
	Kind     string
	Value    uint64
	Delta    int32
	Feat     string // none | opt | req | amp | ampreq
	Addr     verifC15H
	Preimage verifC15H
	Hash     verifC15H
	ExpiryMs int64
	Added    bool
}

func (v *verifC15Inv) requiresAddr() bool {
	return v.Feat == "req" || v.Feat == "ampreq"
}

func (v *verifC15Inv) isAMP() bool { return v.Kind == "amp" || v.Kind == "ampspont" }

// verifC15Htlc is what one HTLC carries. This log is the ground truth for the
// oracle; nothing of it is read back from lnd.
type verifC15Htlc struct {
	ID       int
	Chan     uint64
	Inv      int    // intended target (informational)
	Style    string // legacy | mpp | blind | both | amp | ampnompp
	Hash     verifC15H
	Amt      uint64
	Margin   int32 // expiry = height at first notification + Margin
	Total    uint64
	Addr     verifC15H // mpp address (mpp/both/amp)
	PathID   verifC15H // blind/both
	AddrKind string
	KsRecord string // hex of the keysend custom record ("" = none)
	SetID    verifC15H
	Share    verifC15H
	Child    uint32
}

func (h *verifC15Htlc) hasMpp() bool {
	return h.Style == "mpp" || h.Style == "both" || h.Style == "amp"
}
func (h *verifC15Htlc) hasPathID() bool { return h.Style == "blind" || h.Style == "both" }
func (h *verifC15Htlc) hasAmp() bool    { return h.Style == "amp" || h.Style == "ampnompp" }

// carriedAddr is the payment address the HTLC presents (mpp record first,
// else the blinded path id).
func (h *verifC15Htlc) carriedAddr() (verifC15H, bool) {
	switch {
	case h.hasMpp():
		return h.Addr, true
	case h.hasPathID():
		return h.PathID, true
	}
	return verifC15H{}, false
}

// declaredTotal is the total the HTLC declares for its set; a legacy HTLC
// (no payment data) is its own set with total == amount.
func (h *verifC15Htlc) declaredTotal() uint64 {
	if h.hasMpp() || h.hasPathID() {
		return h.Total
	}
	return h.Amt
}

func (h *verifC15Htlc) validKeysend() bool {
	if h.KsRecord == "" {
		return false
	}
	b, err := hex.DecodeString(h.KsRecord)
	if err != nil || len(b) != 32 {
		return false
	}
	return sha256.Sum256(b) == [32]byte(h.Hash)
}

type verifC15Ev struct {
	Op    string // add | htlc | replay | settle | cancel | clock | height
	Inv   int
	Htlc  int
	DurMs int64
	DH    int32
	// Win: while this htlc is inside the registry's interceptor call (after
	// the registry looked the invoice up, before its update transaction)
	// the set timeout of every htlc it saw accepted elapses and is
	// delivered.
	Win bool `json:",omitempty"`
}

type verifC15Case struct {
	Cfg   verifC15Cfg
	Invs  []*verifC15Inv
	Htlcs []*verifC15Htlc
	Evs   []verifC15Ev
}

func verifC15Sha(b ...[]byte) [32]byte {
	h := sha256.New()
	for _, x := range b {
		h.Write(x)
	}
	var out [32]byte
	copy(out[:], h.Sum(nil))
	return out
}

func verifC15Rand32(r *verifRng) verifC15H {
	var h verifC15H
	copy(h[:], r.Bytes(32))
	return h
}

// verifC15AmpChild re-derives an AMP child hash from the definition
// (child_preimage = SHA256(root || share || be32(index))).
func verifC15AmpChild(root, share verifC15H, idx uint32) (pre, hash verifC15H) {
	var ib [4]byte
	binary.BigEndian.PutUint32(ib[:], idx)
	pre = verifC15Sha(root[:], share[:], ib[:])
	hash = sha256.Sum256(pre[:])
	return
}

func verifC15PickU(r *verifRng, xs ...uint64) uint64 { return xs[r.Intn(len(xs))] }
func verifC15PickI(r *verifRng, xs ...int32) int32   { return xs[r.Intn(len(xs))] }

// verifC15Split cuts sum into k positive parts at PRNG cut points.
func verifC15Split(r *verifRng, sum uint64, k int) []uint64 {
	if k <= 1 || sum < uint64(k) {
		out := make([]uint64, k)
		for i := range out {
			out[i] = 1
		}
		if sum >= uint64(k) || k == 1 {
			out[0] = sum - uint64(k-1)
			if k == 1 {
				out[0] = sum
			}
		}
		return out
	}
	cuts := make([]uint64, 0, k-1)
	for len(cuts) < k-1 {
		c := 1 + r.U64n(sum-1)
		dup := false
		for _, x := range cuts {
			if x == c {
				dup = true
			}
		}
		if !dup {
			cuts = append(cuts, c)
		}
	}
	sort.Slice(cuts, func(i, j int) bool { return cuts[i] < cuts[j] })
	out := make([]uint64, k)
	prev := uint64(0)
	for i, c := range cuts {
		out[i] = c - prev
		prev = c
	}
	out[k-1] = sum - prev
	return out
}

func verifC15Gen(r *verifRng) *verifC15Case {
	c := &verifC15Case{}
	c.Cfg = verifC15Cfg{
		RejectDelta:   verifC15PickI(r, 4, 4, 10),
		HoldMs:        30000,
		AcceptKeySend: r.Bool(),
		AcceptAMP:     r.Bool(),
		BlockDelta:    uint32(verifC15PickI(r, 0, 2)),
		StartHeight:   100 + int32(r.Intn(1000)),
	}
	if r.Chance(1, 4) {
		c.Cfg.KeysendHoldMs = 47500
	}
	R := c.Cfg.RejectDelta

	nInv := 1 + r.Intn(3)
	for j := 0; j < nInv; j++ {
		v := &verifC15Inv{Added: true, ExpiryMs: 3600000}
		switch x := r.Intn(100); {
		case x < 34:
			v.Kind = "regular"
		case x < 58:
			v.Kind = "hold"
		case x < 74:
			v.Kind = "amp"
		case x < 87:
			v.Kind = "ks"
			v.Added = false
		default:
			v.Kind = "ampspont"
			v.Added = false
		}
		v.Value = verifC15PickU(r, 1000, 100000, 5000+r.U64n(1000000))
		if r.Chance(1, 5) && v.Kind != "ks" && v.Kind != "ampspont" {
			v.Value = 0
		}
		v.Delta = verifC15PickI(r, 3, 4, 9, 18, 40, R, R+1, R-1)
		v.Preimage = verifC15Rand32(r)
		v.Hash = sha256.Sum256(v.Preimage[:])
		v.Addr = verifC15Rand32(r)
		switch v.Kind {
		case "regular", "hold":
			switch x := r.Intn(100); {
			case x < 55:
				v.Feat = "req"
			case x < 75:
				v.Feat = "opt"
			default:
				v.Feat = "none"
				if r.Bool() {
					v.Addr = verifC15H{} // legacy invoice without address
				}
			}
		case "amp":
			v.Feat = "amp"
			if r.Chance(1, 3) {
				v.Feat = "ampreq"
			}
		case "ampspont":
			v.Feat = "amp"
			v.Delta = R
		case "ks":
			v.Feat = "none"
			v.Addr = verifC15H{}
			v.Delta = R
		}
		if v.Added && r.Chance(1, 7) {
			v.ExpiryMs = 77500
		}
		c.Invs = append(c.Invs, v)
	}

	newHtlc := func(inv int) *verifC15Htlc {
		h := &verifC15Htlc{ID: len(c.Htlcs), Chan: uint64(1 + r.Intn(3)), Inv: inv}
		c.Htlcs = append(c.Htlcs, h)
		return h
	}
	margin := func(v *verifC15Inv) int32 {
		target := v.Delta
		switch r.Intn(3) {
		case 0:
			target = R
		case 1:
			if R > target {
				target = R
			}
		}
		return target + verifC15PickI(r, 0, 0, 0, -1, -1, 1, 10, 10)
	}
	otherAddr := func(j int) verifC15H {
		if len(c.Invs) > 1 && r.Bool() {
			return c.Invs[(j+1+r.Intn(len(c.Invs)-1))%len(c.Invs)].Addr
		}
		return verifC15Rand32(r)
	}

	var order [][]int // htlc ids grouped by attempt
	for j, v := range c.Invs {
		attempts := 1 + r.Intn(2)
		for a := 0; a < attempts && len(c.Htlcs) < 9; a++ {
			var ids []int
			base := v.Value
			if base == 0 {
				base = 1000 + r.U64n(100000)
			}
			// One deviation class per attempt: most attempts are clean
			// or deviate in exactly one clause of the settlement rule,
			// so that each clause is probed in isolation; "chaos"
			// draws everything independently.
			dev := "none"
			switch x := r.Intn(100); {
			case x < 30:
			case x < 42:
				dev = "sum"
			case x < 53:
				dev = "total"
			case x < 62:
				dev = "mismatch"
			case x < 73:
				dev = "addr"
			case x < 86:
				dev = "margin"
			default:
				dev = "chaos"
			}
			need := v.Delta
			if R > need {
				need = R
			}
			goodMargin := func() int32 { return need + verifC15PickI(r, 0, 0, 1, 10) }
			pickTotal := func() uint64 {
				switch x := r.Intn(100); {
				case x < 50:
					return base
				case x < 62:
					return base + 1
				case x < 74:
					return base - 1
				case x < 82:
					return 2 * base
				case x < 90:
					return base + r.U64n(base+1)
				case x < 94:
					return 0
				default:
					return 1 + r.U64n(base)
				}
			}
			pickSum := func(t uint64) uint64 {
				if t == 0 {
					t = base
				}
				switch x := r.Intn(100); {
				case x < 50:
					return t
				case x < 62:
					return t - 1
				case x < 74:
					return t + 1
				case x < 84:
					return t + r.U64n(t+1)
				case x < 94:
					return t/2 + 1
				default:
					return base
				}
			}
			switch v.Kind {
			case "regular", "hold":
				style := "mpp"
				switch x := r.Intn(100); {
				case x < 55:
				case x < 72:
					style = "legacy"
				case x < 82:
					style = "blind"
				case x < 88:
					style = "mixed"
				default:
					style = "kslegacy"
				}
				k := 1
				if style == "mpp" || style == "blind" || style == "mixed" {
					k = 1 + r.Intn(4)
				}
				if dev == "mismatch" && k == 1 && style != "legacy" && style != "kslegacy" {
					k = 2
				}
				T := base
				if r.Chance(1, 5) {
					T = base + r.U64n(base+1)
				}
				if dev == "total" || dev == "chaos" {
					T = pickTotal()
					if dev == "total" && r.Bool() && base > 1 {
						T = base - 1
					}
				}
				S := T
				if r.Chance(1, 4) {
					S = T + r.U64n(T/4+2)
				}
				if dev == "sum" || dev == "chaos" {
					S = pickSum(T)
					if dev == "sum" && r.Bool() && T > 1 {
						S = T - 1
					}
				}
				if S < uint64(k) {
					S = uint64(k)
				}
				var amts []uint64
				if style == "legacy" || style == "kslegacy" {
					switch dev {
					case "sum", "total", "chaos":
						amts = []uint64{verifC15PickU(r, base, base-1, base-1, base+1, base+r.U64n(base+1), base/2+1)}
					default:
						amts = []uint64{verifC15PickU(r, base, base, base+1, base+r.U64n(base+1))}
					}
				} else {
					amts = verifC15Split(r, S, k)
				}
				mism := -1
				if k > 1 && (dev == "mismatch" || (dev == "chaos" && r.Chance(1, 6))) {
					mism = r.Intn(k)
				}
				devShard := r.Intn(k)
				for s := 0; s < k && len(c.Htlcs) < 10; s++ {
					h := newHtlc(j)
					h.Hash = v.Hash
					h.Amt = amts[s]
					switch {
					case dev == "chaos":
						h.Margin = margin(v)
					case dev == "margin" && s == devShard:
						h.Margin = verifC15PickI(r, need-1, need-1, v.Delta-1, R-1, need-2)
					default:
						h.Margin = goodMargin()
					}
					h.Total = T
					if s == mism {
						h.Total = verifC15PickU(r, T+1, T-1, T+h.Amt, base, S)
					}
					switch style {
					case "legacy":
						h.Style = "legacy"
					case "kslegacy":
						h.Style = "legacy"
						if r.Chance(4, 5) {
							h.KsRecord = hex.EncodeToString(v.Preimage[:])
						} else {
							h.KsRecord = hex.EncodeToString(r.Bytes(32))
						}
					case "blind":
						h.Style = "blind"
					case "mixed":
						h.Style = "mpp"
						if s == 0 {
							h.Style = "blind"
						}
					default:
						h.Style = "mpp"
						if r.Chance(1, 30) {
							h.Style = "both"
						}
					}
					h.AddrKind = "right"
					a := v.Addr
					x := 0
					switch {
					case dev == "chaos":
						x = r.Intn(100)
					case dev == "addr" && s == devShard:
						x = 82 + r.Intn(18)
					}
					switch {
					case x < 82:
					case x < 93:
						h.AddrKind = "wrong"
						a = otherAddr(j)
					default:
						h.AddrKind = "blank"
						a = verifC15H{}
					}
					h.Addr, h.PathID = a, a
					if h.Style == "both" && r.Bool() {
						h.PathID = verifC15Rand32(r)
					}
					if h.Style == "mpp" && r.Chance(1, 25) {
						// mpp keysend is not supported.
						h.KsRecord = hex.EncodeToString(v.Preimage[:])
					}
					ids = append(ids, h.ID)
				}
			case "ks":
				n := 1 + r.Intn(2)
				a0 := verifC15PickU(r, 1000, 50000, 1+r.U64n(200000))
				for s := 0; s < n && len(c.Htlcs) < 10; s++ {
					h := newHtlc(j)
					h.Style = "legacy"
					h.Hash = v.Hash
					h.Amt = a0
					if s > 0 {
						h.Amt = verifC15PickU(r, a0, a0-1, a0+1, a0+r.U64n(a0+1))
					}
					h.Margin = R + verifC15PickI(r, 0, 0, -1, 1, 10)
					if r.Chance(6, 7) {
						h.KsRecord = hex.EncodeToString(v.Preimage[:])
					} else {
						h.KsRecord = hex.EncodeToString(r.Bytes(32))
					}
					if r.Chance(1, 12) {
						h.Style = "mpp"
						h.Total = h.Amt
					}
					ids = append(ids, h.ID)
				}
			case "amp", "ampspont":
				k := 1 + r.Intn(3)
				if dev == "mismatch" && k == 1 {
					k = 2
				}
				T := base
				if r.Chance(1, 5) {
					T = base + r.U64n(base+1)
				}
				if dev == "total" || dev == "chaos" {
					T = pickTotal()
				}
				S := T
				if r.Chance(1, 4) {
					S = T + r.U64n(T/4+2)
				}
				if dev == "sum" || dev == "chaos" {
					S = pickSum(T)
					if dev == "sum" && r.Bool() && T > 1 {
						S = T - 1
					}
				}
				if S < uint64(k) {
					S = uint64(k)
				}
				amts := verifC15Split(r, S, k)
				devShard := r.Intn(k)
				root := verifC15Rand32(r)
				setID := verifC15Rand32(r)
				if r.Chance(1, 40) {
					setID = verifC15H{}
				}
				shares := make([]verifC15H, k)
				acc := root
				for s := 0; s < k-1; s++ {
					shares[s] = verifC15Rand32(r)
					for b := range acc {
						acc[b] ^= shares[s][b]
					}
				}
				shares[k-1] = acc
				bad := -1
				if dev == "chaos" && r.Chance(1, 3) {
					bad = r.Intn(k)
				}
				mism := -1
				if k > 1 && (dev == "mismatch" || (dev == "chaos" && r.Chance(1, 6))) {
					mism = r.Intn(k)
				}
				for s := 0; s < k && len(c.Htlcs) < 10; s++ {
					h := newHtlc(j)
					h.Style = "amp"
					h.Amt = amts[s]
					h.Total = T
					if s == mism {
						h.Total = verifC15PickU(r, T+1, T-1, base)
					}
					switch {
					case dev == "chaos":
						h.Margin = margin(v)
					case dev == "margin" && s == devShard:
						h.Margin = verifC15PickI(r, need-1, need-1, v.Delta-1, R-1, need-2)
					default:
						h.Margin = goodMargin()
					}
					h.SetID = setID
					h.Share = shares[s]
					h.Child = uint32(s)
					if r.Chance(1, 10) {
						h.Child = uint32(r.Intn(3))
					}
					_, h.Hash = verifC15AmpChild(root, shares[s], h.Child)
					if s == bad {
						if r.Bool() {
							h.Share = verifC15Rand32(r)
						} else {
							h.Hash = verifC15Rand32(r)
						}
					}
					h.AddrKind = "right"
					h.Addr = v.Addr
					if (dev == "addr" && s == devShard) || (dev == "chaos" && r.Chance(1, 8)) {
						h.AddrKind = "wrong"
						h.Addr = otherAddr(j)
					}
					if dev == "chaos" && r.Chance(1, 8) {
						h.Style = "ampnompp"
					}
					if dev == "chaos" && r.Chance(1, 10) {
						// plain MPP htlc towards an AMP invoice
						h.Style = "mpp"
						h.Hash = v.Hash
					}
					ids = append(ids, h.ID)
				}
			}
			if len(ids) > 0 {
				order = append(order, ids)
			}
		}
	}

	// Assemble the event list.
	var evs []verifC15Ev
	var late []verifC15Ev
	for j, v := range c.Invs {
		if !v.Added {
			continue
		}
		e := verifC15Ev{Op: "add", Inv: j}
		if r.Chance(1, 8) {
			late = append(late, e)
		} else {
			evs = append(evs, e)
		}
	}
	var body []verifC15Ev
	// Interleave the attempts' htlcs at PRNG positions.
	idx := make([]int, len(order))
	remaining := 0
	for _, o := range order {
		remaining += len(o)
	}
	for remaining > 0 {
		a := r.Intn(len(order))
		if idx[a] >= len(order[a]) {
			continue
		}
		body = append(body, verifC15Ev{Op: "htlc", Htlc: order[a][idx[a]], Inv: c.Htlcs[order[a][idx[a]]].Inv})
		idx[a]++
		remaining--
	}
	if r.Chance(1, 4) {
		// fully shuffled arrival order
		for i := len(body) - 1; i > 0; i-- {
			k := r.Intn(i + 1)
			body[i], body[k] = body[k], body[i]
		}
	}
	insert := func(e verifC15Ev, after int) {
		pos := after + r.Intn(len(body)-after+1)
		body = append(body, verifC15Ev{})
		copy(body[pos+1:], body[pos:])
		body[pos] = e
	}
	for _, e := range late {
		insert(e, 0)
	}
	// replays
	for _, h := range c.Htlcs {
		if !r.Chance(2, 5) {
			continue
		}
		first := 0
		for i, e := range body {
			if e.Op == "htlc" && e.Htlc == h.ID {
				first = i + 1
			}
		}
		insert(verifC15Ev{Op: "replay", Htlc: h.ID, Inv: h.Inv}, first)
		if r.Chance(1, 4) {
			insert(verifC15Ev{Op: "replay", Htlc: h.ID, Inv: h.Inv}, first)
		}
	}
	for n := r.Intn(3); n > 0; n-- {
		insert(verifC15Ev{Op: "clock", DurMs: int64(verifC15PickU(r, 1000, 1000, 15000, 29000, 30000, 31000, 61000))}, 0)
	}
	for n := r.Intn(4); n > 0; n-- {
		insert(verifC15Ev{Op: "height", DH: verifC15PickI(r, 1, 1, 2, 5, -1, 9, 40)}, 0)
	}
	for j, v := range c.Invs {
		if r.Chance(1, 5) {
			insert(verifC15Ev{Op: "cancel", Inv: j}, 0)
		}
		if v.Kind == "hold" || (v.Kind == "ks" && c.Cfg.KeysendHoldMs != 0) {
			if r.Chance(4, 5) {
				insert(verifC15Ev{Op: "settle", Inv: j}, len(body)/2)
			}
			if r.Chance(1, 5) {
				insert(verifC15Ev{Op: "settle", Inv: j}, 0)
			}
		} else if r.Chance(1, 10) {
			insert(verifC15Ev{Op: "settle", Inv: j}, 0)
		}
	}
	// trailing time so that pending sets time out and late replays see it
	if r.Chance(1, 2) {
		body = append(body, verifC15Ev{Op: "clock", DurMs: 31000})
		for _, h := range c.Htlcs {
			if r.Chance(1, 4) {
				body = append(body, verifC15Ev{Op: "replay", Htlc: h.ID, Inv: h.Inv})
			}
		}
	}
	c.Evs = append(evs, body...)
	// interceptor windows: a PRNG stream derived from the case content (the
	// parent stream is not consumed, older cases stay what they were)
	if len(c.Htlcs) > 0 {
		wr := &verifRng{s: verifMix(binary.BigEndian.Uint64(c.Htlcs[0].Hash[:8]) ^ verifHashStr("c15win") ^ uint64(len(c.Evs)))}
		for i := range c.Evs {
			if c.Evs[i].Op == "htlc" && wr.Chance(1, 4) {
				c.Evs[i].Win = true
			}
		}
	}
	return c
}

// ---------------------------------------------------------------------------
// lnd glue
// ---------------------------------------------------------------------------

type verifC15Payload struct {
	mpp     *record.MPP
	amp     *record.AMP
	custom  record.CustomSet
	pathID  *chainhash.Hash
	total   lnwire.MilliSatoshi
	metaDat []byte
}

func (p *verifC15Payload) MultiPath() *record.MPP { return p.mpp }
func (p *verifC15Payload) AMPRecord() *record.AMP { return p.amp }
func (p *verifC15Payload) CustomRecords() record.CustomSet {
	if p.custom == nil {
		return make(record.CustomSet)
	}
	return p.custom
}
func (p *verifC15Payload) Metadata() []byte                  { return p.metaDat }
func (p *verifC15Payload) PathID() *chainhash.Hash           { return p.pathID }
func (p *verifC15Payload) TotalAmtMsat() lnwire.MilliSatoshi { return p.total }

type verifC15Notifier struct {
	chainntnfs.ChainNotifier
	blocks chan *chainntnfs.BlockEpoch
}

func (m *verifC15Notifier) RegisterBlockEpochNtfn(*chainntnfs.BlockEpoch) (
	*chainntnfs.BlockEpochEvent, error) {

	return &chainntnfs.BlockEpochEvent{Epochs: m.blocks, Cancel: func() {}}, nil
}

func verifC15Features(feat string) *lnwire.FeatureVector {
	var bits []lnwire.FeatureBit
	switch feat {
	case "opt":
		bits = []lnwire.FeatureBit{lnwire.TLVOnionPayloadRequired,
			lnwire.PaymentAddrOptional, lnwire.MPPOptional}
	case "req":
		bits = []lnwire.FeatureBit{lnwire.TLVOnionPayloadRequired,
			lnwire.PaymentAddrRequired, lnwire.MPPOptional}
	case "amp":
		bits = []lnwire.FeatureBit{lnwire.TLVOnionPayloadOptional,
			lnwire.PaymentAddrOptional, lnwire.AMPRequired}
	case "ampreq":
		bits = []lnwire.FeatureBit{lnwire.TLVOnionPayloadRequired,
			lnwire.PaymentAddrRequired, lnwire.AMPRequired}
	}
	return lnwire.NewFeatureVector(lnwire.NewRawFeatureVector(bits...), lnwire.Features)
}

var verifC15Epoch = time.Date(2021, time.March, 3, 12, 0, 0, 0, time.UTC)

// verifC15Inconclusive is set when a synchronisation watchdog fired; the
// process then ends without the "done" record so the driver reports
// inconclusive (never a violation).
var verifC15Inconclusive atomic.Bool

const verifC15SyncDeadline = 120 * time.Second

// ---------------------------------------------------------------------------
// Monitor
// ---------------------------------------------------------------------------

type verifC15Obs struct {
	Kind   string // A accept | S settle | F fail | E error
	Src    string // direct | hodl
	Ev     int
	Detail string
}

type verifC15Rt struct {
	expirySet    bool
	expiry       uint32
	obs          []verifC15Obs
	acceptSeen   bool
	acceptHeight int32
	// accept verdict not yet recorded (hodl resolution observed first)
	acceptHeightUnknown bool
	term                string // "", "S", "F" after acceptance
	termAt              int64
	termClass           string // "/replay-precheck:<outcome>" when the fail is of the KF-C15-1 class
	batchPending        bool
	notified            int
	key                 invpkg.CircuitKey
}

type verifC15SnapHtlc struct {
	State      invpkg.HtlcState
	AcceptTime time.Time
	Expiry     uint32
}

type verifC15Snap struct {
	Found    bool
	State    invpkg.ContractState
	AmtPaid  uint64
	Value    uint64
	Delta    int32
	Created  time.Time
	Expiry   time.Duration
	IsAMP    bool
	Hodl     bool
	Htlcs    map[invpkg.CircuitKey]verifC15SnapHtlc
	AmpState map[invpkg.SetID]invpkg.HtlcState
}

// verifC15Ref identifies an invoice that the monitor tracks: a universe
// invoice, or a spontaneous one implied by a keysend / AMP htlc.
type verifC15Ref struct {
	id     string
	byAddr bool
	hash   verifC15H
	addr   verifC15H
	inv    *verifC15Inv // nil for implied invoices
	invIdx int
}

type verifC15Run struct {
	t     *testing.T
	vc    *verifCtx
	in    *verifC15Case
	store string
	conc  bool

	reg      *invpkg.InvoiceRegistry
	clk      *clock.TestClock
	notifier *verifC15Notifier
	hodl     chan interface{}

	tick     atomic.Int64
	mu       sync.Mutex
	height   int32
	now      time.Time
	ev       int
	rt       []*verifC15Rt
	keyToID  map[invpkg.CircuitKey]int
	refs     []*verifC15Ref
	refByID  map[string]*verifC15Ref
	lastSnap map[string]*verifC15Snap
	lastHtlc map[string]map[invpkg.CircuitKey]invpkg.HtlcState
	heightEx map[string]uint32
	added    map[int]bool
	trace    []string
	evTrace  []string
	nviol    int
	flags    map[string]bool
	dead     bool

	clkMu  sync.Mutex
	winMu  sync.Mutex
	winKey map[invpkg.CircuitKey]bool
}

// verifC15Interceptor is the registry's HtlcInterceptor. It never modifies an
// amount and never cancels a set; for an htlc whose event carries Win it keeps
// the registry inside the interceptor call while the set timeout of the htlcs
// the registry has just read as accepted elapses (TestClock) and is executed by
// the registry's own event loop (cancelSingleHtlc does not need the registry
// mutex). The wait is bounded in wall-clock time and bears no verdict: a window
// in which nothing was canceled is just counted.
type verifC15Interceptor struct{ r *verifC15Run }

func (ic *verifC15Interceptor) Intercept(req invpkg.HtlcModifyRequest, _ func(invpkg.HtlcModifyResponse)) error {
	r := ic.r
	r.winMu.Lock()
	win := r.winKey[req.ExitHtlcCircuitKey]
	delete(r.winKey, req.ExitHtlcCircuitKey)
	r.winMu.Unlock()
	if !win {
		return nil
	}
	r.vc.Count("interceptor_windows", 1)
	if req.Invoice.State != invpkg.ContractOpen {
		return nil
	}
	var held []invpkg.CircuitKey
	for k, h := range req.Invoice.Htlcs {
		if h.State == invpkg.HtlcStateAccepted && k != req.ExitHtlcCircuitKey {
			held = append(held, k)
		}
	}
	if len(held) == 0 {
		return nil
	}
	r.vc.Count("interceptor_windows_with_held_htlcs", 1)
	r.mu.Lock()
	id, ok := r.keyToID[req.ExitHtlcCircuitKey]
	var ref *verifC15Ref
	if ok {
		ref = r.targetRef(r.in.Htlcs[id])
	}
	r.tr("window h%d held=%d", id, len(held))
	r.mu.Unlock()
	if ref == nil {
		return nil
	}
	// whole seconds: the SQL store keeps invoice expiries in seconds and the
	// harness' synchronisation (pendingAsync) reads them back from the store
	r.doClock(r.in.Cfg.HoldMs + 1000)
	deadline := time.Now().Add(150 * time.Millisecond)
	for {
		s := r.lookup(ref)
		left := 0
		for _, k := range held {
			if hs, ok := s.Htlcs[k]; ok && hs.State == invpkg.HtlcStateAccepted {
				left++
			}
		}
		if left == 0 {
			r.vc.Count("interceptor_windows_set_timed_out", 1)
			r.mu.Lock()
			r.flags["window-timeout"] = true
			r.mu.Unlock()
			return nil
		}
		if time.Now().After(deadline) {
			r.vc.Count("interceptor_windows_no_effect", 1)
			return nil
		}
		time.Sleep(200 * time.Microsecond)
	}
}

func (r *verifC15Run) witness() any {
	tr := r.trace
	if len(tr) > 80 {
		tr = tr[len(tr)-80:]
	}
	return map[string]any{"store": r.store, "conc": r.conc, "case": r.in,
		"trace": append(append([]string{}, tr...), r.evTrace...)}
}

func (r *verifC15Run) violation(oracle, key, detail string) {
	r.nviol++
	r.vc.Violation(oracle, r.store+":"+key, fmt.Sprintf("[store=%s ev=%d] %s", r.store, r.ev, detail), r.witness())
}

func (r *verifC15Run) tr(format string, a ...any) {
	r.evTrace = append(r.evTrace, fmt.Sprintf(format, a...))
}

func (r *verifC15Run) ref(id string) *verifC15Ref { return r.refByID[id] }

func (r *verifC15Run) isAdded(j int) bool {
	r.mu.Lock()
	defer r.mu.Unlock()
	return r.added[j]
}

func (r *verifC15Run) addRef(ref *verifC15Ref) *verifC15Ref {
	if x, ok := r.refByID[ref.id]; ok {
		return x
	}
	r.refs = append(r.refs, ref)
	r.refByID[ref.id] = ref
	return ref
}

// targetRef resolves, from the harness log only, which invoice an htlc
// addresses: AMP htlcs address by payment address, all others by hash.
func (r *verifC15Run) targetRef(h *verifC15Htlc) *verifC15Ref {
	if h.Style == "amp" {
		// An AMP htlc addresses by payment address only: a universe
		// invoice that really is in the store under that address, else
		// (AcceptAMP) a spontaneous invoice that lnd creates under it.
		for j, v := range r.in.Invs {
			if v.Addr != h.Addr || v.Addr == (verifC15H{}) {
				continue
			}
			if v.Kind == "ampspont" || r.added[j] {
				return r.ref(fmt.Sprintf("inv%d", j))
			}
		}
		if r.in.Cfg.AcceptAMP && h.Addr != (verifC15H{}) {
			return r.addRef(&verifC15Ref{id: "amp:" + h.Addr.short(), byAddr: true, addr: h.Addr})
		}
		return nil
	}
	for j, v := range r.in.Invs {
		if v.Hash == h.Hash {
			return r.ref(fmt.Sprintf("inv%d", j))
		}
	}
	return nil
}

func verifC15Kind(res invpkg.HtlcResolution, err error) (string, string) {
	if err != nil {
		return "E", err.Error()
	}
	switch x := res.(type) {
	case nil:
		return "A", ""
	case *invpkg.HtlcSettleResolution:
		return "S", strings.ReplaceAll(x.Outcome.String(), " ", "_")
	case *invpkg.HtlcFailResolution:
		return "F", strings.ReplaceAll(x.Outcome.String(), " ", "_")
	}
	return "E", fmt.Sprintf("unknown resolution %T", res)
}

// observe feeds one verdict about htlc id into the per-htlc automaton.
// Caller holds r.mu.
func (r *verifC15Run) observe(id int, kind, src, detail string, res invpkg.HtlcResolution, height int32, isReplay bool, start int64) {
	h := r.in.Htlcs[id]
	rt := r.rt[id]
	// Logical time: a verdict can only be held against an earlier one if
	// the call that produced it STARTED after the earlier one was observed
	// (concurrent notifications may be linearised either way).
	at := r.tick.Add(1)
	if start == 0 {
		start = at
	}
	rt.obs = append(rt.obs, verifC15Obs{Kind: kind, Src: src, Ev: r.ev, Detail: detail})
	r.tr("h%d:%s:%s:%s", id, src, kind, detail)

	if kind == "S" {
		// released preimage hashes to that HTLC's payment hash
		r.vc.Count("oracle_preimage_evals", 1)
		s := res.(*invpkg.HtlcSettleResolution)
		if sha256.Sum256(s.Preimage[:]) != [32]byte(h.Hash) {
			r.violation("preimage_matches_hash", "style="+h.Style,
				fmt.Sprintf("settle resolution for htlc %d releases preimage %x that does not hash to its payment hash %x",
					id, s.Preimage[:], h.Hash[:]))
		}
	}
	if isReplay && rt.acceptSeen && src == "direct" {
		r.vc.Count("oracle_replay_evals", 1)
	}
	// Fingerprint class of known finding KF-C15-1/2 and nothing else: a
	// direct fail with ResultKeySendError / ResultAmpError for a replay of
	// an htlc that was recorded (accepted or settled) before, at a height
	// where expiry < height + FinalCltvRejectDelta (the spontaneous-payment
	// pre-check that runs before replay detection).
	// A resolution on the hodl channel exists only for an htlc the registry
	// had accepted. With concurrent notifiers it can be observed before the
	// notifier goroutine has recorded the accept verdict of its own call.
	if src == "hodl" && !rt.acceptSeen && (kind == "S" || kind == "F") {
		rt.acceptSeen = true
		rt.acceptHeightUnknown = true
	}
	if src == "direct" && rt.acceptHeightUnknown && (kind == "A" || kind == "S") {
		rt.acceptHeight = height
		rt.acceptHeightUnknown = false
	}
	precheck := ""
	if kind == "F" && src == "direct" && isReplay && rt.acceptSeen &&
		(detail == "invalid_keysend_parameters" || detail == "invalid_amp_parameters") &&
		int64(rt.expiry) < int64(height)+int64(r.in.Cfg.RejectDelta) && height > rt.acceptHeight {

		precheck = "/replay-precheck:" + detail
	}
	switch kind {
	case "A":
		if rt.term != "" && rt.term != "?" && rt.termAt >= start {
			r.vc.Count("overlapping_accept_after_resolution", 1)
			return
		}
		if rt.term != "" && rt.term != "?" {
			r.violation("replay_same_verdict", "accept-after-"+rt.term+"/"+h.Style+rt.termClass,
				fmt.Sprintf("htlc %d was already resolved %s, but a later notification of the same circuit key was accepted again (obs=%v)", id, rt.term, rt.obs))
			return
		}
		if !rt.acceptSeen {
			rt.acceptSeen = true
			rt.acceptHeight = height
		}
	case "S":
		switch {
		case rt.term == "F":
			r.violation("no_settle_and_cancel", "settle-after-fail/"+h.Style+rt.termClass,
				fmt.Sprintf("htlc %d was failed after acceptance and is now settled (obs=%v)", id, rt.obs))
			// still judge the settlement itself
			rt.batchPending = true
		case rt.term == "S":
			// replay / duplicate delivery of the same verdict
		default:
			if !rt.acceptSeen {
				rt.acceptSeen = true
				rt.acceptHeight = height
			} else if src == "direct" && !r.conc {
				r.vc.Diag("replay_settled_without_hodl_delivery", fmt.Sprintf("store=%s htlc=%d", r.store, id))
			}
			rt.term = "S"
			rt.termAt = at
			rt.batchPending = true
		}
	case "F":
		switch {
		case !rt.acceptSeen:
			// never accepted: a later notification is evaluated afresh
			if isReplay {
				r.vc.Count("replay_of_unrecorded", 1)
			}
		case rt.term == "S":
			r.violation("no_settle_and_cancel", "fail-after-settle/"+h.Style+precheck,
				fmt.Sprintf("htlc %d was settled and is now failed (obs=%v)", id, rt.obs))
		case rt.term == "":
			if src == "direct" && !r.conc {
				r.vc.Diag("replay_failed_without_hodl_delivery", fmt.Sprintf("store=%s htlc=%d %s", r.store, id, detail))
			}
			rt.term = "F"
			rt.termAt = at
			rt.termClass = precheck
		}
	case "E":
		r.vc.Diag("notify_error", fmt.Sprintf("store=%s htlc=%d style=%s: %s", r.store, id, h.Style, detail))
	}
}

// drain consumes everything currently on the hodl channel.
func (r *verifC15Run) drain() int {
	n := 0
	for {
		select {
		case x := <-r.hodl:
			n++
			res, ok := x.(invpkg.HtlcResolution)
			if !ok {
				r.vc.Diag("hodl_non_resolution", fmt.Sprintf("%T", x))
				continue
			}
			r.mu.Lock()
			id, known := r.keyToID[res.CircuitKey()]
			if !known {
				r.vc.Diag("hodl_unknown_circuit", fmt.Sprint(res.CircuitKey()))
				r.mu.Unlock()
				continue
			}
			kind, detail := verifC15Kind(res, nil)
			r.vc.Count("hodl_resolutions", 1)
			if detail == "mpp_timeout" {
				r.flags["mpptimeout"] = true
			}
			r.observe(id, kind, "hodl", detail, res, 0, false, 0)
			r.mu.Unlock()
		default:
			return n
		}
	}
}

func (r *verifC15Run) lookup(ref *verifC15Ref) *verifC15Snap {
	var (
		inv invpkg.Invoice
		err error
	)
	ctx := context.Background()
	if ref.byAddr {
		inv, err = r.reg.LookupInvoiceByRef(ctx, invpkg.InvoiceRefByAddr(ref.addr))
	} else {
		inv, err = r.reg.LookupInvoice(ctx, lntypes.Hash(ref.hash))
	}
	s := &verifC15Snap{}
	if err != nil {
		if !errors.Is(err, invpkg.ErrInvoiceNotFound) && !errors.Is(err, invpkg.ErrNoInvoicesCreated) {
			r.vc.Diag("lookup_error", fmt.Sprintf("store=%s ref=%s: %v", r.store, ref.id, err))
		}
		return s
	}
	s.Found = true
	s.State = inv.State
	s.AmtPaid = uint64(inv.AmtPaid)
	s.Value = uint64(inv.Terms.Value)
	s.Delta = inv.Terms.FinalCltvDelta
	s.Created = inv.CreationDate
	s.Expiry = inv.Terms.Expiry
	s.IsAMP = inv.IsAMP()
	s.Hodl = inv.HodlInvoice
	s.Htlcs = make(map[invpkg.CircuitKey]verifC15SnapHtlc, len(inv.Htlcs))
	for k, h := range inv.Htlcs {
		s.Htlcs[k] = verifC15SnapHtlc{State: h.State, AcceptTime: h.AcceptTime, Expiry: h.Expiry}
	}
	s.AmpState = make(map[invpkg.SetID]invpkg.HtlcState, len(inv.AMPState))
	for k, a := range inv.AMPState {
		s.AmpState[k] = a.State
	}
	return s
}

func verifC15InvOrder(s invpkg.ContractState) int {
	switch s {
	case invpkg.ContractOpen:
		return 0
	case invpkg.ContractAccepted:
		return 1
	}
	return 2
}

// checkSnap applies the state oracles to a fresh LookupInvoice result.
// Caller holds r.mu.
func (r *verifC15Run) checkSnap(ref *verifC15Ref, s *verifC15Snap) {
	prev := r.lastSnap[ref.id]
	r.lastSnap[ref.id] = s
	if !s.Found {
		if prev != nil && prev.Found {
			r.vc.Diag("invoice_vanished", fmt.Sprintf("store=%s ref=%s", r.store, ref.id))
		}
		return
	}
	// --- invoice state only moves forward
	if prev != nil && prev.Found {
		r.vc.Count("oracle_monotone_evals", 1)
		ok := true
		switch {
		case prev.State == s.State:
		case prev.State == invpkg.ContractSettled || prev.State == invpkg.ContractCanceled:
			ok = false
		case verifC15InvOrder(s.State) < verifC15InvOrder(prev.State):
			ok = false
		}
		if !ok {
			r.violation("states_move_forward", fmt.Sprintf("invoice:%v->%v", prev.State, s.State),
				fmt.Sprintf("invoice %s moved from %v to %v", ref.id, prev.State, s.State))
		}
	}
	// --- htlc states only move forward; nothing both settled and canceled
	last := r.lastHtlc[ref.id]
	if last == nil {
		last = map[invpkg.CircuitKey]invpkg.HtlcState{}
		r.lastHtlc[ref.id] = last
	}
	for k := range last {
		if _, ok := s.Htlcs[k]; !ok {
			r.vc.Diag("htlc_record_vanished", fmt.Sprintf("store=%s ref=%s key=%v laststate=%v", r.store, ref.id, k, last[k]))
		}
	}
	var settledSum uint64
	unknown := false
	for k, hs := range s.Htlcs {
		id, known := r.keyToID[k]
		if p, ok := last[k]; ok {
			r.vc.Count("oracle_monotone_evals", 1)
			if p != hs.State && p != invpkg.HtlcStateAccepted {
				r.violation("states_move_forward", fmt.Sprintf("htlc:%d->%d", p, hs.State),
					fmt.Sprintf("htlc %v (id %d) on invoice %s moved from state %d to %d (0=accepted 1=canceled 2=settled)", k, id, ref.id, p, hs.State))
			}
		}
		last[k] = hs.State
		if !known {
			unknown = true
			r.vc.Diag("db_unknown_htlc", fmt.Sprintf("store=%s ref=%s key=%v", r.store, ref.id, k))
			continue
		}
		rt := r.rt[id]
		if hs.State == invpkg.HtlcStateSettled {
			settledSum += r.in.Htlcs[id].Amt
			if rt.term == "F" {
				r.violation("no_settle_and_cancel", "db-settled+fail-resolution"+rt.termClass,
					fmt.Sprintf("htlc %d is settled in the invoice record but a fail resolution was delivered for it after acceptance (obs=%v)", id, rt.obs))
			}
		}
		if hs.State == invpkg.HtlcStateCanceled && rt.term == "S" {
			r.violation("no_settle_and_cancel", "db-canceled+settle-resolution",
				fmt.Sprintf("htlc %d is canceled in the invoice record but a settle resolution was delivered for it (obs=%v)", id, rt.obs))
		}
	}
	// --- settled non-AMP invoice: AmtPaid == sum of its settled htlcs
	isAMP := s.IsAMP
	if ref.inv != nil {
		isAMP = ref.inv.isAMP()
	}
	if s.State == invpkg.ContractSettled && !isAMP && !unknown {
		r.vc.Count("oracle_amtpaid_evals", 1)
		if s.AmtPaid != settledSum {
			sign := "recorded>settled-sum"
			if s.AmtPaid < settledSum {
				sign = "recorded<settled-sum"
			}
			r.violation("amtpaid_exact", sign,
				fmt.Sprintf("settled invoice %s records AmtPaid=%d but its settled htlcs (harness log amounts) sum to %d", ref.id, s.AmtPaid, settledSum))
		}
	}
	// sync bookkeeping only: height-based expiry entry of a hold invoice is
	// created when the invoice becomes Accepted.
	if s.State == invpkg.ContractAccepted && (prev == nil || !prev.Found || prev.State != invpkg.ContractAccepted) {
		var minExp uint32
		for _, hs := range s.Htlcs {
			if hs.State == invpkg.HtlcStateAccepted && (minExp == 0 || hs.Expiry < minExp) {
				minExp = hs.Expiry
			}
		}
		r.heightEx[ref.id] = minExp
	}
}

// pendingAsync lists effects of the registry's own goroutines (set timeout,
// invoice expiry) that must still become visible. Used for synchronisation
// only, never for a verdict.
func (r *verifC15Run) pendingAsync(ref *verifC15Ref, s *verifC15Snap) string {
	if !s.Found {
		return ""
	}
	hold := time.Duration(r.in.Cfg.HoldMs) * time.Millisecond
	if s.State == invpkg.ContractOpen {
		for k, hs := range s.Htlcs {
			if hs.State == invpkg.HtlcStateAccepted && !hs.AcceptTime.Add(hold).After(r.now) {
				return fmt.Sprintf("set-timeout of %v on %s", k, ref.id)
			}
		}
	}
	if s.State == invpkg.ContractOpen || s.State == invpkg.ContractAccepted {
		exp := s.Expiry
		if exp == 0 {
			exp = time.Hour
		}
		if s.Created.Add(exp).Before(r.now) {
			settled := false
			for _, hs := range s.Htlcs {
				if hs.State == invpkg.HtlcStateSettled {
					settled = true
				}
			}
			if !(s.IsAMP && settled) {
				return "timestamp expiry of " + ref.id
			}
		}
	}
	if s.State == invpkg.ContractAccepted && s.Hodl {
		// The watcher's entry is the lowest expiry among the htlcs that
		// were accepted when the invoice became Accepted. Sequential
		// runs snapshot right after that event (exact); with concurrent
		// notifiers later duplicates may already be in the snapshot, so
		// only the upper bound (highest accepted expiry) is certain.
		ex := r.heightEx[ref.id]
		if r.conc {
			ex = 0
			for _, hs := range s.Htlcs {
				if hs.State == invpkg.HtlcStateAccepted && hs.Expiry > ex {
					ex = hs.Expiry
				}
			}
		}
		if ex != 0 && uint32(r.height)+r.in.Cfg.BlockDelta >= ex {
			return "height expiry of " + ref.id
		}
	}
	return ""
}

// quiesce waits until everything the registry does asynchronously as a
// consequence of the events so far has become visible, takes the snapshots and
// evaluates the state oracles.
func (r *verifC15Run) quiesce() {
	deadline := time.Now().Add(verifC15SyncDeadline)
	spins := 0
	for {
		r.drain()
		pending := ""
		r.mu.Lock()
		refs := append([]*verifC15Ref{}, r.refs...)
		r.mu.Unlock()
		snaps := make([]*verifC15Snap, len(refs))
		for i, ref := range refs {
			snaps[i] = r.lookup(ref)
		}
		r.mu.Lock()
		for i, ref := range refs {
			r.checkSnap(ref, snaps[i])
			if p := r.pendingAsync(ref, snaps[i]); p != "" && pending == "" {
				pending = p
			}
		}
		// a terminal state in the record of an htlc that still waits on
		// the hodl channel: its resolution is in flight.
		if pending == "" {
			for i, ref := range refs {
				for k, hs := range snaps[i].Htlcs {
					id, ok := r.keyToID[k]
					if !ok || hs.State == invpkg.HtlcStateAccepted {
						continue
					}
					if rt := r.rt[id]; rt.acceptSeen && rt.term == "" {
						pending = fmt.Sprintf("hodl delivery for htlc %d on %s", id, ref.id)
					}
				}
			}
		}
		r.mu.Unlock()
		if pending == "" {
			r.drain()
			return
		}
		spins++
		// The registry's event loop and the expiry watcher compute
		// their next tick as TickAfter(t - Now()); with a TestClock a
		// SetTime that lands between the two calls leaves the tick
		// registered too far in the future (a test-clock artefact, a real
		// clock would merely tick late). Any loop iteration re-arms it
		// correctly, so nudge both loops with an unrelated invoice.
		if spins%40 == 25 {
			r.kick()
		}
		if time.Now().After(deadline) {
			if strings.HasPrefix(pending, "hodl delivery") {
				r.vc.Diag("terminal_record_without_resolution", fmt.Sprintf("store=%s %s", r.store, pending))
				r.mu.Lock()
				// stop waiting for it in this case
				for _, rt := range r.rt {
					if rt.acceptSeen && rt.term == "" {
						rt.term = "?"
					}
				}
				r.mu.Unlock()
				continue
			}
			verifC15Inconclusive.Store(true)
			r.dead = true
			fmt.Printf("verif C15: INCONCLUSIVE sync watchdog: still waiting for %s (store=%s case=%d)\n", pending, r.store, r.vc.curCase)
			return
		}
		if spins < 50 {
			time.Sleep(200 * time.Microsecond)
		} else {
			time.Sleep(2 * time.Millisecond)
		}
	}
}

var verifC15KickSeq atomic.Uint64

// kick makes the registry's event loop and the expiry watcher run one more
// iteration by adding an unrelated, never-paid invoice.
func (r *verifC15Run) kick() {
	var pre lntypes.Preimage
	binary.BigEndian.PutUint64(pre[:8], verifC15KickSeq.Add(1))
	copy(pre[8:], "verif-c15-kick")
	var addr [32]byte
	copy(addr[:], pre[:])
	addr[31] = 0xaa
	inv := &invpkg.Invoice{
		CreationDate: r.clk.Now(),
		Terms: invpkg.ContractTerm{
			FinalCltvDelta:  40,
			Expiry:          24 * time.Hour,
			Value:           1,
			PaymentAddr:     addr,
			PaymentPreimage: &pre,
			Features:        verifC15Features("req"),
		},
	}
	_, err := r.reg.AddInvoice(context.Background(), inv, pre.Hash())
	r.vc.Count("sync_kicks", 1)
	if err != nil {
		r.vc.Diag("kick_error", err.Error())
	}
}

type verifC15Terms struct {
	value    uint64
	delta    int32
	reqAddr  bool
	addr     verifC15H
	known    bool
	fromLnd  bool
	describe string
}

func (r *verifC15Run) terms(ref *verifC15Ref) verifC15Terms {
	if ref == nil {
		return verifC15Terms{}
	}
	if ref.inv != nil && ref.inv.Added && r.added[ref.invIdx] {
		return verifC15Terms{value: ref.inv.Value, delta: ref.inv.Delta,
			reqAddr: ref.inv.requiresAddr(), addr: ref.inv.Addr, known: true,
			describe: ref.id}
	}
	// spontaneous invoice: its terms were chosen by lnd from the first
	// htlc; read them from the record.
	s := r.lastSnap[ref.id]
	if s == nil || !s.Found {
		return verifC15Terms{}
	}
	t := verifC15Terms{value: s.Value, delta: s.Delta, known: true, fromLnd: true, describe: ref.id + "(spontaneous)"}
	if ref.byAddr {
		t.addr = ref.addr
	} else if ref.inv != nil {
		t.addr = ref.inv.Addr
	}
	return t
}

// checkBatches evaluates the settlement rule for every htlc that received its
// first settle verdict since the last call. Caller holds r.mu.
func (r *verifC15Run) checkBatches() {
	type grp struct {
		ref   *verifC15Ref
		ids   []int
		label string
	}
	groups := map[string]*grp{}
	var order []string
	for id, rt := range r.rt {
		if !rt.batchPending {
			continue
		}
		rt.batchPending = false
		h := r.in.Htlcs[id]
		ref := r.targetRef(h)
		var gk string
		switch {
		case ref == nil:
			gk = fmt.Sprintf("noinv/%d", id)
		case h.Style == "amp":
			gk = ref.id + "/amp/" + h.SetID.short()
		case h.hasMpp() || h.hasPathID():
			gk = ref.id + "/mpp"
		default:
			gk = fmt.Sprintf("%s/legacy/%d", ref.id, id)
		}
		g := groups[gk]
		if g == nil {
			g = &grp{ref: ref, label: gk}
			groups[gk] = g
			order = append(order, gk)
		}
		g.ids = append(g.ids, id)
	}
	R := r.in.Cfg.RejectDelta
	for _, gk := range order {
		g := groups[gk]
		r.vc.Count("oracle_settle_rule_evals", 1)
		r.flags["settled"] = true
		{
			st := r.in.Htlcs[g.ids[0]].Style
			if len(g.ids) > 1 {
				st += "_multi"
			}
			if g.ref != nil && g.ref.inv != nil && g.ref.inv.Kind == "hold" {
				st += "_hold"
			}
			r.vc.Count("settled_sets_"+st, 1)
		}
		desc := func() string {
			var parts []string
			for _, id := range g.ids {
				h := r.in.Htlcs[id]
				parts = append(parts, fmt.Sprintf("{id=%d style=%s amt=%d total=%d addr=%s exp=%d acceptH=%d ks=%v}",
					id, h.Style, h.Amt, h.declaredTotal(), h.AddrKind, r.rt[id].expiry, r.rt[id].acceptHeight, h.KsRecord != ""))
			}
			return strings.Join(parts, " ")
		}
		if g.ref == nil {
			r.violation("settle_rule", "no-invoice",
				"settle ordered for an htlc that addresses no invoice known to the harness: "+desc())
			continue
		}
		t := r.terms(g.ref)
		if !t.known {
			r.violation("settle_rule", "invoice-not-in-store",
				fmt.Sprintf("settle ordered for htlc set %s but invoice %s does not exist in the store: %s", gk, g.ref.id, desc()))
			continue
		}
		first := r.in.Htlcs[g.ids[0]]
		total := first.declaredTotal()
		var sum uint64
		for _, id := range g.ids {
			h := r.in.Htlcs[id]
			rt := r.rt[id]
			sum += h.Amt
			// payment address whenever the invoice requires one
			if t.reqAddr {
				a, has := h.carriedAddr()
				switch {
				case has && a == t.addr:
				case !has && h.validKeysend():
					// documented lnd behaviour: a keysend htlc
					// (sender proves knowledge of the preimage)
					// passes without payment address.
					r.vc.Diag("keysend_settled_without_required_addr",
						fmt.Sprintf("store=%s invoice=%s htlc=%d", r.store, g.ref.id, id))
				default:
					ak := h.AddrKind
					if !has {
						ak = "none"
					}
					r.violation("settle_rule", "payment-address/"+h.Style+"/"+ak,
						fmt.Sprintf("invoice %s requires its payment address, settled htlc %d carried %s address; set: %s", t.describe, id, ak, desc()))
				}
			} else if a, has := h.carriedAddr(); has && a != t.addr {
				r.vc.Diag("settled_with_wrong_optional_addr", fmt.Sprintf("store=%s invoice=%s htlc=%d", r.store, g.ref.id, id))
			}
			// one common total
			if h.declaredTotal() != total {
				r.violation("settle_rule", "total-mismatch/"+h.Style,
					fmt.Sprintf("settled set %s declares different totals (%d vs %d): %s", gk, total, h.declaredTotal(), desc()))
			}
			// required final CLTV margin at acceptance
			need := t.delta
			if R > need {
				need = R
			}
			if int64(rt.expiry) < int64(rt.acceptHeight)+int64(need) {
				r.violation("settle_rule", fmt.Sprintf("cltv-margin/short-by-%d", int64(rt.acceptHeight)+int64(need)-int64(rt.expiry)),
					fmt.Sprintf("settled htlc %d expires at %d, accepted at height %d, required final delta %d (invoice %d, registry reject delta %d): %s",
						id, rt.expiry, rt.acceptHeight, need, t.delta, R, desc()))
			}
		}
		if total < t.value {
			r.violation("settle_rule", "total-below-invoice/"+first.Style,
				fmt.Sprintf("settled set %s declares total %d below the invoice amount %d (%s): %s", gk, total, t.value, t.describe, desc()))
		}
		if sum < total {
			r.violation("settle_rule", "sum-below-total/"+first.Style,
				fmt.Sprintf("settled set %s sums to %d, below its declared total %d (invoice amount %d): %s", gk, sum, total, t.value, desc()))
		}
	}
}

func (r *verifC15Run) start(t *testing.T, store string) {
	cfg := r.in.Cfg
	r.clk = clock.NewTestClock(verifC15Epoch)
	r.now = verifC15Epoch
	var idb invpkg.InvoiceDB
	switch store {
	case "kv":
		db, err := channeldb.MakeTestInvoiceDB(t, channeldb.OptionClock(r.clk))
		if err != nil {
			t.Fatalf("kv db: %v", err)
		}
		idb = db
	default:
		db := verifC15Sqlite(t)
		executor := sqldb.NewTransactionExecutor(
			db, func(tx *sql.Tx) invpkg.SQLInvoiceQueries {
				return db.WithTx(tx)
			},
		)
		idb = invpkg.NewSQLStore(executor, r.clk)
	}
	r.notifier = &verifC15Notifier{blocks: make(chan *chainntnfs.BlockEpoch)}
	watcher := invpkg.NewInvoiceExpiryWatcher(r.clk, cfg.BlockDelta, uint32(cfg.StartHeight), nil, r.notifier)
	rcfg := invpkg.RegistryConfig{
		FinalCltvRejectDelta: cfg.RejectDelta,
		HtlcHoldDuration:     time.Duration(cfg.HoldMs) * time.Millisecond,
		Clock:                r.clk,
		AcceptKeySend:        cfg.AcceptKeySend,
		AcceptAMP:            cfg.AcceptAMP,
		KeysendHoldTime:      time.Duration(cfg.KeysendHoldMs) * time.Millisecond,
		HtlcInterceptor:      &verifC15Interceptor{r: r},
	}
	r.reg = invpkg.NewRegistry(idb, watcher, &rcfg)
	if err := r.reg.Start(); err != nil {
		t.Fatalf("registry start: %v", err)
	}
}

// verifC15Sqlite returns a fresh SQLite invoice database. The schema is
// produced once per process by lnd's real migrations (exactly what
// sqldb.NewTestSqliteDB does, ~100-250 ms); every case then starts from a file
// copy of that empty, fully migrated database (~3 ms).
var verifC15Tpl struct {
	once sync.Once
	path string
	err  error
}

func verifC15Sqlite(t *testing.T) *sqldb.BaseDB {
	verifC15Tpl.once.Do(func() {
		dir, err := os.MkdirTemp("", "verifc15tpl")
		if err != nil {
			verifC15Tpl.err = err
			return
		}
		p := filepath.Join(dir, "tpl.db")
		s, err := sqldb.NewSqliteStore(&sqldb.SqliteConfig{}, p)
		if err != nil {
			verifC15Tpl.err = err
			return
		}
		err = s.ApplyAllMigrations(context.Background(), sqldb.GetMigrations())
		if err != nil {
			verifC15Tpl.err = err
			return
		}
		if err := s.DB.Close(); err != nil {
			verifC15Tpl.err = err
			return
		}
		verifC15Tpl.path = p
	})
	if verifC15Tpl.err != nil {
		t.Fatalf("sqlite template: %v", verifC15Tpl.err)
	}
	p := filepath.Join(t.TempDir(), "c.db")
	in, err := os.Open(verifC15Tpl.path)
	if err != nil {
		t.Fatalf("sqlite template open: %v", err)
	}
	out, err := os.Create(p)
	if err != nil {
		t.Fatalf("sqlite copy: %v", err)
	}
	if _, err := io.Copy(out, in); err != nil {
		t.Fatalf("sqlite copy: %v", err)
	}
	in.Close()
	out.Close()
	s, err := sqldb.NewSqliteStore(&sqldb.SqliteConfig{SkipMigrations: true}, p)
	if err != nil {
		t.Fatalf("sqlite open: %v", err)
	}
	t.Cleanup(func() { _ = s.DB.Close() })
	return s.BaseDB
}

func verifC15NewRun(t *testing.T, vc *verifCtx, in *verifC15Case, store string, conc bool) *verifC15Run {
	r := &verifC15Run{t: t, vc: vc, in: in, store: store, conc: conc,
		hodl:     make(chan interface{}, 4096),
		height:   in.Cfg.StartHeight,
		keyToID:  map[invpkg.CircuitKey]int{},
		refByID:  map[string]*verifC15Ref{},
		lastSnap: map[string]*verifC15Snap{},
		lastHtlc: map[string]map[invpkg.CircuitKey]invpkg.HtlcState{},
		heightEx: map[string]uint32{},
		added:    map[int]bool{},
		flags:    map[string]bool{},
		winKey:   map[invpkg.CircuitKey]bool{},
	}
	for _, h := range in.Htlcs {
		k := invpkg.CircuitKey{ChanID: lnwire.NewShortChanIDFromInt(h.Chan<<40 | 7<<16 | 1), HtlcID: uint64(h.ID)}
		r.rt = append(r.rt, &verifC15Rt{key: k})
		r.keyToID[k] = h.ID
	}
	for j, v := range in.Invs {
		ref := &verifC15Ref{id: fmt.Sprintf("inv%d", j), hash: v.Hash, addr: v.Addr, inv: v, invIdx: j}
		if v.Kind == "ampspont" {
			ref.byAddr = true
		}
		r.addRef(ref)
	}
	r.start(t, store)
	return r
}

func (r *verifC15Run) stop() {
	done := make(chan struct{})
	go func() {
		_ = r.reg.Stop()
		close(done)
	}()
	select {
	case <-done:
	case <-time.After(verifC15SyncDeadline):
		verifC15Inconclusive.Store(true)
		fmt.Printf("verif C15: INCONCLUSIVE registry.Stop did not return (store=%s case=%d)\n", r.store, r.vc.curCase)
	}
}

func (r *verifC15Run) doAdd(j int) {
	v := r.in.Invs[j]
	inv := &invpkg.Invoice{
		CreationDate: r.clk.Now(),
		Terms: invpkg.ContractTerm{
			FinalCltvDelta: v.Delta,
			Expiry:         time.Duration(v.ExpiryMs) * time.Millisecond,
			Value:          lnwire.MilliSatoshi(v.Value),
			PaymentAddr:    v.Addr,
			Features:       verifC15Features(v.Feat),
		},
	}
	switch v.Kind {
	case "hold":
		inv.HodlInvoice = true
	case "regular":
		p := lntypes.Preimage(v.Preimage)
		inv.Terms.PaymentPreimage = &p
	}
	_, err := r.reg.AddInvoice(context.Background(), inv, lntypes.Hash(v.Hash))
	r.mu.Lock()
	if err != nil {
		r.tr("add inv%d: err", j)
		if !r.added[j] {
			r.vc.Diag("add_invoice_error", fmt.Sprintf("store=%s kind=%s feat=%s: %v", r.store, v.Kind, v.Feat, err))
		}
	} else {
		r.added[j] = true
		r.tr("add inv%d ok", j)
	}
	r.mu.Unlock()
}

func (r *verifC15Run) doNotify(id int, isReplay bool) {
	h := r.in.Htlcs[id]
	rt := r.rt[id]
	r.mu.Lock()
	height := r.height
	if !rt.expirySet {
		e := int64(height) + int64(h.Margin)
		if e < 1 {
			e = 1
		}
		rt.expiry = uint32(e)
		rt.expirySet = true
	}
	if rt.notified > 0 {
		isReplay = true
	}
	rt.notified++
	// spontaneous invoices this htlc may create
	if h.Style == "amp" {
		r.targetRef(h)
	}
	r.mu.Unlock()

	p := &verifC15Payload{}
	if h.hasMpp() {
		p.mpp = record.NewMPP(lnwire.MilliSatoshi(h.Total), h.Addr)
	}
	if h.hasPathID() {
		ph := chainhash.Hash(h.PathID)
		p.pathID = &ph
		p.total = lnwire.MilliSatoshi(h.Total)
	}
	if h.hasAmp() {
		p.amp = record.NewAMP(h.Share, h.SetID, h.Child)
	}
	if h.KsRecord != "" {
		b, _ := hex.DecodeString(h.KsRecord)
		p.custom = record.CustomSet{record.KeySendType: b}
	}
	start := r.tick.Add(1)
	res, err := r.reg.NotifyExitHopHtlc(lntypes.Hash(h.Hash), lnwire.MilliSatoshi(h.Amt),
		rt.expiry, height, rt.key, r.hodl, nil, p)
	kind, detail := verifC15Kind(res, err)
	r.vc.Count("notify_calls", 1)
	r.mu.Lock()
	if isReplay {
		r.flags["replay"] = true
	}
	r.observe(id, kind, "direct", detail, res, height, isReplay, start)
	r.mu.Unlock()
}

func (r *verifC15Run) doSettle(j int) {
	v := r.in.Invs[j]
	err := r.reg.SettleHodlInvoice(context.Background(), lntypes.Preimage(v.Preimage))
	r.mu.Lock()
	r.tr("settle inv%d: %v", j, err)
	r.mu.Unlock()
}

func (r *verifC15Run) doCancel(j int) {
	v := r.in.Invs[j]
	err := r.reg.CancelInvoice(context.Background(), lntypes.Hash(v.Hash))
	r.mu.Lock()
	r.flags["cancel"] = true
	r.tr("cancel inv%d: %v", j, err)
	r.mu.Unlock()
}

func (r *verifC15Run) doClock(ms int64) {
	// one clock writer at a time: the TestClock must never go backwards
	r.clkMu.Lock()
	defer r.clkMu.Unlock()
	r.mu.Lock()
	r.now = r.now.Add(time.Duration(ms) * time.Millisecond)
	now := r.now
	r.tr("clock +%dms", ms)
	r.mu.Unlock()
	r.clk.SetTime(now)
}

func (r *verifC15Run) doHeight(dh int32) {
	r.mu.Lock()
	r.height += dh
	if r.height < 1 {
		r.height = 1
	}
	h := r.height
	r.tr("height %d", h)
	r.mu.Unlock()
	select {
	case r.notifier.blocks <- &chainntnfs.BlockEpoch{Height: h}:
	case <-time.After(verifC15SyncDeadline):
		verifC15Inconclusive.Store(true)
		r.dead = true
		fmt.Printf("verif C15: INCONCLUSIVE block not consumed by the expiry watcher (store=%s)\n", r.store)
	}
}

func (r *verifC15Run) exec(e verifC15Ev) {
	switch e.Op {
	case "add":
		r.doAdd(e.Inv)
	case "htlc":
		if e.Win {
			r.winMu.Lock()
			r.winKey[r.rt[e.Htlc].key] = true
			r.winMu.Unlock()
		}
		r.doNotify(e.Htlc, false)
	case "replay":
		r.doNotify(e.Htlc, true)
	case "settle":
		r.doSettle(e.Inv)
	case "cancel":
		r.doCancel(e.Inv)
	case "clock":
		r.doClock(e.DurMs)
	case "height":
		r.doHeight(e.DH)
	}
}

// endEvent closes the per-event trace line.
func (r *verifC15Run) endEvent(e verifC15Ev) {
	sort.Strings(r.evTrace)
	r.trace = append(r.trace, fmt.Sprintf("ev%d %s i%d h%d | %s", r.ev, e.Op, e.Inv, e.Htlc, strings.Join(r.evTrace, " ")))
	r.evTrace = nil
}

func (r *verifC15Run) finalState() string {
	var parts []string
	for _, ref := range r.refs {
		s := r.lastSnap[ref.id]
		if s == nil || !s.Found {
			parts = append(parts, ref.id+":none")
			continue
		}
		var hs []string
		for k, h := range s.Htlcs {
			hs = append(hs, fmt.Sprintf("%d=%d", r.keyToID[k], h.State))
		}
		sort.Strings(hs)
		parts = append(parts, fmt.Sprintf("%s:%v:%d:[%s]", ref.id, s.State, s.AmtPaid, strings.Join(hs, ",")))
	}
	return strings.Join(parts, " ")
}

// verifC15RunSeq runs the whole event list sequentially on one store.
func verifC15RunSeq(t *testing.T, vc *verifCtx, in *verifC15Case, store string) *verifC15Run {
	r := verifC15NewRun(t, vc, in, store, false)
	defer r.stop()
	for i, e := range in.Evs {
		r.ev = i
		r.exec(e)
		if r.dead {
			break
		}
		r.quiesce()
		if r.dead {
			break
		}
		r.mu.Lock()
		r.checkBatches()
		r.endEvent(e)
		r.mu.Unlock()
		vc.Count("events", 1)
	}
	return r
}

// verifC15RunConc issues the htlc notifications from several "link"
// goroutines while an admin goroutine cancels / settles / moves the clock and
// an observer keeps taking snapshots. The trace oracle is
// interleaving-independent: it only uses what each htlc carried, the height it
// was accepted at and the set of verdicts per circuit key.
func verifC15RunConc(t *testing.T, vc *verifCtx, in *verifC15Case, store string, workers int) *verifC15Run {
	r := verifC15NewRun(t, vc, in, store, true)
	defer r.stop()
	lists := make([][]verifC15Ev, workers+1)
	for _, e := range in.Evs {
		switch e.Op {
		case "add":
			r.exec(e)
		case "htlc", "replay":
			w := e.Htlc % workers
			lists[w] = append(lists[w], e)
		default:
			lists[workers] = append(lists[workers], e)
		}
	}
	r.quiesce()
	var wg sync.WaitGroup
	stopObs := make(chan struct{})
	obsDone := make(chan struct{})
	go func() {
		defer close(obsDone)
		for {
			select {
			case <-stopObs:
				return
			default:
			}
			r.drain()
			r.mu.Lock()
			refs := append([]*verifC15Ref{}, r.refs...)
			r.mu.Unlock()
			for _, ref := range refs {
				s := r.lookup(ref)
				r.mu.Lock()
				r.checkSnap(ref, s)
				r.mu.Unlock()
			}
			time.Sleep(300 * time.Microsecond)
		}
	}()
	for w := range lists {
		wg.Add(1)
		go func(evs []verifC15Ev) {
			defer wg.Done()
			for _, e := range evs {
				if r.dead {
					return
				}
				r.exec(e)
				vc.Count("events", 1)
			}
		}(lists[w])
	}
	wg.Wait()
	close(stopObs)
	<-obsDone
	r.ev = len(in.Evs)
	if !r.dead {
		r.quiesce()
	}
	r.mu.Lock()
	r.checkBatches()
	r.endEvent(verifC15Ev{Op: "end"})
	r.mu.Unlock()
	return r
}

func verifC15Sig(in *verifC15Case, r *verifC15Run) (string, bool) {
	kinds := map[string]bool{}
	for _, v := range in.Invs {
		k := v.Kind
		if v.Value == 0 {
			k += "0"
		}
		kinds[k+"/"+v.Feat] = true
	}
	styles := map[string]bool{}
	verdicts := map[string]bool{}
	nontrivial := false
	for id, rt := range r.rt {
		if rt.notified == 0 {
			continue
		}
		styles[in.Htlcs[id].Style] = true
		seq := ""
		for _, o := range rt.obs {
			if len(seq) == 0 || seq[len(seq)-1:] != o.Kind {
				seq += o.Kind
			}
		}
		verdicts[seq] = true
		if rt.acceptSeen {
			nontrivial = true
		}
	}
	keys := func(m map[string]bool) string {
		var s []string
		for k := range m {
			s = append(s, k)
		}
		sort.Strings(s)
		return strings.Join(s, ",")
	}
	return keys(kinds) + "|" + keys(styles) + "|" + keys(verdicts) + "|" + keys(r.flags), nontrivial
}

// verifC15Diff compares the KV and the SQLite run of one sequential case
// (diagnostic: the statement does not speak about store equivalence).
func verifC15Diff(vc *verifCtx, kv, sq *verifC15Run) {
	vc.Count("diff_evals", 1)
	kinds := func(tr []string) []string {
		out := make([]string, len(tr))
		for i, l := range tr {
			// strip outcome detail: "h3:direct:F:xyz" -> "h3:direct:F"
			f := strings.Fields(l)
			for k, w := range f {
				if strings.HasPrefix(w, "h") && strings.Count(w, ":") >= 3 {
					p := strings.SplitN(w, ":", 4)
					f[k] = strings.Join(p[:3], ":")
				}
			}
			out[i] = strings.Join(f, " ")
		}
		return out
	}
	a, b := kinds(kv.trace), kinds(sq.trace)
	n := len(a)
	if len(b) < n {
		n = len(b)
	}
	for i := 0; i < n; i++ {
		if a[i] != b[i] {
			vc.Diag("kv_sql_verdict_kind_diff", fmt.Sprintf("case=%d kv{%s} sql{%s}", vc.curCase, kv.trace[i], sq.trace[i]))
			return
		}
	}
	for i := 0; i < n; i++ {
		if kv.trace[i] != sq.trace[i] {
			vc.Diag("kv_sql_outcome_detail_diff", fmt.Sprintf("case=%d kv{%s} sql{%s}", vc.curCase, kv.trace[i], sq.trace[i]))
			break
		}
	}
	if x, y := kv.finalState(), sq.finalState(); x != y {
		vc.Diag("kv_sql_final_state_diff", fmt.Sprintf("case=%d kv{%s} sql{%s}", vc.curCase, x, y))
	}
}

// verifC15FastTmp points TMPDIR (t.TempDir, hence both stores' files) at a
// private directory on tmpfs when there is one: the stores fsync on every
// transaction and durability is not part of this property (3x faster).
var verifC15TmpCleanup = func() {}

func verifC15FastTmp() {
	const base = "/dev/shm"
	if st, err := os.Stat(base); err != nil || !st.IsDir() {
		return
	}
	// leftovers of killed runs
	if ents, err := os.ReadDir(base); err == nil {
		for _, e := range ents {
			if !strings.HasPrefix(e.Name(), "verifc15-") {
				continue
			}
			if fi, err := e.Info(); err == nil && time.Since(fi.ModTime()) > 3*time.Hour {
				os.RemoveAll(filepath.Join(base, e.Name()))
			}
		}
	}
	dir, err := os.MkdirTemp(base, "verifc15-")
	if err != nil {
		return
	}
	old, had := os.LookupEnv("TMPDIR")
	os.Setenv("TMPDIR", dir)
	verifC15TmpCleanup = func() {
		if had {
			os.Setenv("TMPDIR", old)
		} else {
			os.Unsetenv("TMPDIR")
		}
		os.RemoveAll(dir)
	}
}

func verifC15Finish(vc *verifCtx) {
	verifC15TmpCleanup()
	if verifC15Inconclusive.Load() {
		// No "done" record: the driver reports the shard as ended
		// early (inconclusive). Violations already emitted are kept.
		fmt.Println("verif C15: ending without summary because a synchronisation watchdog fired (inconclusive)")
		vc.out.Sync()
		os.Exit(3)
	}
	vc.Finish()
}

func TestVerifC15(t *testing.T) {
	vc := verifStart(t, "C15", "seq")
	verifC15FastTmp()
	defer verifC15Finish(vc)

	total := vc.N(3000, 300000)
	for i := 0; i < total; i++ {
		if !vc.Mine(i) {
			continue
		}
		in := verifC15Gen(vc.Rng(i))
		if vc.Only >= 0 {
			vc.Case(i, in)
		} else {
			vc.Case(i, map[string]int{"invs": len(in.Invs), "htlcs": len(in.Htlcs), "evs": len(in.Evs)})
		}
		var runs [2]*verifC15Run
		t.Run(fmt.Sprintf("c%d", i), func(st *testing.T) {
			for k, store := range []string{"kv", "sqlite"} {
				runs[k] = verifC15RunSeq(st, vc, in, store)
				vc.Count("runs_"+store, 1)
			}
		})
		if runs[0] != nil && runs[1] != nil && !runs[0].dead && !runs[1].dead {
			verifC15Diff(vc, runs[0], runs[1])
			for _, r := range runs {
				if sig, nt := verifC15Sig(in, r); nt {
					vc.Sig(sig)
					vc.Count("nontrivial_runs", 1)
				}
			}
			if i%997 == 0 {
				vc.Sample(map[string]any{"case": i, "input": in, "kv_trace": runs[0].trace, "kv_final": runs[0].finalState()})
			}
		}
		vc.CaseDone(i)
		if verifC15Inconclusive.Load() {
			break
		}
	}
}

func TestVerifC15Conc(t *testing.T) {
	vc := verifStart(t, "C15", "conc")
	verifC15FastTmp()
	defer verifC15Finish(vc)

	total := vc.N(600, 30000)
	for i := 0; i < total; i++ {
		if !vc.Mine(i) {
			continue
		}
		rng := vc.Rng(i)
		in := verifC15Gen(rng)
		workers := 2 + rng.Intn(2)
		store := "kv"
		if rng.Chance(2, 5) {
			store = "sqlite"
		}
		if vc.Only >= 0 {
			vc.Case(i, map[string]any{"workers": workers, "store": store, "input": in})
		} else {
			vc.Case(i, map[string]any{"workers": workers, "store": store, "htlcs": len(in.Htlcs)})
		}
		var run *verifC15Run
		t.Run(fmt.Sprintf("c%d", i), func(st *testing.T) {
			run = verifC15RunConc(st, vc, in, store, workers)
			vc.Count("runs_"+store, 1)
		})
		if run != nil && !run.dead {
			if sig, nt := verifC15Sig(in, run); nt {
				vc.Sig(sig)
				vc.Count("nontrivial_runs", 1)
			}
			if i%53 == 0 {
				vc.Sample(map[string]any{"case": i, "store": store, "workers": workers, "trace": run.trace, "final": run.finalState()})
			}
		}
		vc.CaseDone(i)
		if verifC15Inconclusive.Load() {
			break
		}
	}
}
